"""Per-property configuration of bin/check."""

ALLOWED_AXIOMS = set()  # no axiom is used; stdlib axioms would be listed here and in DESIGN.md section 6

TRUSTED_BASE = [
    "Coq 8.16.1 kernel and its bytecode VM (vm_compute); native_compute not used",
    "no axioms: Print Assumptions under every property theorem must say 'Closed under the global context'",
    "hand-written Gallina models tied to /repo by differential evaluation on generated cases (this run), not by proof",
    "Go harness (generators, projection of Go results to Gallina terms), bin/check (comparison, classification)",
    "Go toolchain; encoding/json",
]

NOT_CLAIMED = {}

PROPS = {
    "C18": {
        "level_text": "C18_location proves, for every body and position, that the location arithmetic as coded (regexp match list + scan) equals the "
                      "single-pass line/column specification, with LF, CRLF and bare CR each ending one line (C18_lf, C18_crlf, C18_cr); the Go code is "
                      "tied to the model by differential runs of GetLocation and of graphql.Do on erroring requests with known offending byte offsets.",
        "level_note": "Proof is about the Gallina model get_location; Go code = model is checked on generated inputs only. Columns accepted in bytes or code points. "
                      "Known finding C18-mixed-offset-units (multi-byte character before the token) is excluded by its signature. Syntax-error viable-prefix clause and "
                      "response paths are judged through the C03 / C01 models.",
        "run_module": "Run.C18run",
        "case_type": "c18case",
        "shard": 400,
        "rule": "getlocation: random bodies over {a,b,space,LF,CR,CRLF,TAB,2-byte,4-byte,BOM,#,\",{,}} with a random position, "
                "GetLocation called directly; do-error: a token list with one offending token (bad character, stray brace, unknown field, "
                "failing resolver) laid out with random LF/CR/CRLF/tab/comma/comment separators, run through graphql.Do. "
                "Non-trivial: a line terminator or multi-byte character precedes the position. Distinct by hash of the case.",
        "modelled": "language/location.GetLocation (regexp match list + scan) is modelled by Lang/Location.v get_location; "
                    "for errors reported by Do only the reported (line, column) is judged against spec_location of the byte offset "
                    "at which the harness placed the offending token",
        "status": "C18_location (model = single-pass spec, all bodies and positions), C18_lf / C18_crlf / C18_cr proved; "
                  "node-location and path clauses are covered through the parser/executor models where those exist",
        "assumptions": ["columns may be counted in bytes or in code points (the property does not fix the unit); the line must be exact"],
    },
}
