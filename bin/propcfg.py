"""Configuration of bin/check: one props/CXX.json per claimed property."""
import json, os, glob
ROOT = os.path.dirname(os.path.dirname(os.path.abspath(__file__)))

ALLOWED_AXIOMS = set()  # no axiom is used; a stdlib axiom would be listed here and in DESIGN.md section 6

TRUSTED_BASE = [
    "Coq 8.16.1 kernel and its bytecode VM (vm_compute); native_compute not used",
    "no axioms: Print Assumptions under every property theorem must say 'Closed under the global context'",
    "hand-written Gallina models tied to /repo by differential evaluation on generated cases (this run), not by proof",
    "Go harness (generators, projection of Go results to Gallina terms), bin/check (comparison, classification)",
    "Go toolchain; encoding/json",
]

PROPS = {}
for f in sorted(glob.glob(os.path.join(ROOT, "props", "C*.json"))):
    PROPS[os.path.basename(f)[:-5]] = json.load(open(f))

NOT_CLAIMED = {}
p = os.path.join(ROOT, "props", "not_claimed.json")
if os.path.exists(p):
    NOT_CLAIMED = json.load(open(p))
