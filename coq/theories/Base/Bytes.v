(* Byte strings as lists of N; hex transport encoding used by the Go harness. *)
From Coq Require Import List NArith Ascii String Bool.
Import ListNotations.
Open Scope N_scope.

Definition byte := N.
Definition bytes := list byte.

Definition hexval (a : ascii) : N :=
  let n := N_of_ascii a in
  if (48 <=? n) && (n <=? 57) then n - 48
  else if (97 <=? n) && (n <=? 102) then n - 87
  else if (65 <=? n) && (n <=? 70) then n - 55
  else 0.

Fixpoint unhex (s : string) : bytes :=
  match s with
  | String a (String b r) => (16 * hexval a + hexval b) :: unhex r
  | _ => []
  end.

Fixpoint bytes_eqb (a b : bytes) : bool :=
  match a, b with
  | [], [] => true
  | x :: a', y :: b' => (x =? y) && bytes_eqb a' b'
  | _, _ => false
  end.

Lemma bytes_eqb_eq : forall a b, bytes_eqb a b = true <-> a = b.
Proof.
  induction a as [|x a IH]; destruct b as [|y b]; simpl; split; intro H;
    try reflexivity; try discriminate.
  - apply andb_true_iff in H. destruct H as [H1 H2].
    apply N.eqb_eq in H1. apply IH in H2. subst. reflexivity.
  - inversion H; subst. apply andb_true_iff. split.
    + apply N.eqb_refl.
    + apply IH. reflexivity.
Qed.

(* bytes of an ASCII Coq string, for readable examples *)
Fixpoint of_string (s : string) : bytes :=
  match s with
  | EmptyString => []
  | String a r => N_of_ascii a :: of_string r
  end.

Definition nlen {A} (l : list A) : N := N.of_nat (List.length l).
