(* Property C03 -- the parser accepts exactly the grammar and builds its AST.
   Statements only; proofs live in Proofs/. *)
From Coq Require Import List NArith.
From GQL Require Import Base.Bytes Syntax.Lexer Syntax.Ast Syntax.Parser.
Import ListNotations.
Open Scope N_scope.

(* The lexer works on the caller's byte slice; the state-passing model hands back the buffer it was given. *)
Theorem C03_source_unchanged : forall src, fst (lex_src src) = src.
Proof. reflexivity. Qed.
Print Assumptions C03_source_unchanged.
