(* Property C03 -- the parser accepts exactly the grammar and builds its AST.
   Statements only; proofs live in Proofs/SyntaxSound.v and Proofs/SyntaxComplete.v.
   The grammar is Syntax/Grammar.v ([Derives], one inductive relation per nonterminal,
   every node's Loc being the span of its tokens by the relation itself). *)
From Coq Require Import String List NArith.
From GQL Require Import Base.Bytes Syntax.Lexer Syntax.Ast Syntax.Parser Syntax.Grammar
  Proofs.SyntaxSound Proofs.SyntaxComplete Proofs.SyntaxCompleteSDL Proofs.SyntaxLexer Proofs.SyntaxTerm.
Import ListNotations.
Open Scope N_scope.

(* The lexer works on the caller's byte slice; the state-passing model hands back the buffer it was given. *)
Theorem C03_source_unchanged : forall src, fst (lex_src src) = src.
Proof. reflexivity. Qed.
Print Assumptions C03_source_unchanged.

(* Soundness, whole grammar (executable and type-system definitions): whatever the parser
   returns is the AST the grammar assigns to the token list -- kinds, names, child order,
   literal values and every Loc (each node of a derivation carries the span of its tokens). *)
Theorem C03_parse_sound : forall ts d, parse_tokens ts = Ok d -> Derives ts d.
Proof. exact parse_tokens_sound. Qed.
Print Assumptions C03_parse_sound.

(* Completeness, whole grammar (executable and type-system definitions, with and without
   descriptions): every derivable token list is accepted, with exactly the derived AST. *)
Theorem C03_parse_complete : forall ts d, Derives ts d -> parse_tokens ts = Ok d.
Proof. exact parse_tokens_complete. Qed.
Print Assumptions C03_parse_complete.

(* Hence acceptance is derivability ... *)
Theorem C03_accept_iff : forall ts d, parse_tokens ts = Ok d <-> Derives ts d.
Proof. intros ts d. split; [apply parse_tokens_sound | apply parse_tokens_complete]. Qed.
Print Assumptions C03_accept_iff.

(* ... and the grammar assigns at most one document to a token list. *)
Theorem C03_unambiguous : forall ts d1 d2, Derives ts d1 -> Derives ts d2 -> d1 = d2.
Proof.
  intros ts d1 d2 D1 D2.
  pose proof (parse_tokens_complete _ _ D1) as H1. pose proof (parse_tokens_complete _ _ D2) as H2. congruence.
Qed.
Print Assumptions C03_unambiguous.

(* The document's Loc runs from the start of the first token to the end of the EOF token
   (inner nodes: by the constructors of the grammar relations, see C03_parse_sound). *)
Theorem C03_locations_partial : forall ts d, parse_tokens ts = Ok d ->
  exists p e, ts = p ++ [e] /\ tk e = EOF /\
    lstart (doc_loc d) = start_of ts /\ lend (doc_loc d) = tend e.
Proof.
  intros ts d H. apply parse_tokens_sound in H. destruct H as [p defs e Ds Hne Ke].
  exists p, e. split; [reflexivity|]. split; [exact Ke|]. split; [reflexivity|].
  cbn [doc_loc]. unfold span. cbn [lend]. rewrite endof_app. reflexivity.
Qed.
Print Assumptions C03_locations_partial.

(* Termination: the fuel the models are run with is never exhausted -- the lexer with
   fuel = length of the source + 1, the parser with fuel = 2 * number of tokens + 1 -- so the
   model of parser.Parse decides every byte string (accept with an AST, or reject). *)
Theorem C03_lex_terminates : forall src, lex src <> OutOfFuel.
Proof. exact lex_terminates. Qed.
Print Assumptions C03_lex_terminates.

Theorem C03_lex_fuel : forall fuel s pos, (length s < fuel)%nat -> lex_all fuel s pos <> OutOfFuel.
Proof. exact lex_all_terminates. Qed.
Print Assumptions C03_lex_fuel.

Theorem C03_parse_fuel : forall fuel ts, (length ts < fuel)%nat -> parse_document fuel ts <> OutOfFuel.
Proof. exact parse_document_terminates. Qed.
Print Assumptions C03_parse_fuel.

Theorem C03_parse_terminates : forall src, parse src <> OutOfFuel.
Proof.
  intro src. unfold parse. pose proof (lex_terminates src) as L.
  destruct (lex src) as [[ts mb]| |]; [|discriminate|contradiction].
  pose proof (parse_tokens_terminates ts) as P. destruct (parse_tokens ts); [discriminate|discriminate|contradiction].
Qed.
Print Assumptions C03_parse_terminates.

(* non-vacuity: a document that is parsed, hence derivable, and executable *)
Example C03_nonvacuous :
  exists d, parse (of_string "query Q($a: [Int!] = [1]) @d { a: b(x: ""s"") ... on T { c } ...F }") = Ok (d, false)
            /\ exec_only d = true.
Proof. eexists. split; [vm_compute; reflexivity | reflexivity]. Qed.

(* ---- table generated from the source (harness/gen.go writes Gen/Punctuators.v from
   language/lexer/lexer.go before every check run; these are re-proved then) ---- *)
From GQL Require Gen.Punctuators Tables.LexerTable Proofs.TablesLexer.

(* The lexer model's punctuators as a table: punct1 is the lookup in Tables.LexerTable.punct_table
   for every code point, a byte of the table is read as a one-byte token of that kind wherever it
   stands, "..." is SPREAD and a '.' not followed by ".." is an error. *)
Theorem C03_punctuator_table_is_model :
  (forall code, punct1 code = Tables.LexerTable.punct_lookup code Tables.LexerTable.punct_table) /\
  (forall code k, Tables.LexerTable.punct_lookup code Tables.LexerTable.punct_table = Some k ->
     forall fuel s pos, read_token fuel (code :: s) pos = Ok (mktok k pos (pos + 1) [], s, pos + 1)%N) /\
  (forall fuel s pos, starts_with Tables.LexerTable.spread_rest s = false ->
     read_token fuel (Tables.LexerTable.spread_first :: s) pos = Err).
Proof.
  split; [exact Proofs.TablesLexer.punct1_is_table|].
  split; [exact Proofs.TablesLexer.read_token_punct|exact Proofs.TablesLexer.read_token_dot_alone].
Qed.
Print Assumptions C03_punctuator_table_is_model.

(* The punctuator table of lexer.go -- every `return makeToken(KIND, position, position+N, "")` of
   readToken's `switch code`, with the bytes its guard demands -- is the model's table; the
   translator understood every entry; the TokenKind constants are the model's kinds in order,
   numbered from 1. *)
Theorem C03_gen_punctuators :
  Gen.Punctuators.punctuators = Tables.LexerTable.model_punctuators /\
  Gen.Punctuators.punctuators_unrecognised = 0%N /\
  Gen.Punctuators.token_kinds
  = combine (map Tables.LexerTable.tkind_name Tables.LexerTable.tkinds) (map N.of_nat (seq 1 20)).
Proof.
  repeat split;
  first [ vm_compute; reflexivity
        | fail 1 "generated-table obligation C03_gen_punctuators no longer holds against the regenerated table: the punctuator cases of lexer.readToken or the TokenKind constants (Gen/Punctuators.v) are not the table of the lexer model (Tables/LexerTable.v)" ].
Qed.
Print Assumptions C03_gen_punctuators.

(* Every generated entry is lexed by the model as the source says: its first byte followed by
   its lookahead gives one token of its kind and length. *)
Theorem C03_gen_punctuators_lexed : forall codes kind len look c,
  In (codes, kind, len, look) Gen.Punctuators.punctuators -> In c codes ->
  forall fuel s pos, exists k, Tables.LexerTable.tkind_name k = kind /\
    read_token fuel (c :: look ++ s) pos = Ok (mktok k pos (pos + len) [], s, pos + len)%N.
Proof.
  intros codes kind len look c H Hc fuel s pos.
  rewrite (proj1 C03_gen_punctuators) in H. vm_compute in H.
  repeat (destruct H as [H|H]; [injection H as <- <- <- <-; destruct Hc as [<-|[]]|]); [..|contradiction];
    first [ match goal with
            | |- exists k, _ /\ read_token _ (?c :: _) _ = _ =>
              let o := eval vm_compute in (Tables.LexerTable.punct_lookup c Tables.LexerTable.punct_table) in
              match o with
              | Some ?kk => exists kk; split;
                            [reflexivity|exact (Proofs.TablesLexer.read_token_punct c kk eq_refl fuel s pos)]
              end
            end
          | exists SPREAD; split; [reflexivity|exact (Proofs.TablesLexer.read_token_spread fuel s pos)] ].
Qed.
Print Assumptions C03_gen_punctuators_lexed.

(* Each punctuator is spelled the way tokenDescription prints its kind (error messages and the
   printer use these): description = first byte followed by the lookahead, token length = its length. *)
Theorem C03_gen_punctuators_spelled :
  forallb (Tables.LexerTable.entry_spelled Gen.Punctuators.token_descriptions) Gen.Punctuators.punctuators = true.
Proof.
  first [ vm_compute; reflexivity
        | fail 1 "generated-table obligation C03_gen_punctuators_spelled no longer holds against the regenerated table: some punctuator of lexer.readToken is not spelled as tokenDescription prints its kind (Gen/Punctuators.v)" ].
Qed.
Print Assumptions C03_gen_punctuators_spelled.

(* The other cases of the switch send exactly the model's name-start bytes to readName, '-' and
   the digits to readNumber, the double quote to the string readers; the switch has no default
   clause (everything else falls through to the "Unexpected character" error). *)
Theorem C03_gen_dispatch : forall c, (c < 256)%N ->
  Tables.LexerTable.dispatch_to "readName" Gen.Punctuators.dispatch c = is_name_start c /\
  Tables.LexerTable.dispatch_to "readNumber" Gen.Punctuators.dispatch c = ((c =? 45)%N || is_digit c)%bool /\
  Tables.LexerTable.dispatch_to "readString" Gen.Punctuators.dispatch c = (c =? 34)%N /\
  Tables.LexerTable.dispatch_to "readBlockString" Gen.Punctuators.dispatch c = (c =? 34)%N /\
  Gen.Punctuators.switch_has_default = false.
Proof.
  intros c Hc.
  pose (P := fun c : N =>
    (Bool.eqb (Tables.LexerTable.dispatch_to "readName" Gen.Punctuators.dispatch c) (is_name_start c) &&
     Bool.eqb (Tables.LexerTable.dispatch_to "readNumber" Gen.Punctuators.dispatch c) ((c =? 45)%N || is_digit c) &&
     Bool.eqb (Tables.LexerTable.dispatch_to "readString" Gen.Punctuators.dispatch c) (c =? 34)%N &&
     Bool.eqb (Tables.LexerTable.dispatch_to "readBlockString" Gen.Punctuators.dispatch c) (c =? 34)%N &&
     negb Gen.Punctuators.switch_has_default)%bool).
  assert (HP : P c = true).
  { apply Proofs.TablesLexer.forall_bytes256; [|exact Hc].
    first [ vm_compute; reflexivity
          | fail 1 "generated-table obligation C03_gen_dispatch no longer holds against the regenerated table: the readName / readNumber / readString cases of lexer.readToken (Gen/Punctuators.v) are not the start bytes of the lexer model" ]. }
  unfold P in HP. repeat rewrite Bool.andb_true_iff in HP.
  destruct HP as [[[[H1 H2] H3] H4] H5].
  apply Bool.eqb_prop in H1, H2, H3, H4. apply Bool.negb_true_iff in H5.
  repeat split; assumption.
Qed.
Print Assumptions C03_gen_dispatch.
