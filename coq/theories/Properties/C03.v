(* Property C03 -- the parser accepts exactly the grammar and builds its AST.
   Statements only; proofs live in Proofs/SyntaxSound.v and Proofs/SyntaxComplete.v.
   The grammar is Syntax/Grammar.v ([Derives], one inductive relation per nonterminal,
   every node's Loc being the span of its tokens by the relation itself). *)
From Coq Require Import String List NArith.
From GQL Require Import Base.Bytes Syntax.Lexer Syntax.Ast Syntax.Parser Syntax.Grammar
  Proofs.SyntaxSound Proofs.SyntaxComplete Proofs.SyntaxCompleteSDL Proofs.SyntaxLexer Proofs.SyntaxTerm.
Import ListNotations.
Open Scope N_scope.

(* The lexer works on the caller's byte slice; the state-passing model hands back the buffer it was given. *)
Theorem C03_source_unchanged : forall src, fst (lex_src src) = src.
Proof. reflexivity. Qed.
Print Assumptions C03_source_unchanged.

(* Soundness, whole grammar (executable and type-system definitions): whatever the parser
   returns is the AST the grammar assigns to the token list -- kinds, names, child order,
   literal values and every Loc (each node of a derivation carries the span of its tokens). *)
Theorem C03_parse_sound : forall ts d, parse_tokens ts = Ok d -> Derives ts d.
Proof. exact parse_tokens_sound. Qed.
Print Assumptions C03_parse_sound.

(* Completeness, whole grammar (executable and type-system definitions, with and without
   descriptions): every derivable token list is accepted, with exactly the derived AST. *)
Theorem C03_parse_complete : forall ts d, Derives ts d -> parse_tokens ts = Ok d.
Proof. exact parse_tokens_complete. Qed.
Print Assumptions C03_parse_complete.

(* Hence acceptance is derivability ... *)
Theorem C03_accept_iff : forall ts d, parse_tokens ts = Ok d <-> Derives ts d.
Proof. intros ts d. split; [apply parse_tokens_sound | apply parse_tokens_complete]. Qed.
Print Assumptions C03_accept_iff.

(* ... and the grammar assigns at most one document to a token list. *)
Theorem C03_unambiguous : forall ts d1 d2, Derives ts d1 -> Derives ts d2 -> d1 = d2.
Proof.
  intros ts d1 d2 D1 D2.
  pose proof (parse_tokens_complete _ _ D1) as H1. pose proof (parse_tokens_complete _ _ D2) as H2. congruence.
Qed.
Print Assumptions C03_unambiguous.

(* The document's Loc runs from the start of the first token to the end of the EOF token
   (inner nodes: by the constructors of the grammar relations, see C03_parse_sound). *)
Theorem C03_locations_partial : forall ts d, parse_tokens ts = Ok d ->
  exists p e, ts = p ++ [e] /\ tk e = EOF /\
    lstart (doc_loc d) = start_of ts /\ lend (doc_loc d) = tend e.
Proof.
  intros ts d H. apply parse_tokens_sound in H. destruct H as [p defs e Ds Hne Ke].
  exists p, e. split; [reflexivity|]. split; [exact Ke|]. split; [reflexivity|].
  cbn [doc_loc]. unfold span. cbn [lend]. rewrite endof_app. reflexivity.
Qed.
Print Assumptions C03_locations_partial.

(* Termination: the fuel the models are run with is never exhausted -- the lexer with
   fuel = length of the source + 1, the parser with fuel = 2 * number of tokens + 1 -- so the
   model of parser.Parse decides every byte string (accept with an AST, or reject). *)
Theorem C03_lex_terminates : forall src, lex src <> OutOfFuel.
Proof. exact lex_terminates. Qed.
Print Assumptions C03_lex_terminates.

Theorem C03_lex_fuel : forall fuel s pos, (length s < fuel)%nat -> lex_all fuel s pos <> OutOfFuel.
Proof. exact lex_all_terminates. Qed.
Print Assumptions C03_lex_fuel.

Theorem C03_parse_fuel : forall fuel ts, (length ts < fuel)%nat -> parse_document fuel ts <> OutOfFuel.
Proof. exact parse_document_terminates. Qed.
Print Assumptions C03_parse_fuel.

Theorem C03_parse_terminates : forall src, parse src <> OutOfFuel.
Proof.
  intro src. unfold parse. pose proof (lex_terminates src) as L.
  destruct (lex src) as [[ts mb]| |]; [|discriminate|contradiction].
  pose proof (parse_tokens_terminates ts) as P. destruct (parse_tokens ts); [discriminate|discriminate|contradiction].
Qed.
Print Assumptions C03_parse_terminates.

(* non-vacuity: a document that is parsed, hence derivable, and executable *)
Example C03_nonvacuous :
  exists d, parse (of_string "query Q($a: [Int!] = [1]) @d { a: b(x: ""s"") ... on T { c } ...F }") = Ok (d, false)
            /\ exec_only d = true.
Proof. eexists. split; [vm_compute; reflexivity | reflexivity]. Qed.
