(* Property C07 -- one schema, plan and plan cache can serve concurrent requests safely.
   Statements only (proofs: Proofs/ConcLocks.v), about the lockset model Conc/Locks.v: programs
   are lists of Acq m | Rel m | Rd loc | Wr loc, a scheduler interleaves N of them, a mutex is
   acquired only while nobody holds it.  A race is a reachable configuration in which two
   different threads are about to access one location, one of them writing. *)
From Coq Require Import List Arith Bool.
From GQL Require Import Conc.Locks Proofs.ConcLocks.
Import ListNotations.

(* Lockset discipline implies race freedom, for any guard assignment, any number of programs, any
   interleaving: if the static scan accepts every program (each access is made holding the
   location's guard; unguarded locations are only read), no reachable configuration has two
   conflicting accesses pending at once. *)
Theorem C07_lockset_race_free : forall guard progs, well_guarded guard progs = true ->
  forall c, reach (init_cfg progs) c -> ~ race c.
Proof. exact lockset_race_free. Qed.
Print Assumptions C07_lockset_race_free.

Theorem C07_lockset_race_free_schedules : forall guard progs sched, well_guarded guard progs = true ->
  ~ race (run_sched (init_cfg progs) sched).
Proof. exact lockset_race_free_sched. Qed.
Print Assumptions C07_lockset_race_free_schedules.

(* The access summary of the library's request-time operations obeys the discipline (checked by
   computation on the table) ... *)
Theorem C07_summary_well_guarded : forallb (op_ok lib_guard) lib_ops = true.
Proof. exact lib_ops_ok. Qed.
Print Assumptions C07_summary_well_guarded.

(* ... hence any number of goroutines, each running any sequence of these operations, in any
   interleaving, never reach a race. *)
Theorem C07_library_race_free : forall (reqs : list (list nat)) sched,
  ~ race (run_sched (init_cfg (map prog_of_ids reqs)) sched).
Proof. exact library_race_free. Qed.
Print Assumptions C07_library_race_free.

(* No deadlock: if every program acquires its mutexes in increasing rank, releases only what it holds
   and ends holding nothing, then in every reachable configuration in which some thread is
   unfinished some thread can move (for any rank function, any programs, any interleaving). *)
Theorem C07_lock_order_deadlock_free : forall rank progs, well_ordered rank progs = true ->
  forall c, reach (init_cfg progs) c -> unfinished c -> can_move c.
Proof. exact lock_order_deadlock_free. Qed.
Print Assumptions C07_lock_order_deadlock_free.

(* The library's summary follows the lock order of the code - abstractMu before planMu, the cache
   mutex before the counters - so goroutines running any sequences of its operations never deadlock. *)
Theorem C07_library_deadlock_free : forallb (ordered lib_rank []) lib_ops = true /\
  forall (reqs : list (list nat)) c, reach (init_cfg (map prog_of_ids reqs)) c -> unfinished c -> can_move c.
Proof. split; [exact lib_ops_ordered|exact library_deadlock_free]. Qed.
Print Assumptions C07_library_deadlock_free.

(* Witness that the order matters: two goroutines taking two mutexes in opposite orders reach a
   configuration where both are unfinished and neither can move. *)
Theorem C07_refuted_inverted_order :
  exists c, reach (init_cfg [[Acq 0; Acq 1; Rel 1; Rel 0]; [Acq 1; Acq 0; Rel 0; Rel 1]]) c /\ unfinished c /\ ~ can_move c.
Proof. exact inverted_order_deadlocks. Qed.
Print Assumptions C07_refuted_inverted_order.

(* Idempotent lazy initialisation: in every interleaving of requests made of Get / Reset on slots
   whose initialiser depends on the slot only, every slot is always None or Some (init_value slot),
   and every finished request's results equal its results when run alone on a cold state. *)
Theorem C07_results_sequential : forall V (init_value : nat -> V) reqs sched,
  let mc := lrun V init_value (empty_lmem V) (linit V reqs) sched in
  good V init_value (fst mc) /\
  (finished V (snd mc) -> map fst (snd mc) = map (run_alone V init_value (empty_lmem V)) reqs).
Proof. exact results_sequential. Qed.
Print Assumptions C07_results_sequential.

(* Witnesses: the operations as the code had them before fixes 82aa91f (lazy enum lookups) and
   3c034cc (lazily filled possibleTypeMap), and as the mutants c07_no_abstract_mutex /
   c07_reset_without_lock have them, are rejected by the scan, and two goroutines running one of
   them do reach a race. *)
Theorem C07_refuted_unguarded : forallb (fun o => negb (op_ok lib_guard o)) old_ops = true /\
  forall o, In o old_ops -> exists sched, race (run_sched (init_cfg [o; o]) sched).
Proof. split; [exact old_ops_rejected|exact old_ops_race]. Qed.
Print Assumptions C07_refuted_unguarded.

Example C07_nonvacuous :
  well_guarded lib_guard (map prog_of_ids [[0; 9; 11; 12]; [9; 13; 14]; [11; 2; 10]]) = true /\
  well_guarded lib_guard [op_cache_reset_nolock; op_cache_lookup] = false /\
  map fst (snd (lrun nat (fun s => s * 7) (empty_lmem nat) (linit nat [[Get 1; Get 2]; [Reset 1; Get 1]]) [0; 1; 1; 0])) = [[7; 14]; [7]].
Proof. split; [vm_compute; reflexivity|]. split; vm_compute; reflexivity. Qed.
