(* Property C12 -- the same request always produces the same response.
   Statements only; proofs live in Proofs/ExtDetProofs.v.

   The theorem side covers independence from hash-map iteration order: every
   place where the library ranges over a Go map while building visible output
   is modelled (Ext/Determinism.v) as a function of an order oracle; after the
   fixes each site sorts what it collected, and the theorems say that the
   output is then the same for every two oracles.  Independence from the
   request history and from plan caching, and byte-identity of the whole
   response, are checked on the implementation itself (harness/c12.go). *)
From Coq Require Import List NArith Bool Permutation Sorted.
From GQL Require Import Ext.Determinism Ext.History Proofs.ExtDetProofs.
Import ListNotations.
Open Scope N_scope.

(* Sorting a permutation gives the same list: for ANY sorting function that
   returns a sorted permutation of its input (stable or not), under an order
   in which different elements are never tied. *)
Theorem C12_sort_of_permutation :
  forall (A : Type) (le : A -> A -> Prop),
    (forall a b, le a b -> le b a -> a = b) ->
    forall srt : list A -> list A,
      (forall l, StronglySorted le (srt l)) -> (forall l, Permutation (srt l) l) ->
      forall l1 l2, Permutation l1 l2 -> srt l1 = srt l2.
Proof. exact sort_of_permutation. Qed.
Print Assumptions C12_sort_of_permutation.

(* Sites "collect the keys of a map, sort.Strings, emit per key" (introspection
   types/fields/inputFields/possibleTypes, argument and enum value order,
   per-field messages of invalid input objects, forcing of deferred values):
   the output does not depend on the order oracle. *)
Theorem C12_order_independent :
  forall (K V O : Type) (leb : K -> K -> bool),
    (forall a b, leb a b = true \/ leb b a = true) ->
    (forall a b c, leb a b = true -> leb b c = true -> leb a c = true) ->
    (forall a b, leb a b = true -> leb b a = true -> a = b) ->
    forall (f : K -> list O) (o1 o2 : oracle K V) (m : gomap K V),
      is_oracle K V o1 -> is_oracle K V o2 ->
      site_by_name K V O leb f o1 m = site_by_name K V O leb f o2 m.
Proof. exact site_by_name_independent. Qed.
Print Assumptions C12_order_independent.

(* did-you-mean lists: (distance, name) is a total order without ties between
   different names, so the suggestion list does not depend on the oracle,
   whatever the distance function and threshold are. *)
Theorem C12_suggestion_sort :
  forall (K V : Type) (leb : K -> K -> bool),
    (forall a b, leb a b = true \/ leb b a = true) ->
    (forall a b c, leb a b = true -> leb b c = true -> leb a c = true) ->
    (forall a b, leb a b = true -> leb b a = true -> a = b) ->
    (forall a b, lex_leb K leb a b = true -> lex_leb K leb b a = true -> a = b) /\
    forall (dist : K -> K -> N) (keep : K -> K -> N -> bool) (input : K) (o1 o2 : oracle K V) (m : gomap K V),
      is_oracle K V o1 -> is_oracle K V o2 ->
      site_suggestions K V leb dist keep input o1 m = site_suggestions K V leb dist keep input o2 m.
Proof.
  intros K V leb T Tr An. split.
  - apply lex_antisym. exact An.
  - intros dist keep. apply site_suggestions_independent; assumption.
Qed.
Print Assumptions C12_suggestion_sort.

(* the instance the code uses: names are byte strings compared as sort.Strings does *)
Theorem C12_order_independent_strings :
  forall (V O : Type) (f : list N -> list O) (o1 o2 : oracle (list N) V) (m : gomap (list N) V),
    is_oracle (list N) V o1 -> is_oracle (list N) V o2 ->
    site_by_name (list N) V O bytes_leb f o1 m = site_by_name (list N) V O bytes_leb f o2 m.
Proof.
  intros V O. apply site_by_name_independent.
  - exact bytes_leb_total.
  - exact bytes_leb_trans.
  - exact bytes_leb_antisym.
Qed.
Print Assumptions C12_order_independent_strings.

(* History independence.  On the machine of Ext/History.v -- persisted slots
   (lazily built type tables, cached plans and their lazily planned parts)
   that a request can only read, an empty slot being initialised on the way
   with a value determined by the schema and the slot's key; hit / miss
   counters; evictions and cache resets between requests -- the response to a
   request after ANY history of requests, evictions and resets equals the
   response to it on the fresh state.  For all request programs, all
   initialisation functions, all histories. *)
Theorem C12_history_independent :
  forall (val resp : Type) (init : N -> val) (h : list (op val resp)) (p : prog val resp),
    fst (exec val resp init p (run val resp init h)) = fst (exec val resp init p (empty val)).
Proof. exact history_independent. Qed.
Print Assumptions C12_history_independent.

(* The same from any state whose filled slots hold what their initialisation
   gives (the invariant behind the theorem; this is the hypothesis a slot of
   the code has to meet). *)
Theorem C12_history_independent_from :
  forall (val resp : Type) (init : N -> val) (st : state val) (h : list (op val resp)) (p : prog val resp),
    wf val init st ->
    fst (exec val resp init p (run_from val resp init st h)) = answer val resp init p.
Proof. exact history_independent_from. Qed.
Print Assumptions C12_history_independent_from.

(* Non-vacuity: the invariant is needed.  A slot that holds something else than
   its initialisation gives (e.g. a plan's pre-coerced argument map that an
   earlier resolver modified) changes the response. *)
Example C12_history_needs_idempotent_slots :
  let init := fun _ : N => 1 in
  let p := Read N N 0 (fun v => Answer N N v) in
  let dirty := mkState N (fun _ => Some 2) 0 0 in
  fst (exec N N init p dirty) <> fst (exec N N init p (empty N)) /\
  fst (exec N N init p (run N N init [Request N N p; Evict N N 0; Request N N p; Reset N N])) = 1.
Proof. split; [discriminate | reflexivity]. Qed.

(* Non-vacuity: the oracles matter for a site that does not sort (the code
   before the fixes): reversing the iteration order changes its output. *)
Definition unsorted_site (o : oracle N N) (m : gomap N N) : list N := map fst (o m).
Example C12_unsorted_site_depends_on_oracle :
  is_oracle N N (fun m => m) /\ is_oracle N N (@rev (N * N)) /\
  unsorted_site (fun m => m) [(1, 0); (2, 0)] <> unsorted_site (@rev (N * N)) [(1, 0); (2, 0)] /\
  site_by_name N N N N.leb (fun k => [k]) (fun m => m) [(2, 0); (1, 0)] =
  site_by_name N N N N.leb (fun k => [k]) (@rev (N * N)) [(2, 0); (1, 0)].
Proof.
  split; [intros m; apply Permutation_refl|].
  split; [intros m; apply Permutation_sym, Permutation_rev|].
  split; [discriminate | reflexivity].
Qed.

(* ---- independence from plan caching, on the executor model (Exec/PlanExec.v; proofs in
   Proofs/PlanExecProofs.v): executing one prepared plan for the n-th time -- whatever was
   executed with it before: other variables, other roots, other resolver behaviour -- returns what
   a fresh, unplanned execution of the same request returns; in particular the same request
   served n times from one cached plan yields n identical responses (data, errors with paths and
   locations, resolver calls).  The executor model is a function of the request, so "the same
   request" has one response by construction; this theorem adds that reuse of a plan does not
   leak anything from one execution into the next. *)
From GQL Require Import Exec.Syntax Exec.Coerce Exec.Exec Exec.Request Exec.PlanExec Proofs.PlanExecProofs.
Theorem C12_independent_of_plan_reuse : forall pf S D opname pp,
  plan_query pf S D opname = Planned pp ->
  forall ef (before : list run) x n,
    run_plan pf ef S D pp x <> RFuel ->
    Forall (fun y => run_plan pf ef S D pp y <> RFuel) before ->
    map (run_plan pf ef S D pp) (before ++ repeat x n)
    = map (run_fresh (ef + pf) S D opname) before ++ repeat (run_fresh (ef + pf) S D opname x) n.
Proof.
  intros pf S D opname pp Hp ef before x n Hx Hb.
  rewrite (plan_reuse pf S D opname pp Hp ef (before ++ repeat x n)).
  - rewrite map_app. f_equal. clear. induction n as [|n IH]; cbn; [reflexivity|f_equal; exact IH].
  - apply Forall_app. split; [exact Hb|]. clear -Hx. induction n as [|n IH]; cbn; constructor; assumption.
Qed.
Print Assumptions C12_independent_of_plan_reuse.
