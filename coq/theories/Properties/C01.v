(* Property C01 -- execution returns the response the GraphQL execution algorithm prescribes.
   Statements only; proofs in Proofs/{CollectProofs,PlanCollectProofs,ExecProofs}.v.

   Exec/Exec.v is the execution algorithm (CollectFields, ExecuteSelectionSet, ExecuteField,
   CompleteValue with null propagation) over an oracle for resolver outcomes; the Go executor
   is compared with it on every generated request (Run/ExecRun.v, kind 1: data tree, error
   multiset with paths and locations, resolver calls with coerced arguments).
   Exec/PlanCollect.v models what is specific to plan.go: collection in two phases. *)
From Coq Require Import List String Bool NArith.
From GQL Require Import Exec.Syntax Exec.Coerce Exec.Exec Exec.PlanCollect Exec.Request
     Proofs.CollectProofs Proofs.PlanCollectProofs Proofs.ExecProofs.
Import ListNotations.
Open Scope string_scope.

(* The planner's two-phase collection (plan-time folding of literal @skip/@include, levels with a
   variable-driven directive collected again at execute time) is CollectFields, for every
   selection set, fragment table and variable assignment. *)
Theorem C01_two_phase_collect : forall fuel S D vars obj sels g,
  two_phase_collect fuel S D vars obj sels = Some g ->
  exists v, collect fuel S D vars obj sels [] [] = Some (g, v).
Proof. exact two_phase_is_collect. Qed.
Print Assumptions C01_two_phase_collect.

(* A plan-time result that saw no variable-driven directive serves every request. *)
Theorem C01_static_plan_sound : forall fuel S D obj sels visited g saw g' v',
  plan_collect fuel S D obj sels visited g saw = Some (g', v', false) ->
  forall vars, collect fuel S D vars obj sels visited g = Some (g', v').
Proof. exact plan_collect_static. Qed.
Print Assumptions C01_static_plan_sound.

(* Every static level of a prepared plan (as dumped from the real planner through the verif hook and
   compared with plan_tree on every PlanQuery case) lists exactly the response keys CollectFields
   yields for the merged selection sets, for every variable assignment. *)
Theorem C01_plan_level_static : forall fuel S D obj sets fs,
  plan_tree (Datatypes.S fuel) S D obj sets = Some (PT false fs) ->
  exists g, (forall vars, collect_all fuel S D vars obj sets [] [] = Some g) /\
            map (fun x => fst (fst x)) fs = map fst g.
Proof. exact plan_tree_static_level. Qed.
Print Assumptions C01_plan_level_static.

(* Only included occurrences whose type conditions match are executed under a response key
   (@skip/@include evaluated at every occurrence, spread and inline fragment). *)
Theorem C01_collect_sound : forall fuel S D vars obj sels g' v',
  collect fuel S D vars obj sels [] [] = Some (g', v') ->
  forall k o, in_group g' k o -> Occurs S D vars obj sels k o.
Proof.
  intros fuel S D vars obj sels g' v' H k o Hin.
  destruct (collect_sound _ _ _ _ _ _ _ _ _ _ H k o Hin) as [[os [[] _]]|Ho]. exact Ho.
Qed.
Print Assumptions C01_collect_sound.

(* Every included occurrence reached without a named spread is collected, from any accumulator and
   visited set (the general statement, through named spreads and fragment cycles, is
   C01_collect_complete / C01_key_present_iff at the end of this file). *)
Theorem C01_collect_complete_partial : forall fuel S D vars obj sels visited g g' v',
  collect fuel S D vars obj sels visited g = Some (g', v') ->
  forall k o, OccursDirect S vars obj sels k o -> in_group g' k o.
Proof. exact collect_complete_direct. Qed.
Print Assumptions C01_collect_complete_partial.

(* Each response key is executed once per object: the groups' keys are unique. *)
Theorem C01_keys_unique : forall fuel S D vars obj sels g' v',
  collect fuel S D vars obj sels [] [] = Some (g', v') -> NoDup (map fst g').
Proof.
  intros. eapply collect_keys_nodup; [eassumption|constructor].
Qed.
Print Assumptions C01_keys_unique.

(* A failure is absorbed exactly at nullable positions: completing at a nullable type never raises,
   so nulls propagate out of non-null positions only. *)
Theorem C01_catch_nullable : forall t r, is_nonnull t = false ->
  forall e s, catch_at t r <> XRaise e s.
Proof. exact catch_at_nullable. Qed.
Print Assumptions C01_catch_nullable.

Local Open Scope N_scope.
(* ---- non-vacuity: a document with a duplicated key across a fragment and a variable @skip;
        both verdicts of the directive are exercised ---- *)
Definition S1 : schema := {|
  s_types := [("String", TScalar SString); ("Boolean", TScalar SBoolean);
              ("Q", TObject [{| f_name := "a"; f_args := []; f_type := TNamed "String" |};
                             {| f_name := "b"; f_args := []; f_type := TNamed "String" |}] [])];
  s_query := "Q"; s_mutation := None |}.
Definition D1 : document := {|
  d_ops := [];
  d_frags := [{| fr_name := "F"; fr_cond := "Q"; fr_sel := [SField 40 None "a" [] [] []] |}] |}.
Definition sels1 : list selection :=
  [SField 2 None "a" [] [{| d_name := "skip"; d_args := [("if", VVar "v")] |}] [];
   SSpread 20 "F" []; SField 30 None "b" [] [] []].

Example C01_nonvacuous :
  two_phase_collect 20%nat S1 D1 [("v", JBool true)] "Q" sels1
  = Some [("a", [{| oc_id := 40; oc_name := "a"; oc_args := []; oc_sub := [] |}]);
          ("b", [{| oc_id := 30; oc_name := "b"; oc_args := []; oc_sub := [] |}])] /\
  two_phase_collect 20%nat S1 D1 [("v", JBool false)] "Q" sels1
  = Some [("a", [{| oc_id := 2; oc_name := "a"; oc_args := []; oc_sub := [] |};
                 {| oc_id := 40; oc_name := "a"; oc_args := []; oc_sub := [] |}]);
          ("b", [{| oc_id := 30; oc_name := "b"; oc_args := []; oc_sub := [] |}])].
Proof. split; reflexivity. Qed.

(* ---- completeness of CollectFields through named fragment spreads (Proofs/CollectComplete.v);
        no acyclicity of the fragment table is assumed ---- *)
From GQL Require Import Proofs.CollectComplete.
Local Close Scope N_scope.

(* Every included, type-matching occurrence reachable from the selection set -- through any chain of
   inline fragments and named spreads, fragment cycles allowed -- is collected. *)
Theorem C01_collect_complete : forall fuel S D vars obj sels g' v',
  collect fuel S D vars obj sels [] [] = Some (g', v') ->
  forall k o, Occurs S D vars obj sels k o -> in_group g' k o.
Proof. exact collect_complete_full. Qed.
Print Assumptions C01_collect_complete.

(* A response key is present iff at least one of its occurrences is included. *)
Theorem C01_key_present_iff : forall fuel S D vars obj sels g' v',
  collect fuel S D vars obj sels [] [] = Some (g', v') ->
  (forall k, In k (map fst g') <-> exists o, Occurs S D vars obj sels k o).
Proof. exact collect_key_present. Qed.
Print Assumptions C01_key_present_iff.

(* The merged sub-selection of a field group (what exec_object collects: several selection sets,
   one visited list) holds exactly the included occurrences of its selection sets. *)
Theorem C01_collect_all_exact : forall fuel S D vars obj sets g',
  collect_all fuel S D vars obj sets [] [] = Some g' ->
  forall k o, in_group g' k o <-> exists s, In s sets /\ Occurs S D vars obj s k o.
Proof. exact collect_all_exact_full. Qed.
Print Assumptions C01_collect_all_exact.

(* ---- the *planned* executor: PlanQuery builds a plan tree once, ExecutePlan walks it any number of
        times (Exec/PlanExec.v: plan_of follows planSelectionSetsLocked / planMergedFieldChildren /
        abstractAlternative / planArguments, pexec_* follow executePlannedSelection /
        resolvePlannedField / completePlanned* and the dethunk pass; Proofs/PlanExecProofs.v).
        Full statements: no restriction on thunks, abstract fields or dynamic levels. ---- *)
From GQL Require Import Exec.PlanExec Proofs.PlanExecProofs.

(* What the walker relies on holds of every plan the planner builds: a static level holds the groups
   CollectFields yields for every variable assignment, all-literal arguments are the per-request
   coercion for every variable assignment, the sub-plan of an object field is a well-formed plan of
   its merged sub-selections, the alternative of an abstract field is one for every runtime type. *)
Theorem C01_planner_builds_wf_plans : forall pf S D k, k <= pf ->
  forall obj sets pl, plan_of k S D obj sets = Some pl -> wf_plan pf S D obj sets pl.
Proof. exact plan_of_wf. Qed.
Print Assumptions C01_planner_builds_wf_plans.

(* ExecutePlan on *any* well-formed plan (however it was obtained: built afresh, shared by key, filled
   lazily) is ExecuteRequest: same data, st_errs, st_calls (resolver calls with coerced arguments, in
   order), st_tcalls, st_missing, st_escape -- or the same request error. *)
Theorem C01_execute_plan_refines : forall pf ef S D opname op rt pl inputs root or tor r,
  get_operation D opname = Some op -> root_type S op = Some rt ->
  wf_plan pf S D rt [o_sel op] pl ->
  execute_plan pf ef S D {| pp_op := op; pp_root := rt; pp_plan := pl |} inputs root or tor = r ->
  r <> RFuel ->
  Request.request (ef + pf) S D opname inputs root or tor = r.
Proof. exact execute_plan_refines. Qed.
Print Assumptions C01_execute_plan_refines.

(* PlanQuery + ExecutePlan: whenever the planned execution of a request finishes (pf: planning fuel,
   ef: execution fuel), it returns exactly what the execution algorithm returns. *)
Theorem C01_planned_request_refines : forall pf ef S D opname inputs root or tor r,
  PlanExec.request pf ef S D opname inputs root or tor = r -> r <> RFuel ->
  Request.request (ef + pf) S D opname inputs root or tor = r.
Proof. exact planned_request_refines. Qed.
Print Assumptions C01_planned_request_refines.

Theorem C01_planned_request_done : forall pf ef S D opname inputs root or tor d s,
  PlanExec.request pf ef S D opname inputs root or tor = RDone d s ->
  exists fuel, Request.request fuel S D opname inputs root or tor = RDone d s.
Proof. exact planned_request_done. Qed.
Print Assumptions C01_planned_request_done.

(* Plan reuse: one plan, executed with any variables / root value / resolver behaviour, gives each
   time what a fresh ExecuteRequest gives ... *)
Theorem C01_plan_reuse_each : forall pf S D opname pp,
  plan_query pf S D opname = Planned pp ->
  forall ef x r, run_plan pf ef S D pp x = r -> r <> RFuel -> run_fresh (ef + pf) S D opname x = r.
Proof. exact plan_reuse_each. Qed.
Print Assumptions C01_plan_reuse_each.

(* ... n times in a row. *)
Theorem C01_plan_reuse : forall pf S D opname pp,
  plan_query pf S D opname = Planned pp ->
  forall ef (xs : list run),
    Forall (fun x => run_plan pf ef S D pp x <> RFuel) xs ->
    map (run_plan pf ef S D pp) xs = map (run_fresh (ef + pf) S D opname) xs.
Proof. exact plan_reuse. Qed.
Print Assumptions C01_plan_reuse.

(* The plan of this model, with arguments, field definitions and lazily planned alternatives
   forgotten, is PlanCollect.plan_tree -- the structure compared with the dump of every real plan. *)
Theorem C01_plan_of_is_plan_tree : forall k S D obj sets pl,
  plan_of k S D obj sets = Some pl -> plan_tree k S D obj sets = Some (shape pl).
Proof. exact plan_of_shape. Qed.
Print Assumptions C01_plan_of_is_plan_tree.

(* Non-vacuity: a plan with a static root, dynamic sub-levels, an eager object sub-plan, a lazily
   planned interface alternative, literal and variable arguments, deferred values, an error and a
   non-null violation is built once and executed under two variable assignments. *)
Theorem C01_planned_nonvacuous :
  match plan_query 12 Example.S2 Example.D2 None with
  | Planned pp =>
    Example.level_kinds (pp_plan pp) =
      [("a", true, false); ("o", true, true); ("o2", false, false); ("i", true, false);
       ("l", true, true); ("t", true, false)] /\
    (exists d s, execute_plan 12 12 Example.S2 Example.D2 pp (Example.inputs2 true) RNull Example.or2 Example.tor2
                 = RDone (Some d) s /\ List.length (st_calls s) = 14%nat /\ List.length (st_errs s) = 2%nat) /\
    (exists d s, execute_plan 12 12 Example.S2 Example.D2 pp (Example.inputs2 false) RNull Example.or2 Example.tor2
                 = RDone (Some d) s /\ List.length (st_calls s) = 12%nat /\ List.length (st_errs s) = 1%nat)
  | _ => False
  end.
Proof. exact Example.planned_nonvacuous_short. Qed.
Print Assumptions C01_planned_nonvacuous.
(* ---- table generated from the source (harness/gen.go writes Gen/Directives.v from the linked
   graphql.SpecifiedDirectives before every check run; these are re-proved then) ---- *)
From GQL Require Gen.Directives Tables.DirectiveTable.

(* @skip and @include as declared in directives.go are what the model assumes: usable on fields,
   fragment spreads and inline fragments, with exactly one argument `if: Boolean!` without default. *)
Theorem C01_gen_skip_include_declared : forall n, n = "skip" \/ n = "include" ->
  Tables.DirectiveTable.find_gdirective n Gen.Directives.specified_directives
  = Some (Tables.DirectiveTable.cond_directive n).
Proof.
  intros n [-> | ->];
  first [ vm_compute; reflexivity
        | fail 1 "generated-table obligation C01_gen_skip_include_declared no longer holds against the regenerated table: @skip / @include (Gen/Directives.v) do not have the locations FIELD, FRAGMENT_SPREAD, INLINE_FRAGMENT and the single argument if: Boolean! that Exec.included and PlanCollect.plan_directives assume" ].
Qed.
Print Assumptions C01_gen_skip_include_declared.

(* Exec.included (through bool_arg) and PlanCollect.plan_directives (through bool_arg_static)
   read the condition exactly as getArgumentValues does for the declared argument: the value of
   the declared argument name, coerced at the declared argument type. *)
Theorem C01_gen_condition_argument : forall n a, n = "skip" \/ n = "include" ->
  Tables.DirectiveTable.sole_arg n = Some a ->
  forall S d vars,
    bool_arg S d vars
    = match value_from_ast 3 S (Tables.DirectiveTable.to_tyref (Gen.Directives.ga_type a))
                           (alookup (Gen.Directives.ga_name a) (d_args d)) (Some vars) with
      | Some v => v | None => JNull end /\
    bool_arg_static S d
    = match value_from_ast 3 S (Tables.DirectiveTable.to_tyref (Gen.Directives.ga_type a))
                           (alookup (Gen.Directives.ga_name a) (d_args d)) None with
      | Some v => v | None => JNull end.
Proof.
  intros n a [-> | ->] H; vm_compute in H;
  first [ injection H as <-; intros S d vars; split; reflexivity
        | fail 1 "generated-table obligation C01_gen_condition_argument no longer holds against the regenerated table: the argument declared for @skip / @include (Gen/Directives.v) is not the one bool_arg / bool_arg_static read" ].
Qed.
Print Assumptions C01_gen_condition_argument.
