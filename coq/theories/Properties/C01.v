(* Property C01 -- statements only (proofs in Proofs/ExecProofs.v). *)
From Coq Require Import List String.
From GQL Require Import Exec.Syntax Exec.Coerce Exec.Exec Exec.Request Proofs.ExecProofs.
Import ListNotations.

(* A failure is absorbed exactly at nullable positions: completing at a nullable type never raises. *)
Theorem C01_catch_nullable : forall t r, is_nonnull t = false ->
  forall e s, catch_at t r <> XRaise e s.
Proof. exact catch_at_nullable. Qed.
Print Assumptions C01_catch_nullable.
