(* Property C14 -- AST traversal visits every node once, in order, honouring skip and break.
   Statements only; proofs live in Proofs/Visitor*.v. *)
From Coq Require Import List NArith Bool.
From GQL Require Import Visitor.VisitorTree Visitor.VisitorWalk Visitor.VisitorLoop
     Visitor.VisitorKeysSpec Gen.VisitorKeys Visitor.TypeInfo Visitor.TypeInfoPre
     Proofs.VisitorWalkProofs Proofs.VisitorLoopProofs Proofs.VisitorParallelProofs
     Proofs.VisitorTypeInfoProofs Visitor.VisitorOrder Proofs.VisitorOrderProofs.
Import ListNotations.

(* The iterative loop of visitor.Visit, as written (explicit stack, keys, index, path,
   ancestors, inSlice), delivers exactly the events of the plain recursive walk -- phase,
   selected function, node, key, parent, path, ancestors -- for every key table, every
   visitor form (any selection function), every policy and every tree: any run that ends,
   ends with the walk ... *)
Theorem C14_loop_is_walk : forall keys_of sel pol t fuel evs replaced rebuilt,
  visit_loop keys_of sel pol fuel t = Done evs replaced rebuilt ->
  evs = walk_events keys_of sel pol t.
Proof. intros * H. exact (proj1 (visit_loop_is_walk keys_of sel pol t fuel evs replaced rebuilt H)). Qed.
Print Assumptions C14_loop_is_walk.

(* ... and every run ends within loop_fuel t iterations (two per visited node, two per
   non-empty list, one per absent child). *)
Theorem C14_loop_terminates : forall keys_of sel pol t fuel,
  (loop_fuel keys_of t <= fuel)%nat ->
  visit_loop keys_of sel pol fuel t = Done (walk_events keys_of sel pol t) false false.
Proof. exact visit_loop_terminates. Qed.
Print Assumptions C14_loop_terminates.

(* A traversal whose callbacks request no edits (continue / skip / break only) never rebuilds
   a node from edits and returns no replacement. *)
Theorem C14_no_edit_identity : forall keys_of sel pol t fuel evs replaced rebuilt,
  visit_loop keys_of sel pol fuel t = Done evs replaced rebuilt ->
  replaced = false /\ rebuilt = false.
Proof. intros * H. exact (proj2 (visit_loop_is_walk keys_of sel pol t fuel evs replaced rebuilt H)). Qed.
Print Assumptions C14_no_edit_identity.

(* ---- skip and break, on the walk ---- *)
(* The walk of a node: its enter event; on break nothing follows; on skip nothing more for
   this node (no descendant, no leave) and the traversal goes on; otherwise the children, in
   key-table order (fields looked up by name; lists element by element), then its leave. *)
Theorem C14_walk_shape : forall keys_of sel pol c key n,
  walk keys_of sel pol c key n =
  match act sel pol n PEnter with
  | Break => (emit sel PEnter c key n, true)
  | Skip => (emit sel PEnter c key n, false)
  | Continue =>
    seq (emit sel PEnter c key n, false)
        (seq (wkeys keys_of sel pol (w_inner c key (Some (g_id n))) (g_slots n) (keys_of (g_kind n)))
             (leave_tr sel pol c key n))
  end.
Proof. exact VisitorWalkProofs.walk_unfold. Qed.
Print Assumptions C14_walk_shape.

Theorem C14_skip_drops_subtree_and_leave : forall keys_of sel pol c key n,
  act sel pol n PEnter = Skip ->
  walk keys_of sel pol c key n = (emit sel PEnter c key n, false).
Proof. exact VisitorParallelProofs.skip_drops_subtree. Qed.
Print Assumptions C14_skip_drops_subtree_and_leave.

Theorem C14_break_stops : forall keys_of sel pol c key n rest,
  (act sel pol n PEnter = Break ->
   seq (walk keys_of sel pol c key n) rest = (emit sel PEnter c key n, true)) /\
  (act sel pol n PLeave = Break ->
   seq (leave_tr sel pol c key n) rest = (emit sel PLeave c key n, true)).
Proof.
  intros. split; [apply VisitorParallelProofs.break_on_enter_stops | apply VisitorParallelProofs.break_on_leave_stops].
Qed.
Print Assumptions C14_break_stops.

(* only a break cuts the traversal short *)
Theorem C14_never_break_never_stops : forall keys_of sel pol,
  (forall id ph, pol id ph <> Break) -> forall n c key, snd (walk keys_of sel pol c key n) = false.
Proof. exact VisitorParallelProofs.never_break_never_stops. Qed.
Print Assumptions C14_never_break_never_stops.

(* without skip and break: enter, children, leave -- once each, properly nested *)
Theorem C14_all_continue_nested : forall keys_of sel pol,
  (forall id ph, pol id ph = Continue) -> forall n c key,
  walk keys_of sel pol c key n
  = (emit sel PEnter c key n
     ++ fst (wkeys keys_of sel pol (w_inner c key (Some (g_id n))) (g_slots n) (keys_of (g_kind n)))
     ++ emit sel PLeave c key n, false).
Proof. exact VisitorParallelProofs.all_continue_nested. Qed.
Print Assumptions C14_all_continue_nested.

(* when every kind has an enter and a leave function and nothing breaks: every node that is
   entered and not skipped is left exactly once, after its subtree, with the same key, parent
   and enclosing nodes; a skipped node is a lone enter; events are properly nested *)
Theorem C14_enter_leave_matched_nested : forall keys_of sel pol,
  (forall kind ph, sel kind ph <> None) -> (forall id ph, pol id ph <> Break) ->
  forall n c key, nested pol (fst (walk keys_of sel pol c key n)).
Proof. exact VisitorParallelProofs.walk_nested. Qed.
Print Assumptions C14_enter_leave_matched_nested.

(* ---- document order and "exactly once" ---- *)
(* Without a break the events of the walk, read as (phase, node, kind) marks, are the Euler
   tour of the tree by the key table -- a node, its children's tours in key order unless it
   is skipped, the node again -- restricted to the kinds and phases for which the visitor has
   a function. *)
Theorem C14_document_order : forall keys_of sel pol,
  (forall id ph, pol id ph <> Break) -> forall n c key,
  map ev_mark (fst (walk keys_of sel pol c key n)) = shown sel (tour keys_of (skips sel pol) n).
Proof. exact walk_is_tour. Qed.
Print Assumptions C14_document_order.

(* hence: enter events list the nodes that are not below a skipped node in pre-order, leave
   events list those of them that are not skipped themselves in post-order *)
Theorem C14_enter_preorder_leave_postorder : forall keys_of sel pol t,
  (forall id ph, pol id ph <> Break) ->
  enter_ids (walk_events keys_of sel pol t)
  = map g_id (filter (has_fn sel PEnter) (enters keys_of (skips sel pol) t))
  /\ leave_ids (walk_events keys_of sel pol t)
     = map g_id (filter (has_fn sel PLeave) (leaves keys_of (skips sel pol) t))
  /\ Sub (enters keys_of (skips sel pol) t) (preorder keys_of t)
  /\ (forall m, In m (leaves keys_of (skips sel pol) t)
                <-> In m (enters keys_of (skips sel pol) t) /\ skips sel pol m = false).
Proof.
  intros keys_of sel pol t Hnb. split; [apply enter_order; exact Hnb|]. split; [apply leave_order; exact Hnb|].
  split; [apply enters_sub_preorder | intros m; apply left_iff_visited_not_skipped].
Qed.
Print Assumptions C14_enter_preorder_leave_postorder.

(* For a tree whose nodes (those reachable through the key table) have pairwise distinct
   identities and a policy that never breaks: a node that is not below a skipped node is
   entered exactly once (when a function is selected for its kind); it is left exactly once
   when moreover it is not skipped itself; any other identity -- in particular every node
   below a skipped node -- occurs in no enter and no leave event. *)
Theorem C14_exactly_once : forall keys_of sel pol t,
  (forall id ph, pol id ph <> Break) ->
  NoDup (map g_id (preorder keys_of t)) ->
  forall x,
    (count_occ N.eq_dec (enter_ids (walk_events keys_of sel pol t)) x = 1%nat
     <-> In x (map g_id (filter (has_fn sel PEnter) (enters keys_of (skips sel pol) t))))
    /\ (count_occ N.eq_dec (leave_ids (walk_events keys_of sel pol t)) x = 1%nat
        <-> In x (map g_id (filter (has_fn sel PLeave) (leaves keys_of (skips sel pol) t))))
    /\ (~ In x (map g_id (enters keys_of (skips sel pol) t)) ->
        count_occ N.eq_dec (enter_ids (walk_events keys_of sel pol t)) x = 0%nat
        /\ count_occ N.eq_dec (leave_ids (walk_events keys_of sel pol t)) x = 0%nat).
Proof. exact exactly_once. Qed.
Print Assumptions C14_exactly_once.

(* With breaks: the events are a prefix of the events of the same policy with every break
   read as continue, and every node is entered at most once and left at most once. *)
Theorem C14_break_prefix_at_most_once : forall keys_of sel pol t,
  (exists rest, walk_events keys_of sel (unbreak pol) t = walk_events keys_of sel pol t ++ rest)
  /\ (NoDup (map g_id (preorder keys_of t)) ->
      forall x, (count_occ N.eq_dec (enter_ids (walk_events keys_of sel pol t)) x <= 1)%nat
                /\ (count_occ N.eq_dec (leave_ids (walk_events keys_of sel pol t)) x <= 1)%nat).
Proof. intros. split; [apply events_prefix | apply at_most_once]. Qed.
Print Assumptions C14_break_prefix_at_most_once.

(* ---- VisitInParallel ---- *)
(* The wrapper answers "no change" to the loop whatever the sub-visitors answer, so the loop
   hands it the full traversal; through the skipping bookkeeping as coded, a sub-visitor with
   any selection of functions and any policy receives exactly the events it would receive
   alone -- for every tree in which no node is its own descendant. *)
Theorem C14_parallel_projection : forall keys_of t fuel mevs replaced rebuilt,
  tree_ok t = true ->
  visit_loop keys_of par_sel par_pol fuel t = Done mevs replaced rebuilt ->
  forall sel pol, par_observed sel pol mevs = walk_events keys_of sel pol t.
Proof.
  intros * Hok H sel pol.
  rewrite (proj1 (visit_loop_is_walk keys_of par_sel par_pol t fuel mevs replaced rebuilt H)).
  apply VisitorParallelProofs.par_projection. exact Hok.
Qed.
Print Assumptions C14_parallel_projection.

(* ---- type tracking ---- *)
(* VisitWithTypeInfo announces every node of the traversal to the TypeInfo (Enter before the
   sub-visitor's enter callback, Leave after its leave callback, and Leave at once for a node
   the sub-visitor skips); the traversal it is driven by is the walk whose actions are the
   sub-visitor's (C14_loop_is_walk).  What the four stacks and two variables of TypeInfo, as
   coded, report inside every callback is `types_at` of the chain of enclosing nodes -- a
   top-down function of the position alone -- for every schema, document of parsed shape
   (no directive inside a directive, no argument inside an argument), visitor form and
   policy. *)
Theorem C14_typeinfo : forall sch attr sel pol keys_of kind_of t,
  ti_ok false false t = true ->
  (forall i k, In (i, k) (kinds_of t) -> kind_of i = k) ->
  let outer := walk_events keys_of par_sel (twi_pol sel pol kind_of) t in
  ti_run sch attr sel pol ti_init outer
  = flat_map (fun e => match sel (e_kind e) (e_phase e) with
                       | Some _ => [(e_phase e, e_id e, types_at sch attr (chain_of kind_of e))]
                       | None => [] end) outer.
Proof. intros * Hok Hk. exact (typeinfo_reports_types_at sch attr sel pol keys_of kind_of t Hok Hk). Qed.
Print Assumptions C14_typeinfo.

(* the same with the hypothesis "node kind determined by node identity" as a checked
   precondition: kinds_fun t decides that no identity occurs twice in the tree, and the
   id -> kind table of the tree is then the kind function *)
Theorem C14_typeinfo_checked : forall sch attr sel pol keys_of t,
  ti_ok false false t = true -> kinds_fun t = true ->
  let kind_of := kind_of_tree t in
  let outer := walk_events keys_of par_sel (twi_pol sel pol kind_of) t in
  ti_run sch attr sel pol ti_init outer
  = flat_map (fun e => match sel (e_kind e) (e_phase e) with
                       | Some _ => [(e_phase e, e_id e, types_at sch attr (chain_of kind_of e))]
                       | None => [] end) outer.
Proof. intros * Hok Hk. exact (typeinfo_checked sch attr sel pol keys_of t Hok Hk). Qed.
Print Assumptions C14_typeinfo_checked.

(* The validator's composition VisitWithTypeInfo(typeInfo, VisitInParallel(subs...)): the
   traversal is the full one (the parallel wrapper never skips or breaks), TypeInfo is told
   of every node, and each sub-visitor -- dispatched through the skipping marks -- reads, in
   exactly the callbacks of its own walk, types_at of the chain of enclosing nodes. *)
Theorem C14_stacked_typeinfo : forall sch attr sel pol keys_of t,
  tree_ok t = true -> ti_ok false false t = true -> kinds_fun t = true ->
  let kind_of := kind_of_tree t in
  stack_run sch attr sel pol ti_init None (walk_events keys_of par_sel par_pol t)
  = map (fun e => (e_phase e, e_id e, types_at sch attr (chain_of kind_of e)))
        (walk_events keys_of sel pol t).
Proof.
  intros * Ht Hok Hk. apply (stacked_reports_types_at sch attr sel pol keys_of (kind_of_tree t) t Ht Hok).
  intros i k Hin. apply kinds_fun_tbl; assumption.
Qed.
Print Assumptions C14_stacked_typeinfo.

(* ---- the generated child-key table ---- *)
Theorem C14_keys_complete :
  keys_complete N.eqb exempt_codes keys_table ast_shape = true.
Proof. vm_compute. reflexivity. Qed.
Print Assumptions C14_keys_complete.

(* non-vacuity: a two-level tree, skip on one child, break on the leave of another *)
Example C14_nonvacuous :
  let t := GNode 0 0 [Many 0 [GNode 1 1 [One 1 (Some (GNode 2 2 []))]; GNode 3 1 []; GNode 4 1 []]] in
  let keys_of := fun k => match k with 0 => [0] | 1 => [1] | _ => [] end%N in
  let sel := fun (_ : N) ph => Some (match ph with PEnter => 4 | PLeave => 5 end)%N in
  let pol := fun id ph => match id, ph with 1%N, PEnter => Skip | 3%N, PLeave => Break | _, _ => Continue end in
  visit_loop keys_of sel pol (loop_fuel keys_of t) t = Done (walk_events keys_of sel pol t) false false
  /\ map (fun e => (e_phase e, e_id e)) (walk_events keys_of sel pol t)
     = [(PEnter, 0); (PEnter, 1); (PEnter, 3); (PLeave, 3)]%N
  /\ tree_ok t = true.
Proof. vm_compute. repeat split. Qed.

(* ---- table generated from the source (harness/gen.go writes Gen/Kinds.v from
   language/kinds/kinds.go before every check run; this is re-proved then) ---- *)
From GQL Require Gen.Kinds.

(* The node kinds of language/kinds are the kinds of the child-key / struct-shape tables: every
   kind constant names its own value, and the values are exactly the kinds that
   Gen/VisitorKeys.v (ast structs and QueryDocumentKeys) numbers. *)
Theorem C14_gen_kinds :
  map snd Gen.Kinds.kinds = map snd kind_names /\ map fst Gen.Kinds.kinds = map snd Gen.Kinds.kinds.
Proof.
  split;
  first [ vm_compute; reflexivity
        | fail 1 "generated-table obligation C14_gen_kinds no longer holds against the regenerated table: the constants of language/kinds/kinds.go (Gen/Kinds.v) are not the kinds of Gen/VisitorKeys.v" ].
Qed.
Print Assumptions C14_gen_kinds.
