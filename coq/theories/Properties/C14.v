(* Property C14 -- AST traversal visits every node once, in order, honouring skip and break.
   Statements only; proofs live in Proofs/Visitor*.v. *)
From Coq Require Import List NArith Bool.
From GQL Require Import Visitor.VisitorTree Visitor.VisitorWalk Visitor.VisitorLoop
     Proofs.VisitorLoopProofs.
Import ListNotations.

(* The iterative loop of visitor.Visit, as written (explicit stack, keys, index, path,
   ancestors, inSlice), delivers exactly the events of the plain recursive walk -- phase,
   selected function, node, key, parent, path, ancestors -- for every key table, every
   visitor form (any selection function), every policy and every tree: any run that ends,
   ends with the walk ... *)
Theorem C14_loop_is_walk : forall keys_of sel pol t fuel evs replaced rebuilt,
  visit_loop keys_of sel pol fuel t = Done evs replaced rebuilt ->
  evs = walk_events keys_of sel pol t.
Proof. intros * H. exact (proj1 (visit_loop_is_walk keys_of sel pol t fuel evs replaced rebuilt H)). Qed.
Print Assumptions C14_loop_is_walk.

(* ... and every run ends within loop_fuel t iterations (two per visited node, two per
   non-empty list, one per absent child). *)
Theorem C14_loop_terminates : forall keys_of sel pol t fuel,
  (loop_fuel keys_of t <= fuel)%nat ->
  visit_loop keys_of sel pol fuel t = Done (walk_events keys_of sel pol t) false false.
Proof. exact visit_loop_terminates. Qed.
Print Assumptions C14_loop_terminates.

(* A traversal whose callbacks request no edits (continue / skip / break only) never rebuilds
   a node from edits and returns no replacement. *)
Theorem C14_no_edit_identity : forall keys_of sel pol t fuel evs replaced rebuilt,
  visit_loop keys_of sel pol fuel t = Done evs replaced rebuilt ->
  replaced = false /\ rebuilt = false.
Proof. intros * H. exact (proj2 (visit_loop_is_walk keys_of sel pol t fuel evs replaced rebuilt H)). Qed.
Print Assumptions C14_no_edit_identity.
