From Coq Require Import List NArith.
From GQL Require Import Visitor.VisitorTree Visitor.VisitorWalk Visitor.VisitorLoop.
Theorem C14_placeholder : True. Proof. exact I. Qed.
Print Assumptions C14_placeholder.
