(* Property C02 -- validation accepts exactly the documents that satisfy every rule.
   Statements only; proofs are in Proofs/ValidateOverlap.v and Proofs/ValidateRules.v. *)
From Coq Require Import List NArith ZArith String Bool.
From GQL Require Import Exec.Syntax Validate.VSyntax Validate.Overlap Validate.OverlapSpec Validate.Rules
     Exec.Exec Proofs.ValidateOverlap Proofs.ValidateRules Proofs.ValidateMerge Proofs.ValidateMemo Proofs.ValidateInputFields Proofs.ValidateArgs Proofs.ValidateCycles Proofs.ValidateUnused Proofs.ValidateMemoHard Proofs.ValidateL1 Validate.All Proofs.ValidateAll Proofs.ValidateCyclesComplete
     Validate.OverlapWf Proofs.ValidateReflect Proofs.ValidateReflectClose Proofs.ValidateFuel Proofs.ValidateDecide
     Proofs.ValidateWf Proofs.ValidateRank Proofs.ValidateWfDoc Proofs.ValidateClosure Proofs.ValidateRulesDecl Proofs.ValidateLiteral Proofs.ValidateWitness Proofs.ValidateOffending Proofs.ValidateFuelMono Proofs.ValidateTermination Proofs.ValidateLocated Proofs.ValidateLocated2.
Import ListNotations.
Open Scope string_scope.

(* The overlap rule.  For every schema and every document whose fragments do not reach
   themselves: all checks of the A-J decomposition (fields within a set, fields against a
   spread fragment, fragment against fragment, between the sub-selections of two fields;
   with the exclusivity flag, parent types, argument equality and return-type conflicts)
   pass on every selection set of the document  <->  every two fields reachable from one
   selection set through any chain of inline fragments and fragment spreads that share a
   response key are compatible, recursively (the brute-force layer L1). *)
Theorem C02_overlap_decomposition : forall S D,
  acyclic S D -> (L2_accepts S D <-> L1_accepts S D).
Proof. exact overlap_decomposition. Qed.
Print Assumptions C02_overlap_decomposition.

(* The same for any symmetric, flag-monotone test on two fields and any family of
   selection sets containing the fragment bodies. *)
Theorem C02_overlap_decomposition_generic : forall S D base,
  (forall ex a b, base ex a b = base ex b a) ->
  (forall a b, base false a b = true -> base true a b = true) ->
  forall sets : fset -> Prop, (forall g b, fbody S D g = Some b -> sets b) ->
  acyclic S D ->
  ((forall s, sets s -> within S D base s) <-> (forall s, sets s -> L1 S D base s)).
Proof. exact decomposition_iff. Qed.
Print Assumptions C02_overlap_decomposition_generic.

(* Memo transparency, one direction (named _partial for that reason; the other direction is
   C02_overlap_memo_transparent, both together with the reflection C02_overlap_exec_decides).
   On a document on which every check of the decomposition passes, the executable algorithm
   reports no conflict -- with the memo tables comparedSet / comparedFieldsAndFragmentSet
   (L3, memo = true) and without them (memo = false), for every fuel: the memo tables never
   make the rule reject. *)
Theorem C02_overlap_memo_transparent_partial : forall S D memo fuel,
  L2_accepts S D -> run_overlap S D memo fuel = [].
Proof. exact L2_accepts_exec. Qed.
Print Assumptions C02_overlap_memo_transparent_partial.

(* Memo transparency, the hard direction: the memo tables never hide a conflict.  For every
   document (cyclic or not) whose selection sets are told apart by (parent type, id of the
   first selection) -- the implementation tells them apart by pointer -- and whose fields have
   unique argument names (otherwise sameArguments is not symmetric while the pair memo is):
   if the memoised algorithm (L3) completes within its fuel and reports nothing, then the
   unmemoised algorithm (L2 as coded) reports nothing at any fuel.  With
   C02_overlap_memo_transparent_partial (L2 accepts => L3 accepts): L3 and L2 agree on
   accept/reject.  Proof: the memoised run is a depth-first search with a visited set; at
   its end every memo entry is locally correct w.r.t. the final tables and everything it
   would recurse into is covered, and the unmemoised run only asks covered questions
   (DS, ids_distinct, args_unique are defined in Proofs/ValidateMemoHard.v). *)
Theorem C02_overlap_memo_transparent : forall S D fuel fuel',
  ids_distinct S D -> args_unique S D ->
  run_complete S D true fuel = true ->
  run_overlap S D true fuel = [] ->
  run_overlap S D false fuel' = [].
Proof. exact memo_transparent. Qed.
Print Assumptions C02_overlap_memo_transparent.

(* Hence the model of the rule never rejects a document that satisfies the specification L1. *)
Theorem C02_overlap_accepts_valid : forall S D memo fuel,
  acyclic S D -> L1_accepts S D -> run_overlap S D memo fuel = [].
Proof. exact L1_accepts_exec. Qed.
Print Assumptions C02_overlap_accepts_valid.

(* The two-field test as coded (sameArguments looks arguments of the first field up in the
   second) equals the symmetric closure used above whenever both fields have unique argument
   names, i.e. on every document that passes UniqueArgumentNames. *)
Theorem C02_same_arguments_symmetric : forall S ex a b,
  NoDup (map fst (fe_args a)) -> NoDup (map fst (fe_args b)) ->
  base_ok S ex a b = base2 S ex a b.
Proof. exact base_ok_is_base2. Qed.
Print Assumptions C02_same_arguments_symmetric.

(* L0, merge safety, one level (partial: the recursion into the merged sub-selections of a
   group is not stated).  If a selection set passes L1 and its parent type matches the
   object type, then everything the executor's CollectFields (Exec.collect: any variables,
   any visited set, any fuel) groups under one response key for that object type has one
   field name and equal arguments -- what plan.go relies on when it merges field ASTs. *)
Theorem C02_merge_safe_partial : forall S D,
  NoDup (map fr_name (d_frags D)) ->
  forall (s : fset) obj fuel vars visited g v,
  L1 S D (base2 S) s ->
  pt_ok S obj (fst s) ->
  collect fuel S D vars obj (snd s) visited [] = Some (g, v) ->
  forall k os o1 o2, In (k, os) g -> In o1 os -> In o2 os ->
    oc_name o1 = oc_name o2 /\ same_args (oc_args o1) (oc_args o2) = true.
Proof. exact merge_safe_level. Qed.
Print Assumptions C02_merge_safe_partial.

(* The executable Spec oracle of the runner.  L1o is the brute-force check as a three-valued
   function (None = it ran out of fuel); whenever it returns a verdict, the verdict is the
   truth value of the Spec L1_accepts -- for every schema, document (cyclic or not) and fuel. *)
Theorem C02_L1_oracle_reflects : forall S D fuel,
  (L1o S D fuel = Some true -> L1_accepts S D) /\
  (L1o S D fuel = Some false -> ~ L1_accepts S D).
Proof. exact L1o_reflect. Qed.
Print Assumptions C02_L1_oracle_reflects.

(* L0, merge safety, recursively (MS, group_entries, sub_entries are defined in
   Proofs/ValidateMerge.v).  For a selection set that passes L1 and every depth n: whatever
   CollectFields groups under one response key for an object type has one field name and
   equal arguments, and the same holds again for the merged sub-selections of every group,
   collected for any object type obj' (the sets given to CollectFields there may be any
   sets whose expanded fields are sub-selection fields of the group's entries and whose
   parent type matches obj' -- in a valid schema the runtime type of a field matches the
   static type of the field on every parent the entries were written under). *)
Theorem C02_merge_safe : forall S D,
  NoDup (map fr_name (d_frags D)) ->
  forall n (s : fset) obj, L1 S D (base2 S) s -> MS S D n (EF S D s) obj.
Proof. exact merge_safe_set. Qed.
Print Assumptions C02_merge_safe.

(* Simple rules: the rule's model reports an error exactly when the rule is violated. *)
Theorem C02_rule_iff_unique_operation_names : forall W,
  rule_unique_operation_names W <> [] <-> Violates_unique_operation_names W.
Proof. exact unique_operation_names_iff. Qed.
Print Assumptions C02_rule_iff_unique_operation_names.

Theorem C02_rule_iff_unique_fragment_names : forall W,
  rule_unique_fragment_names W <> [] <-> Violates_unique_fragment_names W.
Proof. exact unique_fragment_names_iff. Qed.
Print Assumptions C02_rule_iff_unique_fragment_names.

Theorem C02_rule_iff_unique_variable_names : forall W,
  rule_unique_variable_names W <> [] <-> Violates_unique_variable_names W.
Proof. exact unique_variable_names_iff. Qed.
Print Assumptions C02_rule_iff_unique_variable_names.

Theorem C02_rule_iff_unique_argument_names : forall S W,
  rule_unique_argument_names S W <> [] <-> Violates_unique_argument_names S W.
Proof. exact unique_argument_names_iff. Qed.
Print Assumptions C02_rule_iff_unique_argument_names.

Theorem C02_rule_iff_lone_anonymous_operation : forall W,
  rule_lone_anonymous W <> [] <-> Violates_lone_anonymous W.
Proof. exact lone_anonymous_iff. Qed.
Print Assumptions C02_rule_iff_lone_anonymous_operation.

Theorem C02_rule_located_lone_anonymous_operation : forall W x,
  In x (rule_lone_anonymous W) -> exists o, In o (w_ops W) /\ wo_name o = None /\ wo_id o = x.
Proof. exact lone_anonymous_located. Qed.
Print Assumptions C02_rule_located_lone_anonymous_operation.

Theorem C02_rule_iff_known_fragment_names : forall S W,
  rule_known_fragment_names S W <> [] <-> Violates_known_fragment_names S W.
Proof. exact known_fragment_names_iff. Qed.
Print Assumptions C02_rule_iff_known_fragment_names.

Theorem C02_rule_located_known_fragment_names : forall S W x,
  In x (rule_known_fragment_names S W) ->
  exists pt id g, In (ISpread pt id x g) (doc_items S W) /\ ~ In g (map wf_name (w_frags W)).
Proof. exact known_fragment_names_located. Qed.
Print Assumptions C02_rule_located_known_fragment_names.

Theorem C02_rule_iff_scalar_leafs : forall S W,
  rule_scalar_leafs S W <> [] <-> Violates_scalar_leafs S W.
Proof. exact scalar_leafs_iff. Qed.
Print Assumptions C02_rule_iff_scalar_leafs.

Theorem C02_rule_iff_fields_on_correct_type : forall S W,
  rule_fields_on_correct_type S W <> [] <-> Violates_fields_on_correct_type S W.
Proof. exact fields_on_correct_type_iff. Qed.
Print Assumptions C02_rule_iff_fields_on_correct_type.

Theorem C02_rule_located_fields_on_correct_type : forall S W x,
  In x (rule_fields_on_correct_type S W) ->
  exists t nm args ssid hs, In (IField (Some t) None x nm args ssid hs) (doc_items S W).
Proof. exact fields_on_correct_type_located. Qed.
Print Assumptions C02_rule_located_fields_on_correct_type.

Theorem C02_rule_iff_known_directives : forall S W,
  rule_known_directives S W <> [] <-> Violates_known_directives S W.
Proof. exact known_directives_iff. Qed.
Print Assumptions C02_rule_iff_known_directives.

Theorem C02_rule_iff_known_argument_names : forall S W,
  rule_known_argument_names S W <> [] <-> Violates_known_argument_names S W.
Proof. exact known_argument_names_iff. Qed.
Print Assumptions C02_rule_iff_known_argument_names.

Theorem C02_rule_iff_provided_non_null_arguments : forall S W,
  rule_provided_non_null_arguments S W <> [] <-> Violates_provided_non_null_arguments S W.
Proof. exact provided_non_null_arguments_iff. Qed.
Print Assumptions C02_rule_iff_provided_non_null_arguments.

Theorem C02_rule_iff_no_undefined_variables : forall S W,
  rule_no_undefined_variables S W <> [] <-> Violates_no_undefined_variables S W.
Proof. exact no_undefined_variables_iff. Qed.
Print Assumptions C02_rule_iff_no_undefined_variables.

Theorem C02_rule_iff_no_unused_variables : forall S W,
  rule_no_unused_variables S W <> [] <-> Violates_no_unused_variables S W.
Proof. exact no_unused_variables_iff. Qed.
Print Assumptions C02_rule_iff_no_unused_variables.

Theorem C02_rule_iff_variables_are_input_types : forall S W,
  rule_variables_are_input_types S W <> [] <-> Violates_variables_are_input_types S W.
Proof. exact variables_are_input_types_iff. Qed.
Print Assumptions C02_rule_iff_variables_are_input_types.

Theorem C02_rule_iff_possible_fragment_spreads : forall S W,
  rule_possible_fragment_spreads S W <> [] <-> Violates_possible_fragment_spreads S W.
Proof. exact possible_fragment_spreads_iff. Qed.
Print Assumptions C02_rule_iff_possible_fragment_spreads.

Theorem C02_rule_iff_arguments_of_correct_type : forall S W,
  rule_arguments_of_correct_type S W <> [] <-> Violates_arguments_of_correct_type S W.
Proof. exact arguments_of_correct_type_iff. Qed.
Print Assumptions C02_rule_iff_arguments_of_correct_type.

Theorem C02_rule_located_arguments_of_correct_type : forall S W x,
  In x (rule_arguments_of_correct_type S W) ->
  exists ow ad a, In (IArg ow (Some ad) a) (doc_items S W) /\ vlit S (wa_val a) (a_type ad) = false /\
                  wv_id (wa_val a) = x.
Proof. exact arguments_of_correct_type_located. Qed.
Print Assumptions C02_rule_located_arguments_of_correct_type.

Theorem C02_rule_iff_default_values_of_correct_type : forall S W,
  rule_default_values_of_correct_type S W <> [] <-> Violates_default_values_of_correct_type S W.
Proof. exact default_values_of_correct_type_iff. Qed.
Print Assumptions C02_rule_iff_default_values_of_correct_type.

Theorem C02_rule_iff_variables_in_allowed_position : forall S W,
  rule_variables_in_allowed_position S W <> [] <-> Violates_variables_in_allowed_position S W.
Proof. exact variables_in_allowed_position_iff. Qed.
Print Assumptions C02_rule_iff_variables_in_allowed_position.

Theorem C02_rule_iff_fragments_on_composite_types : forall S W,
  rule_fragments_on_composite S W <> [] <-> Violates_fragments_on_composite S W.
Proof. exact fragments_on_composite_iff. Qed.
Print Assumptions C02_rule_iff_fragments_on_composite_types.

Theorem C02_rule_iff_known_type_names : forall S W,
  rule_known_type_names S W <> [] <-> Violates_known_type_names S W.
Proof. exact known_type_names_iff. Qed.
Print Assumptions C02_rule_iff_known_type_names.

Theorem C02_rule_iff_unique_input_field_names : forall S W,
  rule_unique_input_field_names S W <> [] <-> Violates_unique_input_field_names S W.
Proof. exact unique_input_field_names_iff. Qed.
Print Assumptions C02_rule_iff_unique_input_field_names.

(* NoFragmentCycles, one direction (partial): the DFS as coded (visitedFrags, spreadPath,
   spreadPathIndexByName) reports an error only if some fragment reaches itself through
   spreads.  Missing: every cycle is reported (checked by the differential against an
   independent reachability test). *)
Theorem C02_rule_sound_no_fragment_cycles_partial : forall W,
  rule_no_fragment_cycles W <> [] -> Violates_no_fragment_cycles W.
Proof. exact no_fragment_cycles_sound. Qed.
Print Assumptions C02_rule_sound_no_fragment_cycles_partial.

(* NoFragmentCycles, both directions: with unique fragment names the DFS as coded reports an
   error exactly when some fragment reaches itself through spreads. *)
Theorem C02_rule_iff_no_fragment_cycles : forall W,
  NoDup (map wf_name (w_frags W)) ->
  (rule_no_fragment_cycles W <> [] <-> Violates_no_fragment_cycles W).
Proof. exact no_fragment_cycles_iff. Qed.
Print Assumptions C02_rule_iff_no_fragment_cycles.

(* NoUnusedFragments, both directions: a fragment definition is reported exactly when no
   operation reaches it through spreads.  The closure iteration of the model of
   RecursivelyReferencedFragments (|fragments| + 1 rounds) never falls short
   (C02_closure_reaches_fixpoint: every unstable round was preceded by the first appearance of
   a defined fragment name). *)
Theorem C02_closure_reaches_fixpoint : forall W, closures_stable W = true.
Proof. exact closures_stable_always. Qed.
Print Assumptions C02_closure_reaches_fixpoint.

Theorem C02_rule_iff_no_unused_fragments : forall W,
  rule_no_unused_fragments W <> [] <-> Violates_no_unused_fragments W.
Proof. exact no_unused_fragments_iff_all. Qed.
Print Assumptions C02_rule_iff_no_unused_fragments.

(* ---- relational specifications of the helpers the simple rules share ---- *)

(* RecursiveVariableUsages: the model's usages of an operation are exactly the usages that
   occur in the operation or in a fragment reachable from it through spreads (inductive
   Reach; UsedIn is defined in Proofs/ValidateRulesDecl.v). *)
Theorem C02_recursive_variable_usages : forall S W o u, In u (rec_uses S W o) <-> UsedIn S W o u.
Proof. exact rec_uses_iff. Qed.
Print Assumptions C02_recursive_variable_usages.

Theorem C02_rule_iff_no_undefined_variables_decl : forall S W,
  rule_no_undefined_variables S W <> [] <-> Violates_no_undefined_variables_decl S W.
Proof. exact no_undefined_variables_decl_iff. Qed.
Print Assumptions C02_rule_iff_no_undefined_variables_decl.

Theorem C02_rule_iff_no_unused_variables_decl : forall S W,
  rule_no_unused_variables S W <> [] <-> Violates_no_unused_variables_decl S W.
Proof. exact no_unused_variables_decl_iff. Qed.
Print Assumptions C02_rule_iff_no_unused_variables_decl.

(* isTypeSubTypeOf is the inductive subtype relation (equal names; object possible for an
   abstract type; non-null covariant; non-null below nullable; lists covariant). *)
Theorem C02_subtype_iff : forall S a b, subtype S a b = true <-> Subtype S a b.
Proof. exact subtype_iff. Qed.
Print Assumptions C02_subtype_iff.

(* VariablesInAllowedPosition: a variable is used where its declared type -- made non-null
   when it has a default value -- is not a subtype of the expected type. *)
Theorem C02_rule_iff_variables_in_allowed_position_decl : forall S W,
  rule_variables_in_allowed_position S W <> [] <-> Violates_variables_in_allowed_position_decl S W.
Proof. exact variables_in_allowed_position_decl_iff. Qed.
Print Assumptions C02_rule_iff_variables_in_allowed_position_decl.

(* doTypesOverlap: two types overlap iff they are equal or share a possible object type. *)
Theorem C02_types_overlap_iff : forall S t1 t2, types_overlap S t1 t2 = true <-> Overlaps S t1 t2.
Proof. exact types_overlap_iff. Qed.
Print Assumptions C02_types_overlap_iff.

Theorem C02_rule_iff_possible_fragment_spreads_decl : forall S W,
  rule_possible_fragment_spreads S W <> [] <-> Violates_possible_fragment_spreads_decl S W.
Proof. exact possible_fragment_spreads_decl_iff. Qed.
Print Assumptions C02_rule_iff_possible_fragment_spreads_decl.

(* isValidLiteralValue is the inductive relation ValidLit (Proofs/ValidateLiteral.v): variables
   anywhere; non-null = the inner type; a list literal elementwise, any other literal as a
   single item; an input object: every provided field defined, the last value given for a
   field valid for it, every field not given nullable; scalars by their parse function; enum
   values by name; anything for other named types. *)
Theorem C02_valid_literal_iff : forall S v t, vlit S v t = true <-> ValidLit S v t.
Proof. exact vlit_iff. Qed.
Print Assumptions C02_valid_literal_iff.

Theorem C02_rule_iff_arguments_of_correct_type_decl : forall S W,
  rule_arguments_of_correct_type S W <> [] <-> Violates_arguments_of_correct_type_decl S W.
Proof. exact arguments_of_correct_type_decl_iff. Qed.
Print Assumptions C02_rule_iff_arguments_of_correct_type_decl.

Theorem C02_rule_iff_default_values_of_correct_type_decl : forall S W,
  rule_default_values_of_correct_type S W <> [] <-> Violates_default_values_of_correct_type_decl S W.
Proof. exact default_values_of_correct_type_decl_iff. Qed.
Print Assumptions C02_rule_iff_default_values_of_correct_type_decl.

(* ---- the executable overlap algorithm decides the declarative layers ---- *)

(* Reflection of the unmemoised executable (the fuelled conflict finder as coded, fragments
   visited through the spreads of the compared sets) into the declarative decomposition L2:
   for every document whose selection sets are told apart by (parent type, first node id) and
   whose fields have unique argument names, over a schema that does not redefine __typename /
   String (meta_ok), with a rank rk (acyclic): if the run completes within its fuel (no
   out-of-fuel flag) and reports nothing, every check of the A-J decomposition passes on
   every selection set -- over ALL ordered pairs of fields (the code compares each unordered
   pair once and never a field with itself) and under the rule's own parent types. *)
Theorem C02_overlap_unmemo_reflects : forall S D,
  ids_distinct S D -> args_unique S D -> meta_ok S = true ->
  forall rk, ranked S D rk ->
  forall fuel, run_overlap S D false fuel = [] -> run_complete S D false fuel = true -> L2_accepts S D.
Proof. exact exec_decides_L2. Qed.
Print Assumptions C02_overlap_unmemo_reflects.

(* Fuel sufficiency: on an acyclic document neither the memoised nor the unmemoised run sets
   the out-of-fuel flag when given fuel_of D = 3 + 6 * ((|fragments|+1) * (depth+1) + depth)
   or more (depth = deepest field nesting of an operation / fragment body). *)
Theorem C02_overlap_fuel_sufficient : forall S D memo fuel,
  acyclic S D -> (fuel_of D <= fuel)%nat -> run_complete S D memo fuel = true.
Proof. exact fuel_sufficient. Qed.
Print Assumptions C02_overlap_fuel_sufficient.

(* The unmemoised executable decides L2. *)
Theorem C02_overlap_unmemo_decides_L2 : forall S D fuel,
  acyclic S D -> ids_distinct S D -> args_unique S D -> meta_ok S = true -> (fuel_of D <= fuel)%nat ->
  (run_overlap S D false fuel = [] <-> L2_accepts S D).
Proof. exact unmemo_decides_L2. Qed.
Print Assumptions C02_overlap_unmemo_decides_L2.

(* L3 = L2 = L1: the executable algorithm, with or without the memo tables, reports nothing
   exactly when every two fields that can land on one response key are compatible, however
   deeply nested in fragment spreads.  Soundness (a reported conflict => L1 violated) is the
   <- direction read contrapositively, completeness (L1 violated => a conflict is reported)
   the -> direction. *)
Theorem C02_overlap_exec_decides : forall S D memo fuel,
  acyclic S D -> ids_distinct S D -> args_unique S D -> meta_ok S = true -> (fuel_of D <= fuel)%nat ->
  (run_overlap S D memo fuel = [] <-> L1_accepts S D).
Proof. exact exec_decides_L1. Qed.
Print Assumptions C02_overlap_exec_decides.

Theorem C02_overlap_sound : forall S D memo fuel,
  acyclic S D -> run_overlap S D memo fuel <> [] -> ~ L1_accepts S D.
Proof. intros S D memo fuel A H L. apply H. apply L1_accepts_exec; assumption. Qed.
Print Assumptions C02_overlap_sound.

Theorem C02_overlap_complete : forall S D memo fuel,
  acyclic S D -> ids_distinct S D -> args_unique S D -> meta_ok S = true -> (fuel_of D <= fuel)%nat ->
  ~ L1_accepts S D -> run_overlap S D memo fuel <> [].
Proof.
  intros S D memo fuel A Hid Ha Hm Hf HN E. apply HN.
  apply (proj1 (exec_decides_L1 S D memo fuel A Hid Ha Hm Hf)). exact E.
Qed.
Print Assumptions C02_overlap_complete.

(* Soundness with the witness and the location (no hypothesis: any schema, any document --
   cyclic or not --, with or without the memo tables, any fuel): every node the run reports
   is a field a of a visited selection set s such that some field b, both reachable in the
   unfolded selection set (EF: through inline fragments and any chain of spreads), has the
   same response key and conflicts with it -- Cfl: names, arguments or return types disagree
   (FieldsInSetCanMerge / SameResponseShape on the two fields), or, recursively, two fields of
   their unfolded sub-selections with one response key conflict; Cfl refutes compat. *)
Theorem C02_overlap_sound_witness : forall S D memo fuel x, In x (run_overlap S D memo fuel) ->
  exists s a b, doc_sets S D s /\ EF S D s a /\ EF S D s b /\ fe_key a = fe_key b /\ fe_id a = x /\
                Cfl S D false a b /\ ~ compat S D (base2 S) false a b.
Proof. exact overlap_sound_witness. Qed.
Print Assumptions C02_overlap_sound_witness.

(* The runner's oracle for the location of overlap errors: whenever offending_o answers, its
   ids are exactly the fields of visited selection sets that are a member of an incompatible
   pair with one response key (Offending, Proofs/ValidateOffending.v), and every node the
   model of the rule reports -- memoised or not, any fuel -- is among them. *)
Theorem C02_offending_oracle : forall S D fuel ids, offending_o S D fuel = Some ids ->
  forall x, In x ids <-> exists s, In s (all_sets S D) /\ Offending S D s x.
Proof. exact offending_o_spec. Qed.
Print Assumptions C02_offending_oracle.

Theorem C02_overlap_reports_offending : forall S D fuel ids, offending_o S D fuel = Some ids ->
  forall memo fuel' x, In x (run_overlap S D memo fuel') -> In x ids.
Proof. exact model_reports_offending. Qed.
Print Assumptions C02_overlap_reports_offending.

(* The Prop-level hypotheses follow from decidable tests (Validate/OverlapWf.v), which the
   runner evaluates on every case: ids_ok (selection node ids pairwise distinct and non-zero),
   args_ok (every field node has pairwise distinct argument names), ranked_b (the longest
   spread chain from a fragment, computed with |fragments|+1 fuel, decreases along every
   spread).  ranked_b is exact: it holds iff the document has a rank iff no fragment reaches
   itself through spreads. *)
Theorem C02_wf_ids : forall S D, ids_ok D = true -> ids_distinct S D.
Proof. exact ids_ok_distinct. Qed.
Print Assumptions C02_wf_ids.

Theorem C02_wf_args : forall S D, args_ok D = true -> args_unique S D.
Proof. exact args_ok_unique. Qed.
Print Assumptions C02_wf_args.

Theorem C02_wf_acyclic : forall S D,
  (ranked_b D = true <-> acyclic S D) /\ (acyclic S D <-> no_cycle S D).
Proof.
  intros S D. split; [apply ranked_b_acyclic|]. split; [apply acyclic_no_cycle | apply rank_exists].
Qed.
Print Assumptions C02_wf_acyclic.

(* With unique fragment names the certified test decides NoFragmentCycles' declarative
   predicate (the runner's Spec oracle for that rule). *)
Theorem C02_cycles_oracle : forall W, NoDup (map wf_name (w_frags W)) ->
  (ranked_b (erase W) = true <-> ~ Violates_no_fragment_cycles W).
Proof. exact cycles_oracle. Qed.
Print Assumptions C02_cycles_oracle.

(* The overlap rule's executable decision, under decidable hypotheses only. *)
Theorem C02_overlap_exec_decides_b : forall S D memo fuel,
  ranked_b D = true -> ids_ok D = true -> args_ok D = true -> meta_ok S = true -> (fuel_of D <= fuel)%nat ->
  (run_overlap S D memo fuel = [] <-> L1_accepts S D).
Proof.
  intros S D memo fuel Hr Hi Ha Hm Hf.
  apply exec_decides_L1; [apply (proj1 (ranked_b_acyclic S D)); exact Hr | apply ids_ok_distinct; exact Hi
                         | apply args_ok_unique; exact Ha | exact Hm | exact Hf].
Qed.
Print Assumptions C02_overlap_exec_decides_b.

(* The validator's model accepts a document iff no rule is violated (Violates r is the
   declarative predicate of rule r -- the relational _decl form where one exists; for the
   overlap rule it is ~ L1_accepts).  The hypotheses
   are decidable and hold for every parsed document over a schema the library accepts (the
   runner checks them on every case): distinct
   non-zero selection ids, no redefinition of __typename / String, enough fuel.  Unique
   fragment names, acyclicity and unique argument names are NOT assumed: a document violating
   them is rejected by UniqueFragmentNames / NoFragmentCycles / UniqueArgumentNames on both
   sides of the equivalence. *)
Theorem C02_accept_iff : forall fuel S W,
  ids_ok (erase W) = true ->
  meta_ok S = true ->
  (fuel_of (erase W) <= fuel)%nat ->
  (validate_model fuel S W = [] <-> forall r, ~ Violates r S W).
Proof. exact accept_iff. Qed.
Print Assumptions C02_accept_iff.

(* ---- locations: every node a rule's model reports is a node of the document of the kind the
   rule names (the remaining rules; the overlap rule: C02_overlap_sound_witness) ---- *)
(* the name node of a named operation / the node of an anonymous one *)
Theorem C02_rule_located_unique_operation_names : forall W x, In x (rule_unique_operation_names W) -> exists o, In o (w_ops W) /\ x = snd (op_key o).
Proof.
  intros; eapply unique_operation_names_located; eassumption.
Qed.
Print Assumptions C02_rule_located_unique_operation_names.

(* the name node of a fragment definition *)
Theorem C02_rule_located_unique_fragment_names : forall W x, In x (rule_unique_fragment_names W) -> exists f, In f (w_frags W) /\ x = wf_nid f.
Proof.
  intros; eapply unique_fragment_names_located; eassumption.
Qed.
Print Assumptions C02_rule_located_unique_fragment_names.

(* the name node of a variable definition *)
Theorem C02_rule_located_unique_variable_names : forall W x, In x (rule_unique_variable_names W) -> exists o v, In o (w_ops W) /\ In v (wo_vars o) /\ x = wv_nid v.
Proof.
  intros; eapply unique_variable_names_located; eassumption.
Qed.
Print Assumptions C02_rule_located_unique_variable_names.

(* an argument node of a field or directive *)
Theorem C02_rule_located_unique_argument_names : forall S W x, In x (rule_unique_argument_names S W) -> exists i a, In i (doc_items S W) /\ In a (item_args i) /\ x = wa_id a.
Proof.
  intros; eapply unique_argument_names_located; eassumption.
Qed.
Print Assumptions C02_rule_located_unique_argument_names.

(* the selection set of a leaf field / the composite field without one *)
Theorem C02_rule_located_scalar_leafs : forall S W x, In x (rule_scalar_leafs S W) -> exists pt fd id nm args ssid hs, In (IField pt fd id nm args ssid hs) (doc_items S W) /\ (x = ssid \/ x = id).
Proof.
  intros; eapply scalar_leafs_located; eassumption.
Qed.
Print Assumptions C02_rule_located_scalar_leafs.

(* the directive node *)
Theorem C02_rule_located_known_directives : forall S W x, In x (rule_known_directives S W) -> exists loc dd d, In (IDir loc dd d) (doc_items S W) /\ x = wd_id d.
Proof.
  intros; eapply known_directives_located; eassumption.
Qed.
Print Assumptions C02_rule_located_known_directives.

(* the argument node *)
Theorem C02_rule_located_known_argument_names : forall S W x, In x (rule_known_argument_names S W) -> exists ow ad a, In (IArg ow ad a) (doc_items S W) /\ x = wa_id a.
Proof.
  intros; eapply known_argument_names_located; eassumption.
Qed.
Print Assumptions C02_rule_located_known_argument_names.

(* the field or directive node *)
Theorem C02_rule_located_provided_non_null_arguments : forall S W x, In x (rule_provided_non_null_arguments S W) -> (exists pt fd nm args ssid hs, In (IField pt fd x nm args ssid hs) (doc_items S W)) \/ (exists loc dd d, In (IDir loc dd d) (doc_items S W) /\ x = wd_id d).
Proof.
  intros; eapply provided_non_null_arguments_located; eassumption.
Qed.
Print Assumptions C02_rule_located_provided_non_null_arguments.

(* the inline fragment or the spread *)
Theorem C02_rule_located_possible_fragment_spreads : forall S W x, In x (rule_possible_fragment_spreads S W) -> (exists pt ty tc, In (IInline pt ty x tc) (doc_items S W)) \/ (exists pt nid g, In (ISpread pt x nid g) (doc_items S W)).
Proof.
  intros; eapply possible_fragment_spreads_located; eassumption.
Qed.
Print Assumptions C02_rule_located_possible_fragment_spreads.

(* the type condition *)
Theorem C02_rule_located_fragments_on_composite_types : forall S W x, In x (rule_fragments_on_composite S W) -> (exists pt ty id tc, In (IInline pt ty id (Some tc)) (doc_items S W) /\ x = fst tc) \/ (exists f, In f (w_frags W) /\ x = wf_tcid f).
Proof.
  intros; eapply fragments_on_composite_located; eassumption.
Qed.
Print Assumptions C02_rule_located_fragments_on_composite_types.

(* the fragment definition *)
Theorem C02_rule_located_no_unused_fragments : forall W x, In x (rule_no_unused_fragments W) -> exists f, In f (w_frags W) /\ x = wf_id f.
Proof.
  intros; eapply no_unused_fragments_located; eassumption.
Qed.
Print Assumptions C02_rule_located_no_unused_fragments.

(* the variable usage *)
Theorem C02_rule_located_no_undefined_variables : forall S W x, In x (rule_no_undefined_variables S W) -> exists o u, In o (w_ops W) /\ In u (rec_uses S W o) /\ x = fst u.
Proof.
  intros; eapply no_undefined_variables_located; eassumption.
Qed.
Print Assumptions C02_rule_located_no_undefined_variables.

(* the variable definition *)
Theorem C02_rule_located_no_unused_variables : forall S W x, In x (rule_no_unused_variables S W) -> exists o v, In o (w_ops W) /\ In v (wo_vars o) /\ x = wv_vid v.
Proof.
  intros; eapply no_unused_variables_located; eassumption.
Qed.
Print Assumptions C02_rule_located_no_unused_variables.

(* the type of the variable definition *)
Theorem C02_rule_located_variables_are_input_types : forall S W x, In x (rule_variables_are_input_types S W) -> exists o v, In o (w_ops W) /\ In v (wo_vars o) /\ x = wt_id (wv_type v).
Proof.
  intros; eapply variables_are_input_types_located; eassumption.
Qed.
Print Assumptions C02_rule_located_variables_are_input_types.

(* the default value *)
Theorem C02_rule_located_default_values_of_correct_type : forall S W x, In x (rule_default_values_of_correct_type S W) -> exists o v d, In o (w_ops W) /\ In v (wo_vars o) /\ wv_default v = Some d /\ x = wv_id d.
Proof.
  intros; eapply default_values_of_correct_type_located; eassumption.
Qed.
Print Assumptions C02_rule_located_default_values_of_correct_type.

(* the definition of the variable *)
Theorem C02_rule_located_variables_in_allowed_position : forall S W x, In x (rule_variables_in_allowed_position S W) -> exists o vd, In o (w_ops W) /\ In vd (wo_vars o) /\ x = wv_vid vd.
Proof.
  intros; eapply variables_in_allowed_position_located; eassumption.
Qed.
Print Assumptions C02_rule_located_variables_in_allowed_position.

(* a named-type node *)
Theorem C02_rule_located_known_type_names : forall S W x, In x (rule_known_type_names S W) -> (exists o v, In o (w_ops W) /\ In v (wo_vars o) /\ x = fst (type_named (wv_type v))) \/ (exists pt ty id tc, In (IInline pt ty id (Some tc)) (doc_items S W) /\ x = fst tc) \/ (exists f, In f (w_frags W) /\ x = wf_tcid f).
Proof.
  intros; eapply known_type_names_located; eassumption.
Qed.
Print Assumptions C02_rule_located_known_type_names.

(* a fragment spread inside some fragment definition (the spread that closes / starts the cycle) *)
Theorem C02_rule_located_no_fragment_cycles : forall W x, In x (rule_no_fragment_cycles W) ->
  exists f, In f (w_frags W) /\ In x (map fst (ctx_spreads (wf_sel f))).
Proof. exact no_fragment_cycles_located. Qed.
Print Assumptions C02_rule_located_no_fragment_cycles.

(* the name node of a field of an object literal that occurs in a default value or an argument value *)
Theorem C02_rule_located_unique_input_field_names : forall S W x, In x (rule_unique_input_field_names S W) ->
  exists v o p, sub_obj v o /\ In p o /\ x = fst p /\
    ((exists op vd, In op (w_ops W) /\ In vd (wo_vars op) /\ wv_default vd = Some v) \/
     (exists ow ad a, In (IArg ow ad a) (doc_items S W) /\ wa_val a = v)).
Proof. exact unique_input_field_names_located. Qed.
Print Assumptions C02_rule_located_unique_input_field_names.

(* ---- termination of the validator's model as a whole ----
   Only the overlap rule's model takes fuel.  The other recursive models are structural
   (literal validity on nested values, the TypeInfo walk, NoUnusedFragments / variable usages
   via closures of |fragments| + 1 rounds: C02_closure_reaches_fixpoint) or carry an internal
   fuel that is proved never to run out (NoFragmentCycles' detect: C02_cycles_fuel_irrelevant).
   vfuel W = max 200 (fuel_of (erase W)) is computable and polynomial: 3 + 6 * ((|fragments| + 1)
   * (depth + 1) + depth). *)

(* The overlap model: once a run completes within its fuel, every larger fuel gives the same
   conflicts and completes too -- memoised or not, cyclic documents included. *)
Theorem C02_overlap_fuel_irrelevant : forall S D memo f f', (f <= f')%nat ->
  run_complete S D memo f = true ->
  run_overlap S D memo f' = run_overlap S D memo f /\ run_complete S D memo f' = true.
Proof. exact run_fuel_mono. Qed.
Print Assumptions C02_overlap_fuel_irrelevant.

(* Acyclic documents (decidable test ranked_b): from vfuel on, the validator's model returns one
   fixed list and the overlap model never runs out of fuel. *)
Theorem C02_validate_fuel_sufficient : forall S W fuel,
  ranked_b (erase W) = true -> (vfuel W <= fuel)%nat ->
  validate_model fuel S W = validate_model (vfuel W) S W /\ run_complete S (erase W) true fuel = true.
Proof. exact validate_fuel_sufficient. Qed.
Print Assumptions C02_validate_fuel_sufficient.

(* Any document, cyclic ones included (partial: the hypothesis is that the memoised overlap model
   completes at some fuel f -- it terminates there through its visited sets, but a static bound
   on its recursion depth in terms of the number of memo entries is not proved; the runner
   evaluates run_complete on every case): from f on, the same list and no out-of-fuel. *)
Theorem C02_validate_fuel_sufficient_cyclic_partial : forall S W f fuel,
  run_complete S (erase W) true f = true -> (f <= fuel)%nat ->
  validate_model fuel S W = validate_model f S W /\ run_complete S (erase W) true fuel = true.
Proof. exact validate_fuel_stable. Qed.
Print Assumptions C02_validate_fuel_sufficient_cyclic_partial.

(* More fuel, same verdict -- for every schema and every document: an acyclic document by
   C02_validate_fuel_sufficient, a cyclic one because NoFragmentCycles (or UniqueFragmentNames)
   rejects it whatever the overlap model does. *)
Theorem C02_validate_fuel_irrelevant : forall S W fuel fuel',
  (vfuel W <= fuel)%nat -> (vfuel W <= fuel')%nat ->
  (validate_model fuel S W = [] <-> validate_model fuel' S W = []).
Proof. exact validate_fuel_irrelevant. Qed.
Print Assumptions C02_validate_fuel_irrelevant.

(* NoFragmentCycles: the depth-first search with any fuel of at least |fragments| + 1 is the
   rule's model (which uses exactly |fragments| + 1): the search never exhausts its fuel, every
   recursive call descends into a definition name not visited before. *)
Theorem C02_cycles_fuel_irrelevant : forall W n, (Datatypes.S (List.length (w_frags W)) <= n)%nat ->
  cycles_with_fuel W n = rule_no_fragment_cycles W.
Proof. exact cycles_fuel_irrelevant. Qed.
Print Assumptions C02_cycles_fuel_irrelevant.

(* ---- non-vacuity ---- *)
Definition exS : schema :=
  {| s_types := [("String", TScalar SString);
                 ("Q", TObject [{| f_name := "a"; f_args := []; f_type := TNamed "String" |};
                                {| f_name := "b"; f_args := []; f_type := TNamed "String" |}] [])];
     s_query := "Q"; s_mutation := None |}.
(* { x: a ...F } fragment F on Q { ...G } fragment G on Q { x: b } *)
Definition exD : document :=
  {| d_ops := [{| o_kind := OpQuery; o_name := None; o_vars := [];
                  o_sel := [SField 2 (Some "x") "a" [] [] []; SSpread 7 "F" []] |}];
     d_frags := [{| fr_name := "F"; fr_cond := "Q"; fr_sel := [SSpread 30 "G" []] |};
                 {| fr_name := "G"; fr_cond := "Q"; fr_sel := [SField 56 (Some "x") "b" [] [] []] |}] |}.

Example C02_nonvacuous_model :
  acyclic_b exD = true /\ L1b exS exD 50 = false /\ run_overlap exS exD true 50 = [2%N] /\
  run_overlap exS exD false 50 = [2%N].
Proof. repeat split; vm_compute; reflexivity. Qed.

(* the hypotheses of C02_overlap_exec_decides_b hold on the example (which is rejected), and on
   its repaired version (accepted) *)
Definition exD' : document :=
  {| d_ops := d_ops exD;
     d_frags := [{| fr_name := "F"; fr_cond := "Q"; fr_sel := [SSpread 30 "G" []] |};
                 {| fr_name := "G"; fr_cond := "Q"; fr_sel := [SField 56 (Some "x") "a" [] [] []] |}] |}.
Example C02_nonvacuous_decides :
  ranked_b exD = true /\ ids_ok exD = true /\ args_ok exD = true /\ meta_ok exS = true /\
  Nat.leb (fuel_of exD) 50 = true /\ run_overlap exS exD false 50 = [2%N] /\
  ranked_b exD' = true /\ ids_ok exD' = true /\ args_ok exD' = true /\ Nat.leb (fuel_of exD') 50 = true /\
  run_overlap exS exD' true 50 = [] /\ run_overlap exS exD' false 50 = [] /\ L1o exS exD' 50 = Some true.
Proof. repeat split; vm_compute; reflexivity. Qed.

(* the hypotheses of C02_accept_iff hold on a valid and on an invalid document *)
Definition exW (second : name) : wdoc :=
  {| w_ops := [{| wo_id := 0; wo_kind := OpQuery; wo_name := None; wo_vars := []; wo_dirs := []; wo_ssid := 0;
                  wo_sel := [WField 2 (Some "x") "a" [] [] 0 []; WSpread 7 10 "F" []] |}];
     w_frags := [{| wf_id := 12; wf_nid := 21; wf_name := "F"; wf_tcid := 26; wf_cond := "Q"; wf_dirs := [];
                    wf_ssid := 28; wf_sel := [WSpread 30 33 "G" []] |};
                 {| wf_id := 37; wf_nid := 46; wf_name := "G"; wf_tcid := 51; wf_cond := "Q"; wf_dirs := [];
                    wf_ssid := 53; wf_sel := [WField 56 (Some "x") second [] [] 0 []] |}] |}.
Example C02_nonvacuous_accept :
  ids_ok (erase (exW "a")) = true /\ meta_ok exS = true /\
  Nat.leb (fuel_of (erase (exW "a"))) 50 = true /\ validate_model 50 exS (exW "a") = [] /\
  ids_ok (erase (exW "b")) = true /\
  Nat.leb (fuel_of (erase (exW "b"))) 50 = true /\ validate_model 50 exS (exW "b") = [2%N].
Proof. repeat split; vm_compute; reflexivity. Qed.

(* a cyclic document: { ...F } fragment F on Q { a ...G } fragment G on Q { ...F }; the memoised
   overlap model completes (visited sets), the verdict does not depend on the fuel *)
Definition exWcyc : wdoc :=
  {| w_ops := [{| wo_id := 0; wo_kind := OpQuery; wo_name := None; wo_vars := []; wo_dirs := []; wo_ssid := 0;
                  wo_sel := [WSpread 2 5 "F" []] |}];
     w_frags := [{| wf_id := 9; wf_nid := 18; wf_name := "F"; wf_tcid := 23; wf_cond := "Q"; wf_dirs := [];
                    wf_ssid := 25; wf_sel := [WField 27 None "a" [] [] 0 []; WSpread 29 32 "G" []] |};
                 {| wf_id := 36; wf_nid := 45; wf_name := "G"; wf_tcid := 50; wf_cond := "Q"; wf_dirs := [];
                    wf_ssid := 52; wf_sel := [WSpread 54 57 "F" []] |}] |}.
Example C02_nonvacuous_termination :
  ranked_b (erase exWcyc) = false /\ vfuel exWcyc = 200%nat /\
  run_complete exS (erase exWcyc) true (vfuel exWcyc) = true /\
  validate_model (vfuel exWcyc) exS exWcyc = validate_model 1000 exS exWcyc /\
  validate_model (vfuel exWcyc) exS exWcyc <> [] /\
  cycles_with_fuel exWcyc 50 = rule_no_fragment_cycles exWcyc /\ rule_no_fragment_cycles exWcyc <> [] /\
  ranked_b (erase (exW "a")) = true /\ validate_model (vfuel (exW "a")) exS (exW "a") = [].
Proof. repeat split; try (vm_compute; reflexivity); vm_compute; discriminate. Qed.

Example C02_nonvacuous_rules :
  rule_lone_anonymous {| w_ops := [ {| wo_id := 0; wo_kind := OpQuery; wo_name := None; wo_vars := [];
                                       wo_dirs := []; wo_ssid := 0; wo_sel := [] |};
                                    {| wo_id := 9; wo_kind := OpQuery; wo_name := Some (15%N, "A"); wo_vars := [];
                                       wo_dirs := []; wo_ssid := 17; wo_sel := [] |} ]; w_frags := [] |} = [0%N].
Proof. vm_compute. reflexivity. Qed.

(* ---- tables generated from the source (harness/gen.go writes Gen/Rules.v and Gen/Directives.v
   from rules.go and the linked library before every check run; these are re-proved then) ---- *)
From GQL Require Gen.Rules Gen.Directives Tables.RuleTable Tables.DirectiveRules Run.C02run.

(* The rule list of the source is the rule list of the model: the composite literal
   SpecifiedRules of rules.go names, in order, exactly the 24 rules that Run.C02run.run_rule
   implements under the indices 0..23 (Tables/RuleTable.v; 13 is the overlap rule); the linked
   slice is that literal; no rule is listed twice. *)
Theorem C02_gen_rule_list :
  Gen.Rules.specified_rules = Tables.RuleTable.model_rule_names /\
  Gen.Rules.specified_rules_linked = Gen.Rules.specified_rules /\
  Tables.RuleTable.model_rule_indices = Tables.RuleTable.upto 24 /\
  Tables.RuleTable.str_nodup Gen.Rules.specified_rules = true.
Proof.
  repeat split;
  first [ vm_compute; reflexivity
        | fail 1 "generated-table obligation C02_gen_rule_list no longer holds against the regenerated table: SpecifiedRules of rules.go (Gen/Rules.v) is not the rule list of the validation model (Tables/RuleTable.v)" ].
Qed.
Print Assumptions C02_gen_rule_list.

(* ... and the model has no rule beyond the table: every other index reports nothing. *)
Theorem C02_rule_indices_exhaustive : forall r S W, (24 <= r)%N -> Run.C02run.run_rule r S W = [].
Proof.
  intros [|p] S W H; [exfalso; apply H; reflexivity|].
  do 5 (try (destruct p as [p|p|]; try reflexivity)); exfalso; apply H; reflexivity.
Qed.
Print Assumptions C02_rule_indices_exhaustive.

(* The directive definitions the validation model uses (KnownDirectives, KnownArgumentNames,
   ProvidedNonNullArguments, ArgumentsOfCorrectType on directive arguments) are the linked
   graphql.SpecifiedDirectives: names, argument names / types / defaults, and the locations as
   far as the model distinguishes them. *)
Theorem C02_gen_specified_directives :
  Tables.DirectiveRules.gen_ddefs = Some Validate.Rules.specified_directives.
Proof.
  first [ vm_compute; reflexivity
        | fail 1 "generated-table obligation C02_gen_specified_directives no longer holds against the regenerated table: graphql.SpecifiedDirectives (Gen/Directives.v) are not the directive definitions of Validate/Rules.v" ].
Qed.
Print Assumptions C02_gen_specified_directives.
