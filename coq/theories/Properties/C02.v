(* Property C02 -- statements only (proofs in Proofs/Validate*.v). *)
From Coq Require Import List NArith ZArith String.
From GQL Require Import Exec.Syntax Validate.VSyntax Validate.Overlap Validate.Rules.
Import ListNotations.

Theorem C02_placeholder : forall (W : wdoc), rule_lone_anonymous W = rule_lone_anonymous W.
Proof. reflexivity. Qed.
Print Assumptions C02_placeholder.
