(* Property C13 -- top-level mutation fields execute serially in document order.
   Statements only; proofs in Proofs/ExecInv.v and Proofs/ExecSerial.v.
   The executor model (Exec/Exec.v) defers thunk outcomes at nullable positions and forces them in a
   dethunk pass, as plan.go does; for a mutation each top-level field is forced completely before
   the next one starts (fix 8600d4d).  st_calls is the list of resolver invocations in execution
   order, including those made while deferred values are forced. *)
From Coq Require Import List String Bool NArith.
From GQL Require Import Exec.Syntax Exec.Coerce Exec.Exec Exec.Request Run.ExecRun
     Proofs.ExecInv Proofs.ExecSerial Proofs.ExecObserve.
Import ListNotations.
Open Scope string_scope.
Open Scope list_scope.

(* For every schema, document, variables, resolver outcomes (values, errors, panics, thunks at any
   level) and fuel: in a mutation, the resolver invocations never return to an earlier top-level
   field -- everything of field i (its resolver, its sub-selection's resolvers, what it deferred)
   precedes everything of field j > i.  serial_ok is the predicate the runner evaluates on the
   implementation's own event log. *)
Theorem C13_serial : forall fuel S D opn inputs root or tor data s,
  is_mutation D opn = true ->
  request fuel S D opn inputs root or tor = RDone data s ->
  serial_ok (root_keys fuel S D opn inputs) (map c_path (st_calls s)) = true.
Proof. exact mutation_calls_serial. Qed.
Print Assumptions C13_serial.

(* At every level, for queries too: the invocations made for a selection set at path p are
   segmented by response key in collection order. *)
Theorem C13_segmented : forall fuel E obj src g p s,
  match exec_groups fuel E obj src g p s with
  | XOk _ s' | XRaise _ s' =>
    exists cs, st_calls s' = st_calls s ++ cs /\ Seg p (map fst g) (map c_path cs)
  | XFuel => True
  end.
Proof. exact groups_seg. Qed.
Print Assumptions C13_segmented.

(* Forcing deferred values never raises and leaves nothing deferred. *)
Theorem C13_dethunk_total : forall fuel E q s p, thunks_ok p q ->
  match dethunk fuel E q s with
  | XOk q' s' => ext p s s' /\ thunks q' = []
  | XRaise _ _ => False
  | XFuel => True
  end.
Proof. intros fuel E q s p H. exact (proj2 (proj2 (proj2 (exec_inv fuel))) E q s p H). Qed.
Print Assumptions C13_dethunk_total.

(* ---- non-vacuity: a mutation with two top-level fields whose first field defers a value that
        resolves a nested field when forced ---- *)
Definition S13 : schema := {|
  s_types := [("String", TScalar SString);
              ("O", TObject [{| f_name := "x"; f_args := []; f_type := TNamed "String" |}] []);
              ("Q", TObject [] []);
              ("M", TObject [{| f_name := "a"; f_args := []; f_type := TNamed "O" |};
                             {| f_name := "b"; f_args := []; f_type := TNamed "String" |}] [])];
  s_query := "Q"; s_mutation := Some "M" |}.
Definition D13 : document := {|
  d_ops := [{| o_kind := OpMutation; o_name := None; o_vars := [];
               o_sel := [SField 11%N None "a" [] [] [SField 15%N None "x" [] [] []]; SField 21%N None "b" [] [] []] |}];
  d_frags := [] |}.
Definition or13 : oracle := fun p =>
  match p with
  | [PKey "a"] => Some (OThunk (OVal (RObj 1%N "O")))
  | [PKey "a"; PKey "x"] => Some (OVal (RStr "x"))
  | [PKey "b"] => Some (OVal (RStr "b"))
  | _ => None
  end.

Example C13_nonvacuous :
  match request 20 S13 D13 None [] (RObj 0%N "root") or13 (fun _ => None) with
  | RDone (Some d) s =>
    map c_path (st_calls s) = [[PKey "a"]; [PKey "a"; PKey "x"]; [PKey "b"]] /\
    d = PObj [("a", PObj [("x", PLeaf (JStr "x"))]); ("b", PLeaf (JStr "b"))]
  | _ => False
  end.
Proof. vm_compute. split; reflexivity. Qed.

(* "each field observes all side effects of its predecessors and none of its successors": at the
   moment any invocation c belonging to top-level field j runs (the log splits as pre ++ c :: post),
   every invocation that already ran belongs to a field at or before j and every invocation still to
   come belongs to a field at or after j. *)
Theorem C13_observes : forall fuel S D opn inputs root or tor data s pre c post j,
  is_mutation D opn = true ->
  request fuel S D opn inputs root or tor = RDone data s ->
  st_calls s = pre ++ c :: post ->
  top_index (root_keys fuel S D opn inputs) (c_path c) = Some j ->
  Forall (fun q => exists i, top_index (root_keys fuel S D opn inputs) (c_path q) = Some i /\ (i <= j)%N) pre /\
  Forall (fun q => exists i, top_index (root_keys fuel S D opn inputs) (c_path q) = Some i /\ (j <= i)%N) post.
Proof. exact mutation_observes. Qed.
Print Assumptions C13_observes.

(* every invocation made for a mutation belongs to one of its top-level fields *)
Theorem C13_calls_indexed : forall fuel S D opn inputs root or tor data s,
  is_mutation D opn = true ->
  request fuel S D opn inputs root or tor = RDone data s ->
  Forall (fun c => exists i, top_index (root_keys fuel S D opn inputs) (c_path c) = Some i) (st_calls s).
Proof. exact mutation_calls_indexed. Qed.
Print Assumptions C13_calls_indexed.

(* the invocations observed by c (those before it) contain all the work of every earlier top-level
   field and nothing of a later one *)
Theorem C13_observed_effects : forall fuel S D opn inputs root or tor data s pre c post j,
  is_mutation D opn = true ->
  request fuel S D opn inputs root or tor = RDone data s ->
  st_calls s = pre ++ c :: post ->
  top_index (root_keys fuel S D opn inputs) (c_path c) = Some j ->
  let keys := root_keys fuel S D opn inputs in
  filter (of_field keys (fun i => (i <? j)%N)) (st_calls s) = filter (of_field keys (fun i => (i <? j)%N)) pre /\
  filter (of_field keys (fun i => (j <? i)%N)) pre = [].
Proof. exact mutation_observed_effects. Qed.
Print Assumptions C13_observed_effects.

(* non-vacuity of C13_observes on the example above: the invocation of b (field 1) observes both
   invocations of field 0, including the nested one made when the deferred value of a was forced *)
Example C13_observes_nonvacuous :
  match request 20 S13 D13 None [] (RObj 0%N "root") or13 (fun _ => None) with
  | RDone _ s =>
    exists c0 c1 c2, st_calls s = [c0; c1] ++ c2 :: [] /\
      top_index (root_keys 20 S13 D13 None []) (c_path c2) = Some 1%N /\
      is_mutation D13 None = true
  | _ => False
  end.
Proof. vm_compute. do 3 eexists. repeat split. Qed.
