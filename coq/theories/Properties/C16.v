(* Property C16 -- cancellation and deadlines yield either the full response or the context error.
   Statements only (proofs: Proofs/ConcCancel.v), about the labelled transition system
   Conc/CancelLts.v of ExecutePlan: the caller goroutine (spawn, then select on ctx.Done and the
   buffered result channel), the background goroutine (variable coercion, the n resolvers one
   after the other, assembling, the deferred send), ctx.Done as an event that may fire between
   any two steps, resolvers and ParseValue as user code that blocks until the environment opens
   its gate.  All statements hold for every n, every schedule (every reachable state). *)
From Coq Require Import List Arith Bool.
From GQL Require Import Conc.CancelLts Proofs.ConcCancel.
Import ListNotations.

(* Two outcomes: whatever the schedule, a returned call carries either {no data, ctx.Err()} - and
   then Done had fired - or the complete normal response: its data assembled from the outcomes of
   all n resolvers (never a partially filled tree) and its error list holding one error for every
   resolver that failed, in order, none missing and none extra (errs = errors_of outs), or the
   coercion error when coercion failed. *)
Theorem C16_two_outcomes : forall n cap s r, reach n cap s -> cp s = CReturned r ->
  match r with
  | RetCtx => done s = true
  | RetResp (RespFull outs e) => length outs = n /\ outs = gates s /\ vgate s = Some true /\ e = errors_of outs
  | RetResp RespVarErr => vgate s = Some false
  end.
Proof. exact two_outcomes. Qed.
Print Assumptions C16_two_outcomes.

(* Prompt: once Done is signalled, at most two steps of the caller alone (spawn, ctx arm) return
   the call: no resolver step, no step of the background goroutine is needed. *)
Theorem C16_prompt : forall n cap s, reach n cap s -> done s = true -> returned s = false -> cp s <> CIdle ->
  exists ls s', run n cap s ls s' /\ Forall (fun l => caller l = true) ls /\ length ls <= 2 /\ returned s' = true.
Proof. exact prompt_return. Qed.
Print Assumptions C16_prompt.

(* Never blocks: with a buffer of at least one slot the background goroutine's send is enabled
   whenever it is reached, so the goroutine always ends - also after the caller left on ctx.Done. *)
Theorem C16_never_blocks : forall n cap, 1 <= cap -> forall s r, reach n cap s -> bp s = BFinish r ->
  exists s', step n cap s LSend s'.
Proof. exact send_never_blocks. Qed.
Print Assumptions C16_never_blocks.

(* The call itself never blocks forever: when Done has fired, or when every gate is open (all
   resolvers return), library steps alone lead to the return; library-only runs are finite. *)
Theorem C16_call_returns : forall n cap, 1 <= cap -> forall s, reach n cap s -> cp s <> CIdle ->
  done s = true \/ released n s ->
  exists ls s', run n cap s ls s' /\ Forall (fun l => lib l = true) ls /\ returned s' = true.
Proof. exact call_returns. Qed.
Print Assumptions C16_call_returns.

Theorem C16_library_runs_finite : forall n cap s ls s', run n cap s ls s' -> Forall (fun l => lib l = true) ls ->
  length ls + measure n s' <= measure n s.
Proof. exact lib_run_bounded. Qed.
Print Assumptions C16_library_runs_finite.

(* Witness for the role of the buffer: with an unbuffered channel the background goroutine stays
   blocked on its send for ever once the caller has returned on ctx.Done. *)
Theorem C16_refuted_unbuffered : forall n, exists s, reach n 0 s /\ cp s = CReturned RetCtx /\
  bp s = BFinish RespVarErr /\ forall l s', lib l = true -> ~ step n 0 s l s'.
Proof. intros n. exact (unbuffered_leaks n 0 eq_refl). Qed.
Print Assumptions C16_refuted_unbuffered.

(* Observed traces accepted by the executable acceptor are visible parts of runs of the LTS. *)
Theorem C16_accepts_sound : forall n cap os, accepts_obs n cap os = true ->
  exists s, orun n cap init os s /\ reach n cap s.
Proof. exact accepts_obs_sound. Qed.
Print Assumptions C16_accepts_sound.

(* ... and every run of the LTS has its visible trace accepted: the acceptor is exact, so a rejected
   observed trace (code 1 of the runner) is not a behaviour of the model. *)
Theorem C16_accepts_complete : forall n cap os s, orun n cap init os s -> accepts_obs n cap os = true.
Proof. exact accepts_obs_complete. Qed.
Print Assumptions C16_accepts_complete.

Theorem C16_acceptor_exact : forall n cap os, accepts_obs n cap os = true <-> exists s, orun n cap init os s.
Proof.
  intros n cap os. split.
  - intros H. destruct (accepts_obs_sound n cap os H) as (s & O & _). exists s. exact O.
  - intros (s & O). eapply accepts_obs_complete. exact O.
Qed.
Print Assumptions C16_acceptor_exact.

Theorem C16_accepts_schedules : forall n cap ls, accepts n cap ls = true <-> exists s, run n cap init ls s.
Proof. exact accepts_iff_run. Qed.
Print Assumptions C16_accepts_schedules.

Example C16_nonvacuous :
  (* cancel while resolver 2 of 3 is blocked: the call returns the context error, the rest finishes later *)
  accepts_obs 3 2 [OCall; OOpenVars true; OOpen true; ODone; ORet RetCtx; OOpen false; OOpen true; OQuiet] = true /\
  (* a full response cannot be returned while a gate is closed *)
  accepts_obs 3 2 [OCall; OOpenVars true; OOpen true; ODone; ORet (RetResp (RespFull [true; true; true] []))] = false /\
  (* completion first: the full response; a later cancel changes nothing *)
  accepts_obs 2 2 [OCall; OOpenVars true; OOpen true; OOpen false; ORet (RetResp (RespFull [true; false] [1])); ODone; OQuiet] = true /\
  (* not the context error without Done *)
  accepts_obs 2 2 [OCall; OOpenVars true; ORet RetCtx] = false /\
  (* racing: both outcomes are possible *)
  accepts_obs 1 2 [OCall; OOpenVars true; OOpen true; ODone; ORet RetCtx] = true /\
  accepts_obs 1 2 [OCall; OOpenVars true; OOpen true; ODone; ORet (RetResp (RespFull [true] []))] = true /\
  (* a normal response with one of its errors missing is not a behaviour *)
  accepts_obs 2 2 [OCall; OOpenVars true; OOpen false; OOpen false; ORet (RetResp (RespFull [false; false] [0]))] = false.
Proof.
  split; [vm_compute; reflexivity|]. split; [vm_compute; reflexivity|]. split; [vm_compute; reflexivity|].
  split; [vm_compute; reflexivity|]. split; [vm_compute; reflexivity|]. split; vm_compute; reflexivity.
Qed.

(* ---- constants generated from the source (harness/gen.go writes Gen/Consts.v from plan.go
   before every check run; these are re-proved then) ---- *)
From Coq Require Import NArith.
From GQL Require Gen.Consts.

(* C16_never_blocks and C16_call_returns for the code as it is: the result channel of
   ExecutePlan has the capacity found in the source (`make(chan *Result, N)`), the only channel
   the function sends on. *)
Theorem C16_gen_never_blocks : forall n,
  let cap := N.to_nat Gen.Consts.execute_plan_result_chan_cap in
  forall s r, reach n cap s -> bp s = BFinish r -> exists s', step n cap s LSend s'.
Proof.
  intros n cap. apply C16_never_blocks. apply Nat.leb_le.
  first [ vm_compute; reflexivity
        | fail 1 "generated-table obligation C16_gen_never_blocks no longer holds against the regenerated table: the result channel of ExecutePlan in plan.go has no buffer (Gen/Consts.v)" ].
Qed.
Print Assumptions C16_gen_never_blocks.

Theorem C16_gen_call_returns : forall n,
  let cap := N.to_nat Gen.Consts.execute_plan_result_chan_cap in
  forall s, reach n cap s -> cp s <> CIdle -> done s = true \/ released n s ->
  exists ls s', run n cap s ls s' /\ Forall (fun l => lib l = true) ls /\ returned s' = true.
Proof.
  intros n cap. apply C16_call_returns. apply Nat.leb_le.
  first [ vm_compute; reflexivity
        | fail 1 "generated-table obligation C16_gen_call_returns no longer holds against the regenerated table: the result channel of ExecutePlan in plan.go has no buffer (Gen/Consts.v)" ].
Qed.
Print Assumptions C16_gen_call_returns.

Theorem C16_gen_one_result_channel :
  Gen.Consts.execute_plan_result_send_chan_caps = [Gen.Consts.execute_plan_result_chan_cap].
Proof.
  first [ vm_compute; reflexivity
        | fail 1 "generated-table obligation C16_gen_one_result_channel no longer holds against the regenerated table: ExecutePlan in plan.go does not send on exactly one channel it makes (Gen/Consts.v)" ].
Qed.
Print Assumptions C16_gen_one_result_channel.
