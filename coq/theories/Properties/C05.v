(* Property C05 -- variables and arguments are coerced per declared type before resolvers run.
   Statements only; proofs in Proofs/CoerceProofs.v and Proofs/ExecProofs.v.
   SC / SL / NC (Exec/CoerceSpec.v) are the specification: conformant JSON-like values and
   constant literals with the value they coerce to, and the listed non-conformant values.
   valid_input / coerce_value / value_from_ast / get_variable_values (Exec/Coerce.v) model
   isValidInputValue / coerceValue / valueFromAST / getVariableValues of values.go. *)
From Coq Require Import List ZArith String.
From GQL Require Import Exec.Syntax Exec.Coerce Exec.CoerceSpec Exec.Exec Exec.Request
     Proofs.CoerceProofs Proofs.ExecProofs.
Import ListNotations.
Open Scope string_scope.

(* every listed non-conformant value is refused by the validity test, whatever the fuel *)
Theorem C05_nonconformant_rejected : forall S t v, NC S t v ->
  forall fuel b, valid_input fuel S t v = Some b -> b = false.
Proof. exact nonconformant_rejected. Qed.
Print Assumptions C05_nonconformant_rejected.

(* and the request is then answered with an error, no data, and no resolver is invoked
   (RReject carries neither data nor a resolver trace) *)
Theorem C05_bad_variable_rejects_request : forall S D opn op inputs d,
  get_operation D opn = Some op -> In d (o_vars op) ->
  NC S (v_type d) (jlookup (v_name d) inputs) ->
  forall fuel root or tor,
    request fuel S D opn inputs root or tor = RReject \/ request fuel S D opn inputs root or tor = RFuel.
Proof. exact request_rejects_bad_variable. Qed.
Print Assumptions C05_bad_variable_rejects_request.

(* conformant values are accepted ... *)
Theorem C05_conformant_accepted : forall S t v r, SC S t v r ->
  forall fuel b, valid_input fuel S t v = Some b -> b = true.
Proof. exact conformant_valid. Qed.
Print Assumptions C05_conformant_accepted.

(* ... and coerce to exactly what the specification's input coercion yields (list-of-one
   wrapping, nested input objects, enum internal values, input-field defaults, custom scalar) *)
Theorem C05_coerce_correct : forall S t v r, SC S t v r ->
  forall fuel r', coerce_value fuel S t v = Some r' -> r' = r.
Proof. exact coerce_correct. Qed.
Print Assumptions C05_coerce_correct.

(* the same for constant literals *)
Theorem C05_literal_correct : forall S t l r, SL S t l r ->
  forall fuel vars r', value_from_ast fuel S t l vars = Some r' -> r' = r.
Proof. exact literal_correct. Qed.
Print Assumptions C05_literal_correct.

(* supplying a type-conformant value as an inline literal or through a variable gives
   resolvers the same argument *)
Theorem C05_literal_variable_agree : forall S t l r, SL S t (Some l) r ->
  forall fuel1 fuel2 vars r1 r2,
    value_from_ast fuel1 S t (Some l) vars = Some r1 ->
    coerce_value fuel2 S t (json_of l) = Some r2 ->
    r1 = r2 /\ r1 = r.
Proof. exact literal_variable_agree. Qed.
Print Assumptions C05_literal_variable_agree.

(* ---- non-vacuity: a schema with an enum and a nested input object; conformant and
        non-conformant values exist and the model evaluates on them ---- *)
Definition S0 : schema := {|
  s_types := [("Int", TScalar SInt); ("E", TEnum [("A", JInt 1)]);
              ("In", TInputObject [{| a_name := "a"; a_type := TNamed "Int"; a_default := Some (JInt 7) |};
                                   {| a_name := "b"; a_type := TNonNull (TNamed "Int"); a_default := None |};
                                   {| a_name := "e"; a_type := TList (TNamed "E"); a_default := None |}]);
              ("Q", TObject [] [])];
  s_query := "Q"; s_mutation := None |}.

Example C05_conformant_exists :
  SC S0 (TNamed "In") (JObj [("b", JInt 1); ("e", JStr "A")])
     (JObj [("a", JInt 7); ("b", JInt 1); ("e", JList [JInt 1])]) /\
  coerce_value 10 S0 (TNamed "In") (JObj [("b", JInt 1); ("e", JStr "A")])
  = Some (JObj [("a", JInt 7); ("b", JInt 1); ("e", JList [JInt 1])]).
Proof.
  split; [|reflexivity].
  change (JObj [("a", JInt 7); ("b", JInt 1); ("e", JList [JInt 1])])
    with (JObj (keep_nonnull [("a", with_default (Some (JInt 7)) JNull); ("b", with_default None (JInt 1));
                              ("e", with_default None (JList [JInt 1]))])).
  eapply SC_obj; [reflexivity|reflexivity|].
  apply (SCF_cons S0 {| a_name := "a"; a_type := TNamed "Int"; a_default := Some (JInt 7) |}).
  { apply SC_null. reflexivity. }
  apply (SCF_cons S0 {| a_name := "b"; a_type := TNonNull (TNamed "Int"); a_default := None |}).
  { apply SC_nonnull; [discriminate|]. eapply SC_scalar; [reflexivity|]. apply sc_int. reflexivity. }
  apply (SCF_cons S0 {| a_name := "e"; a_type := TList (TNamed "E"); a_default := None |}).
  { apply SC_list1; [discriminate|discriminate|]. eapply SC_enum; [reflexivity|reflexivity|discriminate]. }
  apply SCF_nil.
Qed.

Example C05_nonconformant_exists :
  NC S0 (TNamed "In") (JObj [("e", JStr "A")]) /\            (* required field b missing *)
  valid_input 10 S0 (TNamed "In") (JObj [("e", JStr "A")]) = Some false /\
  NC S0 (TNamed "Int") (JInt 2147483648).
Proof.
  split; [|split; [reflexivity|]].
  - eapply (NC_field S0 "In" _ _ {| a_name := "b"; a_type := TNonNull (TNamed "Int"); a_default := None |});
      [reflexivity|right; left; reflexivity|]. apply NC_null.
  - eapply NC_int_range; reflexivity.
Qed.

(* ---- arguments and variable defaults (Proofs/ArgProofs.v) ----
   arg_spec S vars a l r: what the specification assigns to argument definition a when l was
   written for it: r = jlookup x vars (the coerced variable value) if l = Some (VVar x), else the
   literal coercion SL S (a_type a) l r (l = None: nothing written).
   with_default d r: r, or the default d when r is null; keep_nonnull drops null entries. *)
From GQL Require Import Proofs.ArgProofs.

(* getArgumentValues: resolvers receive exactly the map input coercion yields from the written
   literals / variables and the argument defaults *)
Theorem C05_arguments_correct : forall S vars defs args (r : argdef -> jv),
  (forall a, In a defs -> arg_spec S vars a (alookup (a_name a) args) (r a)) ->
  forall fuel m, get_argument_values fuel S defs args (Some vars) = Some m ->
    m = keep_nonnull (map (fun a => (a_name a, with_default (a_default a) (r a))) defs).
Proof. exact arguments_correct. Qed.
Print Assumptions C05_arguments_correct.

(* constant literals only, whatever the variable map *)
Theorem C05_arguments_from_literals : forall S defs args (r : argdef -> jv),
  (forall a, In a defs -> SL S (a_type a) (alookup (a_name a) args) (r a)) ->
  forall fuel vars m, get_argument_values fuel S defs args vars = Some m ->
    m = keep_nonnull (map (fun a => (a_name a, with_default (a_default a) (r a))) defs).
Proof. exact arguments_from_literals. Qed.
Print Assumptions C05_arguments_from_literals.

(* the arguments of a field are coerced exactly like the fields of an input-object literal *)
Theorem C05_arguments_SLF : forall S defs args kvs, SLF S defs args kvs ->
  forall fuel vars m, get_argument_values fuel S defs args vars = Some m -> m = keep_nonnull kvs.
Proof. exact arguments_SLF. Qed.
Print Assumptions C05_arguments_SLF.

(* per argument (distinct argument names): what the resolver finds under the argument's name *)
Theorem C05_argument_received : forall S vars defs args (r : argdef -> jv),
  NoDup (map a_name defs) ->
  (forall a, In a defs -> arg_spec S vars a (alookup (a_name a) args) (r a)) ->
  forall fuel m, get_argument_values fuel S defs args (Some vars) = Some m ->
  forall a, In a defs -> jlookup (a_name a) m = with_default (a_default a) (r a).
Proof. exact argument_received. Qed.
Print Assumptions C05_argument_received.

(* an argument written as $x receives the coerced value of x, or the argument default if that is null *)
Theorem C05_argument_variable_received : forall S vars defs args (r : argdef -> jv) a x,
  NoDup (map a_name defs) ->
  (forall a0, In a0 defs -> arg_spec S vars a0 (alookup (a_name a0) args) (r a0)) ->
  In a defs -> alookup (a_name a) args = Some (VVar x) ->
  forall fuel m, get_argument_values fuel S defs args (Some vars) = Some m ->
    jlookup (a_name a) m = with_default (a_default a) (jlookup x vars).
Proof. exact argument_variable_received. Qed.
Print Assumptions C05_argument_variable_received.

(* a variable whose input is absent or null: the literal coercion of its default, or null *)
Theorem C05_variable_default : forall S d dv r, v_default d = Some dv -> SL S (v_type d) (Some dv) r ->
  forall fuel x, get_variable_value fuel S d JNull = Some (inl x) ->
    x = r /\ is_nonnull (v_type d) = false.
Proof. exact variable_default. Qed.
Print Assumptions C05_variable_default.

Theorem C05_variable_no_default : forall S d, v_default d = None ->
  forall fuel x, get_variable_value fuel S d JNull = Some (inl x) ->
    x = JNull /\ is_nonnull (v_type d) = false.
Proof. exact variable_no_default. Qed.
Print Assumptions C05_variable_no_default.

(* the same in the variable map of a request (distinct variable names) *)
Theorem C05_variables_default : forall fuel S ds inputs vars d dv r,
  NoDup (map v_name ds) -> In d ds ->
  get_variable_values fuel S ds inputs = Some (inl vars) ->
  jlookup (v_name d) inputs = JNull ->
  v_default d = Some dv -> SL S (v_type d) (Some dv) r ->
  jlookup (v_name d) vars = r.
Proof. exact variables_default. Qed.
Print Assumptions C05_variables_default.

Theorem C05_variables_no_default : forall fuel S ds inputs vars d,
  NoDup (map v_name ds) -> In d ds ->
  get_variable_values fuel S ds inputs = Some (inl vars) ->
  jlookup (v_name d) inputs = JNull -> v_default d = None ->
  jlookup (v_name d) vars = JNull.
Proof. exact variables_no_default. Qed.
Print Assumptions C05_variables_no_default.

(* ---- literals that mention variables at any depth (Exec/CoerceSpec.v SLv; proofs in
   Proofs/CoerceVarsProofs.v): a variable inside a list literal or an input-object literal stands
   for its coerced value, everything else is coerced as a constant literal (list-of-one wrapping,
   nested input objects with input-field defaults, enum internal values, custom scalars); the
   argument map a resolver receives is exactly the specified one. *)
From GQL Require Import Proofs.CoerceVarsProofs.
Theorem C05_literal_with_variables_correct : forall S vars t l r, SLv S vars t l r ->
  forall fuel r', value_from_ast fuel S t l (Some vars) = Some r' -> r' = r.
Proof. exact literal_vars_correct. Qed.
Print Assumptions C05_literal_with_variables_correct.

Theorem C05_arguments_with_variables : forall S vars defs args kvs, SLvF S vars defs args kvs ->
  forall fuel m, get_argument_values fuel S defs args (Some vars) = Some m -> m = keep_nonnull kvs.
Proof. exact arguments_SLvF. Qed.
Print Assumptions C05_arguments_with_variables.

(* constant literals are the special case: every SL derivation is an SLv derivation *)
Theorem C05_constant_literals_special_case : forall S vars t l r, SL S t l r -> SLv S vars t l r.
Proof. intros S vars. exact (proj1 (SL_SLv_all S vars)). Qed.
Print Assumptions C05_constant_literals_special_case.
