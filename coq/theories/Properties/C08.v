(* Property C08 -- printing an AST and parsing the text back yields the same AST.
   Statements only; proofs live in Proofs/SyntaxPrinter.v. *)
From Coq Require Import List NArith.
From GQL Require Import Base.Bytes Syntax.Lexer Syntax.Printer.
Import ListNotations.
Open Scope N_scope.

Theorem C08_quote_total : forall s, quote_string s <> Err.
Proof.
  intro s. unfold quote_string.
  assert (H : forall f s, quote_body f s <> Err).
  { induction f as [|f IH]; intro s0; simpl; [discriminate|].
    destruct (rune_at s0) as [[r n]|]; [|discriminate].
    specialize (IH (dropN n s0)). destruct (quote_body f (dropN n s0)); [discriminate|contradiction|discriminate]. }
  specialize (H (S (length s)) s). destruct (quote_body (S (length s)) s); [discriminate|contradiction|discriminate].
Qed.
Print Assumptions C08_quote_total.
