(* Property C08 -- printing an AST and parsing the text back yields the same AST; printing is
   stable after one round and does not modify the AST it is given.
   Statements only; proofs live in Proofs/Syntax*.v.  Models: Syntax/Printer.v (printer.go:
   executable and type-system definitions, descriptions as block or quoted strings),
   Syntax/Lexer.v, Syntax/Parser.v, Syntax/PrintVisit.v (how visitor.Visit applies the values
   returned by the printer's reducers).  The same law is judged on the implementation by
   Run/C08run.v, which also compares the printed text with print_doc byte for byte. *)
From Coq Require Import String List NArith Bool.
From GQL Require Import Base.Bytes Syntax.Lexer Syntax.Ast Syntax.Parser Syntax.Printer Proofs.SyntaxPrinter Proofs.SyntaxUtf8 Proofs.SyntaxRender Syntax.Grammar Proofs.SyntaxTypeRT
  Proofs.SyntaxComplete Proofs.SyntaxRoundTrip Proofs.SyntaxRoundTripFinal Proofs.SyntaxBlock Proofs.SyntaxRoundTripSDL
  Syntax.PrintVisit Proofs.SyntaxNoEdit Proofs.SyntaxPrintLoc.
Import ListNotations.
Open Scope N_scope.

(* The printer can quote every byte string. *)
Theorem C08_quote_total : forall s, quote_string s <> Err.
Proof.
  intro s. unfold quote_string.
  assert (H : forall f s, quote_body f s <> Err).
  { induction f as [|f IH]; intro s0; [discriminate|]. rewrite quote_body_step.
    destruct (rune_at s0) as [[r n]|]; [|discriminate].
    specialize (IH (dropN n s0)). destruct (quote_body f (dropN n s0)); [discriminate|contradiction|discriminate]. }
  specialize (H (S (length s)) s). destruct (quote_body (S (length s)) s); [discriminate|contradiction|discriminate].
Qed.
Print Assumptions C08_quote_total.

(* String contents survive print-then-lex: for every string s of single-byte characters
   (quotes, backslashes, every C0 control, DEL included) followed by any text, the lexer reads
   quote_string s back as one STRING token with value s that spans exactly the quoted text.
   (Partial: multi-byte characters are covered by the correspondence runs only; the side
   condition excludes only "" directly followed by another double quote.) *)
Theorem C08_string_roundtrip_partial : forall s rest, (forall c, In c s -> c < 128) ->
  (s <> [] \/ forall r, rest <> 34 :: r) ->
  exists q, quote_string s = Ok q /\
    read_token (S (length (q ++ rest))) (q ++ rest) 0 = Ok (mktok STRING 0 (nlen q) s, rest, nlen q).
Proof. exact quote_lex_roundtrip_ascii. Qed.
Print Assumptions C08_string_roundtrip_partial.

(* String contents survive print-then-lex for every valid UTF-8 string (single bytes below 128 and
   genuinely decoded 2-, 3- and 4-byte sequences, so non-BMP code points, U+FFFF, U+2028, BOM ...):
   multi-byte characters are written unescaped and read back byte for byte. *)
Theorem C08_string_roundtrip : forall s rest, utf8_valid s ->
  (s <> [] \/ forall r, rest <> 34 :: r) ->
  exists q, quote_string s = Ok q /\
    forall pos fuel, (length (q ++ rest) < fuel)%nat ->
    read_token fuel (q ++ rest) pos = Ok (mktok STRING pos (pos + nlen q) s, rest, pos + nlen q).
Proof. exact quote_lex_roundtrip_utf8. Qed.
Print Assumptions C08_string_roundtrip.

(* The token-boundary theorem for the printer's layouts (any layout, hence print_doc d for every
   document d): if every separator consists of spaces, newlines and commas, every name piece is a
   name and every number piece a number lexeme not followed by a character that would continue it,
   every string piece is valid UTF-8 (and "" is not followed by a quote), and
   punctuator pieces carry no value ([layout_wfb], a decidable condition), then lexing the printed
   text gives back exactly the token pieces -- kind, value, and the byte offsets at which they were
   written -- followed by the EOF token, and no name is flagged as preceded by a multi-byte character. *)
Theorem C08_lex_layout : forall L, layout_wfb L = true ->
  lex (flat L) = Ok (ptoks 0 L ++ [eof_tok (nlen (flat L))], false).
Proof. exact lex_flat_layout. Qed.
Print Assumptions C08_lex_layout.

(* The semantic form: any layout whose token pieces are each read back before what follows them. *)
Theorem C08_lex_layout_general : forall L w pos fuel, sep_ok w -> layout_ok L -> (length (w ++ flat L) < fuel)%nat ->
  lex_all fuel (w ++ flat L) pos = Ok (ptoks (pos + nlen w) L ++ [eof_tok (pos + nlen w + nlen (flat L))], false).
Proof. exact lex_layout. Qed.
Print Assumptions C08_lex_layout_general.

(* The whole chain print -> lex -> derive -> parse, proved for one recursive nonterminal: every
   well-formed type (names are names, no NonNull directly inside NonNull -- what the parser
   produces) is printed to a text whose tokens derive, and are parsed back to, a type equal to it
   up to locations. *)
Theorem C08_type_roundtrip : forall t, wf_ty t = true ->
  exists ts t', lex (print_type t) = Ok (ts ++ [eof_tok (nlen (print_type t))], false) /\
    DType ts t' /\ ty_eqv t t' /\
    forall fuel pe, (length ts < fuel)%nat ->
      parse_type fuel (pe, ts ++ [eof_tok (nlen (print_type t))]) = Ok (t', (endof pe ts, [eof_tok (nlen (print_type t))])).
Proof. exact type_roundtrip. Qed.
Print Assumptions C08_type_roundtrip.

(* The round-trip law for executable documents, on the models: if the source parses to the
   executable document d and every string / block-string token of the source has a value of
   single-byte characters (src_strings_utf8 -- the restriction of C08_string_roundtrip_partial),
   then the printed text parses again, to a document equal to d up to locations
   (erase_loc = the kind/field/value tree with every Loc zeroed). *)
Theorem C08_roundtrip_exec_partial : forall src d mb,
  parse src = Ok (d, mb) -> exec_only d = true -> src_strings_utf8 src = true ->
  exists d', parse (print_doc d) = Ok (d', false) /\ erase_loc d' = erase_loc d.
Proof.
  intros src d mb H E A. destruct (roundtrip_exec src d mb H E A) as (d' & H1 & H2 & _). exists d'. split; assumption.
Qed.
Print Assumptions C08_roundtrip_exec_partial.

(* Printing is stable after one round: the re-parsed document prints to the same text. *)
Theorem C08_stable_partial : forall src d mb,
  parse src = Ok (d, mb) -> exec_only d = true -> src_strings_utf8 src = true ->
  exists d', parse (print_doc d) = Ok (d', false) /\ print_doc d' = print_doc d.
Proof.
  intros src d mb H E A. destruct (roundtrip_exec src d mb H E A) as (d' & H1 & _ & H3). exists d'. split; assumption.
Qed.
Print Assumptions C08_stable_partial.

(* The same from token lists (any token list with well-formed lexemes, not only lexer output). *)
Theorem C08_roundtrip_tokens_partial : forall ts d, parse_tokens ts = Ok d -> exec_only d = true -> toks_wf ts ->
  exists d', parse (print_doc d) = Ok (d', false) /\ erase_loc d' = erase_loc d /\ print_doc d' = print_doc d.
Proof. exact roundtrip_exec_tokens. Qed.
Print Assumptions C08_roundtrip_tokens_partial.

(* Values (nested lists and objects included): print, lex, derive, parse back. *)
Theorem C08_value_roundtrip_partial : forall src ts mb fuel c v st', lex src = Ok (ts, mb) -> strings_ok_toks ts = true ->
  parse_value fuel c (0, ts) = Ok (v, st') ->
  exists ts' v', lex (print_value v) = Ok (ts' ++ [eof_tok (nlen (print_value v))], false) /\
    gnl (g_value v') = gnl (g_value v) /\
    forall fuel' pe, (length ts' < fuel')%nat ->
      parse_value fuel' c (pe, ts' ++ [eof_tok (nlen (print_value v))]) = Ok (v', (endof pe ts', [eof_tok (nlen (print_value v))])).
Proof. exact value_roundtrip_src. Qed.
Print Assumptions C08_value_roundtrip_partial.

(* ---- type-system definitions and descriptions ---- *)

(* Block strings: a description s that the printer writes as a block string
   (printableAsBlockString s) is given back by blockStringValue from the raw text between the
   triple quotes -- s itself, or LF s LF when s has several lines -- at every indentation depth d
   (the text passes through indent() once per enclosing block / argument list).  No UTF-8
   hypothesis: bytes below 128 are characters of their own in every byte string. *)
Theorem C08_block_string_roundtrip : forall s d, printable_as_block s = true ->
  block_string_value (N.iter d indent_bytes (block_raw s)) = s.
Proof. exact block_value_rt. Qed.
Print Assumptions C08_block_string_roundtrip.

(* ... and the lexer reads the printed block string as one BLOCK_STRING token with value s,
   whatever follows it (s not empty, printable as a block string, valid UTF-8). *)
Theorem C08_block_string_lexed : forall s d rest fuel pos, blk_okb s = true ->
  let r := render_piece (PBlk d s) in
  (length (r ++ rest) < fuel)%nat ->
  read_token fuel (r ++ rest) pos = Ok (mktok BLOCK_STRING pos (pos + nlen r) s, rest, pos + nlen r).
Proof. exact read_token_block. Qed.
Print Assumptions C08_block_string_lexed.

(* The layout of every parsed document whose string tokens are valid UTF-8 satisfies the
   hypothesis of C08_lex_layout (what the runner evaluates as a cross-check on every case). *)
Theorem C08_layout_wf : forall src d mb, parse src = Ok (d, mb) -> src_strings_utf8 src = true ->
  layout_wfb (lay_doc d) = true.
Proof.
  intros src d mb H A. unfold parse in H. unfold src_strings_utf8 in A.
  destruct (lex src) as [[ts m]| |] eqn:L; try discriminate.
  destruct (parse_tokens ts) as [d0| |] eqn:P; try discriminate. inversion H; subst d0 m.
  apply Proofs.SyntaxSound.parse_tokens_sound in P. apply (doc_rt_all ts d P). apply toks_wf_of; [|exact A].
  unfold lex, lex_src in L. cbn [snd] in L. apply (Proofs.SyntaxLexemes.lex_all_lexemes _ _ _ _ _ L).
Qed.
Print Assumptions C08_layout_wf.

(* The round-trip law for every document the parser accepts, executable or type-system (schema,
   scalar, object with implements, interface, union, enum, input object, extend type, directive
   definitions; descriptions, default values and directives on all of them): if every string /
   block-string token of the source has a value that is valid UTF-8, the printed text parses
   again, to a document equal to d up to locations and empty descriptions (erase_loc_descr: the
   kind/field/value tree with every Loc zeroed and every empty description replaced by none --
   DESIGN.md Appendix A; on executable documents nothing is replaced, see C08_roundtrip_exec_partial).
   Partial: the UTF-8 hypothesis (a byte that utf8.DecodeRune would replace is printed as U+FFFD). *)
Theorem C08_roundtrip_partial : forall src d mb,
  parse src = Ok (d, mb) -> src_strings_utf8 src = true ->
  exists d', parse (print_doc d) = Ok (d', false) /\ erase_loc_descr d' = erase_loc_descr d.
Proof.
  intros src d mb H A. destruct (roundtrip_src src d mb H A) as (d' & H1 & H2 & _). exists d'. split; assumption.
Qed.
Print Assumptions C08_roundtrip_partial.

(* Printing is stable after one round, for every document: the re-parsed document prints to the same text. *)
Theorem C08_stable : forall src d mb,
  parse src = Ok (d, mb) -> src_strings_utf8 src = true ->
  exists d', parse (print_doc d) = Ok (d', false) /\ print_doc d' = print_doc d.
Proof.
  intros src d mb H A. destruct (roundtrip_src src d mb H A) as (d' & H1 & _ & H3). exists d'. split; assumption.
Qed.
Print Assumptions C08_stable.

(* The same from token lists of any document (any token list with well-formed lexemes). *)
Theorem C08_roundtrip_all_tokens_partial : forall ts d, parse_tokens ts = Ok d -> toks_wf ts ->
  exists d', parse (print_doc d) = Ok (d', false) /\ erase_loc_descr d' = erase_loc_descr d /\ print_doc d' = print_doc d.
Proof. exact roundtrip_tokens. Qed.
Print Assumptions C08_roundtrip_all_tokens_partial.

(* ---- Print does not modify the AST it is given ---- *)

(* printer.Print is visitor.Visit with leave functions that RETURN the text of the node
   (ActionUpdate, string).  In the model of Visit's edit application (Syntax/PrintVisit.v: the
   AST is a heap of structs; an edit whose value is an ast.Node is written into the original
   struct by updateNodeField, any other value goes into a map copy made by convertMap; slice
   frames work on the copy made by toSliceInterfaces), running Visit with functions that return
   strings -- whatever the strings are -- leaves the heap exactly as it was. *)
Theorem C08_no_edit : forall keys (text : N -> rval -> bytes) fuel h root h' r,
  visit keys (fun k v => Some (RStr (text k v))) fuel h root = Some (h', r) -> h' = h.
Proof.
  intros keys text fuel h root h' r H.
  apply (visit_no_edit keys (fun k v => Some (RStr (text k v)))
           ltac:(intros k v x E; inversion E; apply safe_str) fuel h root h' r H).
Qed.
Print Assumptions C08_no_edit.

(* More generally: no visit function returning a node (or nil) means no write to the AST;
   functions may also return nothing (ActionNoChange). *)
Theorem C08_no_edit_general : forall keys fn, safe_fn fn ->
  forall fuel h root h' r, visit keys fn fuel h root = Some (h', r) -> h' = h.
Proof. exact visit_no_edit. Qed.
Print Assumptions C08_no_edit_general.

(* ---- printing does not depend on locations; stability for ASTs that were not parsed ---- *)

(* The printer does not look at locations: two documents -- any two ASTs, parsed or built by
   hand -- with the same kind/field/value tree once every Loc is zeroed print to the same text. *)
Theorem C08_print_ignores_locations : forall d d', erase_loc d = erase_loc d' -> print_doc d = print_doc d'.
Proof. exact print_ignores_locations. Qed.
Print Assumptions C08_print_ignores_locations.

(* the comparison of the runner (kinds, atoms, children; locations ignored) decides equality of erased trees *)
Lemma gt_eqb_gnl : forall a b, gt_eqb false a b = true -> gnl a = gnl b.
Proof.
  fix IH 1. intros [t1 a1 s1 e1 k1] [t2 a2 s2 e2 k2] H. cbn [gt_eqb] in H.
  apply andb_true_iff in H. destruct H as [H Hk]. apply andb_true_iff in H. destruct H as [H _].
  apply andb_true_iff in H. destruct H as [Ht Ha]. apply N.eqb_eq in Ht. apply bytes_eqb_eq in Ha. subst.
  cbn [gnl]. f_equal. revert k2 Hk. induction k1 as [|x k1 IHk]; intros [|y k2] Hk; try discriminate Hk; [reflexivity|].
  apply andb_true_iff in Hk. destruct Hk as [Hx Hr]. cbn [map]. rewrite (IH x y Hx), (IHk k2 Hr). reflexivity.
Qed.

(* An AST survives one round when the text printed for it parses to an AST equal to it up to
   locations -- a decidable condition on any AST (no parse of a source is assumed). *)
Definition reparses (d : document) : bool :=
  match parse (print_doc d) with
  | Ok (d', _) => gt_eqb false (g_doc d') (g_doc d)
  | _ => false
  end.

(* Stability for every AST, parsed or not: if d survives one round (reparses d), the document read
   back from its text prints to the same text -- the second print of print, parse, print equals the first. *)
Theorem C08_stable_any : forall d, reparses d = true ->
  exists d' mb, parse (print_doc d) = Ok (d', mb) /\ erase_loc d' = erase_loc d /\ print_doc d' = print_doc d.
Proof.
  intros d H. unfold reparses in H. destruct (parse (print_doc d)) as [[d' mb]| |] eqn:P; try discriminate H.
  apply gt_eqb_gnl in H. exists d', mb. split; [reflexivity|]. split; [exact H|]. apply print_ignores_locations. exact H.
Qed.
Print Assumptions C08_stable_any.

(* And every AST equal up to locations to a parsed document (one built by hand with other Locs,
   a relocated or copied one) is covered by the round-trip law of that document. *)
Theorem C08_stable_relocated_partial : forall src d0 mb d,
  parse src = Ok (d0, mb) -> src_strings_utf8 src = true -> erase_loc d = erase_loc d0 ->
  exists d', parse (print_doc d) = Ok (d', false) /\ erase_loc_descr d' = erase_loc_descr d0 /\ print_doc d' = print_doc d.
Proof.
  intros src d0 mb d H A E. rewrite (print_ignores_locations d d0 E). apply (roundtrip_src src d0 mb H A).
Qed.
Print Assumptions C08_stable_relocated_partial.

(* ---- strings that are not valid UTF-8 ---- *)

(* Before fixes/C08-invalid-utf8-bytes.patch quoteString wrote U+FFFD for every byte that does not
   decode (quote_string_fffd); the lexer accepts such bytes inside a string and stores them as they
   stand, so the law was false on documents the parser accepts: the string FF is printed as a text
   that is lexed to a different string.  (Witness replayed on the implementation: the source
   { a(x: "<FF>") } parsed, printed "\uFFFD"-wise and came back with the value EF BF BD; corpus of harness/c08.go.) *)
Theorem C08_roundtrip_refuted_invalid_utf8 : exists s q v,
  quote_string_fffd s = Ok q /\ lex q = Ok ([mktok STRING 0 (nlen q) v; mktok EOF (nlen q) (nlen q) []], false) /\ v <> s.
Proof. exists [255], [34; 239; 191; 189; 34], [239; 191; 189]. split; [vm_compute; reflexivity|]. split; [vm_compute; reflexivity|discriminate]. Qed.
Print Assumptions C08_roundtrip_refuted_invalid_utf8.

(* non-vacuity: a source that satisfies the hypotheses *)
Example C08_roundtrip_nonvacuous :
  let src := of_string "query Q($a: [Int!] = [1, -2.5e3]) @d(x: ""s\n"") { a: b(x: {k: $a}) ... on T { c } ...F }" in
  match parse src with Ok (d, _) => exec_only d && src_strings_utf8 src | _ => false end = true.
Proof. vm_compute. reflexivity. Qed.

(* non-vacuity of C08_lex_layout: the layout of a parsed executable document is well-formed *)
Example C08_layout_nonvacuous :
  match parse (of_string "query Q($a: [Int!] = [1, -2.5e3]) @d(x: ""s"") { a: b(x: {k: $a}) ... on T { c } ...F }") with
  | Ok (d, _) => layout_wfb (lay_doc d)
  | _ => false
  end = true.
Proof. vm_compute. reflexivity. Qed.

(* non-vacuity: the bytes BEL, double quote, backslash, DEL, LF, a and their printed form *)
Example C08_nonvacuous :
  quote_string [7; 34; 92; 127; 10; 97] =
  Ok [34; 92; 117; 48; 48; 48; 55; 92; 34; 92; 92; 92; 117; 48; 48; 55; 70; 92; 110; 97; 34].
Proof. vm_compute. reflexivity. Qed.

(* non-vacuity of C08_roundtrip_partial / C08_stable on a type-system document with descriptions
   of every printed form (block, multi-line block inside a block, quoted, empty) *)
Example C08_roundtrip_sdl_nonvacuous :
  let src := of_string """d\ne"" type T implements A & B @x { ""f"" a(""q\nr"" x: Int = 1 @y, z: S): Int @d b: Int } ""ends\"""" enum E { """" A B } extend type U {} directive @d(a: Int) on A | B union U = A | B schema { query: Q }" in
  match parse src with Ok (d, _) => negb (exec_only d) && src_strings_utf8 src && layout_wfb (lay_doc d) | _ => false end = true.
Proof. vm_compute. reflexivity. Qed.

(* non-vacuity of C08_block_string_roundtrip: a three-line description, printed inside a block; a
   description whose later lines are all indented is not printable as a block string *)
Example C08_block_nonvacuous :
  printable_as_block [97; 10; 32; 98; 10; 99] = true /\
  N.iter 1 indent_bytes (block_raw [97; 10; 32; 98; 10; 99]) = [10; 32; 32; 97; 10; 32; 32; 32; 98; 10; 32; 32; 99; 10; 32; 32] /\
  printable_as_block [97; 10; 32; 98] = false.
Proof. repeat split; vm_compute; reflexivity. Qed.

(* the visitor model does write to the AST when a visit function returns a node (so C08_no_edit is
   not true for trivial reasons): Proofs/SyntaxNoEdit.v, visit_can_edit *)
Example C08_no_edit_nonvacuous :
  exists h', visit ex_keys ex_fn_node 3 ex_heap 1 = Some (h', Some (RNode 1)) /\ h' <> ex_heap.
Proof. exact visit_can_edit. Qed.

(* non-vacuity of C08_stable_any: a document built by hand (never parsed; all Locs zero) -- a type with
   a described field, an enum, and a query with a variable, a directive and an inline fragment *)
Definition z : loc := mkloc 0 0.
Definition nm0 (s : string) : name := mkname (of_string s) z.
Definition hand_doc : document :=
  mkdoc [ DObject (mkobjdef (Some (of_string "a type", z)) (nm0 "T") [mknamed (nm0 "I") z] []
                     [mkfielddef (Some ([97; 10; 98], z)) (nm0 "f") [mkivdef None (nm0 "x") (TNonNull (TNamed (mknamed (nm0 "Int") z)) z) (Some (VInt [49] z)) [] z]
                                 (TList (TNamed (mknamed (nm0 "T") z)) z) [mkdir (nm0 "d") [] z] z] z);
          DEnum None (nm0 "E") [] [mkenumvaldef None (nm0 "A") [] z] z;
          DOp (mkopdef Query (Some (nm0 "Q")) [mkvardef (nm0 "v") z (TNamed (mknamed (nm0 "S") z)) (Some (VStr [34; 255] z)) z]
                 [mkdir (nm0 "live") [mkarg (nm0 "ttl") (VFloat (of_string "1.5e3") z) z] z]
                 (SelSet [SInline (Some (mknamed (nm0 "T") z)) [] (SelSet [SField (Some (nm0 "k")) (nm0 "f") [] [] None z] z) z] z) z) ] z.
Example C08_stable_any_nonvacuous : reparses hand_doc = true.
Proof. vm_compute. reflexivity. Qed.

(* with the repaired quoting the former counterexample survives the round trip on the model *)
Example C08_invalid_utf8_survives :
  match parse [123; 97; 40; 120; 58; 34; 255; 34; 41; 125] with
  | Ok (d, _) => reparses d
  | _ => false
  end = true.
Proof. vm_compute. reflexivity. Qed.
