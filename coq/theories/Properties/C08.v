(* Property C08 -- printing an AST and parsing the text back yields the same AST.
   Statements only; proofs live in Proofs/SyntaxPrinter.v.  The law for whole documents is
   judged directly on the implementation by Run/C08run.v; the theorems here are about the
   string quoting of the printer model read back by the lexer model (the part of the law
   that depends on the characters of string values and descriptions). *)
From Coq Require Import String List NArith Bool.
From GQL Require Import Base.Bytes Syntax.Lexer Syntax.Ast Syntax.Parser Syntax.Printer Proofs.SyntaxPrinter Proofs.SyntaxUtf8 Proofs.SyntaxRender Syntax.Grammar Proofs.SyntaxTypeRT
  Proofs.SyntaxComplete Proofs.SyntaxRoundTrip Proofs.SyntaxRoundTripFinal.
Import ListNotations.
Open Scope N_scope.

(* The printer can quote every byte string. *)
Theorem C08_quote_total : forall s, quote_string s <> Err.
Proof.
  intro s. unfold quote_string.
  assert (H : forall f s, quote_body f s <> Err).
  { induction f as [|f IH]; intro s0; simpl; [discriminate|].
    destruct (rune_at s0) as [[r n]|]; [|discriminate].
    specialize (IH (dropN n s0)). destruct (quote_body f (dropN n s0)); [discriminate|contradiction|discriminate]. }
  specialize (H (S (length s)) s). destruct (quote_body (S (length s)) s); [discriminate|contradiction|discriminate].
Qed.
Print Assumptions C08_quote_total.

(* String contents survive print-then-lex: for every string s of single-byte characters
   (quotes, backslashes, every C0 control, DEL included) followed by any text, the lexer reads
   quote_string s back as one STRING token with value s that spans exactly the quoted text.
   (Partial: multi-byte characters are covered by the correspondence runs only; the side
   condition excludes only "" directly followed by another double quote.) *)
Theorem C08_string_roundtrip_partial : forall s rest, (forall c, In c s -> c < 128) ->
  (s <> [] \/ forall r, rest <> 34 :: r) ->
  exists q, quote_string s = Ok q /\
    read_token (S (length (q ++ rest))) (q ++ rest) 0 = Ok (mktok STRING 0 (nlen q) s, rest, nlen q).
Proof. exact quote_lex_roundtrip_ascii. Qed.
Print Assumptions C08_string_roundtrip_partial.

(* String contents survive print-then-lex for every valid UTF-8 string (single bytes below 128 and
   genuinely decoded 2-, 3- and 4-byte sequences, so non-BMP code points, U+FFFF, U+2028, BOM ...):
   multi-byte characters are written unescaped and read back byte for byte. *)
Theorem C08_string_roundtrip : forall s rest, utf8_valid s ->
  (s <> [] \/ forall r, rest <> 34 :: r) ->
  exists q, quote_string s = Ok q /\
    forall pos fuel, (length (q ++ rest) < fuel)%nat ->
    read_token fuel (q ++ rest) pos = Ok (mktok STRING pos (pos + nlen q) s, rest, pos + nlen q).
Proof. exact quote_lex_roundtrip_utf8. Qed.
Print Assumptions C08_string_roundtrip.

(* The token-boundary theorem for the printer's layouts (any layout, hence print_doc d for every
   document d): if every separator consists of spaces, newlines and commas, every name piece is a
   name and every number piece a number lexeme not followed by a character that would continue it,
   every string piece is valid UTF-8 (and "" is not followed by a quote), and
   punctuator pieces carry no value ([layout_wfb], a decidable condition), then lexing the printed
   text gives back exactly the token pieces -- kind, value, and the byte offsets at which they were
   written -- followed by the EOF token, and no name is flagged as preceded by a multi-byte character. *)
Theorem C08_lex_layout : forall L, layout_wfb L = true ->
  lex (flat L) = Ok (ptoks 0 L ++ [eof_tok (nlen (flat L))], false).
Proof. exact lex_flat_layout. Qed.
Print Assumptions C08_lex_layout.

(* The semantic form: any layout whose token pieces are each read back before what follows them. *)
Theorem C08_lex_layout_general : forall L w pos fuel, sep_ok w -> layout_ok L -> (length (w ++ flat L) < fuel)%nat ->
  lex_all fuel (w ++ flat L) pos = Ok (ptoks (pos + nlen w) L ++ [eof_tok (pos + nlen w + nlen (flat L))], false).
Proof. exact lex_layout. Qed.
Print Assumptions C08_lex_layout_general.

(* The whole chain print -> lex -> derive -> parse, proved for one recursive nonterminal: every
   well-formed type (names are names, no NonNull directly inside NonNull -- what the parser
   produces) is printed to a text whose tokens derive, and are parsed back to, a type equal to it
   up to locations. *)
Theorem C08_type_roundtrip : forall t, wf_ty t = true ->
  exists ts t', lex (print_type t) = Ok (ts ++ [eof_tok (nlen (print_type t))], false) /\
    DType ts t' /\ ty_eqv t t' /\
    forall fuel pe, (length ts < fuel)%nat ->
      parse_type fuel (pe, ts ++ [eof_tok (nlen (print_type t))]) = Ok (t', (endof pe ts, [eof_tok (nlen (print_type t))])).
Proof. exact type_roundtrip. Qed.
Print Assumptions C08_type_roundtrip.

(* The round-trip law for executable documents, on the models: if the source parses to the
   executable document d and every string / block-string token of the source has a value of
   single-byte characters (src_strings_utf8 -- the restriction of C08_string_roundtrip_partial),
   then the printed text parses again, to a document equal to d up to locations
   (erase_loc = the kind/field/value tree with every Loc zeroed). *)
Theorem C08_roundtrip_exec_partial : forall src d mb,
  parse src = Ok (d, mb) -> exec_only d = true -> src_strings_utf8 src = true ->
  exists d', parse (print_doc d) = Ok (d', false) /\ erase_loc d' = erase_loc d.
Proof.
  intros src d mb H E A. destruct (roundtrip_exec src d mb H E A) as (d' & H1 & H2 & _). exists d'. split; assumption.
Qed.
Print Assumptions C08_roundtrip_exec_partial.

(* Printing is stable after one round: the re-parsed document prints to the same text. *)
Theorem C08_stable_partial : forall src d mb,
  parse src = Ok (d, mb) -> exec_only d = true -> src_strings_utf8 src = true ->
  exists d', parse (print_doc d) = Ok (d', false) /\ print_doc d' = print_doc d.
Proof.
  intros src d mb H E A. destruct (roundtrip_exec src d mb H E A) as (d' & H1 & _ & H3). exists d'. split; assumption.
Qed.
Print Assumptions C08_stable_partial.

(* The same from token lists (any token list with well-formed lexemes, not only lexer output). *)
Theorem C08_roundtrip_tokens_partial : forall ts d, parse_tokens ts = Ok d -> exec_only d = true -> toks_wf ts ->
  exists d', parse (print_doc d) = Ok (d', false) /\ erase_loc d' = erase_loc d /\ print_doc d' = print_doc d.
Proof. exact roundtrip_exec_tokens. Qed.
Print Assumptions C08_roundtrip_tokens_partial.

(* Values (nested lists and objects included): print, lex, derive, parse back. *)
Theorem C08_value_roundtrip_partial : forall src ts mb fuel c v st', lex src = Ok (ts, mb) -> strings_ok_toks ts = true ->
  parse_value fuel c (0, ts) = Ok (v, st') ->
  exists ts' v', lex (print_value v) = Ok (ts' ++ [eof_tok (nlen (print_value v))], false) /\
    gnl (g_value v') = gnl (g_value v) /\
    forall fuel' pe, (length ts' < fuel')%nat ->
      parse_value fuel' c (pe, ts' ++ [eof_tok (nlen (print_value v))]) = Ok (v', (endof pe ts', [eof_tok (nlen (print_value v))])).
Proof. exact value_roundtrip_src. Qed.
Print Assumptions C08_value_roundtrip_partial.

(* non-vacuity: a source that satisfies the hypotheses *)
Example C08_roundtrip_nonvacuous :
  let src := of_string "query Q($a: [Int!] = [1, -2.5e3]) @d(x: ""s\n"") { a: b(x: {k: $a}) ... on T { c } ...F }" in
  match parse src with Ok (d, _) => exec_only d && src_strings_utf8 src | _ => false end = true.
Proof. vm_compute. reflexivity. Qed.

(* non-vacuity of C08_lex_layout: the layout of a parsed executable document is well-formed *)
Example C08_layout_nonvacuous :
  match parse (of_string "query Q($a: [Int!] = [1, -2.5e3]) @d(x: ""s"") { a: b(x: {k: $a}) ... on T { c } ...F }") with
  | Ok (d, _) => layout_wfb (lay_doc d)
  | _ => false
  end = true.
Proof. vm_compute. reflexivity. Qed.

(* non-vacuity: the bytes BEL, double quote, backslash, DEL, LF, a and their printed form *)
Example C08_nonvacuous :
  quote_string [7; 34; 92; 127; 10; 97] =
  Ok [34; 92; 117; 48; 48; 48; 55; 92; 34; 92; 92; 92; 117; 48; 48; 55; 70; 92; 110; 97; 34].
Proof. vm_compute. reflexivity. Qed.
