(* Property C11 -- schema construction never yields an inconsistent type system.
   Statements only; proofs live in Proofs/Types*.v.
   Model: Types/Schema.v (new_schema_fuel, append_type_fuel); Spec: Types/Consistent.v. *)
From Coq Require Import List NArith Bool String.
From GQL Require Import Base.Bytes Types.Schema Types.Consistent Proofs.TypesReduce Proofs.TypesNames
  Proofs.TypesClosed Proofs.TypesView Proofs.TypesImpl Proofs.TypesMain Proofs.TypesPossible
  Proofs.TypesConsistent Proofs.TypesOracle Proofs.TypesAppend Proofs.TypesFuel Proofs.TypesAgree.
Import ListNotations.
Open Scope string_scope.
Open Scope N_scope.

(* Building a schema either returns an error or returns a schema whose public view is a
   consistent type system (every clause of Consistent), for every configuration and every fuel.
   with_meta puts the library's own definitions (built-in scalars, introspection types) next to
   the user's, as the Go library does. *)
Theorem C11_consistent : forall fuel c sch, new_schema_fuel fuel (with_meta c) = OK sch -> Consistent (view_of sch).
Proof. exact consistent_full. Qed.
Print Assumptions C11_consistent.

(* The same for any list of definitions whatsoever, minus the clause "the introspection types
   are there" (which is about the library's own definitions) and the roots *)
Theorem C11_consistent_any_defs : forall fuel c sch, new_schema_fuel fuel c = OK sch -> core_consistent (view_of sch).
Proof. exact consistent_core. Qed.
Print Assumptions C11_consistent_any_defs.

(* The executable oracle with which the runner judges what the implementation returned is the Spec *)
Theorem C11_oracle_decides : forall V, consistentb V = true <-> Consistent V.
Proof. exact consistentb_iff. Qed.
Print Assumptions C11_oracle_decides.

(* The schema's PossibleTypes / IsPossibleType tables are the possible types the declarations give *)
Theorem C11_possible_types_declared : forall fuel c sch a o, new_schema_fuel fuel c = OK sch ->
  In a (ids (s_tm sch)) -> In o (ids (s_tm sch)) ->
  (abstract_possible sch a o = true <-> possible (v_types (view_of sch)) a o = true).
Proof.
  intros fuel c sch a o H. destruct (new_schema_invariants _ _ _ H) as (Hg & Hc & _).
  exact (abstract_possible_spec sch Hg Hc a o).
Qed.
Print Assumptions C11_possible_types_declared.

(* isTypeSubTypeOf as coded decides the subtype relation of the specification, and the
   per-field interface check decides implements_field, for every possible-type relation *)
Theorem C11_subtype_decided : forall poss a b, is_type_sub_type_of poss a b = true <-> subtype poss a b.
Proof. exact sub_reflect. Qed.
Print Assumptions C11_subtype_decided.

Theorem C11_field_check_decided : forall poss ofs jf,
  field_implements poss ofs jf = true <-> implements_field poss ofs jf.
Proof. intros; split; [apply field_implements_sound|apply field_implements_complete]. Qed.
Print Assumptions C11_field_check_decided.

(* a parked error anywhere in what the roots and SchemaConfig.Types reach makes NewSchema fail:
   if it succeeded, every reachable definition passed its constructor and its lazy
   initialisation (fields, interfaces, union members), and no reference is broken *)
Theorem C11_errors_surface : forall fuel c sch, new_schema_fuel fuel c = OK sch ->
  (forall t, In t (initial_types c) -> target_of (c_defs c) (norm t) <> TgtBad)
  /\ forall i, reachable (c_defs c) (initial_types c) i ->
       (exists d, find_def (c_defs c) i = Some d /\ static_ok (c_defs c) d)
       /\ forall t, In t (out_refs (c_defs c) i) -> target_of (c_defs c) t <> TgtBad.
Proof. exact errors_surface. Qed.
Print Assumptions C11_errors_surface.

(* AppendType keeps the schema consistent *)
Theorem C11_append_consistent : forall f0 f1 c ts sch sch',
  new_schema_fuel f0 (with_meta c) = OK sch -> append_types_fuel f1 sch ts = OK sch' -> Consistent (view_of sch').
Proof. exact append_consistent. Qed.
Print Assumptions C11_append_consistent.

(* Appending types afterwards gives the same schema as supplying them up front: same definitions,
   roots and type map ... *)
Theorem C11_append_commutes : forall f0 f1 f2 c ts sch0 sch1 sch2,
  new_schema_fuel f0 c = OK sch0 -> append_types_fuel f1 sch0 ts = OK sch1 ->
  new_schema_fuel f2 (with_types c ts) = OK sch2 ->
  same_schema sch1 sch2.
Proof. exact append_commutes. Qed.
Print Assumptions C11_append_commutes.

(* ... and the same public view: same types, roots, PossibleTypes and IsPossibleType rows *)
Theorem C11_append_commutes_view : forall f0 f1 f2 c ts sch0 sch1 sch2,
  new_schema_fuel f0 c = OK sch0 -> append_types_fuel f1 sch0 ts = OK sch1 ->
  new_schema_fuel f2 (with_types c ts) = OK sch2 ->
  same_view (view_of sch1) (view_of sch2).
Proof. exact append_commutes_view. Qed.
Print Assumptions C11_append_commutes_view.

(* the type map is exactly what the roots, the introspection root and SchemaConfig.Types reach *)
Theorem C11_type_map_is_reachable : forall fuel c sch, new_schema_fuel fuel c = OK sch ->
  forall y, In y (ids (s_tm sch)) <-> reachable (c_defs c) (initial_types c) y.
Proof. exact new_schema_map. Qed.
Print Assumptions C11_type_map_is_reachable.

(* Termination: the fuel NewSchema is run with (one more than the number of definitions, the
   library's own included) is always enough -- the out-of-fuel result is unreachable -- and any
   larger fuel gives the same result, so the fuel is not an observable of the model. *)
Theorem C11_fuel_sufficient : forall c, new_schema c <> OutOfFuel.
Proof. exact new_schema_terminates. Qed.
Print Assumptions C11_fuel_sufficient.

Theorem C11_fuel_irrelevant : forall fuel c, (List.length (c_defs c) < fuel)%nat ->
  new_schema_fuel fuel c <> OutOfFuel /\ new_schema_fuel fuel c = new_schema c.
Proof. intros fuel c H. split; [exact (new_schema_fuel_enough fuel c H)|exact (new_schema_fuel_irrelevant fuel c H)]. Qed.
Print Assumptions C11_fuel_irrelevant.

(* the same for AppendType on every schema NewSchema and earlier AppendType calls can have produced *)
Theorem C11_fuel_sufficient_append : forall f0 f1 c sch0 ts0 sch ts,
  new_schema_fuel f0 c = OK sch0 -> append_types_fuel f1 sch0 ts0 = OK sch -> append_types sch ts <> OutOfFuel.
Proof. exact append_types_terminates. Qed.
Print Assumptions C11_fuel_sufficient_append.

(* Appending types afterwards and supplying them up front agree: the same verdict (NewSchema with
   the extra types succeeds exactly when NewSchema without them followed by AppendType of each, in
   the order given, succeeds), and on success the same schema -- same definitions, roots and type
   map, hence the same types, implementation and possible-type tables (PossibleTypes and
   IsPossibleType rows) on the public view. *)
Theorem C11_append_agrees_with_upfront : forall c ts,
  ((exists sch2, new_schema (with_types c ts) = OK sch2) <->
   (exists sch0 sch1, new_schema c = OK sch0 /\ append_types sch0 ts = OK sch1))
  /\ forall sch0 sch1 sch2, new_schema c = OK sch0 -> append_types sch0 ts = OK sch1 ->
       new_schema (with_types c ts) = OK sch2 -> same_schema sch1 sch2 /\ same_view (view_of sch1) (view_of sch2).
Proof.
  intros c ts. split.
  - unfold new_schema, append_types. change (c_defs (with_types c ts)) with (c_defs c).
    destruct (append_agrees_fuel (fuel_for (c_defs c)) c ts) as [H1 H2]. split.
    + intro H. destruct (H1 H) as (S0 & S1 & E0 & E1). exists S0, S1. split; [exact E0|].
      destruct (new_schema_fuel_tm _ _ _ E0) as (D0 & _). rewrite D0. exact E1.
    + intros (S0 & S1 & E0 & E1). apply H2. exists S0, S1. split; [exact E0|].
      destruct (new_schema_fuel_tm _ _ _ E0) as (D0 & _). rewrite D0 in E1. exact E1.
  - intros sch0 sch1 sch2 H0 H1 H2. split.
    + exact (append_commutes _ _ _ c ts sch0 sch1 sch2 H0 H1 H2).
    + exact (append_commutes_view _ _ _ c ts sch0 sch1 sch2 H0 H1 H2).
Qed.
Print Assumptions C11_append_agrees_with_upfront.

(* the same on the failure side (no third outcome: fuel never runs out) *)
Theorem C11_append_agrees_on_failure : forall c ts,
  new_schema (with_types c ts) = Err <->
  (new_schema c = Err \/ exists sch0, new_schema c = OK sch0 /\ append_types sch0 ts = Err).
Proof.
  intros c ts. destruct (C11_append_agrees_with_upfront c ts) as [[H1 H2] _]. split.
  - intro E. destruct (new_schema c) as [S0| |] eqn:E0.
    + right. exists S0. split; [reflexivity|]. destruct (append_types S0 ts) as [S1| |] eqn:E1.
      * destruct (H2 (ex_intro _ S0 (ex_intro _ S1 (conj eq_refl E1)))) as [S2 E2]. rewrite E in E2. discriminate.
      * reflexivity.
      * exfalso. exact (append_types_terminates (fuel_for (c_defs c)) 0 c S0 [] S0 ts E0 eq_refl E1).
    + left. reflexivity.
    + exfalso. exact (new_schema_terminates c E0).
  - intros [E0|(S0 & E0 & E1)].
    + destruct (new_schema (with_types c ts)) as [S2| |] eqn:E2; [|reflexivity|exfalso; exact (new_schema_terminates _ E2)].
      destruct (H1 (ex_intro _ S2 eq_refl)) as (S0 & S1 & X & _). rewrite E0 in X. discriminate.
    + destruct (new_schema (with_types c ts)) as [S2| |] eqn:E2; [|reflexivity|exfalso; exact (new_schema_terminates _ E2)].
      destruct (H1 (ex_intro _ S2 eq_refl)) as (S0' & S1 & X & Y). rewrite E0 in X. inversion X; subst S0'. rewrite E1 in Y. discriminate.
Qed.
Print Assumptions C11_append_agrees_on_failure.

(* any partition of the extra types into "supplied up front" and "appended afterwards" *)
Theorem C11_append_any_partition : forall c t1 t2,
  (exists sch, new_schema (with_types c (t1 ++ t2)) = OK sch) <->
  (exists sch0 sch1, new_schema (with_types c t1) = OK sch0 /\ append_types sch0 t2 = OK sch1).
Proof.
  intros c t1 t2. destruct (C11_append_agrees_with_upfront (with_types c t1) t2) as [H _].
  assert (E : with_types (with_types c t1) t2 = with_types c (t1 ++ t2)).
  { unfold with_types. simpl. rewrite <- app_assoc. reflexivity. }
  rewrite E in H. exact H.
Qed.
Print Assumptions C11_append_any_partition.

(* ---------- non-vacuity ---------- *)
Definition ex_cfg : config :=
  with_meta (Cfg
    [ (100, DInterface (s "Node") [(s "id", FieldOf (TNonNull (TNamed 5)) []); (s "next", FieldOf (TList (TNamed 100)) [])] true);
      (101, DObject (s "User") (RList [Some 100])
              [(s "id", FieldOf (TNonNull (TNamed 5)) [(s "extra", ArgOf (TNamed 1))]);
               (s "next", FieldOf (TNonNull (TList (TNamed 101))) [])] true);
      (102, DObject (s "Query") RNone [(s "node", FieldOf (TNamed 100) [(s "id", ArgOf (TNonNull (TNamed 5)))])] true) ]
    (Some 102) None None [TNamed 101] []).

(* the hypotheses of the theorems are satisfiable, and the result is Consistent by the oracle *)
Example C11_nonvacuous_ok :
  match new_schema ex_cfg with OK sch => consistentb (view_of sch) && (9 <? N.of_nat (List.length (s_tm sch))) | _ => false end = true.
Proof. vm_compute. reflexivity. Qed.

(* [Node] implemented as [Query] (not an implementer) is rejected, and so is NonNull(NonNull(Int)) *)
Example C11_nonvacuous_err :
  new_schema (with_meta (Cfg
    [ (100, DInterface (s "Node") [(s "next", FieldOf (TList (TNamed 100)) [])] true);
      (101, DObject (s "User") (RList [Some 100]) [(s "next", FieldOf (TList (TNamed 102)) [])] true);
      (102, DObject (s "Query") RNone [(s "u", FieldOf (TNamed 101) [])] true) ]
    (Some 102) None None [] [])) = Err
  /\ new_schema (with_meta (Cfg
    [ (102, DObject (s "Query") RNone [(s "u", FieldOf (TNamed 1) [(s "a", ArgOf (TNonNull (TNonNull (TNamed 1))))])] true) ]
    (Some 102) None None [] [])) = Err.
Proof. split; vm_compute; reflexivity. Qed.

(* appending afterwards gives the view that supplying up front gives *)
Example C11_nonvacuous_append :
  match new_schema (Cfg (c_defs ex_cfg) (Some 102) None None [] []) with
  | OK sch => match append_types sch [TNamed 101], new_schema ex_cfg with
              | OK a, OK b => forallb (fun e => memN (snd e) (map snd (s_tm b))) (s_tm a)
                              && forallb (fun e => memN (snd e) (map snd (s_tm a))) (s_tm b)
                              && negb (memN 101 (map snd (s_tm sch)))
              | _, _ => false
              end
  | _ => false
  end = true.
Proof. vm_compute. reflexivity. Qed.

(* the out-of-fuel result exists in the model: too little fuel does run out (and one unit per definition is enough) *)
Example C11_nonvacuous_fuel :
  new_schema_fuel 2 ex_cfg = OutOfFuel /\ (exists sch, new_schema_fuel (List.length (c_defs ex_cfg)) ex_cfg = OK sch).
Proof. split; [vm_compute; reflexivity|vm_compute; eexists; reflexivity]. Qed.

(* both sides of the agreement occur: a conforming implementer appended afterwards is accepted both
   ways, a non-conforming one ([User2.next] is not a subtype of [Node.next]) is rejected both ways *)
Example C11_nonvacuous_agrees :
  let base := Cfg (c_defs ex_cfg ++ [(103, DObject (s "User2") (RList [Some 100]) [(s "id", FieldOf (TNonNull (TNamed 5)) []); (s "next", FieldOf (TNamed 1) [])] true)])
                  (Some 102) None None [] [] in
  (exists a b, new_schema (with_types base [TNamed 101]) = OK a /\ match new_schema base with OK s0 => append_types s0 [TNamed 101] = OK b | _ => False end)
  /\ new_schema (with_types base [TNamed 101; TNamed 103]) = Err
  /\ match new_schema base with OK s0 => append_types s0 [TNamed 101; TNamed 103] = Err | _ => False end.
Proof. split; [vm_compute; eexists; eexists; split; reflexivity|]. split; vm_compute; reflexivity. Qed.
