(* Property C11 -- schema construction never yields an inconsistent type system.
   Statements only; proofs live in Proofs/Types*.v.
   Model: Types/Schema.v (new_schema_fuel, append_type_fuel); Spec: Types/Consistent.v. *)
From Coq Require Import List NArith Bool String.
From GQL Require Import Base.Bytes Types.Schema Types.Consistent Proofs.TypesReduce Proofs.TypesNames
  Proofs.TypesClosed Proofs.TypesView Proofs.TypesImpl Proofs.TypesMain Proofs.TypesPossible
  Proofs.TypesConsistent Proofs.TypesOracle Proofs.TypesAppend Proofs.TypesFuel.
Import ListNotations.
Open Scope string_scope.
Open Scope N_scope.

(* Building a schema either returns an error or returns a schema whose public view is a
   consistent type system (every clause of Consistent), for every configuration and every fuel.
   with_meta puts the library's own definitions (built-in scalars, introspection types) next to
   the user's, as the Go library does. *)
Theorem C11_consistent : forall fuel c sch, new_schema_fuel fuel (with_meta c) = OK sch -> Consistent (view_of sch).
Proof. exact consistent_full. Qed.
Print Assumptions C11_consistent.

(* The same for any list of definitions whatsoever, minus the clause "the introspection types
   are there" (which is about the library's own definitions) and the roots *)
Theorem C11_consistent_any_defs : forall fuel c sch, new_schema_fuel fuel c = OK sch -> core_consistent (view_of sch).
Proof. exact consistent_core. Qed.
Print Assumptions C11_consistent_any_defs.

(* The executable oracle with which the runner judges what the implementation returned is the Spec *)
Theorem C11_oracle_decides : forall V, consistentb V = true <-> Consistent V.
Proof. exact consistentb_iff. Qed.
Print Assumptions C11_oracle_decides.

(* The schema's PossibleTypes / IsPossibleType tables are the possible types the declarations give *)
Theorem C11_possible_types_declared : forall fuel c sch a o, new_schema_fuel fuel c = OK sch ->
  In a (ids (s_tm sch)) -> In o (ids (s_tm sch)) ->
  (abstract_possible sch a o = true <-> possible (v_types (view_of sch)) a o = true).
Proof.
  intros fuel c sch a o H. destruct (new_schema_invariants _ _ _ H) as (Hg & Hc & _).
  exact (abstract_possible_spec sch Hg Hc a o).
Qed.
Print Assumptions C11_possible_types_declared.

(* isTypeSubTypeOf as coded decides the subtype relation of the specification, and the
   per-field interface check decides implements_field, for every possible-type relation *)
Theorem C11_subtype_decided : forall poss a b, is_type_sub_type_of poss a b = true <-> subtype poss a b.
Proof. exact sub_reflect. Qed.
Print Assumptions C11_subtype_decided.

Theorem C11_field_check_decided : forall poss ofs jf,
  field_implements poss ofs jf = true <-> implements_field poss ofs jf.
Proof. intros; split; [apply field_implements_sound|apply field_implements_complete]. Qed.
Print Assumptions C11_field_check_decided.

(* a parked error anywhere in what the roots and SchemaConfig.Types reach makes NewSchema fail:
   if it succeeded, every reachable definition passed its constructor and its lazy
   initialisation (fields, interfaces, union members), and no reference is broken *)
Theorem C11_errors_surface : forall fuel c sch, new_schema_fuel fuel c = OK sch ->
  (forall t, In t (initial_types c) -> target_of (c_defs c) (norm t) <> TgtBad)
  /\ forall i, reachable (c_defs c) (initial_types c) i ->
       (exists d, find_def (c_defs c) i = Some d /\ static_ok (c_defs c) d)
       /\ forall t, In t (out_refs (c_defs c) i) -> target_of (c_defs c) t <> TgtBad.
Proof. exact errors_surface. Qed.
Print Assumptions C11_errors_surface.

(* AppendType keeps the schema consistent *)
Theorem C11_append_consistent : forall f0 f1 c ts sch sch',
  new_schema_fuel f0 (with_meta c) = OK sch -> append_types_fuel f1 sch ts = OK sch' -> Consistent (view_of sch').
Proof. exact append_consistent. Qed.
Print Assumptions C11_append_consistent.

(* Appending types afterwards gives the same schema as supplying them up front: same definitions,
   roots and type map ... *)
Theorem C11_append_commutes : forall f0 f1 f2 c ts sch0 sch1 sch2,
  new_schema_fuel f0 c = OK sch0 -> append_types_fuel f1 sch0 ts = OK sch1 ->
  new_schema_fuel f2 (with_types c ts) = OK sch2 ->
  same_schema sch1 sch2.
Proof. exact append_commutes. Qed.
Print Assumptions C11_append_commutes.

(* ... and the same public view: same types, roots, PossibleTypes and IsPossibleType rows *)
Theorem C11_append_commutes_view : forall f0 f1 f2 c ts sch0 sch1 sch2,
  new_schema_fuel f0 c = OK sch0 -> append_types_fuel f1 sch0 ts = OK sch1 ->
  new_schema_fuel f2 (with_types c ts) = OK sch2 ->
  same_view (view_of sch1) (view_of sch2).
Proof. exact append_commutes_view. Qed.
Print Assumptions C11_append_commutes_view.

(* the type map is exactly what the roots, the introspection root and SchemaConfig.Types reach *)
Theorem C11_type_map_is_reachable : forall fuel c sch, new_schema_fuel fuel c = OK sch ->
  forall y, In y (ids (s_tm sch)) <-> reachable (c_defs c) (initial_types c) y.
Proof. exact new_schema_map. Qed.
Print Assumptions C11_type_map_is_reachable.

(* Termination: the fuel NewSchema is run with (one more than the number of definitions, the
   library's own included) is always enough -- the out-of-fuel result is unreachable -- and any
   larger fuel gives the same result, so the fuel is not an observable of the model. *)
Theorem C11_fuel_sufficient : forall c, new_schema c <> OutOfFuel.
Proof. exact new_schema_terminates. Qed.
Print Assumptions C11_fuel_sufficient.

Theorem C11_fuel_irrelevant : forall fuel c, (List.length (c_defs c) < fuel)%nat ->
  new_schema_fuel fuel c <> OutOfFuel /\ new_schema_fuel fuel c = new_schema c.
Proof. intros fuel c H. split; [exact (new_schema_fuel_enough fuel c H)|exact (new_schema_fuel_irrelevant fuel c H)]. Qed.
Print Assumptions C11_fuel_irrelevant.

(* the same for AppendType on every schema NewSchema and earlier AppendType calls can have produced *)
Theorem C11_fuel_sufficient_append : forall f0 f1 c sch0 ts0 sch ts,
  new_schema_fuel f0 c = OK sch0 -> append_types_fuel f1 sch0 ts0 = OK sch -> append_types sch ts <> OutOfFuel.
Proof. exact append_types_terminates. Qed.
Print Assumptions C11_fuel_sufficient_append.

(* ---------- non-vacuity ---------- *)
Definition ex_cfg : config :=
  with_meta (Cfg
    [ (100, DInterface (s "Node") [(s "id", FieldOf (TNonNull (TNamed 5)) []); (s "next", FieldOf (TList (TNamed 100)) [])] true);
      (101, DObject (s "User") (RList [Some 100])
              [(s "id", FieldOf (TNonNull (TNamed 5)) [(s "extra", ArgOf (TNamed 1))]);
               (s "next", FieldOf (TNonNull (TList (TNamed 101))) [])] true);
      (102, DObject (s "Query") RNone [(s "node", FieldOf (TNamed 100) [(s "id", ArgOf (TNonNull (TNamed 5)))])] true) ]
    (Some 102) None None [TNamed 101] []).

(* the hypotheses of the theorems are satisfiable, and the result is Consistent by the oracle *)
Example C11_nonvacuous_ok :
  match new_schema ex_cfg with OK sch => consistentb (view_of sch) && (9 <? N.of_nat (List.length (s_tm sch))) | _ => false end = true.
Proof. vm_compute. reflexivity. Qed.

(* [Node] implemented as [Query] (not an implementer) is rejected, and so is NonNull(NonNull(Int)) *)
Example C11_nonvacuous_err :
  new_schema (with_meta (Cfg
    [ (100, DInterface (s "Node") [(s "next", FieldOf (TList (TNamed 100)) [])] true);
      (101, DObject (s "User") (RList [Some 100]) [(s "next", FieldOf (TList (TNamed 102)) [])] true);
      (102, DObject (s "Query") RNone [(s "u", FieldOf (TNamed 101) [])] true) ]
    (Some 102) None None [] [])) = Err
  /\ new_schema (with_meta (Cfg
    [ (102, DObject (s "Query") RNone [(s "u", FieldOf (TNamed 1) [(s "a", ArgOf (TNonNull (TNonNull (TNamed 1))))])] true) ]
    (Some 102) None None [] [])) = Err.
Proof. split; vm_compute; reflexivity. Qed.

(* appending afterwards gives the view that supplying up front gives *)
Example C11_nonvacuous_append :
  match new_schema (Cfg (c_defs ex_cfg) (Some 102) None None [] []) with
  | OK sch => match append_types sch [TNamed 101], new_schema ex_cfg with
              | OK a, OK b => forallb (fun e => memN (snd e) (map snd (s_tm b))) (s_tm a)
                              && forallb (fun e => memN (snd e) (map snd (s_tm a))) (s_tm b)
                              && negb (memN 101 (map snd (s_tm sch)))
              | _, _ => false
              end
  | _ => false
  end = true.
Proof. vm_compute. reflexivity. Qed.

(* the out-of-fuel result exists in the model: too little fuel does run out (and one unit per definition is enough) *)
Example C11_nonvacuous_fuel :
  new_schema_fuel 2 ex_cfg = OutOfFuel /\ (exists sch, new_schema_fuel (List.length (c_defs ex_cfg)) ex_cfg = OK sch).
Proof. split; [vm_compute; reflexivity|vm_compute; eexists; reflexivity]. Qed.
