(* Property C11 -- schema construction never yields an inconsistent type system.
   Statements only; proofs live in Proofs/Types*.v.
   Model: Types/Schema.v (new_schema_fuel, append_type_fuel); Spec: Types/Consistent.v. *)
From Coq Require Import List NArith Bool String.
From GQL Require Import Base.Bytes Types.Schema Types.Consistent Proofs.TypesReduce Proofs.TypesNames
  Proofs.TypesClosed Proofs.TypesView Proofs.TypesImpl Proofs.TypesMain.
Import ListNotations.
Open Scope string_scope.
Open Scope N_scope.

(* Whatever NewSchema returns without error (any fuel, any configuration): named types are
   unique and legally named; every entry of the type map has all the types it refers to
   (interfaces, union members, field, argument and input-field types) in the map, well-formed
   wrappers, output types on fields and input types on arguments and input fields; the root
   types are objects of the map.  These are the clauses cs_unique, cs_names, cs_closed,
   cs_query, cs_mutation, cs_subscription of Consistent. *)
Theorem C11_consistent_partial : forall fuel c sch, new_schema_fuel fuel c = OK sch ->
  let V := view_of sch in
  NoDup (map vt_name (v_types V))
  /\ (forall vt, In vt (v_types V) -> valid_name (vt_name vt) = true)
  /\ (forall vt, In vt (v_types V) -> type_ok (v_types V) vt = true)
  /\ (exists q, v_query V = Some q /\ is_vobject (v_types V) q = true)
  /\ (forall m, v_mutation V = Some m -> is_vobject (v_types V) m = true)
  /\ (forall m, v_subscription V = Some m -> is_vobject (v_types V) m = true).
Proof. exact consistent_partial. Qed.
Print Assumptions C11_consistent_partial.

(* clause cs_meta: with the library's own definitions next to the user's, the introspection
   types are in the type map *)
Theorem C11_meta_partial : forall fuel c sch, new_schema_fuel fuel (with_meta c) = OK sch ->
  forall n, In n meta_names -> In n (map vt_name (v_types (view_of sch))).
Proof. exact meta_present. Qed.
Print Assumptions C11_meta_partial.

(* clause cs_implements, relative to the schema's own IsPossibleType table: every object of
   the map implements each interface it declares -- all fields present, covariant result
   type, identical argument types, no additional required argument *)
Theorem C11_implements_partial : forall fuel c sch, new_schema_fuel fuel c = OK sch ->
  forall o i jf, In o (objects_of sch) -> In i (interfaces_of (s_defs sch) o) -> In jf (fields_of (s_defs sch) i) ->
    implements_field (abstract_possible sch) (fields_of (s_defs sch) o) jf.
Proof. exact implements_partial. Qed.
Print Assumptions C11_implements_partial.

(* isTypeSubTypeOf as coded decides the subtype relation of the specification, and the
   per-field interface check decides implements_field, for every possible-type relation *)
Theorem C11_subtype_decided : forall poss a b, is_type_sub_type_of poss a b = true <-> subtype poss a b.
Proof. exact sub_reflect. Qed.
Print Assumptions C11_subtype_decided.

Theorem C11_field_check_decided : forall poss ofs jf,
  field_implements poss ofs jf = true <-> implements_field poss ofs jf.
Proof. intros; split; [apply field_implements_sound|apply field_implements_complete]. Qed.
Print Assumptions C11_field_check_decided.

(* a parked error anywhere in what the roots and SchemaConfig.Types reach makes NewSchema fail:
   if it succeeded, every reachable definition passed its constructor and its lazy
   initialisation (fields, interfaces, union members), and no reference is broken *)
Theorem C11_errors_surface : forall fuel c sch, new_schema_fuel fuel c = OK sch ->
  (forall t, In t (initial_types c) -> target_of (c_defs c) (norm t) <> TgtBad)
  /\ forall i, reachable (c_defs c) (initial_types c) i ->
       (exists d, find_def (c_defs c) i = Some d /\ static_ok (c_defs c) d)
       /\ forall t, In t (out_refs (c_defs c) i) -> target_of (c_defs c) t <> TgtBad.
Proof. exact errors_surface. Qed.
Print Assumptions C11_errors_surface.

(* AppendType keeps all of this: names unique and legal, map closed under reference *)
Theorem C11_append_preserves_partial : forall fuel S t S',
  tm_good (s_defs S) (s_tm S) -> closed (s_defs S) (s_tm S) ->
  append_type_fuel fuel S t = OK S' ->
  tm_good (s_defs S') (s_tm S') /\ closed (s_defs S') (s_tm S')
  /\ incl (ids (s_tm S)) (ids (s_tm S'))
  /\ NoDup (map vt_name (v_types (view_of S')))
  /\ (forall vt, In vt (v_types (view_of S')) -> type_ok (v_types (view_of S')) vt = true).
Proof.
  intros fuel S t S' Hg Hc H.
  pose proof (append_type_fuel_good _ _ _ _ Hg H) as Hg'.
  destruct (append_type_fuel_closed _ _ _ _ Hc H) as [Hc' Hi].
  repeat split; auto.
  - exact (proj1 Hg').
  - exact (proj2 Hg').
  - exact (good_unique_names S' Hg').
  - exact (good_closed_type_ok _ _ Hg' Hc').
Qed.
Print Assumptions C11_append_preserves_partial.

(* ---------- non-vacuity ---------- *)
Definition ex_cfg : config :=
  with_meta (Cfg
    [ (100, DInterface (s "Node") [(s "id", FieldOf (TNonNull (TNamed 5)) []); (s "next", FieldOf (TList (TNamed 100)) [])] true);
      (101, DObject (s "User") (RList [Some 100])
              [(s "id", FieldOf (TNonNull (TNamed 5)) [(s "extra", ArgOf (TNamed 1))]);
               (s "next", FieldOf (TNonNull (TList (TNamed 101))) [])] true);
      (102, DObject (s "Query") RNone [(s "node", FieldOf (TNamed 100) [(s "id", ArgOf (TNonNull (TNamed 5)))])] true) ]
    (Some 102) None None [TNamed 101] []).

(* the hypotheses of the theorems are satisfiable, and the result is Consistent by the oracle *)
Example C11_nonvacuous_ok :
  match new_schema ex_cfg with OK sch => consistentb (view_of sch) && (9 <? N.of_nat (List.length (s_tm sch))) | _ => false end = true.
Proof. vm_compute. reflexivity. Qed.

(* [Node] implemented as [Query] (not an implementer) is rejected, and so is NonNull(NonNull(Int)) *)
Example C11_nonvacuous_err :
  new_schema (with_meta (Cfg
    [ (100, DInterface (s "Node") [(s "next", FieldOf (TList (TNamed 100)) [])] true);
      (101, DObject (s "User") (RList [Some 100]) [(s "next", FieldOf (TList (TNamed 102)) [])] true);
      (102, DObject (s "Query") RNone [(s "u", FieldOf (TNamed 101) [])] true) ]
    (Some 102) None None [] [])) = Err
  /\ new_schema (with_meta (Cfg
    [ (102, DObject (s "Query") RNone [(s "u", FieldOf (TNamed 1) [(s "a", ArgOf (TNonNull (TNonNull (TNamed 1))))])] true) ]
    (Some 102) None None [] [])) = Err.
Proof. split; vm_compute; reflexivity. Qed.

(* appending afterwards gives the view that supplying up front gives *)
Example C11_nonvacuous_append :
  match new_schema (Cfg (c_defs ex_cfg) (Some 102) None None [] []) with
  | OK sch => match append_types sch [TNamed 101], new_schema ex_cfg with
              | OK a, OK b => forallb (fun e => memN (snd e) (map snd (s_tm b))) (s_tm a)
                              && forallb (fun e => memN (snd e) (map snd (s_tm a))) (s_tm b)
                              && negb (memN 101 (map snd (s_tm sch)))
              | _, _ => false
              end
  | _ => false
  end = true.
Proof. vm_compute. reflexivity. Qed.
