(* Property C11 -- schema construction never yields an inconsistent type system.
   Statements only; proofs live in Proofs/Types*.v. *)
From Coq Require Import List NArith Bool.
From GQL Require Import Base.Bytes Types.Schema Types.Consistent Proofs.TypesReduce Proofs.TypesNames.
Import ListNotations.
Open Scope N_scope.

(* Every named type of a schema returned by NewSchema is unique and legally named (any fuel). *)
Theorem C11_names_partial : forall fuel c sch, new_schema_fuel fuel c = OK sch ->
  NoDup (map vt_name (v_types (view_of sch))) /\
  forall vt, In vt (v_types (view_of sch)) -> valid_name (vt_name vt) = true.
Proof.
  intros fuel c sch H. split.
  - apply good_unique_names. exact (new_schema_fuel_good _ _ _ H).
  - apply good_valid_names. exact (new_schema_fuel_good _ _ _ H).
Qed.
Print Assumptions C11_names_partial.
