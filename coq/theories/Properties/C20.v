(* Property C20 -- resolvers are invoked once per selected field with accurate parameters.
   Statements only; proofs in Proofs/ExecInv.v, Proofs/ExecSerial.v, Proofs/CollectProofs.v. *)
From Coq Require Import List String Bool NArith.
From GQL Require Import Exec.Syntax Exec.Coerce Exec.Exec Exec.Request
     Proofs.ExecInv Proofs.ExecSerial Proofs.CollectProofs Proofs.ExecProofs.
Import ListNotations.
Open Scope string_scope.
Open Scope list_scope.

(* What a resolver is told: executing the field with response key k of an object value src of
   runtime type obj at path p records, first, exactly one invocation whose path is p ++ [k],
   parent type obj, source src, field name and coerced arguments of the field, and all the
   occurrences merged under k; every further invocation it causes lies strictly below. *)
Theorem C20_call_record : forall fuel cmp dth E obj src k occs p s fd args,
  String.eqb (match occs with o :: _ => oc_name o | [] => "" end) "__typename" = false ->
  find_field (match occs with o :: _ => oc_name o | [] => "" end) (object_fields (en_S E) obj) = Some fd ->
  get_argument_values fuel (en_S E) (f_args fd) (match occs with o :: _ => oc_args o | [] => [] end)
                      (Some (en_vars E)) = Some args ->
  (forall t nodes occs0 fpath p0 v s0, inv1 p0 s0 (cmp t nodes occs0 fpath p0 v s0)) ->
  (forall q s0 p0, thunks_ok p0 q -> invD p0 s0 (dth q s0)) ->
  match exec_field fuel cmp dth E obj src k occs p s with
  | XOk _ s' | XRaise _ s' =>
    exists cs, st_calls s' = st_calls s ++
      {| c_path := p ++ [PKey k]; c_parent := obj;
         c_field := match occs with o :: _ => oc_name o | [] => "" end;
         c_source := src; c_args := args; c_nodes := map oc_id occs |} :: cs
      /\ Forall (fun c => prefix (p ++ [PKey k]) (c_path c)) cs
  | XFuel => True
  end.
Proof. exact exec_field_first_call. Qed.
Print Assumptions C20_call_record.

(* All invocations made for one response key lie under that key's path, segment by segment in
   collection order; response keys of one object value are distinct, so no two segments share a path. *)
Theorem C20_calls_segmented : forall fuel E obj src g p s,
  match exec_groups fuel E obj src g p s with
  | XOk _ s' | XRaise _ s' =>
    exists cs, st_calls s' = st_calls s ++ cs /\ Seg p (map fst g) (map c_path cs)
  | XFuel => True
  end.
Proof. exact groups_seg. Qed.
Print Assumptions C20_calls_segmented.

Theorem C20_keys_unique : forall fuel S D vars obj sels g' v',
  collect fuel S D vars obj sels [] [] = Some (g', v') -> NoDup (map fst g').
Proof. intros. eapply collect_keys_nodup; [eassumption|constructor]. Qed.
Print Assumptions C20_keys_unique.

(* A request that is rejected (operation not found, variables that do not coerce) runs no resolver:
   RReject carries no trace; and a completed request's trace starts empty. *)
Theorem C20_no_calls_before : st_calls st0 = [].
Proof. reflexivity. Qed.
Print Assumptions C20_no_calls_before.

(* Every selected field of every object value is resolved at most once: in a completed request
   (whatever the resolvers return -- values, errors, panics, deferred values at any depth -- and
   whether or not the data was nulled) no two resolver invocations have the same response path.
   Together with C20_call_record (the invocation for key k of the object at p has path p ++ [k]),
   this is "once per response key per object value". *)
From GQL Require Import Proofs.ExecPaths.
Theorem C20_resolved_at_most_once : forall fuel S D opn inputs root or tor data s,
  request fuel S D opn inputs root or tor = RDone data s -> NoDup (map c_path (st_calls s)).
Proof. exact request_calls_nodup. Qed.
Print Assumptions C20_resolved_at_most_once.

(* "... and exactly once unless an earlier failure already nulled the enclosing object": in a
   completed request every object value that survives in the response data (the root object, and
   recursively every object under a field or a list item that was not replaced by null) has had,
   for each of its response keys that names a field of its runtime type, an invocation with that
   key's path, the runtime type as parent, the object's source -- the root value at the top
   level --, the field's name, the coerced arguments and all the merged occurrences, and no other
   invocation has that path (PCallG ... (called_once s)); keys selecting __typename hold the
   runtime type's name and keys naming no field are absent.  d is exactly that covered tree. *)
From GQL Require Import Exec.Conform Proofs.ExecCoverage Proofs.ExecSource.
Theorem C20_resolved_exactly_once : forall fuel S D opn inputs root or tor d s,
  request fuel S D opn inputs root or tor = RDone (Some d) s ->
  exists op rt vars g fs,
    get_operation D opn = Some op /\ root_type S op = Some rt /\
    get_variable_values fuel S (o_vars op) inputs = Some (inl vars) /\
    (exists v, collect fuel S D vars rt (o_sel op) [] [] = Some (g, v)) /\
    let E := {| en_S := S; en_D := D; en_vars := vars; en_or := or; en_tor := tor;
                en_serial := match o_kind op with OpMutation => true | _ => false end |} in
    PCallG E (called_once s) rt root [] g fs /\ d = to_resp (QObj fs).
Proof. exact request_calls_exactly_once. Qed.
Print Assumptions C20_resolved_exactly_once.

(* "its source is the value its parent resolved to (the individual element under a list, the
   request's root value at the top level)": for EVERY invocation of a request, also inside
   subtrees nulled later and whether or not data itself was nulled, the path is p ++ [k] and the
   source is the root value when p = [], and otherwise the value reached from the forced outcome
   of the resolver of the enclosing field (q ++ [k']) by descending through the list indices
   between that field and p. *)
Theorem C20_sources_accurate : forall fuel S D opn inputs root or tor data s,
  request fuel S D opn inputs root or tor = RDone data s ->
  exists op vars,
    get_operation D opn = Some op /\
    get_variable_values fuel S (o_vars op) inputs = Some (inl vars) /\
    let E := {| en_S := S; en_D := D; en_vars := vars; en_or := or; en_tor := tor;
                en_serial := match o_kind op with OpMutation => true | _ => false end |} in
    Forall (src_ok E root) (st_calls s).
Proof. exact request_sources. Qed.
Print Assumptions C20_sources_accurate.

Theorem C20_top_level_source_is_root : forall E root src, obj_at E root [] src -> src = root.
Proof. exact obj_at_root. Qed.
Print Assumptions C20_top_level_source_is_root.

(* not vacuous: the request of Proofs/ExecPaths.v (a deferred list of two objects, an aliased
   second occurrence, one deferred failing field) completes with data; its five invocations have
   the root, the first and the second list element as sources. *)
Example C20_nonvacuous :
  exists d s,
    request 10 ex_schema ex_doc None [] (RObj 0%N "Q") ex_oracle (fun _ => Some "Q") = RDone (Some d) s /\
    map (fun c => (c_path c, c_source c)) (st_calls s) =
      [([PKey "l"], RObj 0%N "Q");
       ([PKey "l"; PIdx 0%N; PKey "x"], RObj 1%N "Q"); ([PKey "l"; PIdx 0%N; PKey "a"], RObj 1%N "Q");
       ([PKey "l"; PIdx 1%N; PKey "x"], RObj 2%N "Q"); ([PKey "l"; PIdx 1%N; PKey "a"], RObj 2%N "Q")] /\
    descend (RList [RObj 1%N "Q"; RObj 2%N "Q"]) [1%N] = Some (RObj 2%N "Q").
Proof. eexists. eexists. split; [vm_compute; reflexivity|split; reflexivity]. Qed.

(* "its arguments are the coerced arguments of that field, and its info names ... the field's
   occurrences in the document": for EVERY invocation of a request -- also inside subtrees
   nulled later and whether or not data itself was nulled -- the occurrences it is told about
   (c_nodes) are field nodes of the document (of an operation, of a fragment, or below such a
   node), the field name is the first occurrence's, and the argument map is what input coercion
   (get_argument_values, characterised by C05_arguments_with_variables) yields from the first
   occurrence's argument literals against the argument definitions of the schema field
   (parent type, field name) under the request's coerced variable values. *)
From GQL Require Import Proofs.ExecArgs.
Theorem C20_arguments_accurate : forall fuel S D opn inputs root or tor data s,
  request fuel S D opn inputs root or tor = RDone data s ->
  exists op vars,
    get_operation D opn = Some op /\
    get_variable_values fuel S (o_vars op) inputs = Some (inl vars) /\
    let E := {| en_S := S; en_D := D; en_vars := vars; en_or := or; en_tor := tor;
                en_serial := match o_kind op with OpMutation => true | _ => false end |} in
    Forall (args_ok E) (st_calls s).
Proof. exact request_args. Qed.
Print Assumptions C20_arguments_accurate.
