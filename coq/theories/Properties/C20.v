(* Property C20 -- resolvers are invoked once per selected field with accurate parameters.
   Statements only; proofs in Proofs/ExecInv.v, Proofs/ExecSerial.v, Proofs/CollectProofs.v. *)
From Coq Require Import List String Bool NArith.
From GQL Require Import Exec.Syntax Exec.Coerce Exec.Exec Exec.Request
     Proofs.ExecInv Proofs.ExecSerial Proofs.CollectProofs Proofs.ExecProofs.
Import ListNotations.
Open Scope string_scope.
Open Scope list_scope.

(* What a resolver is told: executing the field with response key k of an object value src of
   runtime type obj at path p records, first, exactly one invocation whose path is p ++ [k],
   parent type obj, source src, field name and coerced arguments of the field, and all the
   occurrences merged under k; every further invocation it causes lies strictly below. *)
Theorem C20_call_record : forall fuel cmp dth E obj src k occs p s fd args,
  String.eqb (match occs with o :: _ => oc_name o | [] => "" end) "__typename" = false ->
  find_field (match occs with o :: _ => oc_name o | [] => "" end) (object_fields (en_S E) obj) = Some fd ->
  get_argument_values fuel (en_S E) (f_args fd) (match occs with o :: _ => oc_args o | [] => [] end)
                      (Some (en_vars E)) = Some args ->
  (forall t nodes occs0 fpath p0 v s0, inv1 p0 s0 (cmp t nodes occs0 fpath p0 v s0)) ->
  (forall q s0 p0, thunks_ok p0 q -> invD p0 s0 (dth q s0)) ->
  match exec_field fuel cmp dth E obj src k occs p s with
  | XOk _ s' | XRaise _ s' =>
    exists cs, st_calls s' = st_calls s ++
      {| c_path := p ++ [PKey k]; c_parent := obj;
         c_field := match occs with o :: _ => oc_name o | [] => "" end;
         c_source := src; c_args := args; c_nodes := map oc_id occs |} :: cs
      /\ Forall (fun c => prefix (p ++ [PKey k]) (c_path c)) cs
  | XFuel => True
  end.
Proof. exact exec_field_first_call. Qed.
Print Assumptions C20_call_record.

(* All invocations made for one response key lie under that key's path, segment by segment in
   collection order; response keys of one object value are distinct, so no two segments share a path. *)
Theorem C20_calls_segmented : forall fuel E obj src g p s,
  match exec_groups fuel E obj src g p s with
  | XOk _ s' | XRaise _ s' =>
    exists cs, st_calls s' = st_calls s ++ cs /\ Seg p (map fst g) (map c_path cs)
  | XFuel => True
  end.
Proof. exact groups_seg. Qed.
Print Assumptions C20_calls_segmented.

Theorem C20_keys_unique : forall fuel S D vars obj sels g' v',
  collect fuel S D vars obj sels [] [] = Some (g', v') -> NoDup (map fst g').
Proof. intros. eapply collect_keys_nodup; [eassumption|constructor]. Qed.
Print Assumptions C20_keys_unique.

(* A request that is rejected (operation not found, variables that do not coerce) runs no resolver:
   RReject carries no trace; and a completed request's trace starts empty. *)
Theorem C20_no_calls_before : st_calls st0 = [].
Proof. reflexivity. Qed.
Print Assumptions C20_no_calls_before.

(* Every selected field of every object value is resolved at most once: in a completed request
   (whatever the resolvers return -- values, errors, panics, deferred values at any depth -- and
   whether or not the data was nulled) no two resolver invocations have the same response path.
   Together with C20_call_record (the invocation for key k of the object at p has path p ++ [k]),
   this is "once per response key per object value". *)
From GQL Require Import Proofs.ExecPaths.
Theorem C20_resolved_at_most_once : forall fuel S D opn inputs root or tor data s,
  request fuel S D opn inputs root or tor = RDone data s -> NoDup (map c_path (st_calls s)).
Proof. exact request_calls_nodup. Qed.
Print Assumptions C20_resolved_at_most_once.
