(* Property C04 -- responses are well-formed for schema and query whatever resolvers return.
   Statements only; proofs in Proofs/ConformProofs.v and Proofs/ExecInv.v.
   The theorems quantify over every oracle of resolver outcomes (values of the wrong kind, nil,
   typed nil, NaN, errors, value+error, panics, thunks) and every runtime-type oracle
   (nil, non-possible types): nothing is assumed about them. *)
From Coq Require Import List String Bool NArith ZArith.
From GQL Require Import Exec.Syntax Exec.Coerce Exec.Exec Exec.Conform Exec.Request
     Proofs.ExecInv Proofs.ConformProofs.
Import ListNotations.
Open Scope string_scope.
Open Scope list_scope.

(* The data of every completed request conforms to schema and query (Exec/Conform.v): it is an
   object holding exactly the collected response keys that name a field, every value conforms to
   its own field's type -- a non-null position is never null, list positions hold lists or null,
   leaves are legal serialisations (Int within 32 bits, enum value names, ...), objects
   recursively for the runtime type -- and nothing deferred is left in it. *)
Theorem C04_conforms : forall fuel S D opn inputs root or tor d s,
  request fuel S D opn inputs root or tor = RDone (Some d) s ->
  exists op rt vars g fs,
    get_operation D opn = Some op /\ root_type S op = Some rt /\
    get_variable_values fuel S (o_vars op) inputs = Some (inl vars) /\
    (exists v, collect fuel S D vars rt (o_sel op) [] [] = Some (g, v)) /\
    let E := {| en_S := S; en_D := D; en_vars := vars; en_or := or; en_tor := tor;
                en_serial := match o_kind op with OpMutation => true | _ => false end |} in
    PConfG E rt g fs /\ thunks (QObj fs) = [] /\ d = to_resp (QObj fs).
Proof. exact request_conforms. Qed.
Print Assumptions C04_conforms.

(* The same at every depth: whatever value is completed against whatever type, the result conforms. *)
Theorem C04_complete_conforms : forall E fuel t nodes occs fpath p v s q s',
  complete fuel E t nodes occs fpath p v s = XOk q s' -> PConf E t occs q.
Proof.
  intros E fuel t nodes occs fpath p v s q s' H.
  pose proof (proj1 (conf_inv E fuel) t nodes occs fpath p v s) as Hc. rewrite H in Hc. exact (proj1 Hc).
Qed.
Print Assumptions C04_complete_conforms.

(* A failure becomes null exactly at the nearest nullable position, together with its error;
   at a non-null position it moves on to the enclosing position. *)
Theorem C04_failure_nulls_nearest_nullable : forall t e s,
  (is_nonnull t = false -> catch_at t (XRaise e s) = XOk QNull (add_err e s)) /\
  (is_nonnull t = true -> catch_at t (XRaise e s) = XRaise e s).
Proof. intros t e s. unfold catch_at. split; intros ->; reflexivity. Qed.
Print Assumptions C04_failure_nulls_nearest_nullable.

(* Errors recorded for other fields are kept: executing any selection set only ever appends to the
   error list, and every error it appends (or raises) carries a path below the selection set's own. *)
Theorem C04_errors_kept : forall fuel E obj src g p s,
  match exec_groups fuel E obj src g p s with
  | XOk _ s' => exists es, st_errs s' = st_errs s ++ es /\ Forall (fun e => prefix p (e_path e)) es
  | XRaise e s' => (exists es, st_errs s' = st_errs s ++ es /\ Forall (fun e => prefix p (e_path e)) es)
                   /\ prefix p (e_path e)
  | XFuel => True
  end.
Proof.
  intros fuel E obj src g p s.
  pose proof (proj1 (proj2 (proj2 (exec_inv fuel))) E obj src g p s) as H.
  destruct (exec_groups fuel E obj src g p s) as [fs s'|e s'|]; cbn in H; auto.
  - destruct H as [[_ He] _]. exact He.
  - destruct H as [[_ He] Hp]. split; assumption.
Qed.
Print Assumptions C04_errors_kept.

(* ---- non-vacuity: adversarial outcomes (an out-of-range Int, a value returned together with an
        error, a non-iterable for a list, a failing non-null child) give a conforming response ---- *)
Definition S4 : schema := {|
  s_types := [("Int", TScalar SInt); ("String", TScalar SString);
              ("O", TObject [{| f_name := "n"; f_args := []; f_type := TNonNull (TNamed "Int") |}] []);
              ("Q", TObject [{| f_name := "i"; f_args := []; f_type := TNamed "Int" |};
                             {| f_name := "s"; f_args := []; f_type := TNamed "String" |};
                             {| f_name := "l"; f_args := []; f_type := TList (TNamed "Int") |};
                             {| f_name := "o"; f_args := []; f_type := TNamed "O" |}] [])];
  s_query := "Q"; s_mutation := None |}.
Definition D4 : document := {|
  d_ops := [{| o_kind := OpQuery; o_name := None; o_vars := [];
               o_sel := [SField 2%N None "i" [] [] []; SField 4%N None "s" [] [] []; SField 6%N None "l" [] [] [];
                         SField 8%N None "o" [] [] [SField 12%N None "n" [] [] []]] |}];
  d_frags := [] |}.
Definition or4 : oracle := fun p =>
  match p with
  | [PKey "i"] => Some (OVal (RInt 2147483648%Z))
  | [PKey "s"] => Some (OValErr (RStr "leak"))
  | [PKey "l"] => Some (OVal (RInt 5%Z))
  | [PKey "o"] => Some (OVal (RObj 1%N "O"))
  | [PKey "o"; PKey "n"] => Some (OThunk OErr)
  | _ => None
  end.

Example C04_nonvacuous :
  match request 20 S4 D4 None [] (RObj 0%N "root") or4 (fun _ => None) with
  | RDone (Some d) s =>
    d = PObj [("i", PNull); ("s", PNull); ("l", PNull); ("o", PNull)] /\
    map e_path (st_errs s) = [[PKey "s"]; [PKey "l"]; [PKey "o"; PKey "n"]]
  | _ => False
  end.
Proof. vm_compute. split; reflexivity. Qed.
