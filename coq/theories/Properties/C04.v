(* Property C04 -- responses are well-formed for schema and query whatever resolvers return.
   Statements only; proofs in Proofs/ConformProofs.v and Proofs/ExecInv.v.
   The theorems quantify over every oracle of resolver outcomes (values of the wrong kind, nil,
   typed nil, NaN, errors, value+error, panics, thunks) and every runtime-type oracle
   (nil, non-possible types): nothing is assumed about them. *)
From Coq Require Import List String Bool NArith ZArith.
From GQL Require Import Exec.Syntax Exec.Coerce Exec.Exec Exec.Conform Exec.Request
     Proofs.ExecInv Proofs.ConformProofs.
Import ListNotations.
Open Scope string_scope.
Open Scope list_scope.

(* The data of every completed request conforms to schema and query (Exec/Conform.v): it is an
   object holding exactly the collected response keys that name a field, every value conforms to
   its own field's type -- a non-null position is never null, list positions hold lists or null,
   leaves are legal serialisations (Int within 32 bits, enum value names, ...), objects
   recursively for the runtime type -- and nothing deferred is left in it. *)
Theorem C04_conforms : forall fuel S D opn inputs root or tor d s,
  request fuel S D opn inputs root or tor = RDone (Some d) s ->
  exists op rt vars g fs,
    get_operation D opn = Some op /\ root_type S op = Some rt /\
    get_variable_values fuel S (o_vars op) inputs = Some (inl vars) /\
    (exists v, collect fuel S D vars rt (o_sel op) [] [] = Some (g, v)) /\
    let E := {| en_S := S; en_D := D; en_vars := vars; en_or := or; en_tor := tor;
                en_serial := match o_kind op with OpMutation => true | _ => false end |} in
    PConfG E rt g fs /\ thunks (QObj fs) = [] /\ d = to_resp (QObj fs).
Proof. exact request_conforms. Qed.
Print Assumptions C04_conforms.

(* The same at every depth: whatever value is completed against whatever type, the result conforms. *)
Theorem C04_complete_conforms : forall E fuel t nodes occs fpath p v s q s',
  complete fuel E t nodes occs fpath p v s = XOk q s' -> PConf E t occs q.
Proof.
  intros E fuel t nodes occs fpath p v s q s' H.
  pose proof (proj1 (conf_inv E fuel) t nodes occs fpath p v s) as Hc. rewrite H in Hc. exact (proj1 Hc).
Qed.
Print Assumptions C04_complete_conforms.

(* A failure becomes null exactly at the nearest nullable position, together with its error;
   at a non-null position it moves on to the enclosing position. *)
Theorem C04_failure_nulls_nearest_nullable : forall t e s,
  (is_nonnull t = false -> catch_at t (XRaise e s) = XOk QNull (add_err e s)) /\
  (is_nonnull t = true -> catch_at t (XRaise e s) = XRaise e s).
Proof. intros t e s. unfold catch_at. split; intros ->; reflexivity. Qed.
Print Assumptions C04_failure_nulls_nearest_nullable.

(* Errors recorded for other fields are kept: executing any selection set only ever appends to the
   error list, and every error it appends (or raises) carries a path below the selection set's own. *)
Theorem C04_errors_kept : forall fuel E obj src g p s,
  match exec_groups fuel E obj src g p s with
  | XOk _ s' => exists es, st_errs s' = st_errs s ++ es /\ Forall (fun e => prefix p (e_path e)) es
  | XRaise e s' => (exists es, st_errs s' = st_errs s ++ es /\ Forall (fun e => prefix p (e_path e)) es)
                   /\ prefix p (e_path e)
  | XFuel => True
  end.
Proof.
  intros fuel E obj src g p s.
  pose proof (proj1 (proj2 (proj2 (exec_inv fuel))) E obj src g p s) as H.
  destruct (exec_groups fuel E obj src g p s) as [fs s'|e s'|]; cbn in H; auto.
  - destruct H as [[_ He] _]. exact He.
  - destruct H as [[_ He] Hp]. split; assumption.
Qed.
Print Assumptions C04_errors_kept.

(* ---- non-vacuity: adversarial outcomes (an out-of-range Int, a value returned together with an
        error, a non-iterable for a list, a failing non-null child) give a conforming response ---- *)
Definition S4 : schema := {|
  s_types := [("Int", TScalar SInt); ("String", TScalar SString);
              ("O", TObject [{| f_name := "n"; f_args := []; f_type := TNonNull (TNamed "Int") |}] []);
              ("Q", TObject [{| f_name := "i"; f_args := []; f_type := TNamed "Int" |};
                             {| f_name := "s"; f_args := []; f_type := TNamed "String" |};
                             {| f_name := "l"; f_args := []; f_type := TList (TNamed "Int") |};
                             {| f_name := "o"; f_args := []; f_type := TNamed "O" |}] [])];
  s_query := "Q"; s_mutation := None |}.
Definition D4 : document := {|
  d_ops := [{| o_kind := OpQuery; o_name := None; o_vars := [];
               o_sel := [SField 2%N None "i" [] [] []; SField 4%N None "s" [] [] []; SField 6%N None "l" [] [] [];
                         SField 8%N None "o" [] [] [SField 12%N None "n" [] [] []]] |}];
  d_frags := [] |}.
Definition or4 : oracle := fun p =>
  match p with
  | [PKey "i"] => Some (OVal (RInt 2147483648%Z))
  | [PKey "s"] => Some (OValErr (RStr "leak"))
  | [PKey "l"] => Some (OVal (RInt 5%Z))
  | [PKey "o"] => Some (OVal (RObj 1%N "O"))
  | [PKey "o"; PKey "n"] => Some (OThunk OErr)
  | _ => None
  end.

Example C04_nonvacuous :
  match request 20 S4 D4 None [] (RObj 0%N "root") or4 (fun _ => None) with
  | RDone (Some d) s =>
    d = PObj [("i", PNull); ("s", PNull); ("l", PNull); ("o", PNull)] /\
    map e_path (st_errs s) = [[PKey "s"]; [PKey "l"]; [PKey "o"; PKey "n"]]
  | _ => False
  end.
Proof. vm_compute. split; reflexivity. Qed.

(* ---- isolation of sibling fields (Proofs/ExecIsolation.v) ----
   Two runs whose resolver oracles agree everywhere outside the subtree at fp -- in particular
   one where something below fp fails and one where it does not -- compared field by field.
   agree_outside fp o1 o2 := forall q, ~ prefix fp q -> o1 q = o2 q;
   errs_out fp s / calls_out fp s := the errors / resolver invocations of s whose path is not
   under fp, in recorded order. *)
From GQL Require Import Proofs.ExecPaths Proofs.ExecIsolation Run.ExecRun.

(* a request: every top-level field other than the one the runs differ under has the same
   sub-response, and the errors and resolver invocations (arguments included) outside that
   field's subtree are the same, provided neither run nulls the data itself *)
Theorem C04_sibling_isolation : forall fuel S D opn inputs root or1 or2 tor k fp d1 s1 d2 s2,
  prefix [PKey k] fp -> agree_outside fp or1 or2 ->
  request fuel S D opn inputs root or1 tor = RDone (Some d1) s1 ->
  request fuel S D opn inputs root or2 tor = RDone (Some d2) s2 ->
  (forall k', k' <> k -> resp_at d1 [PKey k'] = resp_at d2 [PKey k']) /\
  errs_out [PKey k] s1 = errs_out [PKey k] s2 /\
  calls_out [PKey k] s1 = calls_out [PKey k] s2.
Proof. exact request_isolation. Qed.
Print Assumptions C04_sibling_isolation.

(* the same for the selection set of any object value at any response path p, provided neither
   run raises out of the selection set (which would null the enclosing position): same keys,
   same (possibly still deferred) result for every sibling key *)
Theorem C04_selection_isolation : forall fuel E1 E2 obj src g p k fp s fs1 s1 fs2 s2,
  same_but_oracle E1 E2 -> prefix (p ++ [PKey k]) fp -> agree_outside fp (en_or E1) (en_or E2) ->
  exec_groups fuel E1 obj src g p s = XOk fs1 s1 ->
  exec_groups fuel E2 obj src g p s = XOk fs2 s2 ->
  map fst fs1 = map fst fs2 /\
  (forall k', k' <> k -> alookup k' fs1 = alookup k' fs2) /\
  errs_out (p ++ [PKey k]) s1 = errs_out (p ++ [PKey k]) s2 /\
  calls_out (p ++ [PKey k]) s1 = calls_out (p ++ [PKey k]) s2.
Proof. exact selection_isolation. Qed.
Print Assumptions C04_selection_isolation.

(* and after the deferred values of the two results are forced *)
Theorem C04_selection_isolation_forced : forall fuel fuel' E1 E2 obj src g p k fp s fs1 s1 fs2 s2 q1 s1' q2 s2',
  same_but_oracle E1 E2 -> prefix (p ++ [PKey k]) fp -> agree_outside fp (en_or E1) (en_or E2) ->
  exec_groups fuel E1 obj src g p s = XOk fs1 s1 ->
  exec_groups fuel E2 obj src g p s = XOk fs2 s2 ->
  dethunk fuel' E1 (QObj fs1) s1 = XOk q1 s1' ->
  dethunk fuel' E2 (QObj fs2) s2 = XOk q2 s2' ->
  exists ys1 ys2, q1 = QObj ys1 /\ q2 = QObj ys2 /\
    map fst ys1 = map fst ys2 /\
    (forall k', k' <> k -> alookup k' ys1 = alookup k' ys2) /\
    errs_out (p ++ [PKey k]) s1' = errs_out (p ++ [PKey k]) s2' /\
    calls_out (p ++ [PKey k]) s1' = calls_out (p ++ [PKey k]) s2'.
Proof. exact selection_isolation_forced. Qed.
Print Assumptions C04_selection_isolation_forced.

(* the reason: an execution at path p consults the resolver oracle only at paths below p (the
   dethunk pass: below the deferred values it forces), ... *)
Theorem C04_oracle_locality : forall fuel E1 E2, same_but_oracle E1 E2 ->
  (forall t nodes occs fpath p v s, agree_under p (en_or E1) (en_or E2) ->
     complete fuel E1 t nodes occs fpath p v s = complete fuel E2 t nodes occs fpath p v s) /\
  (forall obj occs p src s, agree_under p (en_or E1) (en_or E2) ->
     exec_object fuel E1 obj occs p src s = exec_object fuel E2 obj occs p src s) /\
  (forall obj src g p s, agree_under p (en_or E1) (en_or E2) ->
     exec_groups fuel E1 obj src g p s = exec_groups fuel E2 obj src g p s) /\
  (forall q s p, agree_under p (en_or E1) (en_or E2) -> thunks_ok p q ->
     dethunk fuel E1 q s = dethunk fuel E2 q s).
Proof. exact oracle_locality. Qed.
Print Assumptions C04_oracle_locality.

(* ... and never reads the state it extends: run from s ++ d it yields its run from d, with s in front *)
Theorem C04_state_frame : forall fuel,
  (forall E t nodes occs fpath p v s d,
     complete fuel E t nodes occs fpath p v (sapp s d) = xlift s (complete fuel E t nodes occs fpath p v d)) /\
  (forall E obj occs p src s d,
     exec_object fuel E obj occs p src (sapp s d) = xlift s (exec_object fuel E obj occs p src d)) /\
  (forall E obj src g p s d,
     exec_groups fuel E obj src g p (sapp s d) = xlift s (exec_groups fuel E obj src g p d)) /\
  (forall E q s d, dethunk fuel E q (sapp s d) = xlift s (dethunk fuel E q d)).
Proof. exact frame_inv. Qed.
Print Assumptions C04_state_frame.

(* ---- "a field that fails contributes null together with an error whose path addresses that
   field" (Proofs/ExecErrors.v): for every resolver invocation of a request whose outcome is, at
   once, a failure (an error, a value together with an error, a panic with an error, a string or
   any other value) the response carries an error with exactly that field's response path and
   the field's occurrences as locations -- wherever the resulting null ends up, and whether or
   not data itself was nulled.  (C18_error_paths_address_null is the converse direction: every
   reported path addresses a null.)  A deferred outcome fails when it is forced. *)
From GQL Require Import Proofs.ExecErrors.
Theorem C04_failed_field_has_error : forall fuel S D opn inputs root or tor data s,
  request fuel S D opn inputs root or tor = RDone data s ->
  exists op vars,
    get_operation D opn = Some op /\
    get_variable_values fuel S (o_vars op) inputs = Some (inl vars) /\
    let E := {| en_S := S; en_D := D; en_vars := vars; en_or := or; en_tor := tor;
                en_serial := match o_kind op with OpMutation => true | _ => false end |} in
    forall c, In c (st_calls s) -> fails_now E c -> reported (st_errs s) c.
Proof. exact request_failures_reported. Qed.
Print Assumptions C04_failed_field_has_error.

(* not vacuous: in the request of C04_nonvacuous the resolver of "s" fails at once (a value
   together with an error) and its error is reported with its path and its occurrence *)
Example C04_failed_field_nonvacuous :
  match request 20 S4 D4 None [] (RObj 0%N "root") or4 (fun _ => None) with
  | RDone (Some d) s =>
    exists c, In c (st_calls s) /\ c_path c = [PKey "s"] /\
              or4 (c_path c) = Some (OValErr (RStr "leak")) /\ force (OValErr (RStr "leak")) = (OValErr (RStr "leak"), false) /\
              In {| e_path := [PKey "s"]; e_nodes := [4%N] |} (st_errs s)
  | _ => False
  end.
Proof.
  vm_compute. eexists. split; [right; left; reflexivity|].
  repeat split. left. reflexivity.
Qed.

(* ... and "contributes null (never the raw resolver value)": the data of a completed request
   holds null at the failed field's path or at one of its prefixes (the nearest nullable
   ancestor the failure propagated to).  Corollary of C04_failed_field_has_error and
   C18_error_paths_address_null (Proofs/ExecPaths.v request_error_paths_null). *)
Theorem C04_failed_field_is_null : forall fuel S D opn inputs root or tor d s,
  request fuel S D opn inputs root or tor = RDone (Some d) s ->
  exists op vars,
    get_operation D opn = Some op /\
    get_variable_values fuel S (o_vars op) inputs = Some (inl vars) /\
    let E := {| en_S := S; en_D := D; en_vars := vars; en_or := or; en_tor := tor;
                en_serial := match o_kind op with OpMutation => true | _ => false end |} in
    forall c, In c (st_calls s) -> fails_now E c -> null_on_path d (c_path c) = true.
Proof.
  intros fuel S D opn inputs root or tor d s H.
  destruct (request_failures_reported _ _ _ _ _ _ _ _ _ _ H) as [op [vars [H1 [H2 H3]]]].
  exists op, vars. split; [exact H1|]. split; [exact H2|]. cbv zeta in H3 |- *.
  intros c Hc Hf. destruct (H3 c Hc Hf) as [e [He [Hp _]]].
  pose proof (request_error_paths_null _ _ _ _ _ _ _ _ _ _ H) as Hok. cbn [paths_ok] in Hok.
  rewrite forallb_forall in Hok. rewrite <- Hp. apply Hok. exact He.
Qed.
Print Assumptions C04_failed_field_is_null.
