(* Property C15 -- a subscription delivers one correct result per source event, then closes; after
   cancellation no goroutine of the subscription stays blocked.
   Statements only (proofs: Proofs/ConcSubscription.v), about the labelled transition system
   Conc/SubscriptionLts.v of graphql.Subscribe / ExecuteSubscription: source, forwarder goroutine,
   consumer, canceller; the result channel a rendezvous; sendOneResultAndClose with its capacity.
   All statements quantify over every schedule (every reachable state / every run), every event
   list, every per-event execution function `exec`. `sel k` says whether the send at site k also
   selects on ctx.Done(); the repaired code has `sel k = true` for every site. *)
From Coq Require Import List Arith Bool NArith.
From GQL Require Import Conc.SubscriptionLts Proofs.ConcSubscription.
Import ListNotations.

(* Delivery: in every reachable state of a valid stream subscription the delivered results are, in
   order, one per event, the results of a prefix of the source events (each `exec e`, or - only
   once the context is cancelled - the context error of an execution cut short). *)
Theorem C15_delivery : forall ev res (exec : ev -> res) sel cap es s,
  reach ev res exec sel cap (init ev res FrontOk SetChan es) s ->
  exists taken rest, es = taken ++ rest /\ Forall2 (ok_for ev res exec) taken (out s) /\
    (cancelled s = false -> out s = map (fun e => Normal (exec e)) taken).
Proof. exact delivery_prefix. Qed.
Print Assumptions C15_delivery.

(* ... complete if the forwarder ended because the source closed: every emitted event was delivered. *)
Theorem C15_delivery_complete : forall ev res (exec : ev -> res) sel cap es s,
  reach ev res exec sel cap (init ev res FrontOk SetChan es) s ->
  fwd s = PDone ExitEnd \/ fwd s = PClosing ExitEnd ->
  exists emitted, es = emitted ++ srcq s /\ Forall2 (ok_for ev res exec) emitted (out s) /\
    (cancelled s = false -> out s = map (fun e => Normal (exec e)) emitted).
Proof. exact delivery_complete. Qed.
Print Assumptions C15_delivery_complete.

(* Closing: once the source is closed and the consumer keeps reading, steps of the library and
   deliveries alone lead to a closed result channel and a finished forwarder ... *)
Theorem C15_closes : forall ev res (exec : ev -> res) sel cap, 1 <= cap ->
  forall f su es s, reach ev res exec sel cap (init ev res f su es) s ->
  sclosed s = true -> stopped s = false ->
  exists ls s', run ev res exec sel cap s ls s' /\ Forall (fun l => lib_or_deliver l = true) ls /\
    fwd_done ev res s' = true /\ rclosed s' = true.
Proof. exact closes_after_source_close. Qed.
Print Assumptions C15_closes.

(* ... and the channel is closed by nobody but the terminating forwarder: the consumer never sees
   a close while the forwarder could still send. *)
Theorem C15_closed_only_at_end : forall ev res (exec : ev -> res) sel cap f su es s,
  reach ev res exec sel cap (init ev res f su es) s ->
  (rclosed s = true -> fwd_done ev res s = true) /\ (seen_closed s = true -> fwd_done ev res s = true).
Proof. exact close_inv_reach. Qed.
Print Assumptions C15_closed_only_at_end.

(* One error: a request that fails to parse or validate (sendOneResultAndClose, capacity cap)
   delivers at most the one error result, and exactly it before the consumer sees the close. *)
Theorem C15_one_error : forall ev res (exec : ev -> res) sel cap su es s,
  reach ev res exec sel cap (init ev res FrontFail su es) s ->
  (exists n, out s = firstn n [ErrRes]) /\ (seen_closed s = true -> out s = [ErrRes]).
Proof. exact one_error_front. Qed.
Print Assumptions C15_one_error.

(* One error, failure inside the forwarder (no operation, unknown field, Subscribe resolver error,
   nil source): the same, except that after cancellation the error may be dropped when the send
   watches the context. *)
Theorem C15_one_error_subscribe : forall ev res (exec : ev -> res) sel cap es s,
  reach ev res exec sel cap (init ev res FrontOk SetErr es) s ->
  (out s = [] \/ out s = [ErrRes]) /\
  (seen_closed s = true -> out s = [ErrRes] \/ (out s = [] /\ cancelled s = true /\ sel SErr = true)).
Proof. exact one_error_setup. Qed.
Print Assumptions C15_one_error_subscribe.

(* No stuck goroutine: when every send selects on ctx.Done() and the one-shot channel has a buffer,
   from every reachable cancelled state some finite sequence of library-only steps (no consumer,
   source or canceller step) ends the forwarder with the result channel closed ... *)
Theorem C15_no_stuck_goroutine : forall ev res (exec : ev -> res) sel cap,
  (forall k, sel k = true) -> 1 <= cap ->
  forall f su es s, reach ev res exec sel cap (init ev res f su es) s -> cancelled s = true ->
  exists ls s', run ev res exec sel cap s ls s' /\ Forall (fun l => lib l = true) ls /\
    fwd_done ev res s' = true /\ rclosed s' = true.
Proof. exact no_stuck_after_cancel. Qed.
Print Assumptions C15_no_stuck_goroutine.

(* ... and no infinite library-only run exists: its length is bounded by the measure. *)
Theorem C15_library_runs_finite : forall ev res (exec : ev -> res) sel cap s ls s',
  run ev res exec sel cap s ls s' -> Forall (fun l => lib l = true) ls ->
  length ls + measure ev res s' <= measure ev res s.
Proof. exact lib_run_bounded. Qed.
Print Assumptions C15_library_runs_finite.

(* Witness (the code before fix 89b2746): without the select on the send of the event loop a
   three-step schedule - take an event, the consumer stops, cancel - reaches a cancelled state in
   which the forwarder is alive and no library step is enabled. *)
Theorem C15_refuted_without_select : forall ev res (exec : ev -> res) sel cap, sel SLoop = false ->
  forall e, exists s, reach ev res exec sel cap (init ev res FrontOk SetChan [e]) s /\ stuck ev res exec sel cap s.
Proof. exact stuck_without_loop_select. Qed.
Print Assumptions C15_refuted_without_select.

(* Witness (the code before fix C15-error-send-ignores-cancel): the same for the error send. *)
Theorem C15_refuted_error_send_without_select : forall ev res (exec : ev -> res) sel cap, sel SErr = false ->
  forall es, exists s, reach ev res exec sel cap (init ev res FrontOk SetErr es) s /\ stuck ev res exec sel cap s.
Proof. exact stuck_without_error_select. Qed.
Print Assumptions C15_refuted_error_send_without_select.

(* Witness (the code before fix C15-subscribe-panic-no-result): a Subscribe resolver that panics with
   a non-error value made the goroutine end without any result; the consumer saw only the close. *)
Theorem C15_refuted_silent_exit : forall ev res (exec : ev -> res) sel cap es,
  exists s, reach ev res exec sel cap (init ev res FrontOk SetSilent es) s /\
            seen_closed s = true /\ out s = [] /\ cancelled s = false.
Proof. exact silent_exit_delivers_nothing. Qed.
Print Assumptions C15_refuted_silent_exit.

(* Observed traces: a trace accepted by the executable acceptor is the visible part of a run of
   the LTS, and the consumer's received values are exactly the ORecv observations. *)
Theorem C15_accepts_sound : forall ev res (exec : ev -> res) sel cap res_eqb ev_eqb,
  (forall a b, res_eqb a b = true -> a = b) ->
  forall s0 os, accepts_obs ev res exec sel cap res_eqb ev_eqb s0 os = true ->
  exists s, orun ev res exec sel cap s0 os s /\ out s = out s0 ++ recvd res os /\
            exists ls, run ev res exec sel cap s0 ls s.
Proof.
  intros ev res exec sel cap res_eqb ev_eqb E s0 os H.
  destruct (accepts_obs_sound ev res exec sel cap res_eqb ev_eqb E s0 os H) as (s & O).
  exists s. split; [exact O|]. split; [apply (orun_out ev res exec sel cap); exact O|].
  apply (orun_is_run ev res exec sel cap) with (os := os). exact O.
Qed.
Print Assumptions C15_accepts_sound.

(* ... and conversely every run of the LTS has its visible trace accepted: a rejected observed
   trace (code 1 of the runner) is not a behaviour of the model. *)
Theorem C15_accepts_complete : forall ev res (exec : ev -> res) sel cap res_eqb ev_eqb,
  (forall a b, res_eqb a b = true -> a = b) -> (forall a, res_eqb a a = true) ->
  (forall a b, ev_eqb a b = true -> a = b) ->
  forall s0 os s, orun ev res exec sel cap s0 os s -> accepts_obs ev res exec sel cap res_eqb ev_eqb s0 os = true.
Proof. exact accepts_obs_complete. Qed.
Print Assumptions C15_accepts_complete.

(* the instance the runner evaluates (events and results are numbers): accepted = trace of the LTS *)
Theorem C15_runner_acceptor_exact : forall (exec : N -> N) sel cap s0 os,
  accepts_obs N N exec sel cap N.eqb N.eqb s0 os = true <-> exists s, orun N N exec sel cap s0 os s.
Proof.
  intros exec sel cap s0 os. split.
  - intros H. apply (accepts_obs_sound N N exec sel cap N.eqb N.eqb) in H; [exact H|]. intros a b E. apply N.eqb_eq. exact E.
  - intros (s & O). apply (accepts_obs_complete N N exec sel cap N.eqb N.eqb) with (s := s); [| | |exact O].
    + intros a b E. apply N.eqb_eq. exact E.
    + intros a. apply N.eqb_refl.
    + intros a b E. apply N.eqb_eq. exact E.
Qed.
Print Assumptions C15_runner_acceptor_exact.

(* schedules as label lists: `accepts` decides exactly the runs *)
Theorem C15_accepts_schedules : forall ev res (exec : ev -> res) sel cap s0 ls,
  accepts ev res exec sel cap s0 ls = true <-> exists s, run ev res exec sel cap s0 ls s.
Proof. exact accepts_iff_run. Qed.
Print Assumptions C15_accepts_schedules.

(* non-vacuity: a complete run with two events, a cancelled run, and an observed trace *)
Example C15_nonvacuous :
  let sel := fun _ : site => true in
  let s0 := init nat nat FrontOk SetChan [1; 2] in
  match exec_trace nat nat (fun x => x + 10) sel 1 s0
       [LSetup; LEmit; LTake; LExec; LDeliver; LEmit; LCloseSrc; LTake; LExec; LDeliver; LEnd; LCloseRes; LObsClosed] with
  | Some s => out s = [Normal 11; Normal 12] /\ seen_closed s = true
  | None => False
  end /\
  accepts_obs nat nat (fun x => x + 10) sel 1 Nat.eqb Nat.eqb s0
       [OEmit; ORecv (Normal 11); OCancel; OStop; OQuiet] = true /\
  accepts_obs nat nat (fun x => x + 10) sel 1 Nat.eqb Nat.eqb s0
       [OEmit; OEmit; ORecv (Normal 12)] = false /\
  accepts_obs nat nat (fun x => x + 10) (fun k => match k with SLoop => false | _ => true end) 1 Nat.eqb Nat.eqb s0
       [OEmit; OStop; OCancel; OQuiet] = true /\
  accepts_obs nat nat (fun x => x + 10) sel 1 Nat.eqb Nat.eqb (init nat nat FrontFail SetChan [])
       [ORecv ErrRes; OClosed; OQuiet] = true.
Proof.
  cbv zeta. split.
  - vm_compute. split; reflexivity.
  - split.
    vm_compute; reflexivity.
    split.
    vm_compute; reflexivity.
    split.
    vm_compute; reflexivity.
    vm_compute; reflexivity.
Qed.

(* ---- constants generated from the source (harness/gen.go writes Gen/Consts.v from
   subscription.go before every check run; these are re-proved then) ---- *)
From Coq Require Import NArith.
From GQL Require Gen.Consts.

(* C15_no_stuck_goroutine and C15_closes for the code as it is: the one-shot channel of
   sendOneResultAndClose has the capacity found in the source, and `every send selects on
   ctx.Done()` is the fact that ExecuteSubscription has no send statement on its result channel
   outside a select with a Done() case. *)
Theorem C15_gen_no_stuck_goroutine : forall ev res (exec : ev -> res),
  let sel := fun _ : site => (Gen.Consts.subscription_result_sends_unguarded =? 0)%N in
  let cap := N.to_nat Gen.Consts.subscription_oneshot_chan_cap in
  forall f su es s, reach ev res exec sel cap (init ev res f su es) s -> cancelled s = true ->
  exists ls s', run ev res exec sel cap s ls s' /\ Forall (fun l => lib l = true) ls /\
    fwd_done ev res s' = true /\ rclosed s' = true.
Proof.
  intros ev res exec sel cap. apply C15_no_stuck_goroutine.
  - intros k.
    first [ vm_compute; reflexivity
          | fail 1 "generated-table obligation C15_gen_no_stuck_goroutine no longer holds against the regenerated table: ExecuteSubscription of subscription.go has a send on its result channel outside a select with a Done() case (Gen/Consts.v)" ].
  - apply Nat.leb_le.
    first [ vm_compute; reflexivity
          | fail 1 "generated-table obligation C15_gen_no_stuck_goroutine no longer holds against the regenerated table: the channel of sendOneResultAndClose in subscription.go has no buffer (Gen/Consts.v)" ].
Qed.
Print Assumptions C15_gen_no_stuck_goroutine.

Theorem C15_gen_closes : forall ev res (exec : ev -> res) sel,
  let cap := N.to_nat Gen.Consts.subscription_oneshot_chan_cap in
  forall f su es s, reach ev res exec sel cap (init ev res f su es) s ->
  sclosed s = true -> stopped s = false ->
  exists ls s', run ev res exec sel cap s ls s' /\ Forall (fun l => lib_or_deliver l = true) ls /\
    fwd_done ev res s' = true /\ rclosed s' = true.
Proof.
  intros ev res exec sel cap. apply C15_closes. apply Nat.leb_le.
  first [ vm_compute; reflexivity
        | fail 1 "generated-table obligation C15_gen_closes no longer holds against the regenerated table: the channel of sendOneResultAndClose in subscription.go has no buffer (Gen/Consts.v)" ].
Qed.
Print Assumptions C15_gen_closes.

(* the forwarder's own result channel is a rendezvous (the model's delivery step), and it has
   sends to guard *)
Theorem C15_gen_result_channel :
  Gen.Consts.subscription_result_send_chan_caps = [0%N] /\
  (0 < Gen.Consts.subscription_result_sends_guarded)%N /\
  Gen.Consts.subscription_oneshot_send_chan_caps = [Gen.Consts.subscription_oneshot_chan_cap].
Proof.
  repeat split;
  first [ vm_compute; reflexivity
        | fail 1 "generated-table obligation C15_gen_result_channel no longer holds against the regenerated table: the channels of ExecuteSubscription / sendOneResultAndClose in subscription.go (Gen/Consts.v) are not one rendezvous channel with guarded sends and one one-shot channel" ].
Qed.
Print Assumptions C15_gen_result_channel.
