(* Property C10 -- introspection describes the schema exactly.
   Statements only; proofs live in Proofs/TypesIntro.v.
   Model: Types/Introspection.v (introspect, ast_from_value); Spec: describe, coerce, matches. *)
From Coq Require Import List NArith ZArith Bool Permutation String.
From GQL Require Import Base.Bytes Types.Schema Types.Consistent Types.Literal Types.Introspection
  Proofs.TypesIntro Proofs.TypesRoundtrip Proofs.TypesNumbers Proofs.TypesLiteral Proofs.TypesDefault.
Import ListNotations.
Open Scope string_scope.
Open Scope N_scope.

(* ===== Default values.  "Every reported default value is a GraphQL literal that, parsed and
   coerced against the argument's type, gives back the configured default."

   For every well-typed default (wt_default: the boolean predicate of Types/Introspection.v --
   list values for list types at any depth, declared internal values for enums, maps over declared
   fields for input objects (nested, recursive types included) that give every field having a
   default of its own, int32 Ints, finite Floats, valid UTF-8 strings with whatever characters),
   astFromValue yields a literal l; the text printer.Print makes of l is read back by the
   library's lexer and parseValueLiteral as l; and valueFromAST of l against the same type is the
   configured value (same_value: equal, a Go int configured for a Float being the float it denotes). *)
Theorem C10_default_literal_roundtrip : forall fuel ts D t v, wt_default fuel ts D t v = true ->
  exists l v', ast_from_value fuel ts t v = Some l
    /\ parse_lit (print_lit l) = Some l
    /\ coerce fuel ts D t l = Some v' /\ same_value v v' = true.
Proof. exact default_literal_roundtrip. Qed.
Print Assumptions C10_default_literal_roundtrip.

(* print, then lex and parse: for every literal whose leaves are lexemes of the language (numbers
   that read as one number token, names, valid UTF-8 strings), nested to any depth *)
Theorem C10_literal_print_parse : forall l, lit_wf l = true -> parse_lit (print_lit l) = Some l.
Proof. exact parse_print_lit. Qed.
Print Assumptions C10_literal_print_parse.

(* numbers: what fmt prints for a Go int is one INT token and reads back as the int; what fmt's %v
   prints for a float64 (fmt_g: %e form for decimal exponents below -4 or at least 6, %f form
   otherwise, on the shortest digits) is one number token and reads back as the float; an int
   printed for a Float ("5.0") reads as that int *)
Theorem C10_number_lexemes :
  (forall z, num_lexeme_ok (dec_Z z) false = true /\ Z_of_dec (dec_Z z) = z
             /\ num_lexeme_ok (dec_Z z ++ [46; 48])%list true = true /\ float_of_lexeme (dec_Z z ++ [46; 48])%list = float_of_Z z)
  /\ (forall neg d r dp, float_ok neg (d :: r) dp = true ->
        num_lexeme_ok (fmt_g neg (d :: r) dp) (floaty (fmt_g neg (d :: r) dp)) = true
        /\ float_of_lexeme (fmt_g neg (d :: r) dp) = (neg, d :: r, dp)).
Proof.
  split.
  - intro z. split; [apply dec_Z_int_token|]. split; [apply Z_of_dec_Z|]. split; [apply dec_Z_dot0_float_token|apply float_of_int_dot0].
  - intros neg d r dp H. pose proof (float_ok_digits neg d r dp H) as Hd.
    split; [apply (fmt_g_token neg (d :: r) dp Hd)|apply (fmt_g_read neg (d :: r) dp Hd)].
Qed.
Print Assumptions C10_number_lexemes.

(* The round trip with default values in it: the description the resolvers report (introspect: the
   defaultValue strings printed from astFromValue's literals) is an exact description of the schema
   by the Spec (describes: every clause of the description, and every reported defaultValue parsed
   and coerced against its type gives back the configured default), for every schema whose
   configured defaults are well typed. *)
Theorem C10_roundtrip_defaults : forall V D, description_wt (v_types V) D (describe V D) = true ->
  describes V D (introspect V D) = true.
Proof. intros V D H. exact (model_exact true V D H). Qed.
Print Assumptions C10_roundtrip_defaults.

(* ... and an input value without a configured default reports none *)
Theorem C10_roundtrip_no_default : forall ts n t ad,
  (forall a, ad = Some a -> ad_default a = None) ->
  di_default (resolve_input ts (describe_input ts n t ad)) = DNone.
Proof.
  intros ts n t [a|] H; [|reflexivity]. unfold describe_input, resolve_input. cbn [di_default].
  rewrite (H a eq_refl). reflexivity.
Qed.
Print Assumptions C10_roundtrip_no_default.

(* The description lists exactly the types of the schema's type map, each once. *)
Theorem C10_types_each_once_partial : forall V D,
  Permutation (map dt_name (d_types (describe V D))) (map vt_name (v_types V)).
Proof. exact described_types. Qed.
Print Assumptions C10_types_each_once_partial.

(* Ordering a list by name neither drops nor repeats an element (fields, arguments, input
   fields, enum values, interfaces, possible types, directives are all listed this way). *)
Theorem C10_sorted_each_once : forall (A : Type) (key : A -> name) (l : list A), Permutation (sort_name key l) l.
Proof. intros A key l. apply sort_name_perm. Qed.
Print Assumptions C10_sorted_each_once.

(* ===== C10_roundtrip, clause by clause.  V is the schema as built (any view with unique type
   names; the hypotheses field_ok / closed_ref / Consistent are what C11_consistent gives for every
   schema NewSchema returns), D its decorations, introspect V D what the resolvers report. ===== *)

(* the set of types: exactly the types of the type map, each once *)
Theorem C10_roundtrip_types : forall V D,
  Permutation (map dt_name (d_types (introspect V D))) (map vt_name (v_types V))
  /\ forall dt, In dt (d_types (introspect V D)) <-> exists vt, In vt (v_types V) /\ dt = introspect_type V D vt.
Proof. intros V D. split; [apply introspect_type_names|intro dt; apply in_introspect]. Qed.
Print Assumptions C10_roundtrip_types.

(* kind, name, description of each type *)
Theorem C10_roundtrip_kinds : forall V D vt,
  dt_name (introspect_type V D vt) = vt_name vt
  /\ dt_kind (introspect_type V D vt) = kind_name (vt_def vt)
  /\ dt_desc (introspect_type V D vt) = match assocN (vt_id vt) (dc_types D) with Some d => td_desc d | None => [] end.
Proof. exact type_kind. Qed.
Print Assumptions C10_roundtrip_kinds.

(* wrapped type references: the kind/name/ofType chain of any depth leads back to the reference *)
Theorem C10_roundtrip_type_refs : forall ts, NoDup (map vt_name ts) -> forall t, closed_ref ts t ->
  tref_of ts (dref_of ts t) = t.
Proof. exact tref_roundtrip. Qed.
Print Assumptions C10_roundtrip_type_refs.

(* fields of objects and interfaces: exactly the schema's fields, each with its type reference,
   its arguments (names and type references), its deprecation flag and reason; no fields elsewhere *)
Theorem C10_roundtrip_fields : forall V D vt, NoDup (map vt_name (v_types V)) ->
  (forall ifs fs, vt_def vt = VObject ifs fs -> dt_fields (introspect_type V D vt) = Some (reported_fields V D vt fs))
  /\ (forall fs, vt_def vt = VInterface fs -> dt_fields (introspect_type V D vt) = Some (reported_fields V D vt fs))
  /\ (vkind_object (vt_def vt) = false -> vkind_interface (vt_def vt) = false -> dt_fields (introspect_type V D vt) = None)
  /\ forall fs, Permutation (map df_name (reported_fields V D vt fs)) (map vf_name fs)
     /\ forall df, In df (reported_fields V D vt fs) ->
        exists f, In f fs /\ df_name df = vf_name f
          /\ df_type df = dref_of (v_types V) (vf_type f)
          /\ df_isdep df = is_dep (field_dep D (vt_id vt) (vf_name f))
          /\ df_reason df = dep_reason (field_dep D (vt_id vt) (vf_name f))
          /\ (field_ok (v_types V) f = true ->
                tref_of (v_types V) (df_type df) = vf_type f /\ Permutation (rebuild_args (v_types V) (df_args df)) (vf_args f)).
Proof.
  intros V D vt Hnd. destruct (fields_reported V D vt) as (H1 & H2 & H3).
  split; [exact H1|]. split; [exact H2|]. split; [exact H3|].
  intro fs. split; [apply reported_field_names|]. intros df Hin. exact (reported_field_spec V D Hnd vt fs df Hin).
Qed.
Print Assumptions C10_roundtrip_fields.

(* fields(includeDeprecated: b) lists exactly the fields that are not deprecated, or all of them *)
Theorem C10_roundtrip_include_deprecated : forall V D vt fs b n, NoDup (map vt_name (v_types V)) ->
  (In n (map df_name (fields_resolver b (reported_fields V D vt fs))) <->
   exists f, In f fs /\ vf_name f = n /\ (b = true \/ field_dep D (vt_id vt) n = [])).
Proof. intros V D vt fs b n Hnd. exact (include_deprecated_fields V D Hnd vt fs b n). Qed.
Print Assumptions C10_roundtrip_include_deprecated.

(* interfaces of objects, by kind and name, each once; none elsewhere *)
Theorem C10_roundtrip_interfaces : forall V D vt, NoDup (map vt_name (v_types V)) ->
  (forall ifs fs, vt_def vt = VObject ifs fs ->
     (forall i, In i ifs -> exists it, vfind (v_types V) i = Some it) ->
     exists l, dt_interfaces (introspect_type V D vt) = Some l /\ Permutation (map (ref_id (v_types V)) l) ifs
               /\ (NoDup ifs -> NoDup l))
  /\ (vkind_object (vt_def vt) = false -> dt_interfaces (introspect_type V D vt) = None).
Proof. intros V D vt Hnd. exact (interfaces_reported V D Hnd vt). Qed.
Print Assumptions C10_roundtrip_interfaces.

(* possibleTypes of interfaces and unions: the declared possible types, duplicate-free *)
Theorem C10_roundtrip_possible_types : forall V D vt, Consistent V -> In vt (v_types V) ->
  (vkind_interface (vt_def vt) = true \/ exists ms, vt_def vt = VUnion ms) ->
  exists l, dt_possible (introspect_type V D vt) = Some l /\ NoDup l
    /\ forall o, In o (map (ref_id (v_types V)) l) <-> possible (v_types V) (vt_id vt) o = true.
Proof. intros V D vt HC. exact (possible_reported V D (cs_unique V HC) vt HC). Qed.
Print Assumptions C10_roundtrip_possible_types.

(* enum values with deprecation, and enumValues(includeDeprecated: b) *)
Theorem C10_roundtrip_enum_values : forall V D vt vs, vt_def vt = VEnum vs ->
  exists l, dt_enums (introspect_type V D vt) = Some l /\ Permutation (map de_name l) vs
    /\ (forall e, In e l -> de_isdep e = is_dep (value_dep D (vt_id vt) (de_name e))
                            /\ de_reason e = dep_reason (value_dep D (vt_id vt) (de_name e)))
    /\ forall b n, In n (map de_name (enums_resolver b l)) <-> In n vs /\ (b = true \/ value_dep D (vt_id vt) n = []).
Proof.
  intros V D vt vs E. destruct (enums_reported V D vt vs E) as (l & El & Hp & Hd).
  exists l. split; [exact El|]. split; [exact Hp|]. split; [exact Hd|].
  intros b n. exact (include_deprecated_enums V D vt vs l b n E El).
Qed.
Print Assumptions C10_roundtrip_enum_values.

(* input fields of input objects: names and type references *)
Theorem C10_roundtrip_input_fields : forall V D vt fs, NoDup (map vt_name (v_types V)) ->
  vt_def vt = VInput fs -> (forall f, In f fs -> closed_ref (v_types V) (snd f)) ->
  exists l, dt_inputs (introspect_type V D vt) = Some l /\ Permutation (rebuild_args (v_types V) l) fs.
Proof. intros V D vt fs Hnd. exact (inputs_reported V D Hnd vt fs). Qed.
Print Assumptions C10_roundtrip_input_fields.

(* directives: names (each once), descriptions, locations, arguments *)
Theorem C10_roundtrip_directives : forall V D, NoDup (map vt_name (v_types V)) ->
  Permutation (map ddr_name (d_directives (introspect V D))) (map dd_name (dc_dirs D))
  /\ forall dd, In dd (d_directives (introspect V D)) ->
       exists d, In d (dc_dirs D) /\ ddr_name dd = dd_name d /\ ddr_desc dd = dd_desc d /\ ddr_locs dd = dd_locs d
         /\ ((forall a, In a (dd_args d) -> closed_ref (v_types V) (fst (snd a))) ->
             Permutation (rebuild_args (v_types V) (ddr_args dd)) (map (fun a => (fst a, fst (snd a))) (dd_args d))).
Proof. intros V D Hnd. exact (directives_reported V D Hnd). Qed.
Print Assumptions C10_roundtrip_directives.

(* root operation types *)
Theorem C10_roundtrip_roots : forall V D,
  (forall q vt, v_query V = Some q -> vfind (v_types V) q = Some vt -> d_query (introspect V D) = Some (vt_name vt))
  /\ (forall q vt, v_mutation V = Some q -> vfind (v_types V) q = Some vt -> d_mutation (introspect V D) = Some (vt_name vt))
  /\ (forall q vt, v_subscription V = Some q -> vfind (v_types V) q = Some vt -> d_subscription (introspect V D) = Some (vt_name vt))
  /\ (v_mutation V = None -> d_mutation (introspect V D) = None)
  /\ (v_subscription V = None -> d_subscription (introspect V D) = None).
Proof. exact roots_reported. Qed.
Print Assumptions C10_roundtrip_roots.

(* ---------- non-vacuity ---------- *)
Definition ex_types : list vtype :=
  [ VT (s "Int") 1 VScalar; VT (s "Float") 2 VScalar; VT (s "String") 3 VScalar;
    VT (s "Color") 100 (VEnum [s "BLUE"; s "GREEN"; s "RED"]);
    VT (s "In") 101 (VInput [(s "es", TNonNull (TList (TNonNull (TNamed 100)))); (s "f", TNamed 2);
                             (s "n", TNamed 1); (s "s", TNamed 3); (s "self", TNamed 101)]) ].

(* an input object holding a list of enums, a float that prints in exponent form, a string that
   needs escapes (quote, backslash, newline, e-acute, DEL) and a nested object *)
Definition ex_default : value :=
  VObj [ (s "es", VList [VInt 3; VInt 1]); (s "f", VFloat false [1; 5] (-6));
         (s "s", VStr [113; 34; 92; 10; 195; 169; 127]);
         (s "self", VObj [ (s "es", VList []); (s "n", VInt (-7)) ]) ].

Example C10_nonvacuous_default :
  wt_default 8 ex_types (Decor [] []) (TNonNull (TNamed 101)) ex_default = true
  /\ option_map print_lit (ast_from_value 8 ex_types (TNonNull (TNamed 101)) ex_default)
     = Some (of_string "{es: [RED, BLUE], f: 1.5e-07, s: ""q\""\\\n" ++ [195; 169] ++ of_string "\u007F"", self: {es: [], n: -7}}")%list
  /\ match ast_from_value 8 ex_types (TNonNull (TNamed 101)) ex_default with
     | Some l => parse_lit (print_lit l) = Some l /\ coerce 8 ex_types (Decor [] []) (TNonNull (TNamed 101)) l = Some ex_default
     | None => False
     end.
Proof. split; [vm_compute; reflexivity|]. split; [vm_compute; reflexivity|]. vm_compute. split; reflexivity. Qed.

(* a default that is not well typed: a list with a null element has no literal in this edition
   (the element is dropped from the printed list) *)
Example C10_nonvacuous_illtyped :
  wt_default 8 ex_types (Decor [] []) (TList (TNamed 1)) (VList [VInt 1; VNull; VInt 2]) = false
  /\ option_map print_lit (ast_from_value 8 ex_types (TList (TNamed 1)) (VList [VInt 1; VNull; VInt 2])) = Some (of_string "[1, 2]").
Proof. split; vm_compute; reflexivity. Qed.
