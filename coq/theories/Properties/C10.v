(* Property C10 -- introspection describes the schema exactly.
   Statements only; proofs live in Proofs/TypesIntro.v.
   Model: Types/Introspection.v (introspect, ast_from_value); Spec: describe, coerce, matches. *)
From Coq Require Import List NArith ZArith Bool Permutation String.
From GQL Require Import Base.Bytes Types.Schema Types.Consistent Types.Introspection Proofs.TypesIntro Proofs.TypesRoundtrip.
Import ListNotations.
Open Scope string_scope.
Open Scope N_scope.

(* The printed default literal, coerced against the argument's type, gives back the configured
   default: for Int, String, ID, Boolean, enums (configured by internal value, printed by name),
   and lists / non-null wrappers of these to any depth.  (Input-object defaults are judged by the
   executable Spec on every generated case, not by this theorem.) *)
Theorem C10_default_literal_partial : forall ts D t v fuel, simple ts t v -> (depth t < fuel)%nat ->
  exists l, ast_from_value fuel ts t v = Some l /\ coerce fuel ts D t l = Some v.
Proof. exact default_round_trip. Qed.
Print Assumptions C10_default_literal_partial.

(* The description lists exactly the types of the schema's type map, each once. *)
Theorem C10_types_each_once_partial : forall V D,
  Permutation (map dt_name (d_types (describe V D))) (map vt_name (v_types V)).
Proof. exact described_types. Qed.
Print Assumptions C10_types_each_once_partial.

(* Ordering a list by name neither drops nor repeats an element (fields, arguments, input
   fields, enum values, interfaces, possible types, directives are all listed this way). *)
Theorem C10_sorted_each_once : forall (A : Type) (key : A -> name) (l : list A), Permutation (sort_name key l) l.
Proof. intros A key l. apply sort_name_perm. Qed.
Print Assumptions C10_sorted_each_once.

(* ===== C10_roundtrip, clause by clause.  V is the schema as built (any view with unique type
   names; the hypotheses field_ok / closed_ref / Consistent are what C11_consistent gives for every
   schema NewSchema returns), D its decorations, introspect V D what the resolvers report. ===== *)

(* the set of types: exactly the types of the type map, each once *)
Theorem C10_roundtrip_types : forall V D,
  Permutation (map dt_name (d_types (introspect V D))) (map vt_name (v_types V))
  /\ forall dt, In dt (d_types (introspect V D)) <-> exists vt, In vt (v_types V) /\ dt = introspect_type V D vt.
Proof. intros V D. split; [apply introspect_type_names|intro dt; apply in_introspect]. Qed.
Print Assumptions C10_roundtrip_types.

(* kind, name, description of each type *)
Theorem C10_roundtrip_kinds : forall V D vt,
  dt_name (introspect_type V D vt) = vt_name vt
  /\ dt_kind (introspect_type V D vt) = kind_name (vt_def vt)
  /\ dt_desc (introspect_type V D vt) = match assocN (vt_id vt) (dc_types D) with Some d => td_desc d | None => [] end.
Proof. exact type_kind. Qed.
Print Assumptions C10_roundtrip_kinds.

(* wrapped type references: the kind/name/ofType chain of any depth leads back to the reference *)
Theorem C10_roundtrip_type_refs : forall ts, NoDup (map vt_name ts) -> forall t, closed_ref ts t ->
  tref_of ts (dref_of ts t) = t.
Proof. exact tref_roundtrip. Qed.
Print Assumptions C10_roundtrip_type_refs.

(* fields of objects and interfaces: exactly the schema's fields, each with its type reference,
   its arguments (names and type references), its deprecation flag and reason; no fields elsewhere *)
Theorem C10_roundtrip_fields : forall V D vt, NoDup (map vt_name (v_types V)) ->
  (forall ifs fs, vt_def vt = VObject ifs fs -> dt_fields (introspect_type V D vt) = Some (reported_fields V D vt fs))
  /\ (forall fs, vt_def vt = VInterface fs -> dt_fields (introspect_type V D vt) = Some (reported_fields V D vt fs))
  /\ (vkind_object (vt_def vt) = false -> vkind_interface (vt_def vt) = false -> dt_fields (introspect_type V D vt) = None)
  /\ forall fs, Permutation (map df_name (reported_fields V D vt fs)) (map vf_name fs)
     /\ forall df, In df (reported_fields V D vt fs) ->
        exists f, In f fs /\ df_name df = vf_name f
          /\ df_type df = dref_of (v_types V) (vf_type f)
          /\ df_isdep df = is_dep (field_dep D (vt_id vt) (vf_name f))
          /\ df_reason df = dep_reason (field_dep D (vt_id vt) (vf_name f))
          /\ (field_ok (v_types V) f = true ->
                tref_of (v_types V) (df_type df) = vf_type f /\ Permutation (rebuild_args (v_types V) (df_args df)) (vf_args f)).
Proof.
  intros V D vt Hnd. destruct (fields_reported V D vt) as (H1 & H2 & H3).
  split; [exact H1|]. split; [exact H2|]. split; [exact H3|].
  intro fs. split; [apply reported_field_names|]. intros df Hin. exact (reported_field_spec V D Hnd vt fs df Hin).
Qed.
Print Assumptions C10_roundtrip_fields.

(* fields(includeDeprecated: b) lists exactly the fields that are not deprecated, or all of them *)
Theorem C10_roundtrip_include_deprecated : forall V D vt fs b n, NoDup (map vt_name (v_types V)) ->
  (In n (map df_name (fields_resolver b (reported_fields V D vt fs))) <->
   exists f, In f fs /\ vf_name f = n /\ (b = true \/ field_dep D (vt_id vt) n = [])).
Proof. intros V D vt fs b n Hnd. exact (include_deprecated_fields V D Hnd vt fs b n). Qed.
Print Assumptions C10_roundtrip_include_deprecated.

(* interfaces of objects, by kind and name, each once; none elsewhere *)
Theorem C10_roundtrip_interfaces : forall V D vt, NoDup (map vt_name (v_types V)) ->
  (forall ifs fs, vt_def vt = VObject ifs fs ->
     (forall i, In i ifs -> exists it, vfind (v_types V) i = Some it) ->
     exists l, dt_interfaces (introspect_type V D vt) = Some l /\ Permutation (map (ref_id (v_types V)) l) ifs
               /\ (NoDup ifs -> NoDup l))
  /\ (vkind_object (vt_def vt) = false -> dt_interfaces (introspect_type V D vt) = None).
Proof. intros V D vt Hnd. exact (interfaces_reported V D Hnd vt). Qed.
Print Assumptions C10_roundtrip_interfaces.

(* possibleTypes of interfaces and unions: the declared possible types, duplicate-free *)
Theorem C10_roundtrip_possible_types : forall V D vt, Consistent V -> In vt (v_types V) ->
  (vkind_interface (vt_def vt) = true \/ exists ms, vt_def vt = VUnion ms) ->
  exists l, dt_possible (introspect_type V D vt) = Some l /\ NoDup l
    /\ forall o, In o (map (ref_id (v_types V)) l) <-> possible (v_types V) (vt_id vt) o = true.
Proof. intros V D vt HC. exact (possible_reported V D (cs_unique V HC) vt HC). Qed.
Print Assumptions C10_roundtrip_possible_types.

(* enum values with deprecation, and enumValues(includeDeprecated: b) *)
Theorem C10_roundtrip_enum_values : forall V D vt vs, vt_def vt = VEnum vs ->
  exists l, dt_enums (introspect_type V D vt) = Some l /\ Permutation (map de_name l) vs
    /\ (forall e, In e l -> de_isdep e = is_dep (value_dep D (vt_id vt) (de_name e))
                            /\ de_reason e = dep_reason (value_dep D (vt_id vt) (de_name e)))
    /\ forall b n, In n (map de_name (enums_resolver b l)) <-> In n vs /\ (b = true \/ value_dep D (vt_id vt) n = []).
Proof.
  intros V D vt vs E. destruct (enums_reported V D vt vs E) as (l & El & Hp & Hd).
  exists l. split; [exact El|]. split; [exact Hp|]. split; [exact Hd|].
  intros b n. exact (include_deprecated_enums V D vt vs l b n E El).
Qed.
Print Assumptions C10_roundtrip_enum_values.

(* input fields of input objects: names and type references *)
Theorem C10_roundtrip_input_fields : forall V D vt fs, NoDup (map vt_name (v_types V)) ->
  vt_def vt = VInput fs -> (forall f, In f fs -> closed_ref (v_types V) (snd f)) ->
  exists l, dt_inputs (introspect_type V D vt) = Some l /\ Permutation (rebuild_args (v_types V) l) fs.
Proof. intros V D vt fs Hnd. exact (inputs_reported V D Hnd vt fs). Qed.
Print Assumptions C10_roundtrip_input_fields.

(* directives: names (each once), descriptions, locations, arguments *)
Theorem C10_roundtrip_directives : forall V D, NoDup (map vt_name (v_types V)) ->
  Permutation (map ddr_name (d_directives (introspect V D))) (map dd_name (dc_dirs D))
  /\ forall dd, In dd (d_directives (introspect V D)) ->
       exists d, In d (dc_dirs D) /\ ddr_name dd = dd_name d /\ ddr_desc dd = dd_desc d /\ ddr_locs dd = dd_locs d
         /\ ((forall a, In a (dd_args d) -> closed_ref (v_types V) (fst (snd a))) ->
             Permutation (rebuild_args (v_types V) (ddr_args dd)) (map (fun a => (fst a, fst (snd a))) (dd_args d))).
Proof. intros V D Hnd. exact (directives_reported V D Hnd). Qed.
Print Assumptions C10_roundtrip_directives.

(* root operation types *)
Theorem C10_roundtrip_roots : forall V D,
  (forall q vt, v_query V = Some q -> vfind (v_types V) q = Some vt -> d_query (introspect V D) = Some (vt_name vt))
  /\ (forall q vt, v_mutation V = Some q -> vfind (v_types V) q = Some vt -> d_mutation (introspect V D) = Some (vt_name vt))
  /\ (forall q vt, v_subscription V = Some q -> vfind (v_types V) q = Some vt -> d_subscription (introspect V D) = Some (vt_name vt))
  /\ (v_mutation V = None -> d_mutation (introspect V D) = None)
  /\ (v_subscription V = None -> d_subscription (introspect V D) = None).
Proof. exact roots_reported. Qed.
Print Assumptions C10_roundtrip_roots.

(* ---------- non-vacuity ---------- *)
Definition ex_types : list vtype :=
  [ VT (s "Int") 1 VScalar; VT (s "String") 3 VScalar; VT (s "Color") 100 (VEnum [s "BLUE"; s "GREEN"; s "RED"]) ].

Example C10_nonvacuous_default :
  simple ex_types (TNonNull (TList (TNonNull (TNamed 100)))) (VList [VInt 3; VInt 1])
  /\ ast_from_value 8 ex_types (TNonNull (TList (TNonNull (TNamed 100)))) (VList [VInt 3; VInt 1])
     = Some (LList [LEnum (s "RED"); LEnum (s "BLUE")])
  /\ coerce 8 ex_types (Decor [] []) (TNonNull (TList (TNonNull (TNamed 100)))) (LList [LEnum (s "RED"); LEnum (s "BLUE")])
     = Some (VList [VInt 3; VInt 1]).
Proof.
  split; [|split; vm_compute; reflexivity].
  simpl. repeat constructor; exists (VT (s "Color") 100 (VEnum [s "BLUE"; s "GREEN"; s "RED"]));
    (split; [reflexivity|]); simpl; (split; [repeat constructor; simpl; intuition discriminate|]);
    (split; [reflexivity|]); eexists; reflexivity.
Qed.

(* an input-object default and the literal "{a: 1}" *)
Example C10_nonvacuous_object :
  let ts := [ VT (s "Int") 1 VScalar; VT (s "In") 100 (VInput [(s "a", TNamed 1); (s "b", TList (TNamed 1))]) ] in
  ast_from_value 8 ts (TNamed 100) (VObj [(s "a", VInt 1)]) = Some (LObj [(s "a", LInt 1)])
  /\ coerce 8 ts (Decor [] []) (TNamed 100) (LObj [(s "a", LInt 1)]) = Some (VObj [(s "a", VInt 1)]).
Proof. split; vm_compute; reflexivity. Qed.
