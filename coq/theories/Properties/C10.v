(* Property C10 -- introspection describes the schema exactly.
   Statements only; proofs live in Proofs/TypesIntro.v.
   Model: Types/Introspection.v (introspect, ast_from_value); Spec: describe, coerce, matches. *)
From Coq Require Import List NArith ZArith Bool Permutation String.
From GQL Require Import Base.Bytes Types.Schema Types.Consistent Types.Introspection Proofs.TypesIntro.
Import ListNotations.
Open Scope string_scope.
Open Scope N_scope.

(* The printed default literal, coerced against the argument's type, gives back the configured
   default: for Int, String, ID, Boolean, enums (configured by internal value, printed by name),
   and lists / non-null wrappers of these to any depth.  (Input-object defaults are judged by the
   executable Spec on every generated case, not by this theorem.) *)
Theorem C10_default_literal_partial : forall ts D t v fuel, simple ts t v -> (depth t < fuel)%nat ->
  exists l, ast_from_value fuel ts t v = Some l /\ coerce fuel ts D t l = Some v.
Proof. exact default_round_trip. Qed.
Print Assumptions C10_default_literal_partial.

(* The description lists exactly the types of the schema's type map, each once. *)
Theorem C10_types_each_once_partial : forall V D,
  Permutation (map dt_name (d_types (describe V D))) (map vt_name (v_types V)).
Proof. exact described_types. Qed.
Print Assumptions C10_types_each_once_partial.

(* Ordering a list by name neither drops nor repeats an element (fields, arguments, input
   fields, enum values, interfaces, possible types, directives are all listed this way). *)
Theorem C10_sorted_each_once : forall (A : Type) (key : A -> name) (l : list A), Permutation (sort_name key l) l.
Proof. intros A key l. apply sort_name_perm. Qed.
Print Assumptions C10_sorted_each_once.

(* ---------- non-vacuity ---------- *)
Definition ex_types : list vtype :=
  [ VT (s "Int") 1 VScalar; VT (s "String") 3 VScalar; VT (s "Color") 100 (VEnum [s "BLUE"; s "GREEN"; s "RED"]) ].

Example C10_nonvacuous_default :
  simple ex_types (TNonNull (TList (TNonNull (TNamed 100)))) (VList [VInt 3; VInt 1])
  /\ ast_from_value 8 ex_types (TNonNull (TList (TNonNull (TNamed 100)))) (VList [VInt 3; VInt 1])
     = Some (LList [LEnum (s "RED"); LEnum (s "BLUE")])
  /\ coerce 8 ex_types (Decor [] []) (TNonNull (TList (TNonNull (TNamed 100)))) (LList [LEnum (s "RED"); LEnum (s "BLUE")])
     = Some (VList [VInt 3; VInt 1]).
Proof.
  split; [|split; vm_compute; reflexivity].
  simpl. repeat constructor; exists (VT (s "Color") 100 (VEnum [s "BLUE"; s "GREEN"; s "RED"]));
    (split; [reflexivity|]); simpl; (split; [repeat constructor; simpl; intuition discriminate|]);
    (split; [reflexivity|]); eexists; reflexivity.
Qed.

(* an input-object default and the literal "{a: 1}" *)
Example C10_nonvacuous_object :
  let ts := [ VT (s "Int") 1 VScalar; VT (s "In") 100 (VInput [(s "a", TNamed 1); (s "b", TList (TNamed 1))]) ] in
  ast_from_value 8 ts (TNamed 100) (VObj [(s "a", VInt 1)]) = Some (LObj [(s "a", LInt 1)])
  /\ coerce 8 ts (Decor [] []) (TNamed 100) (LObj [(s "a", LInt 1)]) = Some (VObj [(s "a", VInt 1)]).
Proof. split; vm_compute; reflexivity. Qed.
