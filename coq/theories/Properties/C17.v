(* Property C17 -- extension hooks are balanced, ordered and fault-isolated.
   Statements only; proofs live in Proofs/ExtProofs.v.

   do_model (Ext/ExtensionsModel.v) is graphql.Do's extension pipeline: its
   inputs are the outcome class of the request (syntax error, validation
   error, operation error, variable error, executed fields with their resolver
   outcomes), the list of extensions and, for every hook of every extension,
   what it does (returns, returns a nil finish function, panics with an error /
   string / other value).  Every theorem below quantifies over all of them. *)
From Coq Require Import List NArith Bool.
From GQL Require Import Ext.ExtensionsModel Ext.ExtensionsSpec Proofs.ExtProofs Proofs.ExtOutcome.
Import ListNotations.
Open Scope N_scope.

(* Every phase an extension started (its ...DidStart hook handed back a finish
   function) is finished exactly once; nothing else is finished; no phase is
   started twice. *)
Theorem C17_balanced : forall c exts, balanced (result_log (do_model c exts)).
Proof. exact model_balanced. Qed.
Print Assumptions C17_balanced.

(* The phases of one extension are well bracketed: a finish function always
   closes the innermost open phase of that extension, and none stays open. *)
Theorem C17_nested : forall c exts e, nested_ext e (result_log (do_model c exts)) = true.
Proof. exact model_nested. Qed.
Print Assumptions C17_nested.

(* Each extension sees init, parse, validation, execution start, the resolve
   notifications in field order, execution finish, HasResult, GetResult in this
   order, each at most once; and once an event failed the request (see
   fails_request) no event of a later phase occurs anywhere in the log. *)
Theorem C17_order : forall c exts,
  (forall e, ordered_ext e (result_log (do_model c exts)) = true) /\
  stopsb (result_log (do_model c exts)) = true.
Proof. intros c exts. split; [intros e; apply model_ordered | apply model_stops]. Qed.
Print Assumptions C17_order.

(* No panic of any hook, with any panic value, escapes Do. *)
Theorem C17_isolated_no_crash : forall c exts log, do_model c exts <> Crash log.
Proof. exact do_model_never_crashes. Qed.
Print Assumptions C17_isolated_no_crash.

(* Fault isolation: whatever the hooks of the extensions do, Do returns a
   result, the result carries at least one error per failed hook invocation,
   and all started phases of all extensions are finished (balanced). *)
Theorem C17_isolated : forall c exts,
  exists log n keys,
    do_model c exts = Done log n keys /\ reportedb log n = true /\ balanced log.
Proof.
  intros c exts. destruct (do_model c exts) as [l|l n keys] eqn:E.
  - exfalso. exact (do_model_never_crashes c exts l E).
  - exists l, n, keys. split; [reflexivity|]. split; [exact (model_reported c exts l n keys E)|].
    pose proof (model_balanced c exts) as B. rewrite E in B. exact B.
Qed.
Print Assumptions C17_isolated.

(* Every finish function receives the outcome of its phase (outcome_ok):
   - parse: an error iff the document does not parse or a ParseDidStart hook
     failed;
   - validation: the validation errors of the document (their number), or the
     errors of the failed ValidationDidStart hooks;
   - execution: the result, carrying one error per hook failure so far plus the
     request's own errors (failed resolver calls, deferred values that failed);
   - resolve: the k-th notification is given the value / error of the k-th
     resolver call in execution order (which field, failed or not: rout). *)
Theorem C17_finish_outcome : forall c exts, outcomesb c (result_log (do_model c exts)) = true.
Proof. exact model_outcomes. Qed.
Print Assumptions C17_finish_outcome.

(* The executable Spec the runner applies to the implementation's run accepts
   every run of the model: a code-2 verdict is never an artefact of the
   checkers, and implementation = model implies the Spec holds. *)
Theorem C17_spec_accepts_model : forall c exts log n keys,
  do_model c exts = Done log n keys -> spec_ok c log n = true.
Proof.
  intros c exts log n keys E. unfold spec_ok.
  destruct (model_checks_per_ext c exts) as [A [B C]].
  pose proof (model_stops c exts) as D. pose proof (model_outcomes c exts) as O.
  rewrite E in A, B, C, D, O. cbn [result_log] in A, B, C, D, O.
  rewrite A, B, C, D, O, (model_reported c exts log n keys E). reflexivity.
Qed.
Print Assumptions C17_spec_accepts_model.

(* Non-vacuity: two extensions; the second one's ValidationDidStart panics
   with an int, the first one's started validation phase is still finished
   (with the failure as outcome), execution never starts, one error. *)
Example C17_nonvacuous :
  do_model (CExec false [Node 0 false ROk TNow []])
    [mkExt 1 BOk (SFn BOk) (SFn BOk) (SFn BOk) [] HTrue BOk;
     mkExt 2 BOk (SFn BOk) (SPanic PVInt) (SFn BOk) [] HTrue BOk] =
  Done [EInit 0 true; EInit 1 true;
        EStart 0 PParse SROk; EStart 1 PParse SROk; EFinish 0 PParse 0 true; EFinish 1 PParse 0 true;
        EStart 0 PValid SROk; EStart 1 PValid SRFail; EFinish 0 PValid 1 true] 1 [].
Proof. reflexivity. Qed.

(* Non-vacuity of the execution order: query { a: f0 (deferred) { b } c }:
   a's notification is finished when its resolver returns, c runs next, b runs
   when a's value is forced; every finish is told its own field (2*id). *)
Example C17_deferred_order :
  do_model (CExec false [Node 0 false ROk TLater [Node 1 false ROk TNow []]; Node 2 false ROk TNow []])
    [mkExt 1 BOk (SFn BOk) (SFn BOk) (SFn BOk) [] HFalse BOk] =
  Done [EInit 0 true; EStart 0 PParse SROk; EFinish 0 PParse 0 true;
        EStart 0 PValid SROk; EFinish 0 PValid 0 true; EStart 0 PExec SROk;
        EStart 0 (PResolve 0) SROk; EFinish 0 (PResolve 0) 0 true;
        EStart 0 (PResolve 1) SROk; EFinish 0 (PResolve 1) 4 true;
        EStart 0 (PResolve 2) SROk; EFinish 0 (PResolve 2) 2 true;
        EFinish 0 PExec 0 true; EHas 0 HRFalse] 0 [].
Proof. reflexivity. Qed.

(* the predicates do reject: an unfinished phase, a crossed pair, a late start *)
Example C17_spec_rejects :
  balancedb [EStart 0 PParse SROk] = false /\
  nestedb [EStart 0 PExec SROk; EStart 0 (PResolve 0) SROk; EFinish 0 PExec 0 true; EFinish 0 (PResolve 0) 0 true] = false /\
  orderedb [EStart 0 PValid SROk; EFinish 0 PValid 0 true; EStart 0 PParse SROk; EFinish 0 PParse 0 true] = false /\
  stopsb [EStart 0 PParse SRFail; EStart 0 PValid SROk; EFinish 0 PValid 0 true] = false /\
  reportedb [EInit 0 false] 0 = false /\
  outcomesb CSyntax [EStart 0 PParse SROk; EFinish 0 PParse 0 true] = false.
Proof. repeat split; reflexivity. Qed.
