(* Property C17 -- extension hooks are balanced, ordered and fault-isolated.
   Statements only; proofs live in Proofs/ExtProofs.v. *)
From Coq Require Import List NArith Bool.
From GQL Require Import Ext.ExtensionsModel Ext.ExtensionsSpec Proofs.ExtProofs.
Import ListNotations.
Open Scope N_scope.

(* No panic of any hook, with any panic value, escapes Do: for every outcome
   class, any number of extensions and any behaviour of their hooks. *)
Theorem C17_isolated_no_crash : forall c exts log, do_model c exts <> Crash log.
Proof. exact do_model_never_crashes. Qed.
Print Assumptions C17_isolated_no_crash.
