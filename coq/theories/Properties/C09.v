(* Property C09 -- no input makes a public entry point panic, hang or return a
   malformed result.  Statements only; proofs live in Proofs/Total*.v.

   What is proved here are the totality / termination and result-shape
   obligations on the models: CollectFields (Exec.collect), the check PlanQuery
   applies to unvalidated documents (Total.fragment_cycle_through_field), the
   level-by-level recursion of planning and execution (Total.walk), the
   reference executor's request (Exec.request) and the request pipeline
   (Total.do_model).  Panic- and hang-freedom of the Go code below the models'
   granularity is explored by the harness, not proved (props/C09.json). *)
From Coq Require Import List NArith String Bool Arith.
From GQL Require Import Exec.Syntax Exec.Coerce Exec.Exec Exec.Request.
From GQL Require Import Total.Result Total.CollectBound Total.FragCycle Total.PlanWalk Total.CoerceBound Total.RequestBound.
From GQL Require Import Proofs.TotalCollect Proofs.TotalFragCycle Proofs.TotalWalk Proofs.TotalDethunk Proofs.TotalRequest.
Import ListNotations.

(* ---- termination of CollectFields, for every document: cyclic fragment
        spreads on one selection-set level are cut by the visited set.  The bound
        is linear in the document size. ---- *)
Theorem C09_collect_terminates : forall S D vars obj fuel sels visited g,
  collect_bound D sels <= fuel -> collect fuel S D vars obj sels visited g <> None.
Proof. exact collect_terminates. Qed.
Print Assumptions C09_collect_terminates.

Theorem C09_collect_all_terminates : forall S D vars obj fuel sets visited g,
  collect_all_bound D sets <= fuel -> collect_all fuel S D vars obj sets visited g <> None.
Proof. exact collect_all_terminates. Qed.
Print Assumptions C09_collect_all_terminates.

(* more fuel never changes the answer *)
Theorem C09_collect_fuel_irrelevant : forall S D vars obj fuel fuel' sels visited g r,
  collect fuel S D vars obj sels visited g = Some r -> fuel <= fuel' ->
  collect fuel' S D vars obj sels visited g = Some r.
Proof. exact collect_fuel_mono. Qed.
Print Assumptions C09_collect_fuel_irrelevant.

(* ---- the check of PlanQuery on unvalidated documents: it accepts exactly the
        documents whose spread graph has a rank that no spread increases and every
        spread below a field strictly decreases (no fragment reaches itself
        through a field; same-level cycles stay executable) ---- *)
Theorem C09_cycle_check_iff_rank : forall D,
  fragment_cycle_through_field D = false <-> has_rank D.
Proof. exact cycle_check_iff. Qed.
Print Assumptions C09_cycle_check_iff_rank.

Theorem C09_cycle_check_bounded_rank : forall D,
  fragment_cycle_through_field D = false ->
  exists rk, rank_respected D rk /\ forall a, rk a <= max_rank D.
Proof. exact cycle_check_bounded_rank. Qed.
Print Assumptions C09_cycle_check_bounded_rank.

(* ---- for every document the check accepts, the level-by-level recursion of
        planning / execution (collect a level, descend into every composite field
        for every object type it can yield) terminates within a depth that is a
        polynomial in the document size; no hypothesis on the schema, on validity
        or on acyclicity of same-level spreads ---- *)
Theorem C09_plan_rejects_through_field_cycles : forall Sc D vars obj sels,
  (exists op, In op (d_ops D) /\ o_sel op = sels) ->
  fragment_cycle_through_field D = false ->
  forall fuel, plan_bound D <= fuel -> walk fuel Sc D vars obj [sels] <> None.
Proof. exact walk_terminates. Qed.
Print Assumptions C09_plan_rejects_through_field_cycles.

(* ---- result shape of the request pipeline: parse or validation failure =>
        no data and no resolver ran; data absent => at least one error ---- *)
Theorem C09_result_well_formed : forall parsed verrs fuel S op inputs root or tor d n c,
  do_model parsed verrs fuel S op inputs root or tor = DoRes d n c ->
  result_well_formed (do_shape parsed verrs d n) = true
  /\ ((parsed = None \/ (exists D, parsed = Some D /\ verrs D <> 0)) -> d = None /\ c = 0).
Proof. exact do_model_well_formed. Qed.
Print Assumptions C09_result_well_formed.

Theorem C09_request_absent_data_has_error : forall fuel S D op inputs root or tor s,
  request fuel S D op inputs root or tor = RDone None s -> st_errs s <> [].
Proof. exact request_absent_data_has_error. Qed.
Print Assumptions C09_request_absent_data_has_error.

(* ---- serialisable: nothing deferred (no func value) is left in the data ---- *)
Theorem C09_no_deferred_value_left : forall fuel S D op inputs root or tor d s,
  request fuel S D op inputs root or tor = RDone (Some d) s ->
  exists q, no_thunk q = true /\ d = to_resp q.
Proof. exact request_no_deferred. Qed.
Print Assumptions C09_no_deferred_value_left.


(* ---- the pass that forces deferred values cannot lose the data: whatever the
        executor builds has its deferred values at nullable positions, so data is
        absent only because a non-null failure reached the root during execution ---- *)
Theorem C09_dethunk_never_raises : forall fuel E obj src g p s fs s1 e s2,
  exec_groups fuel E obj src g p s = XOk fs s1 ->
  dethunk fuel E (QObj fs) s1 <> XRaise e s2.
Proof. exact request_dethunk_never_raises. Qed.
Print Assumptions C09_dethunk_never_raises.

(* ---- fuel is only a termination device: once a request ends, more fuel gives
        the same answer (so "the request terminates" has one meaning) ---- *)
Theorem C09_request_fuel_irrelevant : forall fuel fuel' S D op inputs root or tor r,
  request fuel S D op inputs root or tor = r -> r <> RFuel -> fuel <= fuel' ->
  request fuel' S D op inputs root or tor = r.
Proof. intros; eapply request_fuel_mono; eauto. Qed.
Print Assumptions C09_request_fuel_irrelevant.


(* ---- the reference executor terminates on every request whose document passes
        PlanQuery's check: for every schema, operation name, variable inputs, root
        value and resolver / type oracle (no validity assumed).  The recursion is
        directed by the document and the schema's type references, not by the
        data, so no bound on the oracle's outcomes is needed.  The fuel bound is a
        polynomial in document size and height, number of fragments, widths of the
        schema's type references, depth of argument literals and of the inputs. ---- *)
Theorem C09_request_total : forall S D op inputs root or tor,
  fragment_cycle_through_field D = false ->
  forall fuel, request_bound S D inputs <= fuel ->
  request fuel S D op inputs root or tor <> RFuel.
Proof. exact request_total. Qed.
Print Assumptions C09_request_total.

(* ---- non-vacuity ---- *)
Definition c09_fld (id : N) (nm : string) (sub : list selection) : selection := SField id None nm [] [] sub.
Definition c09_doc (sels : list selection) (frs : list fragment) : document :=
  {| d_ops := [{| o_kind := OpQuery; o_name := None; o_vars := []; o_sel := sels |}]; d_frags := frs |}.
Definition c09_F (sels : list selection) : fragment := {| fr_name := "F"; fr_cond := "Q"; fr_sel := sels |}.
Definition c09_schema : schema :=
  {| s_types := [("String"%string, TScalar SString);
                 ("Q"%string, TObject [{| f_name := "x"; f_args := []; f_type := TNamed "Q" |};
                                       {| f_name := "s"; f_args := []; f_type := TNamed "String" |}] [])];
     s_query := "Q"; s_mutation := None |}.

(* '{ ...F } fragment F on Q { x { ...F } }' is rejected; the same-level cycle
   '{ ...F } fragment F on Q { s ...F x { s } }' is accepted, collected and walked *)
Example C09_nonvacuous :
  fragment_cycle_through_field (c09_doc [SSpread 2 "F" []] [c09_F [c09_fld 25 "x" [SSpread 29 "F" []]]]) = true
  /\ (let D := c09_doc [SSpread 2 "F" []] [c09_F [c09_fld 25 "s" []; SSpread 27 "F" []; c09_fld 32 "x" [c09_fld 36 "s" []]]] in
      fragment_cycle_through_field D = false
      /\ (exists g v, collect (collect_bound D [SSpread 2 "F" []]) c09_schema D [] "Q" [SSpread 2 "F" []] [] [] = Some (g, v)
                      /\ map fst g = ["s"%string; "x"%string])
      /\ walk (plan_bound D) c09_schema D [] "Q" [[SSpread 2 "F" []]] = Some 2)
  /\ (let D := c09_doc [SSpread 2 "F" []] [c09_F [c09_fld 25 "s" []; SSpread 27 "F" []; c09_fld 32 "x" [c09_fld 36 "s" []]]] in
      match request (request_bound c09_schema D []) c09_schema D None [] (RObj 0 "root")
                    (fun _ => Some (OVal (RObj 1 "Q"))) (fun _ => Some "Q"%string) with
      | RDone (Some _) _ => True
      | _ => False
      end)
  /\ result_well_formed {| sh_parse_failed := true; sh_valid_failed := false; sh_has_data := true;
                           sh_nerrs := 1; sh_json_ok := true; sh_keys_ok := true |} = false
  /\ result_well_formed {| sh_parse_failed := false; sh_valid_failed := false; sh_has_data := false;
                           sh_nerrs := 0; sh_json_ok := true; sh_keys_ok := true |} = false.
Proof.
  split; [vm_compute; reflexivity|]. split.
  - split; [vm_compute; reflexivity|]. split.
    + eexists. eexists. split; vm_compute; reflexivity.
    + vm_compute. reflexivity.
  - split; [vm_compute; exact I|]. split; reflexivity.
Qed.
