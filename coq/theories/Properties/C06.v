(* Property C06 -- prepared plans and the plan cache are semantically
   transparent.  Statements only; proofs live in Proofs/Cache*.v.

   Everything the cache does not compute itself is universally quantified:
   R (results), A (synthetic arguments), fresh (planning a request from
   scratch), ok, synth, the hash, and the eviction policy [victim], which is
   only required to name a retained key. *)
From Coq Require Import List NArith ZArith Bool.
From GQL Require Import Base.Bytes Cache.LRU Cache.CacheSpec Proofs.CacheProofs
     Run.C06run Proofs.CacheRunProofs Cache.Normalize Proofs.CacheNormalizeProofs Proofs.CacheAdmProofs
     Cache.Prepared Proofs.CachePreparedProofs Cache.NormalizeHeap Proofs.CacheNormalizeHeapProofs
     Proofs.CacheNormalizeRefineProofs.
Import ListNotations.
Open Scope N_scope.

Definition victim_ok {R} (victim : list (entry R) -> bytes) : Prop :=
  forall es, es <> [] -> In (victim es) (map e_key es).

(* In every history of Get/Reset (schema replacement = Get under another schema
   id), under every configuration (nil cache, every MaxEntries including <= 0
   and 1, every MaxQueryBytes, Normalize on/off) and every eviction policy,
   each Get returns what planning that request from scratch returns, provided
   equal keys under one schema mean equal from-scratch results. *)
Theorem C06_refines_uncached :
  forall (R A : Type) hash (fresh : cfg -> req -> R) ok (synth : req -> A) no_synth victim,
    victim_ok victim ->
    forall c h, key_faithful hash fresh c ->
      map (@o_res R A) (snd (run hash fresh ok synth no_synth victim c h)) = map (fresh c) (gets h).
Proof. intros R A hash fresh ok synth no_synth victim HV c h KF. exact (refines_uncached hash fresh ok synth no_synth victim c h KF). Qed.
Print Assumptions C06_refines_uncached.

(* The key construction as coded -- decimal length of the operation name, ":",
   the operation name, then the rest -- is injective on (operation name, rest),
   on all byte strings. *)
Theorem C06_key_injective : forall op1 t1 op2 t2,
  lenprefix op1 t1 = lenprefix op2 t2 -> op1 = op2 /\ t1 = t2.
Proof. exact lenprefix_inj. Qed.
Print Assumptions C06_key_injective.

(* Equal cache keys mean equal operation name and equal canonical text (query
   text, or printed normalised document), given an injective hash whose output
   does not start with "raw:"; so any planner that is a function of (schema,
   operation name, canonical text) satisfies key_faithful. *)
Theorem C06_key_faithful :
  forall hash, (forall a b, hash a = hash b -> a = b) -> (forall a, firstn 4 (hash a) <> raw_tag) ->
  (forall c r1 r2 k, key hash c r1 = Some k -> key hash c r2 = Some k ->
                     rq_op r1 = rq_op r2 /\ canon c r1 = canon c r2) /\
  (forall (R : Type) (planner : N -> bytes -> ctext -> R) c,
      key_faithful hash (fun c r => planner (rq_schema r) (rq_op r) (canon c r)) c).
Proof.
  intros hash HI HR. split.
  - exact (key_determines hash HI HR).
  - exact (factored_fresh_faithful hash HI HR).
Qed.
Print Assumptions C06_key_faithful.

(* The two together: no hypothesis on keys is left. *)
Theorem C06_transparent :
  forall (R A : Type) hash (planner : N -> bytes -> ctext -> R) ok (synth : req -> A) no_synth victim,
    (forall a b, hash a = hash b -> a = b) -> (forall a, firstn 4 (hash a) <> raw_tag) ->
    victim_ok victim ->
    forall c h,
      let fresh := fun c r => planner (rq_schema r) (rq_op r) (canon c r) in
      map (@o_res R A) (snd (run hash fresh ok synth no_synth victim c h)) = map (fresh c) (gets h).
Proof.
  intros R A hash planner ok synth no_synth victim HI HR HV c h fresh.
  apply (refines_uncached hash fresh ok synth no_synth victim c h).
  apply (factored_fresh_faithful hash HI HR).
Qed.
Print Assumptions C06_transparent.

(* The cache never retains more entries than configured: in every reachable
   state, for every MaxEntries (the default when <= 0) and every policy. *)
Theorem C06_bound :
  forall (R A : Type) hash (fresh : cfg -> req -> R) ok (synth : req -> A) no_synth victim,
    victim_ok victim ->
    forall c h, nlen (entries (fst (run hash fresh ok synth no_synth victim c h))) <= eff_max c.
Proof. intros R A hash fresh ok synth no_synth victim HV c h. exact (bound_all_histories hash fresh ok synth no_synth victim HV c h). Qed.
Print Assumptions C06_bound.

(* and no key is retained twice *)
Theorem C06_keys_unique :
  forall (R A : Type) hash (fresh : cfg -> req -> R) ok (synth : req -> A) no_synth victim,
    forall c h, NoDup (map e_key (entries (fst (run hash fresh ok synth no_synth victim c h)))).
Proof. intros. apply nodup_all_histories. Qed.
Print Assumptions C06_keys_unique.

(* The counters count exactly the Gets answered from an entry / planned anew;
   a Get moves no counter exactly when the request bypasses the cache. *)
Theorem C06_hit_miss_counts :
  forall (R A : Type) hash (fresh : cfg -> req -> R) ok (synth : req -> A) no_synth victim c h,
    let res := run hash fresh ok synth no_synth victim c h in
    hits (fst res) = count is_hit (snd res) /\
    misses (fst res) = count is_miss (snd res) /\
    Forall2 (fun r o => o_hit o = None <-> key hash c r = None) (gets h) (snd res).
Proof. intros. apply counters_all_histories. Qed.
Print Assumptions C06_hit_miss_counts.

(* Reset drops every entry and keeps the counters; the next Get of a cacheable
   request is a miss that plans from scratch. *)
Theorem C06_reset :
  forall (R A : Type) hash (fresh : cfg -> req -> R) ok (synth : req -> A) no_synth victim c s r,
    entries (reset s) = [] /\ hits (reset s) = hits s /\ misses (reset s) = misses s /\
    o_res (snd (get hash fresh ok synth no_synth victim c (reset s) r)) = fresh c r /\
    (key hash c r <> None -> o_hit (snd (get hash fresh ok synth no_synth victim c (reset s) r)) = Some false).
Proof. intros. apply reset_then_get. Qed.
Print Assumptions C06_reset.

(* The literal values handed back by a Get are a function of that call's
   request and the configuration alone -- never of the history: with a plan they
   are own_synth c r, and in every case own_synth c r or none. *)
Theorem C06_own_literals :
  forall (R A : Type) hash (fresh : cfg -> req -> R) ok (synth : req -> A) no_synth victim c h,
    Forall2 (fun r o => (ok (o_res o) = true -> o_synth o = own_synth hash synth no_synth c r) /\
                        (o_synth o = own_synth hash synth no_synth c r \/ o_synth o = no_synth))
            (gets h) (snd (run hash fresh ok synth no_synth victim c h)).
Proof. intros. apply own_literals_all_histories. Qed.
Print Assumptions C06_own_literals.

(* The eviction order is not observable in the results. *)
Theorem C06_policy_independent :
  forall (R A : Type) hash (fresh : cfg -> req -> R) ok (synth : req -> A) no_synth v1 v2 c h,
    victim_ok v1 -> victim_ok v2 -> key_faithful hash fresh c ->
    map (@o_res R A) (snd (run hash fresh ok synth no_synth v1 c h)) =
    map (@o_res R A) (snd (run hash fresh ok synth no_synth v2 c h)).
Proof. intros. apply results_policy_independent; assumption. Qed.
Print Assumptions C06_policy_independent.

(* What the runner tolerates as eviction-order drift is exactly a step of the
   model under some policy: every Get of the model, from a state without
   duplicate keys (every reachable state, C06_keys_unique), under every policy
   naming a retained key, satisfies the admissibility relation the runner
   applies to the implementation's observations (retained entries projected to
   (key id, schema id) by any injective numbering of keys). *)
Theorem C06_model_admissible :
  forall (R A : Type) (kid : bytes -> N) hash (fresh : cfg -> req -> R) ok (synth : req -> A) no_synth victim,
    (forall a b, kid a = kid b -> a = b) -> victim_ok victim ->
    forall c (s : state R) r, NoDup (map e_key (entries s)) ->
      let res := get hash fresh ok synth no_synth victim c s r in
      match key hash c r with
      | Some k => adm_get (eff_max c) (map (proj kid) (entries s)) (kid k) (rq_schema r) (hitc (snd res))
                          (map (proj kid) (entries (fst res))) = true
      | None => adm_bypass (map (proj kid) (entries s)) (hitc (snd res)) (map (proj kid) (entries (fst res))) = true
      end.
Proof.
  intros R A kid hash fresh ok synth no_synth victim KI HV c s r Hd.
  exact (get_admissible kid KI victim HV hash fresh ok synth no_synth c s r Hd).
Qed.
Print Assumptions C06_model_admissible.

(* Literal normalisation on the query syntax of Cache/Normalize.v (values with
   nested lists/objects and variables anywhere, aliases, directives with
   arguments on fields, inline fragments and spreads): for every schema
   (field_def, arg_ty, dir_arg_ty, tc_obj), every valueFromAST [coerce] that
   reads only the variables occurring in the value and returns a variable's
   value for a variable, every literal-validity and variable coercion, every
   selection set whose variables are among [taken] (variableNames of the
   document) and every variable environment env of the caller: executing the
   normalised selection set under env extended by the synthetic definitions
   applied to SynthArgs is observationally the execution of the original under
   env (equal denotations); the caller's variables keep their values (so
   fragments and directives, which stay as written, see the same environment);
   every synthetic variable is fresh, valid for its type, and bound to its
   extracted value. *)
Section NormalizeStatements.
  Context {L cval : Type}.
  Variable value_eqb : @value L -> @value L -> bool.
  Variable cval_eqb : cval -> cval -> bool.
  Variable synth_name : N -> name.
  Variable field_def : otype -> name -> option (option otype).
  Variable arg_ty : otype -> name -> name -> option ty.
  Variable dir_arg_ty : name -> name -> option ty.
  Variable tc_obj : name -> option otype.
  Variable coerce : ty -> @value L -> (name -> option cval) -> option cval.
  Variable lit_valid : ty -> @value L -> bool.
  Variable var_coerce : ty -> cval -> option cval.
  Variable taken : list name.

  Definition norm_env_ok : Prop :=
    (forall a b, value_eqb a b = true -> a = b) /\ (forall a, value_eqb a a = true) /\
    (forall a b, cval_eqb a b = true -> a = b) /\
    (forall a b, synth_name a = synth_name b -> a = b) /\
    (forall t v e1 e2, (forall x, In x (value_vars v) -> e1 x = e2 x) -> coerce t v e1 = coerce t v e2) /\
    (forall t x e, coerce t (VVar x) e = e x).

  Notation normalize' := (normalize value_eqb cval_eqb synth_name field_def arg_ty tc_obj coerce lit_valid var_coerce taken).
  Notation sub_value' := (sub_value value_eqb cval_eqb coerce lit_valid var_coerce).
  Notation sub_sel' := (sub_sel value_eqb cval_eqb field_def arg_ty tc_obj coerce lit_valid var_coerce).
  Notation denote' := (denote field_def arg_ty dir_arg_ty tc_obj coerce).

  Theorem C06_normalize_transparent :
    norm_env_ok -> forall (env : name -> option cval) root (sels : list (@sel L)) st sels',
      normalize' root sels = (st, sels') -> incl (flat_map sel_vars sels) taken ->
      let env' := extend var_coerce env (n_synth st) in
      map (denote' env' root) sels' = map (denote' env root) sels /\
      (forall y, In y taken -> env' y = env y) /\
      (forall x t c, In (x, (t, c)) (n_synth st) -> ~ In x taken /\ var_coerce t c = Some c /\ env' x = Some c).
  Proof.
    intros [H1 [H2 [H3 [H4 [H5 H6]]]]] env root sels st sels' HN HV.
    exact (normalize_transparent value_eqb cval_eqb synth_name field_def arg_ty dir_arg_ty tc_obj coerce lit_valid var_coerce
             taken env H1 H2 H3 H4 H5 H6 root sels st sels' HN HV).
  Qed.

  (* Validation verdicts of the rewritten operation.  The rewriting is a
     substitution at typed argument positions ([sub_sel]); it (i) maps two
     values at positions of one type to equal values exactly when they were
     equal (sameArguments in the overlapping-fields rule: fields that could be
     merged can still be merged, fields that conflicted still conflict), (ii)
     puts at a rewritten position a variable declared with exactly that
     position's type (variables in allowed position), bound to the coerced value
     of a literal that was valid there (arguments of correct type; variable
     values of correct type), (iii) declares each synthetic variable once, under
     a name the document does not use (unique variable names; no undefined or
     captured variable). *)
  Theorem C06_normalize_validation_preserved :
    norm_env_ok -> forall root (sels : list (@sel L)) st sels',
      normalize' root sels = (st, sels') -> incl (flat_map sel_vars sels) taken ->
      sels' = map (sub_sel' st root) sels /\
      (forall t v1 v2, incl (value_vars v1) taken -> incl (value_vars v2) taken ->
                       (sub_value' st t v1 = sub_value' st t v2 <-> v1 = v2)) /\
      (forall t v, sub_value' st t v <> v ->
                   exists x c, sub_value' st t v = VVar x /\ In (x, (t, c)) (n_synth st) /\
                               extract_value cval_eqb coerce lit_valid var_coerce t v = Some c /\
                               lit_valid t v = true /\ var_coerce t c = Some c /\ ~ In x taken) /\
      (forall x t1 c1 t2 c2, In (x, (t1, c1)) (n_synth st) -> In (x, (t2, c2)) (n_synth st) -> t1 = t2 /\ c1 = c2) /\
      (forall x t c, In (x, (t, c)) (n_synth st) -> ~ In x taken).
  Proof.
    intros [H1 [H2 [H3 [H4 [H5 H6]]]]] root sels st sels' HN HV.
    destruct (normalize_ok value_eqb cval_eqb synth_name field_def arg_ty dir_arg_ty tc_obj coerce lit_valid var_coerce
                taken (fun _ => None) H1 H2 H3 H4 H5 H6 root sels st sels' HN HV) as [W [B _]].
    split; [exact B|split; [|split; [|eapply synth_defs_unique; eassumption]]].
    - intros t v1 v2 I1 I2. split; [|intros ->; reflexivity].
      intro E. eapply sub_value_inj; eassumption.
    - intros t v Hne. eapply sub_value_changed; eassumption.
  Qed.

  (* The caller's document is not modified (Cache/NormalizeHeap.v: Argument
     nodes are mutable cells; the walk assigns arg.Value): after
     normalizeDocument every cell that existed before holds what it held, so
     the caller's trees read back as the same document. *)
  Theorem C06_original_unchanged :
    forall root (hs : @hst L) (ps : list (@psel L)) st hs' ps',
      hnormalize value_eqb cval_eqb synth_name field_def arg_ty tc_obj coerce lit_valid var_coerce taken root hs ps = (st, hs', ps') ->
      Forall (fun i => i < h_next hs) (flat_map pids ps) ->
      (forall j, j < h_next hs -> hget (h_heap hs') j = hget (h_heap hs) j) /\
      map (read_sel (h_heap hs')) ps = map (read_sel (h_heap hs)) ps.
  Proof.
    intros root hs ps st hs' ps' H Hb.
    exact (caller_cells_unchanged value_eqb cval_eqb synth_name field_def arg_ty tc_obj coerce lit_valid var_coerce taken root hs ps st hs' ps' H Hb).
  Qed.

  (* ... and what the walk leaves in the clone's cells is the functional
     normalisation of the caller's document, with the same synthetic
     definitions: the two theorems above are about what the code-shaped
     algorithm returns. *)
  Theorem C06_normalize_in_place_refines :
    forall root (hs : @hst L) (ps : list (@psel L)) st hs' ps',
      hnormalize value_eqb cval_eqb synth_name field_def arg_ty tc_obj coerce lit_valid var_coerce taken root hs ps = (st, hs', ps') ->
      Forall (fun i => i < h_next hs) (flat_map pids ps) ->
      normalize' root (map (read_sel (h_heap hs)) ps) = (st, map (read_sel (h_heap hs')) ps').
  Proof.
    intros root hs ps st hs' ps' H Hb.
    exact (hnormalize_refines value_eqb cval_eqb synth_name field_def arg_ty tc_obj coerce lit_valid var_coerce taken root hs ps st hs' ps' H Hb).
  Qed.
End NormalizeStatements.
Print Assumptions C06_normalize_transparent.
Print Assumptions C06_normalize_validation_preserved.
Print Assumptions C06_original_unchanged.
Print Assumptions C06_normalize_in_place_refines.

(* Prepared plans (Cache/Prepared.v): one plan executed any number of times,
   with any variables and roots, the lazily filled slots carried from one
   execution to the next (or filled by anyone else, consistently): every
   execution returns what an execution on a fresh plan returns.  An execution
   is any program that reads the plan and asks for slots whose content is a
   function of the immutable plan and the slot key. *)
Theorem C06_prepared_reuse :
  forall (S SP V Root Res : Type) (init_slot : S -> slot -> SP) (body : S -> V -> Root -> @prog SP Res)
         (s : S) (runs : list (V * Root)) (m : @memo SP),
    consistent init_slot s m ->
    fst (exec_many init_slot body s m runs) = map (fun vr => fresh_exec init_slot body s (fst vr) (snd vr)) runs /\
    consistent init_slot s (snd (exec_many init_slot body s m runs)).
Proof. intros. apply exec_many_fresh. assumption. Qed.
Print Assumptions C06_prepared_reuse.

(* ---- non-vacuity: the hypotheses are satisfiable and the model moves ---- *)

Example C06_lru_is_a_policy : forall R, victim_ok (@last_key R).
Proof. intros R es. apply last_key_present. Qed.

Example C06_runner_hash_ok :
  (forall a b, run_hash a = run_hash b -> a = b) /\ (forall a, firstn 4 (run_hash a) <> raw_tag).
Proof. split; [exact run_hash_inj|exact run_hash_not_raw]. Qed.

Definition ex_cfg : cfg := mkCfg false 1 0 false 1024 65536.
Definition ex_r1 : req := mkReq 1 [] [123; 97; 125] RParseErr.          (* {a} *)
Definition ex_r2 : req := mkReq 1 [] [123; 98; 125] RParseErr.          (* {b} *)
Definition ex_r1' : req := mkReq 2 [] [123; 97; 125] RParseErr.         (* {a} under another schema *)

(* MaxEntries = 1: miss, hit, miss (evicts), miss again, other schema misses *)
Example C06_nonvacuous_history :
  let res := run run_hash (fun _ r => rq_query r) (fun _ => true) (fun _ => 0) 0 (@last_key bytes) ex_cfg
                 [OGet ex_r1; OGet ex_r1; OGet ex_r2; OGet ex_r1; OGet ex_r1'; OReset; OGet ex_r1] in
  map (@o_hit _ _) (snd res) = [Some false; Some true; Some false; Some false; Some false; Some false] /\
  nlen (entries (fst res)) = 1 /\ hits (fst res) = 1 /\ misses (fst res) = 5.
Proof. vm_compute. repeat split. Qed.

(* operation names that mimic the length prefix or carry a NUL are kept apart *)
Example C06_nonvacuous_key :
  lenprefix [97] [49; 58; 98] <> lenprefix [97; 49] [58; 98] /\
  [97] ++ 0 :: [49; 58; 98] <> [97; 0] ++ 0 :: [58; 98].
Proof. split; intro H; vm_compute in H; discriminate H. Qed.

(* normalisation does extract, share and avoid taken names:
   {f(n:1) x:f(n:1) g(p:[1,$v]) @skip(if:$v)} with $5 and __pcv0 (= 100) taken *)
Example C06_nonvacuous_normalize :
  let fd := fun (_ : otype) (_ : name) => Some (@None otype) in
  let at_ := fun (_ : otype) (_ _ : name) => Some 7 in
  let veqb := fun (a b : @value N) => match a, b with VScalar x, VScalar y => x =? y | _, _ => false end in
  let co := fun (_ : ty) (v : @value N) (e : name -> option N) => match v with VScalar l => Some l | VVar x => e x | _ => None end in
  let res := normalize (cval:=N) veqb N.eqb (fun k => 100 + k) fd at_ (fun _ => None)
                       co (fun _ _ => true) (fun _ c => Some c) [5; 100] 0
                       [Field None 1 [(9, VScalar 1)] [] []; Field (Some 3) 1 [(9, VScalar 1)] [] [];
                        Field None 2 [(8, VList [VScalar 1; VVar 5])] [(4, [(6, VVar 5)])] []] in
  snd res = [Field None 1 [(9, VVar 101)] [] []; Field (Some 3) 1 [(9, VVar 101)] [] [];
             Field None 2 [(8, VList [VScalar 1; VVar 5])] [(4, [(6, VVar 5)])] []] /\
  n_synth (fst res) = [(101, (7, 1))].
Proof. vm_compute. split; reflexivity. Qed.

(* prepared plans: the second execution finds the slot filled and returns the same *)
Example C06_nonvacuous_prepared :
  let body := fun (s : N) (v : N) (_ : unit) => Need (SP:=N) (Res:=N) 3 (fun sp => Ret (sp + v)) in
  exec_many (fun s sl => s + sl) body 10 [] [(1, tt); (2, tt)] = ([14; 15], [(3, 13)]).
Proof. vm_compute. reflexivity. Qed.

(* the clone gets new cells; the caller's cell 0 keeps its literal *)
Example C06_nonvacuous_heap :
  let fd := fun (_ : otype) (_ : name) => Some (@None otype) in
  let at_ := fun (_ : otype) (_ _ : name) => Some 7 in
  let veqb := fun (a b : @value N) => match a, b with VScalar x, VScalar y => x =? y | _, _ => false end in
  let co := fun (_ : ty) (v : @value N) (e : name -> option N) => match v with VScalar l => Some l | VVar x => e x | _ => None end in
  let hs := mkH [(0, (9, VScalar 1))] 1 in
  let '(st, hs', ps') := hnormalize (cval:=N) veqb N.eqb (fun k => 100 + k) fd at_ (fun _ => None) co (fun _ _ => true)
                                    (fun _ c => Some c) [] 0 hs [PField None 1 [0] [] []] in
  hget (h_heap hs') 0 = (9, VScalar 1) /\ map (read_sel (h_heap hs')) ps' = [Field None 1 [(9, VVar 100)] [] []].
Proof. vm_compute. split; reflexivity. Qed.

(* ---- constants generated from the source (harness/gen.go writes Gen/Consts.v from
   plan_cache.go before every check run; these are re-proved then) ---- *)
From GQL Require Gen.Consts Tables.CacheDefaults.

(* The defaults of NewPlanCache in plan_cache.go are the model's; the linked library reports the
   same (harness cases carry the linked values as c_defmax / c_defq). *)
Theorem C06_gen_defaults :
  Gen.Consts.default_plan_cache_max_entries = Tables.CacheDefaults.model_default_max_entries /\
  Gen.Consts.default_plan_cache_max_query_bytes = Tables.CacheDefaults.model_default_max_query_bytes /\
  Gen.Consts.linked_plan_cache_max_entries = Gen.Consts.default_plan_cache_max_entries /\
  Gen.Consts.linked_plan_cache_max_query_bytes = Gen.Consts.default_plan_cache_max_query_bytes.
Proof.
  repeat split;
  first [ vm_compute; reflexivity
        | fail 1 "generated-table obligation C06_gen_defaults no longer holds against the regenerated table: defaultPlanCacheMaxEntries / defaultPlanCacheMaxQueryBytes of plan_cache.go (Gen/Consts.v) are not the defaults of the cache model (Tables/CacheDefaults.v)" ].
Qed.
Print Assumptions C06_gen_defaults.

(* C06_bound for a cache built without MaxEntries: the bound is the constant of the source, and
   it is a bound (positive). *)
Theorem C06_gen_default_bound :
  forall (R A : Type) hash (fresh : cfg -> req -> R) ok (synth : req -> A) no_synth victim,
    victim_ok victim ->
    forall c h, (c_max c <= 0)%Z -> c_defmax c = Gen.Consts.default_plan_cache_max_entries ->
      nlen (entries (fst (run hash fresh ok synth no_synth victim c h))) <= Gen.Consts.default_plan_cache_max_entries /\
      0 < Gen.Consts.default_plan_cache_max_entries.
Proof.
  intros R A hash fresh ok synth no_synth victim HV c h Hm Hd.
  split; [|first [ vm_compute; reflexivity
                 | fail 1 "generated-table obligation C06_gen_default_bound no longer holds against the regenerated table: defaultPlanCacheMaxEntries of plan_cache.go (Gen/Consts.v) is not positive" ]].
  pose proof (C06_bound R A hash fresh ok synth no_synth victim HV c h) as B.
  unfold eff_max in B. apply Z.leb_le in Hm. rewrite Hm, Hd in B. exact B.
Qed.
Print Assumptions C06_gen_default_bound.
