(* Property C06 -- prepared plans and the plan cache are semantically
   transparent.  Statements only; proofs live in Proofs/Cache*.v.

   Everything the cache does not compute itself is universally quantified:
   R (results), A (synthetic arguments), fresh (planning a request from
   scratch), ok, synth, the hash, and the eviction policy [victim], which is
   only required to name a retained key. *)
From Coq Require Import List NArith ZArith Bool.
From GQL Require Import Base.Bytes Cache.LRU Cache.CacheSpec Proofs.CacheProofs
     Run.C06run Proofs.CacheRunProofs Cache.Normalize Proofs.CacheNormalizeProofs Proofs.CacheAdmProofs.
Import ListNotations.
Open Scope N_scope.

Definition victim_ok {R} (victim : list (entry R) -> bytes) : Prop :=
  forall es, es <> [] -> In (victim es) (map e_key es).

(* In every history of Get/Reset (schema replacement = Get under another schema
   id), under every configuration (nil cache, every MaxEntries including <= 0
   and 1, every MaxQueryBytes, Normalize on/off) and every eviction policy,
   each Get returns what planning that request from scratch returns, provided
   equal keys under one schema mean equal from-scratch results. *)
Theorem C06_refines_uncached :
  forall (R A : Type) hash (fresh : cfg -> req -> R) ok (synth : req -> A) no_synth victim,
    victim_ok victim ->
    forall c h, key_faithful hash fresh c ->
      map (@o_res R A) (snd (run hash fresh ok synth no_synth victim c h)) = map (fresh c) (gets h).
Proof. intros R A hash fresh ok synth no_synth victim HV c h KF. exact (refines_uncached hash fresh ok synth no_synth victim c h KF). Qed.
Print Assumptions C06_refines_uncached.

(* The key construction as coded -- decimal length of the operation name, ":",
   the operation name, then the rest -- is injective on (operation name, rest),
   on all byte strings. *)
Theorem C06_key_injective : forall op1 t1 op2 t2,
  lenprefix op1 t1 = lenprefix op2 t2 -> op1 = op2 /\ t1 = t2.
Proof. exact lenprefix_inj. Qed.
Print Assumptions C06_key_injective.

(* Equal cache keys mean equal operation name and equal canonical text (query
   text, or printed normalised document), given an injective hash whose output
   does not start with "raw:"; so any planner that is a function of (schema,
   operation name, canonical text) satisfies key_faithful. *)
Theorem C06_key_faithful :
  forall hash, (forall a b, hash a = hash b -> a = b) -> (forall a, firstn 4 (hash a) <> raw_tag) ->
  (forall c r1 r2 k, key hash c r1 = Some k -> key hash c r2 = Some k ->
                     rq_op r1 = rq_op r2 /\ canon c r1 = canon c r2) /\
  (forall (R : Type) (planner : N -> bytes -> ctext -> R) c,
      key_faithful hash (fun c r => planner (rq_schema r) (rq_op r) (canon c r)) c).
Proof.
  intros hash HI HR. split.
  - exact (key_determines hash HI HR).
  - exact (factored_fresh_faithful hash HI HR).
Qed.
Print Assumptions C06_key_faithful.

(* The two together: no hypothesis on keys is left. *)
Theorem C06_transparent :
  forall (R A : Type) hash (planner : N -> bytes -> ctext -> R) ok (synth : req -> A) no_synth victim,
    (forall a b, hash a = hash b -> a = b) -> (forall a, firstn 4 (hash a) <> raw_tag) ->
    victim_ok victim ->
    forall c h,
      let fresh := fun c r => planner (rq_schema r) (rq_op r) (canon c r) in
      map (@o_res R A) (snd (run hash fresh ok synth no_synth victim c h)) = map (fresh c) (gets h).
Proof.
  intros R A hash planner ok synth no_synth victim HI HR HV c h fresh.
  apply (refines_uncached hash fresh ok synth no_synth victim c h).
  apply (factored_fresh_faithful hash HI HR).
Qed.
Print Assumptions C06_transparent.

(* The cache never retains more entries than configured: in every reachable
   state, for every MaxEntries (the default when <= 0) and every policy. *)
Theorem C06_bound :
  forall (R A : Type) hash (fresh : cfg -> req -> R) ok (synth : req -> A) no_synth victim,
    victim_ok victim ->
    forall c h, nlen (entries (fst (run hash fresh ok synth no_synth victim c h))) <= eff_max c.
Proof. intros R A hash fresh ok synth no_synth victim HV c h. exact (bound_all_histories hash fresh ok synth no_synth victim HV c h). Qed.
Print Assumptions C06_bound.

(* and no key is retained twice *)
Theorem C06_keys_unique :
  forall (R A : Type) hash (fresh : cfg -> req -> R) ok (synth : req -> A) no_synth victim,
    forall c h, NoDup (map e_key (entries (fst (run hash fresh ok synth no_synth victim c h)))).
Proof. intros. apply nodup_all_histories. Qed.
Print Assumptions C06_keys_unique.

(* The counters count exactly the Gets answered from an entry / planned anew;
   a Get moves no counter exactly when the request bypasses the cache. *)
Theorem C06_hit_miss_counts :
  forall (R A : Type) hash (fresh : cfg -> req -> R) ok (synth : req -> A) no_synth victim c h,
    let res := run hash fresh ok synth no_synth victim c h in
    hits (fst res) = count is_hit (snd res) /\
    misses (fst res) = count is_miss (snd res) /\
    Forall2 (fun r o => o_hit o = None <-> key hash c r = None) (gets h) (snd res).
Proof. intros. apply counters_all_histories. Qed.
Print Assumptions C06_hit_miss_counts.

(* Reset drops every entry and keeps the counters; the next Get of a cacheable
   request is a miss that plans from scratch. *)
Theorem C06_reset :
  forall (R A : Type) hash (fresh : cfg -> req -> R) ok (synth : req -> A) no_synth victim c s r,
    entries (reset s) = [] /\ hits (reset s) = hits s /\ misses (reset s) = misses s /\
    o_res (snd (get hash fresh ok synth no_synth victim c (reset s) r)) = fresh c r /\
    (key hash c r <> None -> o_hit (snd (get hash fresh ok synth no_synth victim c (reset s) r)) = Some false).
Proof. intros. apply reset_then_get. Qed.
Print Assumptions C06_reset.

(* The literal values handed back by a Get are a function of that call's
   request and the configuration alone -- never of the history: with a plan they
   are own_synth c r, and in every case own_synth c r or none. *)
Theorem C06_own_literals :
  forall (R A : Type) hash (fresh : cfg -> req -> R) ok (synth : req -> A) no_synth victim c h,
    Forall2 (fun r o => (ok (o_res o) = true -> o_synth o = own_synth hash synth no_synth c r) /\
                        (o_synth o = own_synth hash synth no_synth c r \/ o_synth o = no_synth))
            (gets h) (snd (run hash fresh ok synth no_synth victim c h)).
Proof. intros. apply own_literals_all_histories. Qed.
Print Assumptions C06_own_literals.

(* The eviction order is not observable in the results. *)
Theorem C06_policy_independent :
  forall (R A : Type) hash (fresh : cfg -> req -> R) ok (synth : req -> A) no_synth v1 v2 c h,
    victim_ok v1 -> victim_ok v2 -> key_faithful hash fresh c ->
    map (@o_res R A) (snd (run hash fresh ok synth no_synth v1 c h)) =
    map (@o_res R A) (snd (run hash fresh ok synth no_synth v2 c h)).
Proof. intros. apply results_policy_independent; assumption. Qed.
Print Assumptions C06_policy_independent.

(* What the runner tolerates as eviction-order drift is exactly a step of the
   model under some policy: every Get of the model, from a state without
   duplicate keys (every reachable state, C06_keys_unique), under every policy
   naming a retained key, satisfies the admissibility relation the runner
   applies to the implementation's observations (retained entries projected to
   (key id, schema id) by any injective numbering of keys). *)
Theorem C06_model_admissible :
  forall (R A : Type) (kid : bytes -> N) hash (fresh : cfg -> req -> R) ok (synth : req -> A) no_synth victim,
    (forall a b, kid a = kid b -> a = b) -> victim_ok victim ->
    forall c (s : state R) r, NoDup (map e_key (entries s)) ->
      let res := get hash fresh ok synth no_synth victim c s r in
      match key hash c r with
      | Some k => adm_get (eff_max c) (map (proj kid) (entries s)) (kid k) (rq_schema r) (hitc (snd res))
                          (map (proj kid) (entries (fst res))) = true
      | None => adm_bypass (map (proj kid) (entries s)) (hitc (snd res)) (map (proj kid) (entries (fst res))) = true
      end.
Proof.
  intros R A kid hash fresh ok synth no_synth victim KI HV c s r Hd.
  exact (get_admissible kid KI victim HV hash fresh ok synth no_synth c s r Hd).
Qed.
Print Assumptions C06_model_admissible.

(* Literal normalisation on a reduced query syntax (Cache/Normalize.v): for
   every schema (field_def, arg_ty, tc_obj), every coercion (lit_coerce =
   valueFromAST on a literal, var_coerce = variable coercion), every selection
   set whose variables are among [taken] (variableNames of the document) and
   every variable environment env of the caller: executing the normalised
   selection set under env extended by the synthetic definitions applied to
   SynthArgs is observationally the execution of the original under env
   (same denotation: typed arguments by coerced value, everything else by
   syntax + the values of the variables occurring in it); the caller's
   variables keep their values (so fragments, which stay as written, see the
   same environment), and every synthetic variable is fresh and valid.
   Partial: reduced syntax (composite values with variables and
   alias/directives are opaque), no statement about validation of the
   normalised document, the nextName loop is bounded by fuel (out of fuel =
   literal left in place). *)
Theorem C06_normalize_transparent_partial :
  forall (L cval mixed deco : Type) (L_eqb : L -> L -> bool) (cval_eqb : cval -> cval -> bool)
         (mixed_vars : mixed -> list name) (deco_vars : deco -> list name) (synth_name : N -> name)
         field_def arg_ty tc_obj (lit_coerce : ty -> L -> option cval) (var_coerce : ty -> cval -> option cval)
         (taken : list name) (fuel : nat) (env : name -> option cval),
    (forall a b, L_eqb a b = true -> a = b) ->
    (forall a b, cval_eqb a b = true -> a = b) ->
    (forall a b, synth_name a = synth_name b -> a = b) ->
    forall root (sels : list (@sel L mixed deco)) st sels',
      normalize L_eqb cval_eqb synth_name field_def arg_ty tc_obj lit_coerce var_coerce taken fuel root sels = (st, sels') ->
      incl (flat_map (sel_vars mixed_vars deco_vars) sels) taken ->
      let env' := extend var_coerce env (n_synth st) in
      map (denote mixed_vars deco_vars field_def arg_ty tc_obj lit_coerce env' root) sels' =
      map (denote mixed_vars deco_vars field_def arg_ty tc_obj lit_coerce env root) sels /\
      (forall y, In y taken -> env' y = env y) /\
      (forall x t c, In (x, (t, c)) (n_synth st) -> ~ In x taken /\ var_coerce t c = Some c /\ env' x = Some c).
Proof.
  intros L cval mixed deco L_eqb cval_eqb mixed_vars deco_vars synth_name field_def arg_ty tc_obj
         lit_coerce var_coerce taken fuel env H1 H2 H3 root sels st sels' HN HV.
  exact (normalize_transparent L_eqb cval_eqb mixed_vars deco_vars synth_name field_def arg_ty tc_obj
           lit_coerce var_coerce taken fuel env H1 H2 H3 root sels st sels' HN HV).
Qed.
Print Assumptions C06_normalize_transparent_partial.

(* ---- non-vacuity: the hypotheses are satisfiable and the model moves ---- *)

Example C06_lru_is_a_policy : forall R, victim_ok (@last_key R).
Proof. intros R es. apply last_key_present. Qed.

Example C06_runner_hash_ok :
  (forall a b, run_hash a = run_hash b -> a = b) /\ (forall a, firstn 4 (run_hash a) <> raw_tag).
Proof. split; [exact run_hash_inj|exact run_hash_not_raw]. Qed.

Definition ex_cfg : cfg := mkCfg false 1 0 false 1024 65536.
Definition ex_r1 : req := mkReq 1 [] [123; 97; 125] RParseErr.          (* {a} *)
Definition ex_r2 : req := mkReq 1 [] [123; 98; 125] RParseErr.          (* {b} *)
Definition ex_r1' : req := mkReq 2 [] [123; 97; 125] RParseErr.         (* {a} under another schema *)

(* MaxEntries = 1: miss, hit, miss (evicts), miss again, other schema misses *)
Example C06_nonvacuous_history :
  let res := run run_hash (fun _ r => rq_query r) (fun _ => true) (fun _ => 0) 0 (@last_key bytes) ex_cfg
                 [OGet ex_r1; OGet ex_r1; OGet ex_r2; OGet ex_r1; OGet ex_r1'; OReset; OGet ex_r1] in
  map (@o_hit _ _) (snd res) = [Some false; Some true; Some false; Some false; Some false; Some false] /\
  nlen (entries (fst res)) = 1 /\ hits (fst res) = 1 /\ misses (fst res) = 5.
Proof. vm_compute. repeat split. Qed.

(* operation names that mimic the length prefix or carry a NUL are kept apart *)
Example C06_nonvacuous_key :
  lenprefix [97] [49; 58; 98] <> lenprefix [97; 49] [58; 98] /\
  [97] ++ 0 :: [49; 58; 98] <> [97; 0] ++ 0 :: [58; 98].
Proof. split; intro H; vm_compute in H; discriminate H. Qed.

(* normalisation does extract, share and avoid taken names: {f(n:1) f(n:1) g(p:$v)} with $v and __pcv0 taken *)
Example C06_nonvacuous_normalize :
  let fd := fun (_ : otype) (_ : name) => Some (@None otype) in
  let at_ := fun (_ : otype) (_ _ : name) => Some 7 in
  let res := normalize (L:=N) (cval:=N) (mixed:=unit) (deco:=unit) N.eqb N.eqb (fun k => 100 + k) fd at_ (fun _ => None)
                       (fun _ l => Some l) (fun _ c => Some c) [5; 100] 3%nat 0
                       [Field tt 1 [(9, VLit 1)] []; Field tt 1 [(9, VLit 1)] []; Field tt 2 [(8, VVar 5)] []] in
  snd res = [Field tt 1 [(9, VVar 101)] []; Field tt 1 [(9, VVar 101)] []; Field tt 2 [(8, VVar 5)] []] /\
  n_synth (fst res) = [(101, (7, 1))].
Proof. vm_compute. split; reflexivity. Qed.
