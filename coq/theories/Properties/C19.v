(* Property C19 -- planning and validation work is polynomial in document size.
   Statements only; proofs are in Proofs/ValidateCost.v. *)
From Coq Require Import List NArith ZArith String Bool.
From GQL Require Import Exec.Syntax Exec.Exec Validate.VSyntax Validate.Overlap Validate.Rules Validate.Cost Proofs.ValidateCost Proofs.ValidateCycleCost Proofs.ValidateFcBound.
Import ListNotations.
Open Scope string_scope.

(* The memo tables bound the overlap rule's work, for every schema, document and fuel:
   no (fragment, fragment, flag) entry is ever added twice and every entry names defined
   fragments, so the non-memoised bodies of collectConflictsBetweenFragments (two entries
   each) number at most F * F, F the number of fragment definitions. *)
Theorem C19_memo_bound : forall S D fuel,
  List.length (m_pairs (final_state S D true fuel))
  <= 2 * (List.length (d_frags D) * List.length (d_frags D)).
Proof. exact memo_bound_pairs. Qed.
Print Assumptions C19_memo_bound.

(* ... and the non-memoised bodies of collectConflictsBetweenFieldsAndFragment (one entry
   each) at most 2 * (number of (selection set, fragment name) pairs that occur). *)
Theorem C19_memo_bound_fields_fragment : forall S D fuel (U : list (ptype * N * name)),
  (forall p k g f, In (p, k, g, f) (m_ffs (final_state S D true fuel)) -> In (p, k, g) U) ->
  List.length (m_ffs (final_state S D true fuel)) <= 2 * List.length U.
Proof. exact memo_bound_ffs. Qed.
Print Assumptions C19_memo_bound_fields_fragment.

(* The potential-function invariant behind both: entries are never repeated, the pair set
   is symmetric, an entry stored with flag false is never shadowed. *)
Theorem C19_memo_invariant : forall S D memo fuel, minv D (final_state S D memo fuel).
Proof. exact memo_invariant. Qed.
Print Assumptions C19_memo_invariant.

(* Shared sub-plans: no (parent type, merged selection sets) group is planned twice, so
   the planned groups number at most the distinct keys. *)
Theorem C19_plan_shared : forall S D fuel (U : list pkey),
  (forall k, In k (p_memo (plan_doc S D true fuel)) -> In k U) ->
  List.length (p_memo (plan_doc S D true fuel)) <= List.length U.
Proof. exact plan_bodies_bound. Qed.
Print Assumptions C19_plan_shared.

(* Planning consults the schema only at the object types it reaches: two schemas that
   agree there (same fields, same answers of "does this type condition match this object")
   give the same planning cost -- adding implementers of an interface or members of a
   union, which are other object types, changes nothing. *)
Theorem C19_plan_independent_of_implementers : forall S S' D share fuel (R : name -> Prop),
  (forall T c, R T -> fragment_matches S c T = fragment_matches S' c T) ->
  (forall T nm, R T -> plan_field_ty S T nm = plan_field_ty S' T nm) ->
  (forall T nm t, R T -> plan_field_ty S T nm = Some t -> is_object_ty S (named_of t) = true -> R (named_of t)) ->
  (forall T nm t, R T -> plan_field_ty S T nm = Some t ->
                  is_object_ty S (named_of t) = is_object_ty S' (named_of t)) ->
  (forall ds vars, included S ds vars = included S' ds vars) ->
  s_query S = s_query S' -> s_mutation S = s_mutation S' ->
  R (s_query S) -> (forall m, s_mutation S = Some m -> R m) ->
  plan_doc S D share fuel = plan_doc S' D share fuel.
Proof. exact plan_independent_of_implementers. Qed.
Print Assumptions C19_plan_independent_of_implementers.

(* findConflict calls of the memoised overlap algorithm, by an amortised analysis (every
   non-memoised body pays for its own field comparisons with the memo entry it adds; the
   comparisons below two fields are bounded by the product of the sizes of their
   sub-selections): with M = max_set_size (field nodes of the largest selection-set tree the
   rule is called on, nested ones included),
     calls <= M*M * (visited selection sets + fields/fragment entries + pair entries). *)
Theorem C19_find_conflict_bound : forall S D fuel,
  fc_calls S D fuel <=
  max_set_size S D * max_set_size S D *
  (List.length (all_sets S D) + List.length (m_ffs (final_state S D true fuel))
   + List.length (m_pairs (final_state S D true fuel))).
Proof. exact fc_calls_bound. Qed.
Print Assumptions C19_find_conflict_bound.

(* ... hence in closed form, with G fragment definitions and any list U of the (selection
   set, fragment name) keys that occur: calls <= M*M*(sets + 2*|U| + 2*G*G). *)
Theorem C19_find_conflict_closed_form : forall S D fuel (U : list (ptype * N * name)),
  (forall p k g f, In (p, k, g, f) (m_ffs (final_state S D true fuel)) -> In (p, k, g) U) ->
  fc_calls S D fuel <=
  max_set_size S D * max_set_size S D *
  (List.length (all_sets S D) + 2 * List.length U + 2 * (List.length (d_frags D) * List.length (d_frags D))).
Proof. exact fc_calls_closed_form. Qed.
Print Assumptions C19_find_conflict_closed_form.

(* The fragment-cycle search (NoFragmentCycles) descends into every fragment at most once
   per document: the calls of detectCycleRecursive number at most the fragment definitions. *)
Theorem C19_cycle_search_bound : forall W, cycle_search_calls W <= List.length (w_frags W).
Proof. exact cycle_search_bound. Qed.
Print Assumptions C19_cycle_search_bound.

(* non-vacuity: the chain F1 { x{...F2} y{...F2} }, F2 { a } plans 3 groups with sharing
   and the memo tables are not empty on a document with two spread fragments *)
Definition exS : schema :=
  {| s_types := [("String", TScalar SString);
                 ("Q", TObject [{| f_name := "a"; f_args := []; f_type := TNamed "String" |};
                                {| f_name := "x"; f_args := []; f_type := TNamed "Q" |};
                                {| f_name := "y"; f_args := []; f_type := TNamed "Q" |}] [])];
     s_query := "Q"; s_mutation := None |}.
Definition exD : document :=
  {| d_ops := [{| o_kind := OpQuery; o_name := None; o_vars := [];
                  o_sel := [SSpread 2 "F1" []; SSpread 9 "F2" []] |}];
     d_frags := [{| fr_name := "F1"; fr_cond := "Q";
                    fr_sel := [SField 30 None "x" [] [] [SSpread 34 "F2" []];
                               SField 44 None "y" [] [] [SSpread 48 "F2" []]] |};
                 {| fr_name := "F2"; fr_cond := "Q"; fr_sel := [SField 80 None "a" [] [] []] |}] |}.
Example C19_nonvacuous :
  List.length (p_memo (plan_doc exS exD true 50)) = 3 /\
  p_calls (plan_doc exS exD true 50) = 3%N /\ p_calls (plan_doc exS exD false 50) = 3%N /\
  List.length (m_pairs (final_state exS exD true 50)) = 2.
Proof. repeat split; vm_compute; reflexivity. Qed.
