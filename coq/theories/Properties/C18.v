(* Property C18 -- error locations point at the offending position.
   This file holds statements only; proofs live in Proofs/. *)
From Coq Require Import List NArith ZArith.
From GQL Require Import Base.Bytes Lang.Location Proofs.LocationProofs.
From GQL Require Import Exec.Syntax Exec.Exec Proofs.ExecInv.
Import ListNotations.
Open Scope N_scope.

(* The location arithmetic as written in the code (regexp match list + scan)
   is the single-pass line/column function, for every body and position. *)
Theorem C18_location : forall s position, get_location s position = spec_location s position.
Proof. exact location_model_is_spec. Qed.
Print Assumptions C18_location.

(* LF, CRLF and bare CR each end exactly one line. *)
Theorem C18_lf : forall p r k,
  (forall c, In c p -> is_term c = false) ->
  (forall j c, nth_error r j = Some c -> N.of_nat j < k -> is_term c = false) ->
  spec_location (p ++ 10 :: r) (nlen p + 1 + k) = (2, (Z.of_N k + 1)%Z).
Proof. exact spec_after_lf. Qed.
Print Assumptions C18_lf.

Theorem C18_crlf : forall p r k,
  (forall c, In c p -> is_term c = false) ->
  (forall j c, nth_error r j = Some c -> N.of_nat j < k -> is_term c = false) ->
  spec_location (p ++ 13 :: 10 :: r) (nlen p + 2 + k) = (2, (Z.of_N k + 1)%Z).
Proof. exact spec_after_crlf. Qed.
Print Assumptions C18_crlf.

Theorem C18_cr : forall p d r k,
  (forall c, In c p -> is_term c = false) ->
  is_term d = false ->
  (forall j c, nth_error (d :: r) j = Some c -> N.of_nat j < k -> is_term c = false) ->
  spec_location (p ++ 13 :: d :: r) (nlen p + 1 + k) = (2, (Z.of_N k + 1)%Z).
Proof. exact spec_after_cr. Qed.
Print Assumptions C18_cr.

(* Field errors: every error recorded (or raised) while the field with response key k of an object
   at path p executes -- whatever its resolvers return, at every depth, inside lists and under
   aliases -- carries a path that extends p ++ [k] by the keys and indices leading to the failure. *)
Theorem C18_error_paths_under_field : forall fuel E obj src k occs p s,
  match exec_field fuel (complete fuel E) (dethunk fuel E) E obj src k occs p s with
  | XOk _ s' => exists es, st_errs s' = st_errs s ++ es /\
                            Forall (fun e => prefix (p ++ [PKey k]) (e_path e)) es
  | XRaise e s' => (exists es, st_errs s' = st_errs s ++ es /\
                               Forall (fun e => prefix (p ++ [PKey k]) (e_path e)) es)
                   /\ prefix (p ++ [PKey k]) (e_path e)
  | XFuel => True
  end.
Proof.
  intros fuel E obj src k occs p s.
  destruct (exec_inv fuel) as [IHc [_ [_ IHd]]].
  pose proof (proj1 (exec_field_inv fuel (complete fuel E) (dethunk fuel E) E obj src k occs p s
                (fun t nodes occs0 fpath p0 v s0 => IHc E t nodes occs0 fpath p0 v s0)
                (fun q s0 p0 H0 => IHd E q s0 p0 H0))) as H.
  destruct (exec_field fuel _ _ E obj src k occs p s) as [y s'|e s'|]; cbn in H; auto.
  - destruct H as [[_ He] _]. exact He.
  - destruct H as [[_ He] Hp]. split; assumption.
Qed.
Print Assumptions C18_error_paths_under_field.

Example C18_nonvacuous :
  get_location [123;32;97;32;125;13;10;32;32;37] 9 = (2, 3%Z) /\
  loc_ok [123;32;97;32;125;13;10;32;32;37] 9 2 3 = true.
Proof. split; reflexivity. Qed.

(* Field errors, whole request: every path attached to an error of a completed request that
   returned data addresses a null of that data -- walking the data along the path, a null is met
   at the path's end or at one of its prefixes (the nearest nullable ancestor the failure
   propagated to).  [paths_ok] is the executable predicate the runner evaluates on the
   implementation's response (Run/ExecRun.v). *)
From GQL Require Import Exec.Request Run.ExecRun Proofs.ExecPaths.
Theorem C18_error_paths_address_null : forall fuel S D opn inputs root or tor d s,
  request fuel S D opn inputs root or tor = RDone (Some d) s -> paths_ok (Some d) (st_errs s) = true.
Proof. exact request_error_paths_null. Qed.
Print Assumptions C18_error_paths_address_null.

(* ---------------------------------------------------------------------------------------------
   Syntax errors: "the location falls within the first token (or malformed lexeme) at which the
   text stops being the beginning of any valid document".

   Model: SynErr/LexErr.v (where lexer.go reports a lexical error), SynErr/ParseErr.v (where
   parser.go's expect / expectKeyWord / unexpected report: the start of the token the parser is
   looking at; lazy lexing decides between the two), on top of the C03 models of lexer and parser
   (Syntax/Lexer.v, Syntax/Parser.v), whose definitions are untouched.  [parse_err src] is the byte
   offset parser.Parse reports; [parse_err_ext] adds the extent of the offending token / lexeme.
   --------------------------------------------------------------------------------------------- *)
From GQL Require Import Syntax.Lexer Syntax.Parser SynErr.LexErr SynErr.ParseErr SynErr.Viable.
From GQL Require Import Proofs.SynErrWB Proofs.SynErrErase Proofs.SynErrMain Proofs.SynErrViable.

(* The position model rejects exactly what the parser model (C03: sound and complete for the
   grammar) rejects; it reports a position for every rejected source and for no other. *)
Theorem C18_syntax_error_iff : forall src, parse src = Err <-> exists off, parse_err src = Some off.
Proof. exact parse_err_iff. Qed.
Print Assumptions C18_syntax_error_iff.

Theorem C18_syntax_error_none_iff : forall src, parse_err src = None <-> exists d, parse src = Ok d.
Proof. exact parse_err_none_iff. Qed.
Print Assumptions C18_syntax_error_none_iff.

(* Function by function, for every fuel and parser state, the recogniser that carries positions
   succeeds / fails / runs out of fuel exactly when the parser model does (here: whole documents). *)
Theorem C18_recogniser_is_parser : forall fuel ts,
  strip_doc (parse_document fuel ts) = eraseE (parse_documentE fuel ts).
Proof. exact Er_parse_document. Qed.
Print Assumptions C18_recogniser_is_parser.

(* (a) The reported offset is the start of a token of the input (possibly its EOF token, i.e.
   the end of the text after ignored characters), or -- when the lexer reports -- the lexer's
   position, with the malformed lexeme's first byte as the lower end of the extent. *)
Theorem C18_syntax_error_at_token_start : forall src off lo hi, parse_err_ext src = Some (off, lo, hi) ->
  (exists u t r, tokens_of src = u ++ t :: r /\ off = tstart t /\ lo = tstart t /\ hi = N.max (tstart t) (tend t - 1)) \/
  (exists s, snd (lexE src) = LBad s off /\ lo = s /\ hi = off).
Proof.
  intros src off lo hi H. destruct (parse_err_at_token _ _ _ _ H) as [(u & t & r & E & X)|R]; [left|right; exact R].
  exists u, t, r. unfold tok_ext in X. inversion X; subst. auto.
Qed.
Print Assumptions C18_syntax_error_at_token_start.

(* (b) "... at which the text stops being the beginning of any valid document", second half:
   when the parser reports token t after the tokens u, no source whose token stream begins with
   u ++ [t] parses -- the verdict depends on the tokens up to and including the reported one only
   (one-token lookahead, proved for every production) -- and the tokens u never make the parser
   stop, whatever follows them: every one of them was accepted by a production.  When the lexer
   reports, the parser had accepted every token in front of the malformed lexeme in this sense. *)
Theorem C18_syntax_error_no_extension : forall src off lo hi, parse_err_ext src = Some (off, lo, hi) ->
  (exists u t r, tokens_of src = u ++ t :: r /\ (off, lo, hi) = tok_ext t /\
     (forall src' rest' mb', lex src' = Ok (u ++ t :: rest', mb') -> parse src' = Err) /\
     (forall rest' r', parse_tokensE (u ++ rest') = ErrE r' -> (length r' <= length rest')%nat)) \/
  (exists s, snd (lexE src) = LBad s off /\ lo = s /\ hi = off /\
     (forall rest' r', parse_tokensE (tokens_of src ++ rest') = ErrE r' -> (length r' <= length rest')%nat)).
Proof. exact parse_err_position. Qed.
Print Assumptions C18_syntax_error_no_extension.

(* The same on token lists: a failure at token t is a failure at t whatever follows t. *)
Theorem C18_syntax_error_prefix_consumed : forall u t rest, parse_tokensE (u ++ t :: rest) = ErrE (t :: rest) ->
  (forall rest', parse_tokensE (u ++ t :: rest') = ErrE (t :: rest') /\ parse_tokens (u ++ t :: rest') = Err) /\
  (forall rest' r, parse_tokensE (u ++ rest') = ErrE r -> (length r <= length rest')%nat).
Proof.
  intros u t rest H. split.
  - intro rest'. pose proof (parse_tokensE_local _ _ _ H rest') as X. split; [exact X|].
    apply parse_tokens_err_iff. eauto.
  - apply (no_failure_inside u (t :: rest)). intros r0 Hr0. rewrite H in Hr0. inversion Hr0; subst. apply le_n.
Qed.
Print Assumptions C18_syntax_error_prefix_consumed.

(* Both halves, whole grammar, all inputs -- the clause itself.
   On token lists: when the recogniser of documents stops at token t having consumed the tokens u,
   then (a) u is the beginning of a derivable document (Syntax/Grammar.v Derives; a completion is
   constructed in the proof, production by production: Proofs/SynErrLang.v, SynErrViableAll.v,
   SynErrViableSDL.v) and (b) no derivable document begins with u followed by t. *)
From GQL Require Import Syntax.Grammar Proofs.SynErrFinal.
Theorem C18_token_first_nonviable : forall u t rest, parse_tokensE (u ++ t :: rest) = ErrE (t :: rest) ->
  (exists cont d, Derives (u ++ cont) d) /\ (forall q d, ~ Derives (u ++ t :: q) d).
Proof. exact token_first_nonviable. Qed.
Print Assumptions C18_token_first_nonviable.

(* On sources: for every source the model rejects, the tokens in front of the reported position
   are the beginning of a derivable document (also when the lexer reports: every token in front
   of the malformed lexeme); and when the parser reports, at the start of token t, no source
   whose token stream begins with those tokens followed by t lexes to a derivable document.
   [parse_report] is [parse_err_ext] together with the tokens in front (C18_report_is_parse_err). *)
Theorem C18_syntax_error_first_nonviable : forall src rp, parse_report src = Some rp ->
  (exists cont d, Derives (r_before rp ++ cont) d) /\
  (r_lexical rp = false ->
   exists t r, tokens_of src = r_before rp ++ t :: r /\ r_off rp = tstart t /\ parse_err src = Some (tstart t) /\
     forall src' rest' mb' d, lex src' = Ok (r_before rp ++ t :: rest', mb') -> ~ Derives (r_before rp ++ t :: rest') d).
Proof. exact report_first_nonviable. Qed.
Print Assumptions C18_syntax_error_first_nonviable.

Theorem C18_report_is_parse_err : forall src rp, parse_report src = Some rp ->
  parse_err_ext src = Some (r_off rp, r_lo rp, r_hi rp) /\
  (if r_lexical rp
   then r_before rp = tokens_of src /\ exists s, snd (lexE src) = LBad s (r_off rp)
   else exists t r, tokens_of src = r_before rp ++ t :: r /\ (r_off rp, r_lo rp, r_hi rp) = tok_ext t).
Proof. exact parse_report_spec. Qed.
Print Assumptions C18_report_is_parse_err.

(* Both halves, for all inputs, on the value and type sub-grammars (Syntax/Grammar.v DValue, DType):
   when the recogniser of Value[Const] / Type stops at token t having consumed u, then u is the
   beginning of a derivable value / type (a completion is constructed in the proof) and nothing
   derivable begins with u followed by t. *)
From GQL Require Import Proofs.SynErrComplete.
Theorem C18_value_viable_prefix_partial : forall fuel c u t rest,
  parse_valueE fuel c (u ++ t :: rest) = ErrE (t :: rest) ->
  (exists cont v, DValue c (u ++ cont) v) /\ (forall q v, ~ DValue c (u ++ t :: q) v).
Proof. exact value_viable_prefix. Qed.
Print Assumptions C18_value_viable_prefix_partial.

Theorem C18_type_viable_prefix_partial : forall fuel u t rest,
  parse_typeE fuel (u ++ t :: rest) = ErrE (t :: rest) ->
  (exists cont ty, DType (u ++ cont) ty) /\ (forall q ty, ~ DType (u ++ t :: q) ty).
Proof. exact type_viable_prefix. Qed.
Print Assumptions C18_type_viable_prefix_partial.

(* The first half for the executable definitions: whatever the recogniser of an operation, a
   fragment definition or a selection set (with fields, aliases, arguments, directives, fragment
   spreads, inline fragments, variable definitions, nested to any depth) had consumed when it
   stopped at token t begins a derivable one -- the completion is constructed in the proof
   (Proofs/SynErrLang.v: languages of the recogniser's combinators; Proofs/SynErrViableAll.v).
   (Subsumed at document level by C18_token_first_nonviable; kept as the statement about the
   relations DOperation / DFragment / DSelSet themselves.) *)
From GQL Require Import Proofs.SynErrLang Proofs.SynErrViableAll.
Theorem C18_executable_viable_prefix_partial : forall f,
  (forall u t rest, parse_operationE f (u ++ t :: rest) = ErrE (t :: rest) -> exists cont o, DOperation (u ++ cont) o) /\
  (forall u t rest, parse_fragment_definitionE f (u ++ t :: rest) = ErrE (t :: rest) -> exists cont d, DFragment (u ++ cont) d) /\
  (forall u t rest, parse_selsetE f (u ++ t :: rest) = ErrE (t :: rest) -> exists cont ss, DSelSet (u ++ cont) ss).
Proof. exact executable_viable_prefix. Qed.
Print Assumptions C18_executable_viable_prefix_partial.

From Coq Require Import String.
(* non-vacuity: a parser report, a lexer report, a required non-empty list, and a witness *)
Example C18_syntax_nonvacuous :
  parse_err_ext (of_string "{ a(x: 1) }}"%string) = Some (11, 11, 11) /\
  parse_err_ext (of_string "{ a(x: ""ab"%string) = Some (10, 7, 10) /\
  parse_err_ext (of_string "{ }"%string) = Some (2, 2, 2) /\
  match parse_report (of_string "query Q("%string) with
  | Some rp => andb (negb (r_lexical rp)) (match viable_witness (r_before rp) with Some _ => true | None => false end)
  | None => false
  end = true.
Proof. split; [|split; [|split]]; vm_compute; reflexivity. Qed.
