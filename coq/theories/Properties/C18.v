(* Property C18 -- error locations point at the offending position.
   This file holds statements only; proofs live in Proofs/. *)
From Coq Require Import List NArith ZArith.
From GQL Require Import Base.Bytes Lang.Location Proofs.LocationProofs.
From GQL Require Import Exec.Syntax Exec.Exec Proofs.ExecInv.
Import ListNotations.
Open Scope N_scope.

(* The location arithmetic as written in the code (regexp match list + scan)
   is the single-pass line/column function, for every body and position. *)
Theorem C18_location : forall s position, get_location s position = spec_location s position.
Proof. exact location_model_is_spec. Qed.
Print Assumptions C18_location.

(* LF, CRLF and bare CR each end exactly one line. *)
Theorem C18_lf : forall p r k,
  (forall c, In c p -> is_term c = false) ->
  (forall j c, nth_error r j = Some c -> N.of_nat j < k -> is_term c = false) ->
  spec_location (p ++ 10 :: r) (nlen p + 1 + k) = (2, (Z.of_N k + 1)%Z).
Proof. exact spec_after_lf. Qed.
Print Assumptions C18_lf.

Theorem C18_crlf : forall p r k,
  (forall c, In c p -> is_term c = false) ->
  (forall j c, nth_error r j = Some c -> N.of_nat j < k -> is_term c = false) ->
  spec_location (p ++ 13 :: 10 :: r) (nlen p + 2 + k) = (2, (Z.of_N k + 1)%Z).
Proof. exact spec_after_crlf. Qed.
Print Assumptions C18_crlf.

Theorem C18_cr : forall p d r k,
  (forall c, In c p -> is_term c = false) ->
  is_term d = false ->
  (forall j c, nth_error (d :: r) j = Some c -> N.of_nat j < k -> is_term c = false) ->
  spec_location (p ++ 13 :: d :: r) (nlen p + 1 + k) = (2, (Z.of_N k + 1)%Z).
Proof. exact spec_after_cr. Qed.
Print Assumptions C18_cr.

(* Field errors: every error recorded (or raised) while the field with response key k of an object
   at path p executes -- whatever its resolvers return, at every depth, inside lists and under
   aliases -- carries a path that extends p ++ [k] by the keys and indices leading to the failure. *)
Theorem C18_error_paths_under_field : forall fuel E obj src k occs p s,
  match exec_field fuel (complete fuel E) (dethunk fuel E) E obj src k occs p s with
  | XOk _ s' => exists es, st_errs s' = st_errs s ++ es /\
                            Forall (fun e => prefix (p ++ [PKey k]) (e_path e)) es
  | XRaise e s' => (exists es, st_errs s' = st_errs s ++ es /\
                               Forall (fun e => prefix (p ++ [PKey k]) (e_path e)) es)
                   /\ prefix (p ++ [PKey k]) (e_path e)
  | XFuel => True
  end.
Proof.
  intros fuel E obj src k occs p s.
  destruct (exec_inv fuel) as [IHc [_ [_ IHd]]].
  pose proof (proj1 (exec_field_inv fuel (complete fuel E) (dethunk fuel E) E obj src k occs p s
                (fun t nodes occs0 fpath p0 v s0 => IHc E t nodes occs0 fpath p0 v s0)
                (fun q s0 p0 H0 => IHd E q s0 p0 H0))) as H.
  destruct (exec_field fuel _ _ E obj src k occs p s) as [y s'|e s'|]; cbn in H; auto.
  - destruct H as [[_ He] _]. exact He.
  - destruct H as [[_ He] Hp]. split; assumption.
Qed.
Print Assumptions C18_error_paths_under_field.

Example C18_nonvacuous :
  get_location [123;32;97;32;125;13;10;32;32;37] 9 = (2, 3%Z) /\
  loc_ok [123;32;97;32;125;13;10;32;32;37] 9 2 3 = true.
Proof. split; reflexivity. Qed.

(* Field errors, whole request: every path attached to an error of a completed request that
   returned data addresses a null of that data -- walking the data along the path, a null is met
   at the path's end or at one of its prefixes (the nearest nullable ancestor the failure
   propagated to).  [paths_ok] is the executable predicate the runner evaluates on the
   implementation's response (Run/ExecRun.v). *)
From GQL Require Import Exec.Request Run.ExecRun Proofs.ExecPaths.
Theorem C18_error_paths_address_null : forall fuel S D opn inputs root or tor d s,
  request fuel S D opn inputs root or tor = RDone (Some d) s -> paths_ok (Some d) (st_errs s) = true.
Proof. exact request_error_paths_null. Qed.
Print Assumptions C18_error_paths_address_null.
