(* Property C18 -- error locations point at the offending position.
   This file holds statements only; proofs live in Proofs/. *)
From Coq Require Import List NArith ZArith.
From GQL Require Import Base.Bytes Lang.Location Proofs.LocationProofs.
Import ListNotations.
Open Scope N_scope.

(* The location arithmetic as written in the code (regexp match list + scan)
   is the single-pass line/column function, for every body and position. *)
Theorem C18_location : forall s position, get_location s position = spec_location s position.
Proof. exact location_model_is_spec. Qed.
Print Assumptions C18_location.

(* LF, CRLF and bare CR each end exactly one line. *)
Theorem C18_lf : forall p r k,
  (forall c, In c p -> is_term c = false) ->
  (forall j c, nth_error r j = Some c -> N.of_nat j < k -> is_term c = false) ->
  spec_location (p ++ 10 :: r) (nlen p + 1 + k) = (2, (Z.of_N k + 1)%Z).
Proof. exact spec_after_lf. Qed.
Print Assumptions C18_lf.

Theorem C18_crlf : forall p r k,
  (forall c, In c p -> is_term c = false) ->
  (forall j c, nth_error r j = Some c -> N.of_nat j < k -> is_term c = false) ->
  spec_location (p ++ 13 :: 10 :: r) (nlen p + 2 + k) = (2, (Z.of_N k + 1)%Z).
Proof. exact spec_after_crlf. Qed.
Print Assumptions C18_crlf.

Theorem C18_cr : forall p d r k,
  (forall c, In c p -> is_term c = false) ->
  is_term d = false ->
  (forall j c, nth_error (d :: r) j = Some c -> N.of_nat j < k -> is_term c = false) ->
  spec_location (p ++ 13 :: d :: r) (nlen p + 1 + k) = (2, (Z.of_N k + 1)%Z).
Proof. exact spec_after_cr. Qed.
Print Assumptions C18_cr.

Example C18_nonvacuous :
  get_location [123;32;97;32;125;13;10;32;32;37] 9 = (2, 3%Z) /\
  loc_ok [123;32;97;32;125;13;10;32;32;37] 9 2 3 = true.
Proof. split; reflexivity. Qed.
