(* The validator's model: the 24 rules in the order of SpecifiedRules. *)
From Coq Require Import List NArith ZArith Bool String.
From GQL Require Import Exec.Syntax Validate.VSyntax Validate.Overlap Validate.Rules.
Import ListNotations.
Open Scope N_scope.

Definition run_rule_f (fuel : nat) (r : N) (S : schema) (W : wdoc) : list N :=
  match r with
  | 0 => rule_arguments_of_correct_type S W
  | 1 => rule_default_values_of_correct_type S W
  | 2 => rule_fields_on_correct_type S W
  | 3 => rule_fragments_on_composite S W
  | 4 => rule_known_argument_names S W
  | 5 => rule_known_directives S W
  | 6 => rule_known_fragment_names S W
  | 7 => rule_known_type_names S W
  | 8 => rule_lone_anonymous W
  | 9 => rule_no_fragment_cycles W
  | 10 => rule_no_undefined_variables S W
  | 11 => rule_no_unused_fragments W
  | 12 => rule_no_unused_variables S W
  | 13 => run_overlap S (erase W) true fuel
  | 14 => rule_possible_fragment_spreads S W
  | 15 => rule_provided_non_null_arguments S W
  | 16 => rule_scalar_leafs S W
  | 17 => rule_unique_argument_names S W
  | 18 => rule_unique_fragment_names W
  | 19 => rule_unique_input_field_names S W
  | 20 => rule_unique_operation_names W
  | 21 => rule_unique_variable_names W
  | 22 => rule_variables_are_input_types S W
  | 23 => rule_variables_in_allowed_position S W
  | _ => []
  end.

Definition all_rules : list N :=
  [0;1;2;3;4;5;6;7;8;9;10;11;12;13;14;15;16;17;18;19;20;21;22;23].

(* ValidateDocument with the default rule set: the first nodes of all reported errors *)
Definition validate_model (fuel : nat) (S : schema) (W : wdoc) : list N :=
  flat_map (fun r => run_rule_f fuel r S W) all_rules.
