(* The 23 simple validation rules of rules.go, each as a function from schema and
   document to the list of first nodes of the errors it reports, written against a
   model of the TypeInfo walk (type_info.go) and of the ValidationContext helpers
   (validator.go).  No proofs here. *)
From Coq Require Import List ZArith NArith String Bool.
From GQL Require Import Exec.Syntax Validate.VSyntax Validate.Overlap.
Import ListNotations.
Open Scope string_scope.
Open Scope list_scope.

(* ---- directive definitions (SpecifiedDirectives) ---- *)
Inductive dloc := LQuery | LMutation | LSubscription | LField | LFragSpread | LInline | LFragDef | LOther.
Definition dloc_eqb (a b : dloc) : bool :=
  match a, b with
  | LQuery, LQuery | LMutation, LMutation | LSubscription, LSubscription | LField, LField
  | LFragSpread, LFragSpread | LInline, LInline | LFragDef, LFragDef | LOther, LOther => true
  | _, _ => false
  end.
Record ddef := { dd_name : name; dd_args : list argdef; dd_locs : list dloc }.

Definition if_arg : argdef := {| a_name := "if"; a_type := TNonNull (TNamed "Boolean"); a_default := None |}.
Definition specified_directives : list ddef :=
  [ {| dd_name := "include"; dd_args := [if_arg]; dd_locs := [LField; LFragSpread; LInline] |};
    {| dd_name := "skip"; dd_args := [if_arg]; dd_locs := [LField; LFragSpread; LInline] |};
    {| dd_name := "deprecated";
       dd_args := [{| a_name := "reason"; a_type := TNamed "String";
                      a_default := Some (JStr "No longer supported") |}];
       dd_locs := [LOther] |} ].

Fixpoint find_ddef (n : name) (l : list ddef) : option ddef :=
  match l with
  | [] => None
  | d :: r => if String.eqb n (dd_name d) then Some d else find_ddef n r
  end.

Fixpoint find_argdef (n : name) (l : list argdef) : option argdef :=
  match l with
  | [] => None
  | a :: r => if String.eqb n (a_name a) then Some a else find_argdef n r
  end.

Definition typename_def : fielddef :=
  {| f_name := "__typename"; f_args := []; f_type := TNonNull (TNamed "String") |}.

Definition opt_id (o : option (N * name)) : option N := option_map fst o.
Definition nonempty {A} (l : list A) : bool := match l with [] => false | _ => true end.

Fixpoint dup_firsts (seen : list (name * N)) (l : list (name * N)) : list N :=
  (* for every element whose name was seen before: the id of the first occurrence *)
  match l with
  | [] => []
  | (n, id) :: r =>
    match alookup n seen with
    | Some first => first :: dup_firsts seen r
    | None => dup_firsts (seen ++ [(n, id)]) r
    end
  end.

Section Rules.
Variable S : schema.
Variable W : wdoc.

Definition fragw (g : name) : option wfrag :=
  (* ValidationContext.Fragment: the last definition of a name wins *)
  fold_left (fun acc f => if String.eqb g (wf_name f) then Some f else acc) (w_frags W) None.

(* ---- TypeInfo ---- *)
Definition ti_fdef (pt : ptype) (nm : name) : option fielddef :=
  match pt with
  | None => None
  | Some t =>
    if String.eqb nm "__typename"
    then (if is_composite S t then Some typename_def else None)
    else match lookup_type S t with
         | Some (TObject fs _) | Some (TInterface fs) => find_field nm fs
         | _ => None
         end
  end.

Definition type_from_ast (t : tyref) : option tyref :=
  if known S (named_of t) then Some t else None.

Definition nullable (t : tyref) : tyref := match t with TNonNull t' => t' | _ => t end.

Definition input_field_ty (t : option tyref) (n : name) : option tyref :=
  match t with
  | None => None
  | Some t' =>
    match lookup_type S (named_of t') with
    | Some (TInputObject fs) => option_map a_type (find_argdef n fs)
    | _ => None
    end
  end.

Inductive owner :=
| OField (fd : option fielddef) (pt : ptype)
| ODir (dd : option ddef).

Inductive item :=
| IField (pt : ptype) (fd : option fielddef) (id : N) (nm : name) (args : list warg) (ssid : N) (hassub : bool)
| ISpread (pt : ptype) (id nid : N) (nm : name)
| IInline (pt : ptype) (ty : ptype) (id : N) (tc : option (N * name))
| IDir (loc : dloc) (dd : option ddef) (d : wdir)
| IArg (ow : owner) (ad : option argdef) (a : warg)
| IUse (id : N) (nm : name) (ty : option tyref).

Fixpoint walk_value (ity : option tyref) (v : wvalue) : list item :=
  match v with
  | WVar id n => [IUse id n ity]
  | WList _ l =>
    let ety := match option_map nullable ity with Some (TList t) => Some t | _ => None end in
    flat_map (walk_value ety) l
  | WObj _ l => flat_map (fun p => walk_value (input_field_ty ity (fst (snd p))) (snd (snd p))) l
  | _ => []
  end.

Definition walk_args (ow : owner) (defs : list argdef) (args : list warg) : list item :=
  flat_map (fun a =>
    let ad := find_argdef (wa_name a) defs in
    IArg ow ad a :: walk_value (option_map a_type ad) (wa_val a)) args.

Definition walk_dirs (loc : dloc) (cur_fd : option fielddef) (ds : list wdir) : list item :=
  flat_map (fun d =>
    let dd := find_ddef (wd_name d) specified_directives in
    let defs := match dd with
                | Some x => dd_args x
                | None => match cur_fd with Some fd => f_args fd | None => [] end
                end in
    IDir loc dd d :: walk_args (ODir dd) defs (wd_args d)) ds.

Definition named_ty (t : option tyref) : ptype := option_map named_of t.

Fixpoint walk_sel (pt : ptype) (cur_ty : option tyref) (cur_fd : option fielddef) (s : wsel) : list item :=
  match s with
  | WField id al nm args dirs ssid sub =>
    let fd := ti_fdef pt nm in
    let ty := option_map f_type fd in
    IField pt fd id nm args ssid (nonempty sub)
      :: walk_args (OField fd pt) (match fd with Some d => f_args d | None => [] end) args
      ++ walk_dirs LField fd dirs
      ++ (let pt' := comp S (named_ty ty) in
          (fix go (l : list wsel) : list item :=
             match l with [] => [] | x :: r => walk_sel pt' ty fd x ++ go r end) sub)
  | WSpread id nid nm dirs => ISpread pt id nid nm :: walk_dirs LFragSpread cur_fd dirs
  | WInline id tc dirs ssid sub =>
    let ty := match tc with
              | Some (_, c) => option_map TNamed (resolve S c)
              | None => option_map (fun t => TNamed (named_of t)) cur_ty
              end in
    IInline pt (named_ty ty) id tc
      :: walk_dirs LInline cur_fd dirs
      ++ (let pt' := comp S (named_ty ty) in
          (fix go (l : list wsel) : list item :=
             match l with [] => [] | x :: r => walk_sel pt' ty cur_fd x ++ go r end) sub)
  end.

Definition walk_sels (pt : ptype) (ty : option tyref) (fd : option fielddef) (ss : list wsel) : list item :=
  flat_map (walk_sel pt ty fd) ss.

Definition root_ty (k : opkind) : option tyref :=
  match k with
  | OpQuery => Some (TNamed (s_query S))
  | OpMutation => option_map TNamed (s_mutation S)
  | OpSubscription => None
  end.

Definition op_loc (k : opkind) : dloc :=
  match k with OpQuery => LQuery | OpMutation => LMutation | OpSubscription => LSubscription end.

Definition op_items (o : wop) : list item :=
  walk_dirs (op_loc (wo_kind o)) None (wo_dirs o) ++
  walk_sels (comp S (named_ty (root_ty (wo_kind o)))) (root_ty (wo_kind o)) None (wo_sel o).

Definition frag_ty (f : wfrag) : option tyref := option_map TNamed (resolve S (wf_cond f)).

Definition frag_items (f : wfrag) : list item :=
  walk_dirs LFragDef None (wf_dirs f) ++
  walk_sels (comp S (named_ty (frag_ty f))) (frag_ty f) None (wf_sel f).

Definition doc_items : list item :=
  flat_map op_items (w_ops W) ++ flat_map frag_items (w_frags W).

(* ---- ValidationContext helpers ---- *)
(* FragmentSpreads(set): spreads of the set itself in order, then those of the nested
   sets, last pushed first *)
Fixpoint ctx_spreads_sel (s : wsel) : list (N * (N * name)) :=
  match s with
  | WField _ _ _ _ _ _ sub =>
    let here := flat_map (fun x => match x with WSpread id nid g _ => [(id, (nid, g))] | _ => [] end) sub in
    here ++ List.concat (rev ((fix go (l : list wsel) : list (list (N * (N * name))) :=
                            match l with [] => [] | x :: r => ctx_spreads_sel x :: go r end) sub))
  | WSpread _ _ _ _ => []
  | WInline _ _ _ _ sub =>
    let here := flat_map (fun x => match x with WSpread id nid g _ => [(id, (nid, g))] | _ => [] end) sub in
    here ++ List.concat (rev ((fix go (l : list wsel) : list (list (N * (N * name))) :=
                            match l with [] => [] | x :: r => ctx_spreads_sel x :: go r end) sub))
  end.
Definition ctx_spreads (ss : list wsel) : list (N * (N * name)) :=
  flat_map (fun x => match x with WSpread id nid g _ => [(id, (nid, g))] | _ => [] end) ss ++
  List.concat (rev (map ctx_spreads_sel ss)).

Definition spread_names (ss : list wsel) : list name := map (fun p => snd (snd p)) (ctx_spreads ss).

Definition wfrag_spreads (g : name) : list name :=
  match fragw g with Some f => spread_names (wf_sel f) | None => [] end.

Definition close_step (seen : list name) : list name :=
  dedup (seen ++ flat_map wfrag_spreads seen) [].

(* names of the fragments RecursivelyReferencedFragments(op) returns (defined ones only) *)
Definition referenced (ss : list wsel) : list name :=
  filter (fun g => match fragw g with Some _ => true | None => false end)
         (iter (Datatypes.S (List.length (w_frags W))) close_step (dedup (spread_names ss) [])).

Definition uses_of (its : list item) : list (N * (name * option tyref)) :=
  flat_map (fun i => match i with IUse id n t => [(id, (n, t))] | _ => [] end) its.

(* RecursiveVariableUsages(op) *)
Definition rec_uses (o : wop) : list (N * (name * option tyref)) :=
  uses_of (op_items o) ++
  flat_map (fun g => match fragw g with Some f => uses_of (frag_items f) | None => [] end)
           (referenced (wo_sel o)).

(* ---- literal validity: isValidLiteralValue ---- *)
Definition scalar_lit (k : scalar_kind) (v : wvalue) : bool :=
  match k, v with
  | SInt, WInt _ z => (Z.leb (-2147483648) z && Z.leb z 2147483647)%Z
  | SFloat, WInt _ _ | SFloat, WFloat _ _ _ => true
  | SString, WStr _ _ => true
  | SBoolean, WBool _ _ => true
  | SID, WInt _ _ | SID, WStr _ _ => true
  | SOdd, WInt _ z => Z.odd z
  | _, _ => false
  end.

Definition is_var (v : wvalue) : bool := match v with WVar _ _ => true | _ => false end.

Definition find_ofield (n : name) (l : list (N * (name * wvalue))) : option wvalue :=
  (* fieldASTMap: the last field of a name wins *)
  fold_left (fun acc p => if String.eqb n (fst (snd p)) then Some (snd (snd p)) else acc) l None.

Fixpoint vlit (v : wvalue) (t : tyref) {struct v} : bool :=
  if is_var v then true else
  (fix onty (t : tyref) : bool :=
     match t with
     | TNonNull t' => onty t'
     | TList it =>
       match v with
       | WList _ l => forallb (fun e => vlit e it) l
       | _ => onty it
       end
     | TNamed n =>
       match lookup_type S n with
       | Some (TInputObject fs) =>
         match v with
         | WObj _ l =>
           forallb (fun p => match find_argdef (fst (snd p)) fs with Some _ => true | None => false end) l &&
           forallb (fun fd =>
                      (fix pick (l : list (N * (name * wvalue))) (acc : option bool) : bool :=
                         match l with
                         | [] => match acc with Some b => b | None => negb (is_nonnull (a_type fd)) end
                         | p :: r =>
                           pick r (if String.eqb (a_name fd) (fst (snd p))
                                   then Some (vlit (snd (snd p)) (a_type fd)) else acc)
                         end) l None) fs
         | _ => false
         end
       | Some (TScalar k) => scalar_lit k v
       | Some (TEnum vals) => match v with WEnum _ e => amem e vals | _ => false end
       | _ => true
       end
     end) t.

(* ---- isTypeSubTypeOf, doTypesOverlap ---- *)
Definition is_abstract (n : name) : bool :=
  match lookup_type S n with Some (TInterface _) | Some (TUnion _) => true | _ => false end.

Fixpoint subtype (a b : tyref) {struct a} : bool :=
  match b with
  | TNonNull b' => match a with TNonNull a' => subtype a' b' | _ => false end
  | _ =>
    match a with
    | TNonNull a' => subtype a' b
    | TList a' => match b with TList b' => subtype a' b' | _ => false end
    | TNamed x =>
      match b with
      | TNamed y => String.eqb x y || (is_abstract y && is_object S x && possible_type S y x)
      | _ => false
      end
    end
  end.

Definition object_names : list name :=
  flat_map (fun p => match snd p with TObject _ _ => [fst p] | _ => [] end) (s_types S).

Definition types_overlap (t1 t2 : name) : bool :=
  if String.eqb t1 t2 then true
  else if is_object S t1 then
    (if is_object S t2 then false
     else if is_abstract t2 then possible_type S t2 t1 else false)
  else if is_abstract t1 then
    (if is_object S t2 then possible_type S t1 t2
     else if is_abstract t2 then
       existsb (fun o => possible_type S t1 o && possible_type S t2 o) object_names
     else false)
  else false.

(* ================= the rules ================= *)

(* 20 UniqueOperationNames: the anonymous operation is entered under the name "" *)
Definition op_key (o : wop) : name * N :=
  match wo_name o with Some (nid, n) => (n, nid) | None => ("", wo_id o) end.
Definition rule_unique_operation_names : list N := dup_firsts [] (map op_key (w_ops W)).

(* 8 LoneAnonymousOperation *)
Definition rule_lone_anonymous : list N :=
  if Nat.ltb 1 (List.length (w_ops W))
  then flat_map (fun o => match wo_name o with None => [wo_id o] | Some _ => [] end) (w_ops W)
  else [].

(* 18 UniqueFragmentNames *)
Definition rule_unique_fragment_names : list N :=
  dup_firsts [] (map (fun f => (wf_name f, wf_nid f)) (w_frags W)).

(* 6 KnownFragmentNames *)
Definition rule_known_fragment_names : list N :=
  flat_map (fun i => match i with
                     | ISpread _ _ nid g => match fragw g with Some _ => [] | None => [nid] end
                     | _ => []
                     end) doc_items.

(* the closure computed by [referenced] is closed under "spreads of" (no fuel shortage):
   RecursivelyReferencedFragments is a terminating worklist in the code; the model iterates
   |fragments|+1 times and this test makes a shortage observable *)
Definition closure_of (ss : list wsel) : list name :=
  iter (Datatypes.S (List.length (w_frags W))) close_step (dedup (spread_names ss) []).
Definition closure_stable (ss : list wsel) : bool :=
  forallb (fun x => nmem x (closure_of ss)) (flat_map wfrag_spreads (closure_of ss)).
Definition closures_stable : bool := forallb (fun o => closure_stable (wo_sel o)) (w_ops W).

(* 11 NoUnusedFragments *)
Definition used_fragments : list name := flat_map (fun o => referenced (wo_sel o)) (w_ops W).
Definition rule_no_unused_fragments : list N :=
  flat_map (fun f => if nmem (wf_name f) used_fragments then [] else [wf_id f]) (w_frags W).

(* 9 NoFragmentCycles: the DFS with visitedFrags / spreadPath / spreadPathIndexByName *)
Record cyc := { cy_visited : list name; cy_errs : list N }.

Fixpoint detect (fuel : nat) (f : wfrag) (path : list N) (idx : list (name * nat)) (st : cyc) : cyc :=
  match fuel with
  | O => st
  | Datatypes.S fuel' =>
    let st := {| cy_visited := wf_name f :: cy_visited st; cy_errs := cy_errs st |} in
    let spreads := ctx_spreads (wf_sel f) in
    match spreads with
    | [] => st
    | _ =>
      let idx' := (wf_name f, List.length path) :: idx in
      fold_left (fun st sp =>
        let id := fst sp in
        let g := snd (snd sp) in
        match alookup g idx' with
        | None =>
          if nmem g (cy_visited st) then st
          else match fragw g with
               | Some sf => detect fuel' sf (path ++ [id]) idx' st
               | None => st
               end
        | Some ci =>
          let first := match skipn ci path with x :: _ => x | [] => id end in
          {| cy_visited := cy_visited st; cy_errs := cy_errs st ++ [first] |}
        end) spreads st
    end
  end.

Definition rule_no_fragment_cycles : list N :=
  cy_errs (fold_left (fun st f =>
                        if nmem (wf_name f) (cy_visited st) then st
                        else detect (Datatypes.S (List.length (w_frags W))) f [] [] st)
                     (w_frags W) {| cy_visited := []; cy_errs := [] |}).

(* C19: the fragments the cycle search descends into (every call of detectCycleRecursive marks
   its fragment visited and nothing else does) *)
Definition cycle_search_calls : nat :=
  List.length (cy_visited (fold_left (fun st f =>
                        if nmem (wf_name f) (cy_visited st) then st
                        else detect (Datatypes.S (List.length (w_frags W))) f [] [] st)
                     (w_frags W) {| cy_visited := []; cy_errs := [] |})).

(* 21 UniqueVariableNames *)
Definition rule_unique_variable_names : list N :=
  flat_map (fun o => dup_firsts [] (map (fun v => (wv_name v, wv_nid v)) (wo_vars o))) (w_ops W).

(* 10 NoUndefinedVariables *)
Definition rule_no_undefined_variables : list N :=
  flat_map (fun o =>
    let defined := map wv_name (wo_vars o) in
    flat_map (fun u => if nmem (fst (snd u)) defined then [] else [fst u]) (rec_uses o)) (w_ops W).

(* 12 NoUnusedVariables *)
Definition rule_no_unused_variables : list N :=
  flat_map (fun o =>
    let used := map (fun u => fst (snd u)) (rec_uses o) in
    flat_map (fun v => if nmem (wv_name v) used then [] else [wv_vid v]) (wo_vars o)) (w_ops W).

(* 17 UniqueArgumentNames *)
Definition arg_dups (args : list warg) : list N :=
  dup_firsts [] (map (fun a => (wa_name a, wa_id a)) args).
Definition rule_unique_argument_names : list N :=
  flat_map (fun i => match i with
                     | IField _ _ _ _ args _ _ => arg_dups args
                     | IDir _ _ d => arg_dups (wd_args d)
                     | _ => []
                     end) doc_items.

(* 19 UniqueInputFieldNames: every object literal of the document *)
Fixpoint obj_dups (v : wvalue) : list N :=
  match v with
  | WList _ l => flat_map obj_dups l
  | WObj _ l =>
    (* names are recorded when a field is entered; nested literals are visited in between *)
    (fix go (l : list (N * (name * wvalue))) (seen : list (name * N)) : list N :=
       match l with
       | [] => []
       | p :: r =>
         match alookup (fst (snd p)) seen with
         | Some first => first :: obj_dups (snd (snd p)) ++ go r seen
         | None => obj_dups (snd (snd p)) ++ go r (seen ++ [(fst (snd p), fst p)])
         end
       end) l []
  | _ => []
  end.

Definition args_values (args : list warg) : list wvalue := map wa_val args.
Definition rule_unique_input_field_names : list N :=
  flat_map (fun o => flat_map (fun v => match wv_default v with Some d => obj_dups d | None => [] end)
                              (wo_vars o)) (w_ops W) ++
  flat_map (fun i => match i with
                     | IArg _ _ a => obj_dups (wa_val a)
                     | _ => []
                     end) doc_items.

(* 7 KnownTypeNames *)
Fixpoint type_named (t : wtype) : N * name :=
  match t with
  | WTNamed id n => (id, n)
  | WTList _ t' => type_named t'
  | WTNonNull _ t' => type_named t'
  end.
Definition unknown_named (p : N * name) : list N := if known S (snd p) then [] else [fst p].

Definition rule_known_type_names : list N :=
  flat_map (fun o => flat_map (fun v => unknown_named (type_named (wv_type v))) (wo_vars o)) (w_ops W) ++
  flat_map (fun i => match i with
                     | IInline _ _ _ (Some tc) => unknown_named tc
                     | _ => []
                     end) (flat_map op_items (w_ops W)) ++
  flat_map (fun f =>
              unknown_named (wf_tcid f, wf_cond f) ++
              flat_map (fun i => match i with
                                 | IInline _ _ _ (Some tc) => unknown_named tc
                                 | _ => []
                                 end) (frag_items f)) (w_frags W).

(* 3 FragmentsOnCompositeTypes *)
Definition rule_fragments_on_composite : list N :=
  flat_map (fun i => match i with
                     | IInline _ (Some t) _ (Some tc) => if is_composite S t then [] else [fst tc]
                     | _ => []
                     end) doc_items ++
  flat_map (fun f => match resolve S (wf_cond f) with
                     | Some t => if is_composite S t then [] else [wf_tcid f]
                     | None => []
                     end) (w_frags W).

(* 22 VariablesAreInputTypes *)
Definition is_input (n : name) : bool :=
  match lookup_type S n with
  | Some (TScalar _) | Some (TEnum _) | Some (TInputObject _) => true
  | _ => false
  end.
Definition rule_variables_are_input_types : list N :=
  flat_map (fun o => flat_map (fun v =>
    let n := snd (type_named (wv_type v)) in
    if known S n && negb (is_input n) then [wt_id (wv_type v)] else []) (wo_vars o)) (w_ops W).

(* 16 ScalarLeafs *)
Definition rule_scalar_leafs : list N :=
  flat_map (fun i => match i with
                     | IField _ (Some fd) id _ _ ssid hassub =>
                       if is_leaf S (named_of (f_type fd))
                       then (if hassub then [ssid] else [])
                       else (if hassub then [] else [id])
                     | _ => []
                     end) doc_items.

(* 2 FieldsOnCorrectType *)
Definition rule_fields_on_correct_type : list N :=
  flat_map (fun i => match i with
                     | IField (Some _) None id _ _ _ _ => [id]
                     | _ => []
                     end) doc_items.

(* 4 KnownArgumentNames *)
Definition rule_known_argument_names : list N :=
  flat_map (fun i => match i with
                     | IArg (OField (Some fd) _) _ a =>
                       match find_argdef (wa_name a) (f_args fd) with Some _ => [] | None => [wa_id a] end
                     | IArg (ODir (Some dd)) _ a =>
                       match find_argdef (wa_name a) (dd_args dd) with Some _ => [] | None => [wa_id a] end
                     | _ => []
                     end) doc_items.

(* 5 KnownDirectives *)
Definition rule_known_directives : list N :=
  flat_map (fun i => match i with
                     | IDir loc None d => [wd_id d]
                     | IDir loc (Some dd) d => if existsb (dloc_eqb loc) (dd_locs dd) then [] else [wd_id d]
                     | _ => []
                     end) doc_items.

(* 15 ProvidedNonNullArguments *)
Definition missing_required (defs : list argdef) (args : list warg) (at_ : N) : list N :=
  flat_map (fun ad =>
    if is_nonnull (a_type ad) && negb (existsb (fun a => String.eqb (wa_name a) (a_name ad)) args)
    then [at_] else []) defs.
Definition rule_provided_non_null_arguments : list N :=
  flat_map (fun i => match i with
                     | IField _ (Some fd) id _ args _ _ => missing_required (f_args fd) args id
                     | IDir _ (Some dd) d => missing_required (dd_args dd) (wd_args d) (wd_id d)
                     | _ => []
                     end) doc_items.

(* 14 PossibleFragmentSpreads *)
Definition rule_possible_fragment_spreads : list N :=
  flat_map (fun i => match i with
                     | IInline (Some p) (Some t) id _ => if types_overlap t p then [] else [id]
                     | ISpread (Some p) id _ g =>
                       match fragw g with
                       | Some f => match resolve S (wf_cond f) with
                                   | Some t => if types_overlap t p then [] else [id]
                                   | None => []
                                   end
                       | None => []
                       end
                     | _ => []
                     end) doc_items.

(* 0 ArgumentsOfCorrectType *)
Definition rule_arguments_of_correct_type : list N :=
  flat_map (fun i => match i with
                     | IArg _ (Some ad) a => if vlit (wa_val a) (a_type ad) then [] else [wv_id (wa_val a)]
                     | _ => []
                     end) doc_items.

(* 1 DefaultValuesOfCorrectType *)
Definition rule_default_values_of_correct_type : list N :=
  flat_map (fun o => flat_map (fun v =>
    match wv_default v with
    | None => []
    | Some d =>
      match type_from_ast (erase_type (wv_type v)) with
      | None => []
      | Some t =>
        (if is_nonnull t then [wv_id d] else []) ++ (if vlit d t then [] else [wv_id d])
      end
    end) (wo_vars o)) (w_ops W).

(* 23 VariablesInAllowedPosition *)
Definition effective_type (t : tyref) (v : wvardef) : tyref :=
  match wv_default v with
  | None => t
  | Some _ => if is_nonnull t then t else TNonNull t
  end.
Definition find_vardef (n : name) (vs : list wvardef) : option wvardef :=
  fold_left (fun acc v => if String.eqb n (wv_name v) then Some v else acc) vs None.
Definition rule_variables_in_allowed_position : list N :=
  flat_map (fun o =>
    flat_map (fun u =>
      match find_vardef (fst (snd u)) (wo_vars o), snd (snd u) with
      | Some vd, Some ut =>
        match type_from_ast (erase_type (wv_type vd)) with
        | Some vt => if subtype (effective_type vt vd) ut then [] else [wv_vid vd]
        | None => []
        end
      | _, _ => []
      end) (rec_uses o)) (w_ops W).

End Rules.
