(* Declarative layers of the overlap rule (no proofs here).
   L1: every two fields reachable from one selection set through any chain of inline
       fragments and fragment spreads that share a response key are compatible, and so
       are, recursively, all such pairs across their expanded sub-selections.
   L2: "every check of the A-J decomposition passes", as mutually inductive predicates
       following collectConflictsBetween{,FieldsAndFragment,Fragments} and
       findConflictsBetweenSubSelectionSets / findConflictsWithinSelectionSet.
   Both are parametric in the test made on two fields themselves ([base]: names,
   arguments, return types under the exclusivity flag). *)
From Coq Require Import List ZArith NArith String Bool.
From GQL Require Import Exec.Syntax Validate.Overlap.
Import ListNotations.
Open Scope string_scope.
Open Scope list_scope.

Section Spec.
Variable S : schema.
Variable D : document.
Variable base : bool -> fentry -> fentry -> bool.

Definition fields (s : fset) : list fentry := dfields S (fst s) (snd s).
Definition frs (s : fset) : list name := dspreads_raw (snd s).
Definition fbody (g : name) : option fset :=
  option_map (fun f => (resolve S (fr_cond f), fr_sel f)) (frag D g).
Definition subset_of (a : fentry) : fset := (sub_pt a, fe_sub a).
Definition subs (a b : fentry) : Prop := has_sub a = true /\ has_sub b = true.
Definition exf (fl : bool) (a b : fentry) : bool := fl || excl S a b.

(* fields reachable on one level: directly (through inline fragments) or through spreads *)
Inductive EF : fset -> fentry -> Prop :=
| EF_d : forall s e, In e (fields s) -> EF s e
| EF_s : forall s g b e, In g (frs s) -> fbody g = Some b -> EF b e -> EF s e.

Inductive compat : bool -> fentry -> fentry -> Prop :=
| compat_i : forall fl a b,
    base (exf fl a b) a b = true ->
    (subs a b -> forall a' b', EF (subset_of a) a' -> EF (subset_of b) b' ->
                 fe_key a' = fe_key b' -> compat (exf fl a b) a' b') ->
    compat fl a b.

Definition L1 (s : fset) : Prop :=
  forall a b, EF s a -> EF s b -> fe_key a = fe_key b -> compat false a b.

Inductive fc : bool -> fentry -> fentry -> Prop :=
| fc_i : forall fl a b,
    base (exf fl a b) a b = true ->
    (subs a b -> subsets (exf fl a b) (subset_of a) (subset_of b)) ->
    fc fl a b
with subsets : bool -> fset -> fset -> Prop :=
| sub_i : forall fl s1 s2,
    (forall a b, In a (fields s1) -> In b (fields s2) -> fe_key a = fe_key b -> fc fl a b) ->   (* H *)
    (forall g, In g (frs s2) -> FF fl s1 g) ->                                                  (* I *)
    (forall g, In g (frs s1) -> FF fl s2 g) ->                                                  (* I *)
    (forall g1 g2, In g1 (frs s1) -> In g2 (frs s2) -> FrFr fl g1 g2) ->                        (* J *)
    subsets fl s1 s2
with FF : bool -> fset -> name -> Prop :=
| ff_none : forall fl s g, fbody g = None -> FF fl s g
| ff_same : forall fl s g, fbody g = Some s -> FF fl s g      (* "do not compare a fragment's fields with itself" *)
| ff_i : forall fl s g b, fbody g = Some b ->
    (forall x y, In x (fields s) -> In y (fields b) -> fe_key x = fe_key y -> fc fl x y) ->     (* D *)
    (forall h, In h (frs b) -> FF fl s h) ->                                                    (* E *)
    FF fl s g
with FrFr : bool -> name -> name -> Prop :=
| frfr_none : forall fl g1 g2, fbody g1 = None \/ fbody g2 = None -> FrFr fl g1 g2
| frfr_same : forall fl g, FrFr fl g g
| frfr_i : forall fl g1 g2 b1 b2, fbody g1 = Some b1 -> fbody g2 = Some b2 ->
    (forall x y, In x (fields b1) -> In y (fields b2) -> fe_key x = fe_key y -> fc fl x y) ->   (* F *)
    (forall h, In h (frs b2) -> FrFr fl g1 h) ->                                                (* G *)
    (forall h, In h (frs b1) -> FrFr fl h g2) ->                                                (* G *)
    FrFr fl g1 g2.

(* findConflictsWithinSelectionSet: A, B, C *)
Definition within (s : fset) : Prop :=
  (forall a b, In a (fields s) -> In b (fields s) -> fe_key a = fe_key b -> fc false a b) /\
  (forall g, In g (frs s) -> FF false s g) /\
  (forall g1 g2, In g1 (frs s) -> In g2 (frs s) -> FrFr false g1 g2).

(* ---- acyclicity: a rank that decreases along "spread anywhere inside the body" ---- *)
Definition Occ (ss : list selection) (g : name) : Prop := In g (all_spreads ss).
Definition bounded (rk : name -> nat) (n : nat) (ss : list selection) : Prop :=
  forall g, Occ ss g -> rk g < n.
Definition ranked (rk : name -> nat) : Prop :=
  forall g b, fbody g = Some b -> bounded rk (rk g) (snd b).
Definition acyclic : Prop := exists rk, ranked rk.

(* the selection sets of the document that lie inside [ss] (nested through fields and
   inline fragments), with the parent types the rule computes for them *)
Inductive Sub : fset -> fset -> Prop :=
| Sub_refl : forall s, Sub s s
| Sub_field : forall s e t, In e (fields s) -> fe_sub e <> [] -> Sub (subset_of e) t -> Sub s t.

End Spec.

(* the test findConflict makes on two fields, closed under exchanging them
   (sameArguments is symmetric when argument names are unique) *)
Definition base2 (S : schema) (ex : bool) (a b : fentry) : bool :=
  base_ok S ex a b && base_ok S ex b a.

(* the selection sets the rule is called on, and every fragment body with the parent
   type getReferencedFieldsAndFragmentNames computes for it *)
Definition doc_sets (S : schema) (D : document) (s : fset) : Prop :=
  In s (all_sets S D) \/ exists g, fbody S D g = Some s.

Definition L2_accepts (S : schema) (D : document) : Prop :=
  forall s, doc_sets S D s -> within S D (base2 S) s.
Definition L1_accepts (S : schema) (D : document) : Prop :=
  forall s, doc_sets S D s -> L1 S D (base2 S) s.
