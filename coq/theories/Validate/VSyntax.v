(* Documents as the validator sees them: the syntax of Exec/Syntax.v with a node id
   (byte offset of the node's first token, Loc.Start) on every node a validation rule
   can report, and the erasure to the execution syntax on which the overlap rule and
   CollectFields are stated. *)
From Coq Require Import List ZArith NArith String Bool.
From GQL Require Import Exec.Syntax.
Import ListNotations.
Open Scope string_scope.
Open Scope list_scope.

Inductive wvalue :=
| WVar (id : N) (n : name)
| WInt (id : N) (z : Z)
| WFloat (id : N) (n : Z) (d : positive)
| WStr (id : N) (s : string)
| WBool (id : N) (b : bool)
| WEnum (id : N) (n : name)
| WList (id : N) (l : list wvalue)
| WObj (id : N) (l : list (N * (name * wvalue))).   (* (id of the field's name node, (name, value)) *)

Definition wv_id (v : wvalue) : N :=
  match v with
  | WVar i _ | WInt i _ | WFloat i _ _ | WStr i _ | WBool i _ | WEnum i _ | WList i _ | WObj i _ => i
  end.

Inductive wtype :=
| WTNamed (id : N) (n : name)
| WTList (id : N) (t : wtype)
| WTNonNull (id : N) (t : wtype).

Definition wt_id (t : wtype) : N :=
  match t with WTNamed i _ | WTList i _ | WTNonNull i _ => i end.

Record warg := { wa_id : N; wa_name : name; wa_val : wvalue }.
Record wdir := { wd_id : N; wd_name : name; wd_args : list warg }.

(* ssid: id of the SelectionSet node ("{"); sub = [] means "no selection set" (the
   grammar has no empty selection set) *)
Inductive wsel :=
| WField (id : N) (alias : option name) (nm : name) (args : list warg) (dirs : list wdir)
         (ssid : N) (sub : list wsel)
| WSpread (id : N) (nid : N) (nm : name) (dirs : list wdir)
| WInline (id : N) (tc : option (N * name)) (dirs : list wdir) (ssid : N) (sub : list wsel).

Record wvardef := {
  wv_vid : N;            (* the Variable node ("$"), also the VariableDefinition's start *)
  wv_nid : N;            (* its Name node *)
  wv_name : name;
  wv_type : wtype;
  wv_default : option wvalue }.

Record wop := {
  wo_id : N; wo_kind : opkind; wo_name : option (N * name);
  wo_vars : list wvardef; wo_dirs : list wdir; wo_ssid : N; wo_sel : list wsel }.

Record wfrag := {
  wf_id : N; wf_nid : N; wf_name : name; wf_tcid : N; wf_cond : name;
  wf_dirs : list wdir; wf_ssid : N; wf_sel : list wsel }.

Record wdoc := { w_ops : list wop; w_frags : list wfrag }.

(* ---- erasure ---- *)
Fixpoint erase_value (v : wvalue) : value :=
  match v with
  | WVar _ n => VVar n
  | WInt _ z => VInt z
  | WFloat _ n d => VFloat n d
  | WStr _ s => VStr s
  | WBool _ b => VBool b
  | WEnum _ n => VEnum n
  | WList _ l => VList (map erase_value l)
  | WObj _ l => VObj (map (fun p => (fst (snd p), erase_value (snd (snd p)))) l)
  end.

Fixpoint erase_type (t : wtype) : tyref :=
  match t with
  | WTNamed _ n => TNamed n
  | WTList _ t' => TList (erase_type t')
  | WTNonNull _ t' => TNonNull (erase_type t')
  end.

Definition erase_arg (a : warg) : name * value := (wa_name a, erase_value (wa_val a)).
Definition erase_dir (d : wdir) : directive :=
  {| d_name := wd_name d; d_args := map erase_arg (wd_args d) |}.

Fixpoint erase_sel (s : wsel) : selection :=
  match s with
  | WField id al nm args ds _ sub =>
    SField id al nm (map erase_arg args) (map erase_dir ds) (map erase_sel sub)
  | WSpread id _ nm ds => SSpread id nm (map erase_dir ds)
  | WInline id tc ds _ sub =>
    SInline id (option_map snd tc) (map erase_dir ds) (map erase_sel sub)
  end.

Definition erase_vardef (v : wvardef) : vardef :=
  {| v_name := wv_name v; v_type := erase_type (wv_type v);
     v_default := option_map erase_value (wv_default v) |}.

Definition erase_op (o : wop) : operation :=
  {| o_kind := wo_kind o; o_name := option_map snd (wo_name o);
     o_vars := map erase_vardef (wo_vars o); o_sel := map erase_sel (wo_sel o) |}.

Definition erase_frag (f : wfrag) : fragment :=
  {| fr_name := wf_name f; fr_cond := wf_cond f; fr_sel := map erase_sel (wf_sel f) |}.

Definition erase (d : wdoc) : document :=
  {| d_ops := map erase_op (w_ops d); d_frags := map erase_frag (w_frags d) |}.
