(* Decidable well-formedness conditions under which the executable overlap algorithm is
   proved to decide the declarative layers, and the fuel that suffices (no proofs here).
   - [meta_ok]: the names of the meta field __typename and of its type are not taken by the
     schema (no Object/Interface field named "__typename", "String" is not a composite type);
     otherwise TypeInfo (which resolves __typename to the built-in meta field) and the rule's
     own field lookup (parentType.Fields()[name]) compute different parent types for the
     sub-selection of a field named __typename;
   - [ids_ok]: node ids (byte offsets) of the selections are pairwise distinct and not 0 --
     the implementation identifies a selection set by pointer, the model by
     (parent type, id of the first selection);
   - [fuel_of]: 3 + 6 * h, h = (fragments + 1) * (depth + 1) + depth, depth = the deepest
     field nesting inside one operation / fragment body. *)
From Coq Require Import List ZArith NArith String Bool.
From GQL Require Import Exec.Syntax Validate.Overlap.
Import ListNotations.
Open Scope string_scope.
Open Scope list_scope.

Definition no_typename_field (td : typedef) : bool :=
  match td with
  | TObject fs _ | TInterface fs => match find_field "__typename" fs with None => true | Some _ => false end
  | _ => true
  end.
Definition meta_ok (S : schema) : bool :=
  negb (is_composite S "String") && forallb (fun p => no_typename_field (snd p)) (s_types S).

(* every selection list of the document: operation and fragment bodies and, recursively,
   the sub-selections of fields and inline fragments *)
Fixpoint sel_lists (s : selection) : list (list selection) :=
  match s with
  | SField _ _ _ _ _ sub =>
    sub :: (fix go (l : list selection) : list (list selection) :=
              match l with [] => [] | x :: r => sel_lists x ++ go r end) sub
  | SSpread _ _ _ => []
  | SInline _ _ _ sub =>
    sub :: (fix go (l : list selection) : list (list selection) :=
              match l with [] => [] | x :: r => sel_lists x ++ go r end) sub
  end.
Definition lists_of (ss : list selection) : list (list selection) := ss :: flat_map sel_lists ss.
Definition doc_lists (D : document) : list (list selection) :=
  flat_map (fun o => lists_of (o_sel o)) (d_ops D) ++ flat_map (fun f => lists_of (fr_sel f)) (d_frags D).

Definition sel_id (s : selection) : N :=
  match s with SField id _ _ _ _ _ | SSpread id _ _ | SInline id _ _ _ => id end.

Fixpoint n_nodup (l : list N) : bool :=
  match l with
  | [] => true
  | x :: r => negb (existsb (N.eqb x) r) && n_nodup r
  end.

Definition ids_ok (D : document) : bool :=
  let ids := map sel_id (List.concat (doc_lists D)) in
  n_nodup ids && forallb (fun i => negb (N.eqb i 0)) ids.

(* field nesting depth of a selection set (inline fragments do not count; not through spreads) *)
Fixpoint sel_depth (s : selection) : nat :=
  match s with
  | SField _ _ _ _ _ sub =>
    Datatypes.S ((fix go (l : list selection) : nat :=
                    match l with [] => O | x :: r => Nat.max (sel_depth x) (go r) end) sub)
  | SSpread _ _ _ => O
  | SInline _ _ _ sub =>
    (fix go (l : list selection) : nat :=
       match l with [] => O | x :: r => Nat.max (sel_depth x) (go r) end) sub
  end.
Definition sels_depth (ss : list selection) : nat :=
  fold_right (fun s a => Nat.max (sel_depth s) a) O ss.

Definition doc_depth (D : document) : nat :=
  Nat.max (fold_right (fun o a => Nat.max (sels_depth (o_sel o)) a) O (d_ops D))
          (fold_right (fun f a => Nat.max (sels_depth (fr_sel f)) a) O (d_frags D)).

Definition height_bound (D : document) : nat :=
  (Datatypes.S (List.length (d_frags D))) * (Datatypes.S (doc_depth D)) + doc_depth D.

Definition fuel_of (D : document) : nat := 3 + 6 * height_bound D.

(* every field node of the document has pairwise distinct argument names (what
   UniqueArgumentNames checks on fields); only then is sameArguments symmetric *)
Fixpoint names_nodup (l : list name) : bool :=
  match l with [] => true | x :: r => negb (nmem x r) && names_nodup r end.
Definition node_args (s : selection) : list (name * value) :=
  match s with SField _ _ _ args _ _ => args | _ => [] end.
Definition args_ok (D : document) : bool :=
  forallb (fun x => names_nodup (map fst (node_args x))) (List.concat (doc_lists D)).

(* the longest spread chain from a fragment, with fuel; after |fragments| + 1 steps it is a
   rank of the document iff no fragment reaches itself (Proofs/ValidateRank.v) *)
Section Lp.
Variable D : document.
Fixpoint lp (n : nat) (g : name) : nat :=
  match n with
  | O => O
  | Datatypes.S n' =>
    match frag D g with
    | None => O
    | Some fr => Datatypes.S (list_max (map (lp n') (all_spreads (fr_sel fr))))
    end
  end.
Definition lp_rank (g : name) : nat := lp (Datatypes.S (List.length (d_frags D))) g.
(* the executable acyclicity test with a certificate: lp_rank decreases along every spread *)
Definition ranked_b : bool :=
  forallb (fun f => match frag D (fr_name f) with
                    | Some fr => forallb (fun h => Nat.ltb (lp_rank h) (lp_rank (fr_name f))) (all_spreads (fr_sel fr))
                    | None => true
                    end) (d_frags D).
End Lp.

(* the offending nodes as a three-valued oracle: the fields of a visited selection set that
   are a member of an incompatible pair with one response key; None = out of fuel somewhere
   (never a verdict).  Proofs/ValidateOffending.v: the ids are exactly the Spec's offending
   nodes, and every node the rule's model reports is among them. *)
Definition is_some {A} (o : option A) : bool := match o with Some _ => true | None => false end.
Definition offending_set_o (S : schema) (D : document) (fuel : nat) (s : fset) : option (list N) :=
  match expanded_o S D s with
  | None => None
  | Some l =>
    if forallb (fun a => forallb (fun b => if String.eqb (fe_key a) (fe_key b)
                                           then is_some (compat_o S D fuel false a b) else true) l) l
    then Some (flat_map (fun a =>
                 if existsb (fun b => String.eqb (fe_key a) (fe_key b) &&
                                      match compat_o S D fuel false a b with Some false => true | _ => false end) l
                 then [fe_id a] else []) l)
    else None
  end.
Fixpoint collect_o {A B} (f : A -> option (list B)) (l : list A) : option (list B) :=
  match l with
  | [] => Some []
  | x :: r => match f x, collect_o f r with Some a, Some b => Some (a ++ b) | _, _ => None end
  end.
Definition offending_o (S : schema) (D : document) (fuel : nat) : option (list N) :=
  collect_o (offending_set_o S D fuel) (all_sets S D).
