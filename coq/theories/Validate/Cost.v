(* C19: cost models.  (1) the memoised overlap algorithm: the memo tables of the model of
   Validate/Overlap.v after the whole document was checked; each non-memoised body of
   collectConflictsBetweenFragments adds the two orientations of one pair, each body of
   collectConflictsBetweenFieldsAndFragment one entry.  (2) planning with shared
   sub-plans (plan.go planSelectionSetsLocked): calls, and bodies executed after the
   subPlans lookup, keyed by (parent object type, merged selection sets). *)
From Coq Require Import List ZArith NArith String Bool.
From GQL Require Import Exec.Syntax Exec.Exec Validate.Overlap.
Import ListNotations.
Open Scope string_scope.
Open Scope list_scope.

Definition final_state (S : schema) (D : document) (memo : bool) (fuel : nat) : mst :=
  snd (seq (within_set S D memo fuel) (all_sets S D) mst0).

Definition frfr_bodies (S : schema) (D : document) (fuel : nat) : nat :=
  Nat.div2 (List.length (m_pairs (final_state S D true fuel))).
Definition ff_bodies (S : schema) (D : document) (fuel : nat) : nat :=
  List.length (m_ffs (final_state S D true fuel)).

(* ---- planning ---- *)
Definition pkey := (name * list N)%type.

Fixpoint nlist_eqb' (a b : list N) : bool :=
  match a, b with
  | [], [] => true
  | x :: a', y :: b' => N.eqb x y && nlist_eqb' a' b'
  | _, _ => false
  end.
Definition pkey_eqb (a b : pkey) : bool := String.eqb (fst a) (fst b) && nlist_eqb' (snd a) (snd b).
Fixpoint pkey_mem (k : pkey) (l : list pkey) : bool :=
  match l with [] => false | x :: r => pkey_eqb k x || pkey_mem k r end.

Record pst := { p_memo : list pkey; p_calls : N }.
Definition pst0 : pst := {| p_memo := []; p_calls := 0 |}.

(* executor.getFieldDef restricted to the generated schemas (no __schema / __type) *)
Definition plan_field_ty (S : schema) (T : name) (nm : name) : option tyref :=
  if String.eqb nm "__typename" then Some (TNonNull (TNamed "String"))
  else option_map f_type (find_field nm (object_fields S T)).

Definition is_object_ty (S : schema) (n : name) : bool :=
  match lookup_type S n with Some (TObject _ _) => true | _ => false end.

Definition nonempty_sets (occs : list occ) : list (list selection) :=
  flat_map (fun o => match oc_sub o with [] => [] | s => [s] end) occs.

Section Plan.
Variable S : schema.
Variable D : document.
Variable share : bool.     (* subPlans sharing on (the code as it is) / off *)
Variable cfuel : nat.      (* fuel of CollectFields *)

Fixpoint plan (fuel : nat) (T : name) (sets : list (list selection)) (st : pst) : pst :=
  match fuel with
  | O => st
  | Datatypes.S f =>
    let st := {| p_memo := p_memo st; p_calls := (p_calls st + 1)%N |} in
    let key : pkey := (T, map first_id sets) in
    if share && pkey_mem key (p_memo st) then st
    else
      let st := {| p_memo := key :: p_memo st; p_calls := p_calls st |} in
      match collect_all cfuel S D [] T sets [] [] with
      | None => st
      | Some groups =>
        fold_left (fun st grp =>
          match snd grp with
          | [] => st
          | o :: _ =>
            match plan_field_ty S T (oc_name o) with
            | Some t => if is_object_ty S (named_of t)
                        then plan f (named_of t) (nonempty_sets (snd grp)) st
                        else st
            | None => st
            end
          end) groups st
      end
  end.

End Plan.

(* PlanQuery on the first operation *)
Definition plan_doc (S : schema) (D : document) (share : bool) (fuel : nat) : pst :=
  match d_ops D with
  | o :: _ =>
    let root := match o_kind o with
                | OpMutation => match s_mutation S with Some m => m | None => s_query S end
                | _ => s_query S
                end in
    plan S D share fuel fuel root [o_sel o] pst0
  | [] => pst0
  end.

(* ---- size measures for the closed-form bound on findConflict calls ---- *)
Fixpoint sel_sz (s : selection) : nat :=
  match s with
  | SField _ _ _ _ _ sub =>
    Datatypes.S ((fix go (l : list selection) : nat := match l with [] => O | x :: r => sel_sz x + go r end) sub)
  | SSpread _ _ _ => O
  | SInline _ _ _ sub =>
    (fix go (l : list selection) : nat := match l with [] => O | x :: r => sel_sz x + go r end) sub
  end.
(* the number of field nodes of a selection set, nested ones included (not through spreads) *)
Definition sels_sz (ss : list selection) : nat := fold_right (fun s a => sel_sz s + a) O ss.

(* the largest selection-set tree the rule is called on, in field nodes *)
Definition max_set_size (S : schema) (D : document) : nat :=
  list_max (map (fun s => sels_sz (snd s)) (all_sets S D ++ frag_bodies S D)).

Definition fc_calls (S : schema) (D : document) (fuel : nat) : nat :=
  m_fc (final_state S D true fuel).
