(* OverlappingFieldsCanBeMerged (rules_overlapping_fields_can_be_merged.go).
   Layers (DESIGN.md section 7, C02):
     L1  brute force: every pair of fields reachable from one selection set through any
         chain of inline fragments and fragment spreads, with one response key, is
         compatible, recursively over the cross product of their expanded sub-selections
         (Prop [L1]; executable [L1b]);
     L2  the decomposition A-J as coded, without memo tables (Prop [within] etc. in
         Proofs/ValidateOverlap.v; executable [run_overlap false]);
     L3  the same with comparedFragmentPairs / comparedFieldsAndFragmentSet
         (executable [run_overlap true]).
   The model contains no proofs. *)
From Coq Require Import List ZArith NArith String Bool.
From GQL Require Import Exec.Syntax.
Import ListNotations.
Open Scope string_scope.
Open Scope list_scope.

Definition ptype := option name.   (* a Named type of the schema, or nil *)

Record fentry := {
  fe_pt : ptype;                    (* fieldDefPair.ParentType *)
  fe_id : N;
  fe_key : name;                    (* response name *)
  fe_name : name;
  fe_args : list (name * value);
  fe_sub : list selection;          (* [] = no selection set *)
  fe_ty : option tyref }.           (* FieldDef.Type, None when there is no definition *)

(* ---- values and arguments: sameArguments / sameValue (printed text equality) ---- *)
Fixpoint value_eqb (a b : value) {struct a} : bool :=
  match a, b with
  | VVar x, VVar y => String.eqb x y
  | VInt x, VInt y => Z.eqb x y
  | VFloat n d, VFloat n' d' => Z.eqb n n' && Pos.eqb d d'
  | VStr x, VStr y => String.eqb x y
  | VBool x, VBool y => Bool.eqb x y
  | VEnum x, VEnum y => String.eqb x y
  | VList l, VList l' =>
    (fix go (l l' : list value) : bool :=
       match l, l' with
       | [], [] => true
       | x :: r, y :: r' => value_eqb x y && go r r'
       | _, _ => false
       end) l l'
  | VObj l, VObj l' =>
    (fix go (l l' : list (name * value)) : bool :=
       match l, l' with
       | [], [] => true
       | (k, x) :: r, (k', y) :: r' => String.eqb k k' && value_eqb x y && go r r'
       | _, _ => false
       end) l l'
  | _, _ => false
  end.

Fixpoint find_arg (n : name) (l : list (name * value)) : option value :=
  match l with
  | [] => None
  | (k, v) :: r => if String.eqb n k then Some v else find_arg n r
  end.

Definition same_args (a b : list (name * value)) : bool :=
  Nat.eqb (List.length a) (List.length b) &&
  forallb (fun p => match find_arg (fst p) b with
                    | Some v => value_eqb (snd p) v
                    | None => false
                    end) a.

Fixpoint dedup (l : list name) (seen : list name) : list name :=
  match l with
  | [] => []
  | x :: r => if nmem x seen then dedup r seen else x :: dedup r (x :: seen)
  end.

Fixpoint last_fragment (n : name) (fs : list fragment) (acc : option fragment) : option fragment :=
  match fs with
  | [] => acc
  | f :: r => last_fragment n r (if String.eqb n (fr_name f) then Some f else acc)
  end.

Definition pt_eqb (a b : ptype) : bool :=
  match a, b with
  | Some x, Some y => String.eqb x y
  | None, None => true
  | _, _ => false
  end.

Definition first_id (ss : list selection) : N :=
  match ss with
  | SField id _ _ _ _ _ :: _ | SSpread id _ _ :: _ | SInline id _ _ _ :: _ => id
  | [] => 0%N
  end.

Section Overlap.
Variable S : schema.
Variable D : document.

Definition known (n : name) : bool :=
  match lookup_type S n with Some _ => true | None => false end.
Definition resolve (n : name) : ptype := if known n then Some n else None.   (* typeFromAST on a Named *)
Definition is_object (n : name) : bool :=
  match lookup_type S n with Some (TObject _ _) => true | _ => false end.
Definition is_leaf (n : name) : bool :=
  match lookup_type S n with Some (TScalar _) | Some (TEnum _) => true | _ => false end.
Definition is_composite (n : name) : bool :=
  match lookup_type S n with
  | Some (TObject _ _) | Some (TInterface _) | Some (TUnion _) => true
  | _ => false
  end.
Definition pt_is_object (p : ptype) : bool :=
  match p with Some n => is_object n | None => false end.

(* the rule's own field lookup: Object/Interface Fields()[name], no meta fields *)
Definition rule_field_ty (pt : ptype) (nm : name) : option tyref :=
  match pt with
  | None => None
  | Some t =>
    match lookup_type S t with
    | Some (TObject fs _) | Some (TInterface fs) => option_map f_type (find_field nm fs)
    | _ => None
    end
  end.

Definition frag (g : name) : option fragment := last_fragment g (d_frags D) None.

Definition mk_entry (pt : ptype) (id : N) (al : option name) (nm : name)
           (args : list (name * value)) (sub : list selection) : fentry :=
  {| fe_pt := pt; fe_id := id; fe_key := match al with Some a => a | None => nm end;
     fe_name := nm; fe_args := args; fe_sub := sub; fe_ty := rule_field_ty pt nm |}.

Definition inline_pt (pt : ptype) (tc : option name) : ptype :=
  match tc with None => pt | Some c => resolve c end.

(* collectFieldsAndFragmentNames: the fields of a selection set, through inline fragments *)
Fixpoint dfields_sel (pt : ptype) (s : selection) : list fentry :=
  match s with
  | SField id al nm args _ sub => [mk_entry pt id al nm args sub]
  | SSpread _ _ _ => []
  | SInline _ tc _ sub =>
    (fix go (l : list selection) : list fentry :=
       match l with
       | [] => []
       | x :: r => dfields_sel (inline_pt pt tc) x ++ go r
       end) sub
  end.
Definition dfields (pt : ptype) (ss : list selection) : list fentry :=
  flat_map (dfields_sel pt) ss.

Fixpoint dspreads_sel (s : selection) : list name :=
  match s with
  | SField _ _ _ _ _ _ => []
  | SSpread _ g _ => [g]
  | SInline _ _ _ sub =>
    (fix go (l : list selection) : list name :=
       match l with
       | [] => []
       | x :: r => dspreads_sel x ++ go r
       end) sub
  end.
Definition dspreads_raw (ss : list selection) : list name := flat_map dspreads_sel ss.
Definition dspreads (ss : list selection) : list name := dedup (dspreads_raw ss) [].

Definition sub_pt (a : fentry) : ptype := option_map named_of (fe_ty a).   (* GetNamed(type) *)

(* doTypesConflict *)
Fixpoint types_conflict (t1 t2 : tyref) : bool :=
  match t1, t2 with
  | TList a, TList b => types_conflict a b
  | TList _, _ => true
  | _, TList _ => true
  | TNonNull a, TNonNull b => types_conflict a b
  | TNonNull _, _ => true
  | _, TNonNull _ => true
  | TNamed a, TNamed b => if is_leaf a || is_leaf b then negb (String.eqb a b) else false
  end.

Definition ty_conflict (a b : option tyref) : bool :=
  match a, b with
  | Some x, Some y => types_conflict x y
  | _, _ => false
  end.

Definition excl (a b : fentry) : bool :=
  negb (pt_eqb (fe_pt a) (fe_pt b)) && pt_is_object (fe_pt a) && pt_is_object (fe_pt b).

(* the checks findConflict makes on the two fields themselves *)
Definition base_ok (ex : bool) (a b : fentry) : bool :=
  (ex || (String.eqb (fe_name a) (fe_name b) && same_args (fe_args a) (fe_args b))) &&
  negb (ty_conflict (fe_ty a) (fe_ty b)).

Definition has_sub (a : fentry) : bool :=
  match fe_sub a with [] => false | _ => true end.

(* ================= L1: brute force over fully expanded field sets ================= *)

Definition frag_spreads (g : name) : list name :=
  match frag g with Some f => dspreads (fr_sel f) | None => [] end.

(* fragments reachable from a list of names (closure under "spreads"), by iteration *)
Definition reach_step (seen : list name) : list name :=
  dedup (seen ++ flat_map frag_spreads seen) [].
Fixpoint iter {A} (n : nat) (f : A -> A) (x : A) : A :=
  match n with O => x | Datatypes.S n' => iter n' f (f x) end.
Definition reach (ss : list selection) : list name :=
  iter (Datatypes.S (List.length (d_frags D))) reach_step (dspreads ss).

Definition frag_fields (g : name) : list fentry :=
  match frag g with Some f => dfields (resolve (fr_cond f)) (fr_sel f) | None => [] end.

Definition expanded (pt : ptype) (ss : list selection) : list fentry :=
  dfields pt ss ++ flat_map frag_fields (reach ss).

Fixpoint compat_b (fuel : nat) (fl : bool) (a b : fentry) : bool :=
  match fuel with
  | O => false
  | Datatypes.S f =>
    let ex := fl || excl a b in
    base_ok ex a b &&
    (if has_sub a && has_sub b then
       forallb (fun a' =>
         forallb (fun b' => negb (String.eqb (fe_key a') (fe_key b')) || compat_b f ex a' b')
                 (expanded (sub_pt b) (fe_sub b)))
               (expanded (sub_pt a) (fe_sub a))
     else true)
  end.

(* the offending fields of one selection set: members of an incompatible pair *)
Definition L1_bad (fuel : nat) (pt : ptype) (ss : list selection) : list N :=
  let fs := expanded pt ss in
  flat_map (fun a =>
    flat_map (fun b =>
      if String.eqb (fe_key a) (fe_key b) && negb (compat_b fuel false a b)
      then [fe_id a; fe_id b] else []) fs) fs.

(* ---- L1 as a three-valued executable oracle: None = out of fuel (never a verdict).
   Proofs/ValidateL1.v: [L1o fuel = Some b] implies (b = true <-> L1_accepts). ---- *)
Fixpoint all_o {A} (f : A -> option bool) (l : list A) : option bool :=
  match l with
  | [] => Some true
  | x :: r =>
    match f x, all_o f r with
    | Some false, _ => Some false
    | _, Some false => Some false
    | None, _ => None
    | _, None => None
    | Some true, Some true => Some true
    end
  end.

(* fragments reachable from a list of names: iterate until nothing new appears *)
Fixpoint reach_o (n : nat) (seen : list name) : option (list name) :=
  match n with
  | O => None
  | Datatypes.S n' =>
    let nxt := flat_map frag_spreads seen in
    if forallb (fun x => nmem x seen) nxt then Some seen
    else reach_o n' (dedup (seen ++ nxt) [])
  end.

Definition expanded_o (s : ptype * list selection) : option (list fentry) :=
  match reach_o (Datatypes.S (Datatypes.S (List.length (d_frags D)))) (dspreads (snd s)) with
  | Some gs => Some (dfields (fst s) (snd s) ++ flat_map frag_fields gs)
  | None => None
  end.

Definition base2_ok (ex : bool) (a b : fentry) : bool := base_ok ex a b && base_ok ex b a.

Fixpoint compat_o (fuel : nat) (fl : bool) (a b : fentry) : option bool :=
  match fuel with
  | O => None
  | Datatypes.S f =>
    let ex := fl || excl a b in
    if negb (base2_ok ex a b) then Some false
    else if has_sub a && has_sub b then
      match expanded_o (sub_pt a, fe_sub a), expanded_o (sub_pt b, fe_sub b) with
      | Some la, Some lb =>
        all_o (fun a' => all_o (fun b' => if String.eqb (fe_key a') (fe_key b')
                                          then compat_o f ex a' b' else Some true) lb) la
      | _, _ => None
      end
    else Some true
  end.

Definition L1_set_o (fuel : nat) (s : ptype * list selection) : option bool :=
  match expanded_o s with
  | Some l =>
    all_o (fun a => all_o (fun b => if String.eqb (fe_key a) (fe_key b)
                                    then compat_o fuel false a b else Some true) l) l
  | None => None
  end.

(* ================= the selection sets the rule is called on ================= *)

Definition comp (p : ptype) : ptype :=
  match p with Some n => if is_composite n then p else None | None => None end.

(* DefaultTypeInfoFieldDef, without __schema/__type (their types are outside the model) *)
Definition ti_field_ty (pt : ptype) (nm : name) : option tyref :=
  match pt with
  | None => None
  | Some t =>
    if String.eqb nm "__typename"
    then (if is_composite t then Some (TNonNull (TNamed "String")) else None)
    else rule_field_ty pt nm
  end.

Fixpoint sets_sel (pt : ptype) (s : selection) : list (ptype * list selection) :=
  match s with
  | SField _ _ nm _ _ sub =>
    match sub with
    | [] => []
    | _ =>
      let pt' := comp (option_map named_of (ti_field_ty pt nm)) in
      (pt', sub) ::
      (fix go (l : list selection) : list (ptype * list selection) :=
         match l with [] => [] | x :: r => sets_sel pt' x ++ go r end) sub
    end
  | SSpread _ _ _ => []
  | SInline _ tc _ sub =>
    let pt' := comp (inline_pt pt tc) in
    (pt', sub) ::
    (fix go (l : list selection) : list (ptype * list selection) :=
       match l with [] => [] | x :: r => sets_sel pt' x ++ go r end) sub
  end.

Definition sets_of (pt : ptype) (ss : list selection) : list (ptype * list selection) :=
  (pt, ss) :: flat_map (sets_sel pt) ss.

Definition root_pt (k : opkind) : ptype :=
  match k with
  | OpQuery => comp (Some (s_query S))
  | OpMutation => match s_mutation S with Some m => comp (Some m) | None => None end
  | OpSubscription => None
  end.

Definition all_sets : list (ptype * list selection) :=
  flat_map (fun o => sets_of (root_pt (o_kind o)) (o_sel o)) (d_ops D) ++
  flat_map (fun f => sets_of (comp (resolve (fr_cond f))) (fr_sel f)) (d_frags D).

Definition L1_offending (fuel : nat) : list N :=
  flat_map (fun p => L1_bad fuel (fst p) (snd p)) all_sets.

Definition L1b (fuel : nat) : bool :=
  match L1_offending fuel with [] => true | _ => false end.

(* every selection set the rule visits and every fragment body (parent type as computed by
   getReferencedFieldsAndFragmentNames) *)
Definition frag_bodies : list (ptype * list selection) :=
  flat_map (fun f => match frag (fr_name f) with
                     | Some fr => [(resolve (fr_cond fr), fr_sel fr)]
                     | None => []
                     end) (d_frags D).
Definition L1o (fuel : nat) : option bool := all_o (L1_set_o fuel) (all_sets ++ frag_bodies).

(* ================= acyclicity of the spread graph (through fields too) ================= *)

Fixpoint all_spreads_sel (s : selection) : list name :=
  match s with
  | SField _ _ _ _ _ sub =>
    (fix go (l : list selection) : list name :=
       match l with [] => [] | x :: r => all_spreads_sel x ++ go r end) sub
  | SSpread _ g _ => [g]
  | SInline _ _ _ sub =>
    (fix go (l : list selection) : list name :=
       match l with [] => [] | x :: r => all_spreads_sel x ++ go r end) sub
  end.
Definition all_spreads (ss : list selection) : list name := flat_map all_spreads_sel ss.

Definition frag_all_spreads (g : name) : list name :=
  match frag g with Some f => all_spreads (fr_sel f) | None => [] end.

Definition closure_step (seen : list name) : list name :=
  dedup (seen ++ flat_map frag_all_spreads seen) [].

(* g reaches itself through spreads *)
Definition on_cycle (g : name) : bool :=
  nmem g (iter (Datatypes.S (List.length (d_frags D))) closure_step (frag_all_spreads g)).

Definition acyclic_b : bool :=
  forallb (fun f => negb (on_cycle (fr_name f))) (d_frags D).

(* ================= L2 / L3: the decomposition as coded ================= *)

Variable memo : bool.

Record mst := {
  m_pairs : list (name * name * bool);            (* comparedSet *)
  m_ffs : list (ptype * N * name * bool);         (* comparedFieldsAndFragmentSet *)
  m_oof : bool;                                   (* the model ran out of fuel somewhere *)
  m_fc : nat }.                                   (* findConflict calls so far (C19) *)

Definition mst0 : mst := {| m_pairs := []; m_ffs := []; m_oof := false; m_fc := 0 |}.
Definition set_oof (st : mst) : mst := {| m_pairs := m_pairs st; m_ffs := m_ffs st; m_oof := true; m_fc := m_fc st |}.
Definition inc_fc (st : mst) : mst := {| m_pairs := m_pairs st; m_ffs := m_ffs st; m_oof := m_oof st; m_fc := Datatypes.S (m_fc st) |}.

Fixpoint pair_find (a b : name) (l : list (name * name * bool)) : option bool :=
  match l with
  | [] => None
  | (x, y, f) :: r => if String.eqb a x && String.eqb b y then Some f else pair_find a b r
  end.
Definition pair_has (st : mst) (a b : name) (fl : bool) : bool :=
  match pair_find a b (m_pairs st) with
  | None => false
  | Some stored => if fl then true else negb stored
  end.
(* newest entry first: an Add overwrites *)
Definition pair_add (st : mst) (a b : name) (fl : bool) : mst :=
  {| m_pairs := (a, b, fl) :: (b, a, fl) :: m_pairs st; m_ffs := m_ffs st; m_oof := m_oof st; m_fc := m_fc st |}.

Fixpoint ff_find (p : ptype) (k : N) (g : name) (l : list (ptype * N * name * bool)) : option bool :=
  match l with
  | [] => None
  | (p', k', g', f) :: r =>
    if pt_eqb p p' && N.eqb k k' && String.eqb g g' then Some f else ff_find p k g r
  end.
Definition ff_has (st : mst) (p : ptype) (k : N) (g : name) (fl : bool) : bool :=
  match ff_find p k g (m_ffs st) with
  | None => false
  | Some stored => if fl then true else negb stored
  end.
Definition ff_add (st : mst) (p : ptype) (k : N) (g : name) (fl : bool) : mst :=
  {| m_pairs := m_pairs st; m_ffs := (p, k, g, fl) :: m_ffs st; m_oof := m_oof st; m_fc := m_fc st |}.

Definition fset := (ptype * list selection)%type.   (* a fieldsAndFragmentNames value *)
Definition same_set (a b : fset) : bool :=
  pt_eqb (fst a) (fst b) && N.eqb (first_id (snd a)) (first_id (snd b)).

Definition keys_of (l : list fentry) : list name := dedup (map fe_key l) [].
Definition with_key (k : name) (l : list fentry) : list fentry :=
  filter (fun e => String.eqb (fe_key e) k) l.

(* run a stateful step over a list, concatenating the conflicts *)
Definition seq {A} (step : A -> mst -> list N * mst) (l : list A) (st : mst) : list N * mst :=
  fold_left (fun acc x => let '(cs, st') := step x (snd acc) in (fst acc ++ cs, st')) l ([], st).

Fixpoint fc (fuel : nat) (fl : bool) (a b : fentry) (st : mst) {struct fuel} : list N * mst :=
  match fuel with
  | O => ([], set_oof st)
  | Datatypes.S f =>
    let st := inc_fc st in
    let ex := fl || excl a b in
    if negb (base_ok ex a b) then ([fe_id a], st)
    else if has_sub a && has_sub b then
      let '(cs, st') := subsets f ex (sub_pt a, fe_sub a) (sub_pt b, fe_sub b) st in
      (match cs with [] => [] | _ => [fe_id a] end, st')
    else ([], st)
  end
with between (fuel : nat) (fl : bool) (l1 l2 : list fentry) (st : mst) {struct fuel} : list N * mst :=
  match fuel with
  | O => ([], set_oof st)
  | Datatypes.S f =>
    seq (fun k =>
      seq (fun a =>
        seq (fun b => fc f fl a b) (with_key k l2)) (with_key k l1)) (keys_of l1) st
  end
with subsets (fuel : nat) (fl : bool) (s1 s2 : fset) (st : mst) {struct fuel} : list N * mst :=
  match fuel with
  | O => ([], set_oof st)
  | Datatypes.S f =>
    let g1 := dspreads (snd s1) in
    let g2 := dspreads (snd s2) in
    let '(c1, st1) := between f fl (dfields (fst s1) (snd s1)) (dfields (fst s2) (snd s2)) st in   (* H *)
    let '(c2, st2) := seq (fun g => ffrag f fl s1 g) g2 st1 in                                    (* I *)
    let '(c3, st3) := seq (fun g => ffrag f fl s2 g) g1 st2 in                                    (* I *)
    let '(c4, st4) := seq (fun a => seq (fun b => frfr f fl a b) g2) g1 st3 in                    (* J *)
    (c1 ++ c2 ++ c3 ++ c4, st4)
  end
with ffrag (fuel : nat) (fl : bool) (s : fset) (g : name) (st : mst) {struct fuel} : list N * mst :=
  match fuel with
  | O => ([], set_oof st)
  | Datatypes.S f =>
    if memo && ff_has st (fst s) (first_id (snd s)) g fl then ([], st)
    else
      let st := if memo then ff_add st (fst s) (first_id (snd s)) g fl else st in
      match frag g with
      | None => ([], st)
      | Some fr =>
        let s2 : fset := (resolve (fr_cond fr), fr_sel fr) in
        if same_set s s2 then ([], st)
        else
          let '(c1, st1) := between f fl (dfields (fst s) (snd s)) (dfields (fst s2) (snd s2)) st in   (* D *)
          let '(c2, st2) := seq (fun h => ffrag f fl s h) (dspreads (snd s2)) st1 in                   (* E *)
          (c1 ++ c2, st2)
      end
  end
with frfr (fuel : nat) (fl : bool) (g1 g2 : name) (st : mst) {struct fuel} : list N * mst :=
  match fuel with
  | O => ([], set_oof st)
  | Datatypes.S f =>
    match frag g1, frag g2 with
    | Some f1, Some f2 =>
      if String.eqb g1 g2 then ([], st)
      else if memo && pair_has st g1 g2 fl then ([], st)
      else
        let st := if memo then pair_add st g1 g2 fl else st in
        let s1 : fset := (resolve (fr_cond f1), fr_sel f1) in
        let s2 : fset := (resolve (fr_cond f2), fr_sel f2) in
        let '(c1, st1) := between f fl (dfields (fst s1) (snd s1)) (dfields (fst s2) (snd s2)) st in   (* F *)
        let '(c2, st2) := seq (fun h => frfr f fl g1 h) (dspreads (snd s2)) st1 in                     (* G *)
        let '(c3, st3) := seq (fun h => frfr f fl h g2) (dspreads (snd s1)) st2 in                     (* G *)
        (c1 ++ c2 ++ c3, st3)
    | _, _ => ([], st)
    end
  end.

(* collectConflictsWithin: pairs i < k of one response name *)
Fixpoint pairs_within (fuel : nat) (l : list fentry) (st : mst) : list N * mst :=
  match l with
  | [] => ([], st)
  | a :: r =>
    let '(c1, st1) := seq (fun b => fc fuel false a b) r st in
    let '(c2, st2) := pairs_within fuel r st1 in
    (c1 ++ c2, st2)
  end.

(* findConflictsWithinSelectionSet *)
Fixpoint frags_within (fuel : nat) (s : fset) (gs : list name) (st : mst) : list N * mst :=
  match gs with
  | [] => ([], st)
  | g :: r =>
    let '(c1, st1) := ffrag fuel false s g st in                           (* B *)
    let '(c2, st2) := seq (fun h => frfr fuel false g h) r st1 in          (* C *)
    let '(c3, st3) := frags_within fuel s r st2 in
    (c1 ++ c2 ++ c3, st3)
  end.

Definition within_set (fuel : nat) (s : fset) (st : mst) : list N * mst :=
  let fs := dfields (fst s) (snd s) in
  let '(c1, st1) := seq (fun k => pairs_within fuel (with_key k fs)) (keys_of fs) st in   (* A *)
  let '(c2, st2) := frags_within fuel s (dspreads (snd s)) st1 in
  (c1 ++ c2, st2).

(* the rule over the whole document: first nodes of the reported errors *)
Definition run_overlap (fuel : nat) : list N :=
  fst (seq (within_set fuel) all_sets mst0).
(* did the run stay within its fuel? (OutOfFuel is never a normal-looking result) *)
Definition run_complete (fuel : nat) : bool :=
  negb (m_oof (snd (seq (within_set fuel) all_sets mst0))).

End Overlap.
