(* C16 -- ExecutePlan (plan.go) under cancellation, as a labelled transition system.

   caller      ExecutePlan's own goroutine: CInit -(LSpawn: make(chan *Result, cap); go func)-> CSelect
               -(LRetCtx: case <-ctx.Done())-> CReturned RetCtx
               -(LRetRes: case r := <-resultChannel)-> CReturned (RetResp r)
   background  the goroutine started by ExecutePlan: BVars (getVariableValues; a custom scalar's ParseValue is
               user code and may block on a gate) -> BRun k (the k-th resolver of n; user code, blocks until its
               gate is opened) -> ... -> BRun n -(LAssemble)-> BFinish r -(LSend: the deferred
               `resultChannel <- out`, possible only while the buffer has room)-> BExit
   environment LCall (the request is made), LDone (ctx.Done becomes ready: cancel or deadline, at any point),
               LOpenVars ok (the ParseValue gate opens; ok = coercion succeeds), LOpen o (the gate of the next
               resolver opens; o = the resolver returns a value (true) or an error (false))

   The response is abstract: RespFull outs = the response assembled from the outcomes of all resolvers
   (data and every error), RespVarErr = the response of a failed variable coercion.  Models only. *)
From Coq Require Import List Arith Bool.
Import ListNotations.

(* data assembled from the outcomes of all resolvers, and eCtx.Errors: the resolvers that failed, in order *)
Inductive resp := RespFull (outs : list bool) (errs : list nat) | RespVarErr.
Inductive ret := RetResp (r : resp) | RetCtx.

Inductive cpc := CIdle | CInit | CSelect | CReturned (r : ret).
Inductive bpc := BNone | BVars | BRun (k : nat) | BFinish (r : resp) | BExit.

Inductive label :=
| LCall | LDone | LOpenVars (ok : bool) | LOpen (o : bool)      (* environment *)
| LSpawn | LRetCtx | LRetRes                                     (* caller *)
| LVars | LResolve | LAssemble | LSend.                          (* background goroutine *)

Definition lib (l : label) : bool :=
  match l with LSpawn | LRetCtx | LRetRes | LVars | LResolve | LAssemble | LSend => true | _ => false end.
(* steps of the caller alone: no resolver, no background step *)
Definition caller (l : label) : bool :=
  match l with LSpawn | LRetCtx | LRetRes => true | _ => false end.

Record st := mk {
  cp : cpc; bp : bpc;
  ch : list resp;             (* the buffered result channel *)
  done : bool;                (* ctx.Done() is ready *)
  vgate : option bool;        (* ParseValue gate: opened? with which result *)
  gates : list bool;          (* outcomes of the resolver gates opened so far *)
  log : list bool;            (* outcomes consumed by the background goroutine (the data under construction) *)
  errs : list nat }.          (* eCtx.Errors: indices of the resolvers that returned an error so far *)

Definition init : st := mk CIdle BNone [] false None [] [] [].

(* the errors a complete response owes: one per failed resolver, in order *)
Fixpoint errors_from (k : nat) (outs : list bool) : list nat :=
  match outs with
  | [] => []
  | true :: r => errors_from (S k) r
  | false :: r => k :: errors_from (S k) r
  end.
Definition errors_of (outs : list bool) : list nat := errors_from 0 outs.

Section Lts.
Variable n : nat.      (* number of resolvers of the request *)
Variable cap : nat.    (* capacity of the result channel *)

Definition step_fn (s : st) (l : label) : option st :=
  match l with
  | LCall => match cp s with CIdle => Some (mk CInit (bp s) (ch s) (done s) (vgate s) (gates s) (log s) (errs s)) | _ => None end
  | LDone => Some (mk (cp s) (bp s) (ch s) true (vgate s) (gates s) (log s) (errs s))
  | LOpenVars ok => match vgate s with None => Some (mk (cp s) (bp s) (ch s) (done s) (Some ok) (gates s) (log s) (errs s)) | _ => None end
  | LOpen o => if length (gates s) <? n then Some (mk (cp s) (bp s) (ch s) (done s) (vgate s) (gates s ++ [o]) (log s) (errs s)) else None
  | LSpawn => match cp s, bp s with CInit, BNone => Some (mk CSelect BVars (ch s) (done s) (vgate s) (gates s) (log s) (errs s)) | _, _ => None end
  | LRetCtx => match cp s, done s with
               | CSelect, true => Some (mk (CReturned RetCtx) (bp s) (ch s) true (vgate s) (gates s) (log s) (errs s))
               | _, _ => None
               end
  | LRetRes => match cp s, ch s with
               | CSelect, r :: rest => Some (mk (CReturned (RetResp r)) (bp s) rest (done s) (vgate s) (gates s) (log s) (errs s))
               | _, _ => None
               end
  | LVars => match bp s, vgate s with
             | BVars, Some true => Some (mk (cp s) (BRun 0) (ch s) (done s) (vgate s) (gates s) (log s) (errs s))
             | BVars, Some false => Some (mk (cp s) (BFinish RespVarErr) (ch s) (done s) (vgate s) (gates s) (log s) (errs s))
             | _, _ => None
             end
  | LResolve => match bp s with
                | BRun k => if k <? n then
                              match nth_error (gates s) k with
                              | Some o => Some (mk (cp s) (BRun (S k)) (ch s) (done s) (vgate s) (gates s) (log s ++ [o]) (if o then errs s else errs s ++ [k]))
                              | None => None
                              end
                            else None
                | _ => None
                end
  | LAssemble => match bp s with
                 | BRun k => if k =? n then Some (mk (cp s) (BFinish (RespFull (log s) (errs s))) (ch s) (done s) (vgate s) (gates s) (log s) (errs s)) else None
                 | _ => None
                 end
  | LSend => match bp s with
             | BFinish r => if length (ch s) <? cap
                            then Some (mk (cp s) BExit (ch s ++ [r]) (done s) (vgate s) (gates s) (log s) (errs s))
                            else None
             | _ => None
             end
  end.

Definition step (s : st) (l : label) (s' : st) : Prop := step_fn s l = Some s'.

Inductive run : st -> list label -> st -> Prop :=
| run_nil : forall s, run s [] s
| run_cons : forall s l s1 ls s2, step s l s1 -> run s1 ls s2 -> run s (l :: ls) s2.

Definition reach (s : st) : Prop := exists ls, run init ls s.

Fixpoint exec_trace (s : st) (ls : list label) : option st :=
  match ls with
  | [] => Some s
  | l :: r => match step_fn s l with Some s1 => exec_trace s1 r | None => None end
  end.
Definition accepts (ls : list label) : bool := match exec_trace init ls with Some _ => true | None => false end.

Definition returned (s : st) : bool := match cp s with CReturned _ => true | _ => false end.
Definition bg_gone (s : st) : bool := match bp s with BNone | BExit => true | _ => false end.

(* every library step decreases this *)
Definition measure (s : st) : nat :=
  match cp s with CIdle => 3 | CInit => 2 | CSelect => 1 | CReturned _ => 0 end +
  match bp s with BNone => 2 * n + 6 | BVars => 2 * n + 5 | BRun k => 2 * (n - k) + 3 | BFinish _ => 1 | BExit => 0 end.

(* ---- observed traces ---- *)
Inductive obs :=
| OCall | ODone | OOpenVars (ok : bool) | OOpen (o : bool)
| ORet (r : ret)      (* the call has returned r *)
| OPending            (* the call has not returned although the driver waited for it *)
| OQuiet.             (* no goroutine of the library is left *)

Definition lib_labels : list label := [LSpawn; LRetCtx; LRetRes; LVars; LResolve; LAssemble; LSend].

Definition opt_list {A} (o : option A) : list A := match o with Some x => [x] | None => [] end.

Fixpoint list_eqb {A} (eqb : A -> A -> bool) (a b : list A) : bool :=
  match a, b with
  | [], [] => true
  | x :: a', y :: b' => eqb x y && list_eqb eqb a' b'
  | _, _ => false
  end.
Definition resp_eqb (a b : resp) : bool :=
  match a, b with
  | RespFull x e, RespFull y f => list_eqb Bool.eqb x y && list_eqb Nat.eqb e f
  | RespVarErr, RespVarErr => true
  | _, _ => false
  end.
Definition ret_eqb (a b : ret) : bool :=
  match a, b with
  | RetResp x, RetResp y => resp_eqb x y
  | RetCtx, RetCtx => true
  | _, _ => false
  end.
Definition cpc_eqb (a b : cpc) : bool :=
  match a, b with
  | CIdle, CIdle | CInit, CInit | CSelect, CSelect => true
  | CReturned x, CReturned y => ret_eqb x y
  | _, _ => false
  end.
Definition bpc_eqb (a b : bpc) : bool :=
  match a, b with
  | BNone, BNone | BVars, BVars | BExit, BExit => true
  | BRun x, BRun y => x =? y
  | BFinish x, BFinish y => resp_eqb x y
  | _, _ => false
  end.
Definition ob_eqb (a b : option bool) : bool :=
  match a, b with Some x, Some y => Bool.eqb x y | None, None => true | _, _ => false end.
Definition st_eqb (a b : st) : bool :=
  cpc_eqb (cp a) (cp b) && bpc_eqb (bp a) (bp b) && list_eqb resp_eqb (ch a) (ch b) && Bool.eqb (done a) (done b) &&
  ob_eqb (vgate a) (vgate b) && list_eqb Bool.eqb (gates a) (gates b) && list_eqb Bool.eqb (log a) (log b) &&
  list_eqb Nat.eqb (errs a) (errs b).
Fixpoint dedup (l : list st) : list st :=
  match l with
  | [] => []
  | x :: r => if existsb (st_eqb x) r then dedup r else x :: dedup r
  end.

Definition lib_round (ss : list st) : list st :=
  flat_map (fun s => flat_map (fun l => opt_list (step_fn s l)) lib_labels) ss.
Fixpoint lib_closure (fuel : nat) (ss : list st) : list st :=
  match fuel with
  | O => ss
  | S f => ss ++ lib_closure f (dedup (lib_round ss))
  end.

Definition obs_step (s : st) (o : obs) : list st :=
  match o with
  | OCall => opt_list (step_fn s LCall)
  | ODone => opt_list (step_fn s LDone)
  | OOpenVars ok => opt_list (step_fn s (LOpenVars ok))
  | OOpen b => opt_list (step_fn s (LOpen b))
  | ORet r => match cp s with CReturned r' => if ret_eqb r r' then [s] else [] | _ => [] end
  | OPending => if returned s then [] else [s]
  | OQuiet => if bg_gone s then [s] else []
  end.

Definition obs_after (ss : list st) (o : obs) : list st :=
  dedup (flat_map (fun s => obs_step s o) (dedup (lib_closure (2 * n + 12) ss))).

Fixpoint obs_run (ss : list st) (os : list obs) : list st :=
  match os with
  | [] => ss
  | o :: r => obs_run (obs_after ss o) r
  end.
Definition accepts_obs (os : list obs) : bool := match obs_run [init] os with [] => false | _ => true end.

(* what an observation means on runs: environment labels are seen when they happen, the three
   state observations hold of the current state *)
Definition env_obs (l : label) : option obs :=
  match l with
  | LCall => Some OCall | LDone => Some ODone | LOpenVars ok => Some (OOpenVars ok) | LOpen o => Some (OOpen o)
  | _ => None
  end.
Definition holds (o : obs) (s : st) : Prop :=
  match o with
  | ORet r => cp s = CReturned r
  | OPending => returned s = false
  | OQuiet => bg_gone s = true
  | _ => False
  end.
Inductive orun : st -> list obs -> st -> Prop :=
| or_nil : forall s, orun s [] s
| or_lib : forall s l s1 os s2, lib l = true -> step s l s1 -> orun s1 os s2 -> orun s os s2
| or_env : forall s l s1 o os s2, env_obs l = Some o -> step s l s1 -> orun s1 os s2 -> orun s (o :: os) s2
| or_state : forall s o os s2, holds o s -> orun s os s2 -> orun s (o :: os) s2.
End Lts.
