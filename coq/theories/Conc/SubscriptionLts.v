(* C15 -- graphql.Subscribe / ExecuteSubscription (subscription.go) as a labelled transition system.

   Processes
     source     the stream handed out by the Subscribe resolver: events still to be emitted (srcq),
                events sitting in the source channel (inch), closed or not (sclosed)
     forwarder  the goroutine started by ExecuteSubscription (program counter fwd):
                  PStart            buildExecutionContext, operation type, collectFields, getFieldDef,
                                    getArgumentValues and the call of the Subscribe resolver (one step LSetup
                                    whose outcome is the parameter `setup` of the initial state)
                  PRecv             for { select { case <-ctx.Done(): return; case res, more := <-sub: ... } }
                  PExec e k         mapSourceToResponse(e) = Execute with e as root value
                  PSend v k         the send of v on the unbuffered result channel at send site k; with
                                    `sel k = true` the send is one arm of a select whose other arm is ctx.Done
                  PClosing w        the deferred close(resultChannel)
                  PDone w           goroutine gone
                for a request that fails to parse or validate no goroutine exists: sendOneResultAndClose runs in
                the caller (POneSend: buffered send on a channel of capacity cap; POneClose: close) and the
                channel reaches the consumer only afterwards
     consumer   receives (LDeliver = rendezvous with the forwarder's send, LRecvBuf = from the buffer of the
                one-shot channel, LObsClosed = receive on the closed, drained channel) or stops for good (LStop)
     canceller  LCancel: ctx.Done() becomes ready and stays so

   Every recv / send / select arm / close / return is one labelled step.  `step_fn` is the transition
   function; `step s l s'` is `step_fn s l = Some s'`, so the relation is executable and `accepts` can
   replay observed traces.  What this LTS cannot exhibit: scheduler fairness, the Go memory model, real
   goroutine leaks, timers.  Models only; the proofs are in Proofs/ConcSubscription.v. *)
From Coq Require Import List Arith Bool.
Import ListNotations.

(* send sites of the forwarder goroutine *)
Inductive site := SLoop    (* resultChannel <- mapSourceToResponse(res) inside the event loop *)
                | SErr     (* resultChannel <- &Result{Errors: ...} for a failure before/in the Subscribe resolver *)
                | SValue.  (* resultChannel <- mapSourceToResponse(fieldResult) for a non-channel source *)

Inductive exit := ExitEnd       (* source closed and drained *)
                | ExitCancel    (* a ctx.Done arm fired *)
                | ExitOnce      (* the single result of the error / non-channel path was delivered *)
                | ExitSilent    (* goroutine ended without any result *)
                | ExitOneShot.  (* sendOneResultAndClose finished *)

Inductive front := FrontOk | FrontFail.   (* parse + validate of Subscribe *)

Inductive label :=
| LCancel | LEmit | LCloseSrc                    (* environment: canceller, source *)
| LStop | LDeliver | LRecvBuf | LObsClosed       (* consumer (LDeliver jointly with the forwarder) *)
| LSetup | LTake | LEnd | LQuitRecv | LExec | LExecCtx | LQuitSend | LCloseRes   (* forwarder *)
| LOneSend | LOneClose.                          (* sendOneResultAndClose in the caller *)

(* steps taken by library code alone (no consumer, source or canceller participates) *)
Definition lib (l : label) : bool :=
  match l with
  | LSetup | LTake | LEnd | LQuitRecv | LExec | LExecCtx | LQuitSend | LCloseRes | LOneSend | LOneClose => true
  | _ => false
  end.

(* steps that need the consumer *)
Definition cons (l : label) : bool :=
  match l with LDeliver | LRecvBuf | LObsClosed | LStop => true | _ => false end.

Section Sub.
Variable ev res : Type.
Variable exec : ev -> res.          (* executing the subscription's selection with the event as root value *)
Variable sel : site -> bool.        (* does the send at this site also watch ctx.Done() *)
Variable cap : nat.                 (* capacity of the channel made by sendOneResultAndClose *)

(* what travels on the result channel *)
Inductive dres := Normal (r : res)  (* result of a per-event execution *)
                | CtxErr            (* per-event execution cut short by the cancelled context: no data, ctx.Err() *)
                | ErrRes.           (* the one error result of a failed request *)

Inductive setup := SetChan | SetErr | SetValue (v : ev) | SetSilent.

Inductive pc :=
| POneSend | POneClose
| PStart (su : setup)
| PRecv
| PExec (e : ev) (k : site)
| PSend (v : dres) (k : site)
| PClosing (w : exit)
| PDone (w : exit).

Record st := mk {
  srcq : list ev; inch : list ev; sclosed : bool;
  fwd : pc;
  buf : list dres; rclosed : bool;
  out : list dres; seen_closed : bool; stopped : bool;
  cancelled : bool }.

Definition init (f : front) (su : setup) (es : list ev) : st :=
  mk es [] false (match f with FrontOk => PStart su | FrontFail => POneSend end)
     [] false [] false false false.

(* the consumer holds the channel: always on the goroutine path, only after the close on the one-shot path *)
Definition has_chan (s : st) : bool :=
  match fwd s with POneSend | POneClose => false | _ => true end.

Definition after_send (k : site) : pc :=
  match k with SLoop => PRecv | _ => PClosing ExitOnce end.

Definition set_fwd (s : st) (p : pc) : st :=
  mk (srcq s) (inch s) (sclosed s) p (buf s) (rclosed s) (out s) (seen_closed s) (stopped s) (cancelled s).

Definition step_fn (s : st) (l : label) : option st :=
  match l with
  | LCancel => Some (mk (srcq s) (inch s) (sclosed s) (fwd s) (buf s) (rclosed s) (out s) (seen_closed s) (stopped s) true)
  | LEmit => match srcq s, sclosed s with
             | e :: r, false => Some (mk r (inch s ++ [e]) false (fwd s) (buf s) (rclosed s) (out s) (seen_closed s) (stopped s) (cancelled s))
             | _, _ => None
             end
  | LCloseSrc => if sclosed s then None
                 else Some (mk (srcq s) (inch s) true (fwd s) (buf s) (rclosed s) (out s) (seen_closed s) (stopped s) (cancelled s))
  | LStop => Some (mk (srcq s) (inch s) (sclosed s) (fwd s) (buf s) (rclosed s) (out s) (seen_closed s) true (cancelled s))
  | LDeliver => match fwd s, stopped s with
                | PSend v k, false =>
                  Some (mk (srcq s) (inch s) (sclosed s) (after_send k) (buf s) (rclosed s) (out s ++ [v]) (seen_closed s) false (cancelled s))
                | _, _ => None
                end
  | LRecvBuf => match buf s, stopped s, has_chan s with
                | v :: r, false, true =>
                  Some (mk (srcq s) (inch s) (sclosed s) (fwd s) r (rclosed s) (out s ++ [v]) (seen_closed s) false (cancelled s))
                | _, _, _ => None
                end
  | LObsClosed => match buf s, stopped s, has_chan s, rclosed s with
                  | [], false, true, true =>
                    Some (mk (srcq s) (inch s) (sclosed s) (fwd s) [] true (out s) true false (cancelled s))
                  | _, _, _, _ => None
                  end
  | LSetup => match fwd s with
              | PStart SetChan => Some (set_fwd s PRecv)
              | PStart SetErr => Some (set_fwd s (PSend ErrRes SErr))
              | PStart (SetValue v) => Some (set_fwd s (PExec v SValue))
              | PStart SetSilent => Some (set_fwd s (PClosing ExitSilent))
              | _ => None
              end
  | LTake => match fwd s, inch s with
             | PRecv, e :: r => Some (mk (srcq s) r (sclosed s) (PExec e SLoop) (buf s) (rclosed s) (out s) (seen_closed s) (stopped s) (cancelled s))
             | _, _ => None
             end
  | LEnd => match fwd s, inch s, sclosed s with
            | PRecv, [], true => Some (set_fwd s (PClosing ExitEnd))
            | _, _, _ => None
            end
  | LQuitRecv => match fwd s, cancelled s with
                 | PRecv, true => Some (set_fwd s (PClosing ExitCancel))
                 | _, _ => None
                 end
  | LExec => match fwd s with
             | PExec e k => Some (set_fwd s (PSend (Normal (exec e)) k))
             | _ => None
             end
  | LExecCtx => match fwd s, cancelled s with
                | PExec e k, true => Some (set_fwd s (PSend CtxErr k))
                | _, _ => None
                end
  | LQuitSend => match fwd s, cancelled s with
                 | PSend v k, true => if sel k then Some (set_fwd s (PClosing ExitCancel)) else None
                 | _, _ => None
                 end
  | LCloseRes => match fwd s with
                 | PClosing w => Some (mk (srcq s) (inch s) (sclosed s) (PDone w) (buf s) true (out s) (seen_closed s) (stopped s) (cancelled s))
                 | _ => None
                 end
  | LOneSend => match fwd s with
                | POneSend => if length (buf s) <? cap
                              then Some (mk (srcq s) (inch s) (sclosed s) POneClose (buf s ++ [ErrRes]) (rclosed s) (out s) (seen_closed s) (stopped s) (cancelled s))
                              else None
                | _ => None
                end
  | LOneClose => match fwd s with
                 | POneClose => Some (mk (srcq s) (inch s) (sclosed s) (PDone ExitOneShot) (buf s) true (out s) (seen_closed s) (stopped s) (cancelled s))
                 | _ => None
                 end
  end.

Definition step (s : st) (l : label) (s' : st) : Prop := step_fn s l = Some s'.

Inductive run : st -> list label -> st -> Prop :=
| run_nil : forall s, run s [] s
| run_cons : forall s l s1 ls s2, step s l s1 -> run s1 ls s2 -> run s (l :: ls) s2.

Definition reach (s0 s : st) : Prop := exists ls, run s0 ls s.

(* replaying a schedule *)
Fixpoint exec_trace (s : st) (ls : list label) : option st :=
  match ls with
  | [] => Some s
  | l :: r => match step_fn s l with Some s1 => exec_trace s1 r | None => None end
  end.

Definition accepts (s0 : st) (ls : list label) : bool :=
  match exec_trace s0 ls with Some _ => true | None => false end.

Definition all_labels : list label :=
  [LCancel; LEmit; LCloseSrc; LStop; LDeliver; LRecvBuf; LObsClosed; LSetup; LTake; LEnd; LQuitRecv;
   LExec; LExecCtx; LQuitSend; LCloseRes; LOneSend; LOneClose].

Definition lib_labels : list label := filter lib all_labels.

Definition enabled (s : st) (l : label) : bool :=
  match step_fn s l with Some _ => true | None => false end.

Definition lib_enabled (s : st) : Prop := exists l s', lib l = true /\ step s l s'.

Definition fwd_done (s : st) : bool := match fwd s with PDone _ => true | _ => false end.

(* results held by the forwarder but not yet handed over; events taken but not yet executed *)
Definition pending (p : pc) : list dres := match p with PSend v SLoop => [v] | _ => [] end.
Definition inexec (p : pc) : list ev := match p with PExec e SLoop => [e] | _ => [] end.

(* a delivered result is right for event e *)
Definition ok_for (e : ev) (d : dres) : Prop := d = Normal (exec e) \/ d = CtxErr.

(* every library-only step decreases this *)
Definition pc_weight (p : pc) : nat :=
  match p with
  | POneSend => 4 | POneClose => 2
  | PStart _ => 5
  | PRecv => 2
  | PExec _ _ => 4
  | PSend _ _ => 3
  | PClosing _ => 1
  | PDone _ => 0
  end.
Definition measure (s : st) : nat := 5 * length (inch s) + pc_weight (fwd s) + length (buf s).

(* ------------------------------------------------------------------ *)
(* Observed traces: what a test driver can see of a run.  The forwarder's own steps are invisible;
   `accepts_obs` follows the set of states the system may be in (closure under library steps). *)

Inductive obs :=
| OCancel | OEmit | OCloseSrc | OStop
| ORecv (v : dres)          (* the consumer received v *)
| OClosed                   (* the consumer's receive reported the channel closed *)
| OQuiet.                   (* the driver saw every library goroutine gone *)

Variable res_eqb : res -> res -> bool.
Variable ev_eqb : ev -> ev -> bool.

Definition dres_eqb (a b : dres) : bool :=
  match a, b with
  | Normal x, Normal y => res_eqb x y
  | CtxErr, CtxErr => true
  | ErrRes, ErrRes => true
  | _, _ => false
  end.

Definition last_is (l : list dres) (v : dres) : bool :=
  match rev l with x :: _ => dres_eqb x v | [] => false end.

(* state equality test, used only to keep the state sets small (soundness does not depend on it) *)
Fixpoint list_eqb {A} (eqb : A -> A -> bool) (a b : list A) : bool :=
  match a, b with
  | [], [] => true
  | x :: a', y :: b' => eqb x y && list_eqb eqb a' b'
  | _, _ => false
  end.
Definition site_eqb (a b : site) : bool :=
  match a, b with SLoop, SLoop | SErr, SErr | SValue, SValue => true | _, _ => false end.
Definition exit_eqb (a b : exit) : bool :=
  match a, b with
  | ExitEnd, ExitEnd | ExitCancel, ExitCancel | ExitOnce, ExitOnce | ExitSilent, ExitSilent | ExitOneShot, ExitOneShot => true
  | _, _ => false
  end.
Definition setup_eqb (a b : setup) : bool :=
  match a, b with
  | SetChan, SetChan | SetErr, SetErr | SetSilent, SetSilent => true
  | SetValue x, SetValue y => ev_eqb x y
  | _, _ => false
  end.
Definition pc_eqb (a b : pc) : bool :=
  match a, b with
  | POneSend, POneSend | POneClose, POneClose | PRecv, PRecv => true
  | PStart x, PStart y => setup_eqb x y
  | PExec e k, PExec e' k' => ev_eqb e e' && site_eqb k k'
  | PSend v k, PSend v' k' => dres_eqb v v' && site_eqb k k'
  | PClosing w, PClosing w' | PDone w, PDone w' => exit_eqb w w'
  | _, _ => false
  end.
Definition st_eqb (a b : st) : bool :=
  list_eqb ev_eqb (srcq a) (srcq b) && list_eqb ev_eqb (inch a) (inch b) && Bool.eqb (sclosed a) (sclosed b) &&
  pc_eqb (fwd a) (fwd b) && list_eqb dres_eqb (buf a) (buf b) && Bool.eqb (rclosed a) (rclosed b) &&
  list_eqb dres_eqb (out a) (out b) && Bool.eqb (seen_closed a) (seen_closed b) &&
  Bool.eqb (stopped a) (stopped b) && Bool.eqb (cancelled a) (cancelled b).

Fixpoint dedup (l : list st) : list st :=
  match l with
  | [] => []
  | x :: r => if existsb (st_eqb x) r then dedup r else x :: dedup r
  end.

Definition opt_list {A} (o : option A) : list A := match o with Some x => [x] | None => [] end.

(* one round of library steps from every state of the set *)
Definition lib_round (ss : list st) : list st :=
  flat_map (fun s => flat_map (fun l => opt_list (step_fn s l)) lib_labels) ss.

Fixpoint lib_closure (fuel : nat) (ss : list st) : list st :=
  match fuel with
  | O => ss
  | S f => ss ++ lib_closure f (dedup (lib_round ss))
  end.

Definition obs_step (s : st) (o : obs) : list st :=
  match o with
  | OCancel => opt_list (step_fn s LCancel)
  | OEmit => opt_list (step_fn s LEmit)
  | OCloseSrc => opt_list (step_fn s LCloseSrc)
  | OStop => opt_list (step_fn s LStop)
  | ORecv v => filter (fun s' => last_is (out s') v) (opt_list (step_fn s LDeliver) ++ opt_list (step_fn s LRecvBuf))
  | OClosed => opt_list (step_fn s LObsClosed)
  | OQuiet => if fwd_done s then [s] else []
  end.

Definition closure_fuel (ss : list st) : nat := S (fold_right (fun s m => Nat.max (measure s) m) 0 ss).

Definition obs_after (ss : list st) (o : obs) : list st :=
  dedup (flat_map (fun s => obs_step s o) (dedup (lib_closure (closure_fuel ss) ss))).

Fixpoint obs_run (ss : list st) (os : list obs) : list st :=
  match os with
  | [] => ss
  | o :: r => obs_run (obs_after ss o) r
  end.

Definition accepts_obs (s0 : st) (os : list obs) : bool :=
  match obs_run [s0] os with [] => false | _ => true end.

(* what a run shows to the driver: library steps show nothing *)
Definition shows (l : label) (s1 : st) (o : obs) : Prop :=
  match l, o with
  | LCancel, OCancel | LEmit, OEmit | LCloseSrc, OCloseSrc | LStop, OStop | LObsClosed, OClosed => True
  | LDeliver, ORecv v | LRecvBuf, ORecv v => exists pre, out s1 = pre ++ [v]
  | _, _ => False
  end.

Inductive orun : st -> list obs -> st -> Prop :=
| or_nil : forall s, orun s [] s
| or_lib : forall s l s1 os s2, lib l = true -> step s l s1 -> orun s1 os s2 -> orun s os s2
| or_vis : forall s l s1 o os s2, step s l s1 -> shows l s1 o -> orun s1 os s2 -> orun s (o :: os) s2
| or_quiet : forall s os s2, fwd_done s = true -> orun s os s2 -> orun s (OQuiet :: os) s2.
End Sub.

Arguments Normal {res} _.
Arguments CtxErr {res}.
Arguments ErrRes {res}.
Arguments SetChan {ev}.
Arguments SetErr {ev}.
Arguments SetValue {ev} _.
Arguments SetSilent {ev}.
Arguments POneSend {ev res}.
Arguments POneClose {ev res}.
Arguments PStart {ev res} _.
Arguments PRecv {ev res}.
Arguments PExec {ev res} _ _.
Arguments PSend {ev res} _ _.
Arguments PClosing {ev res} _.
Arguments PDone {ev res} _.
Arguments srcq {ev res} _.
Arguments inch {ev res} _.
Arguments sclosed {ev res} _.
Arguments fwd {ev res} _.
Arguments buf {ev res} _.
Arguments rclosed {ev res} _.
Arguments out {ev res} _.
Arguments seen_closed {ev res} _.
Arguments stopped {ev res} _.
Arguments cancelled {ev res} _.
Arguments ORecv {res} _.
Arguments OCancel {res}.
Arguments OEmit {res}.
Arguments OCloseSrc {res}.
Arguments OStop {res}.
Arguments OClosed {res}.
Arguments OQuiet {res}.
