(* C07 -- lock discipline of the library's request-time shared state.

   Programs are lists of actions  Acq m | Rel m | Rd loc | Wr loc ; a configuration holds, per
   thread, the mutexes it holds and the rest of its program; a scheduler picks which thread moves
   (`step`); an Acq is enabled only while no thread holds the mutex.  A data race is a reachable
   configuration in which two different threads are both about to access the same location and one
   of the accesses is a write (two conflicting accesses that no synchronisation orders).

   `scan` is the static lockset check: walking a program with the set of held mutexes, every access
   must be covered by the location's guard (`guard loc = Some m` with m held; a location without
   guard may only be read: it is written during construction only).

   The second part models idempotent lazy initialisation: slots hold `None` or a value, `Get` fills
   an empty slot with `init_value slot`, `Reset` empties it; requests are lists of such operations
   whose results are the values their Gets returned.

   The instance (bottom) is the access summary of the library's request-time operations: which
   locations they read and write under which mutex.  Models only; proofs in Proofs/ConcLocks.v. *)
From Coq Require Import List Arith Bool NArith.
Import ListNotations.

Inductive action := Acq (m : nat) | Rel (m : nat) | Rd (l : nat) | Wr (l : nat).

Definition mem_nat (x : nat) (l : list nat) : bool := existsb (Nat.eqb x) l.
Fixpoint remove_nat (x : nat) (l : list nat) : list nat :=
  match l with
  | [] => []
  | y :: r => if Nat.eqb x y then r else y :: remove_nat x r
  end.

Section Lockset.
Variable guard : nat -> option nat.     (* location -> the mutex that protects it *)

Definition access_ok (held : list nat) (a : action) : bool :=
  match a with
  | Rd l => match guard l with Some m => mem_nat m held | None => true end
  | Wr l => match guard l with Some m => mem_nat m held | None => false end
  | _ => true
  end.

(* static lockset scan: final set of held mutexes, or None when the discipline is broken *)
Fixpoint scan (held : list nat) (p : list action) : option (list nat) :=
  match p with
  | [] => Some held
  | Acq m :: r => if mem_nat m held then None else scan (m :: held) r
  | Rel m :: r => if mem_nat m held then scan (remove_nat m held) r else None
  | a :: r => if access_ok held a then scan held r else None
  end.

Definition scans (held : list nat) (p : list action) : bool :=
  match scan held p with Some _ => true | None => false end.

(* an operation of the summary: starts and ends holding nothing *)
Definition op_ok (p : list action) : bool :=
  match scan [] p with Some [] => true | _ => false end.

(* ---- interleaving semantics ---- *)
Definition thread := (list nat * list action)%type.     (* held mutexes, rest of the program *)
Definition cfg := list thread.

Definition held_by_someone (m : nat) (c : cfg) : bool := existsb (fun t => mem_nat m (fst t)) c.

Definition thread_step (c : cfg) (t : thread) : option thread :=
  match t with
  | (h, Acq m :: r) => if held_by_someone m c then None else Some (m :: h, r)
  | (h, Rel m :: r) => if mem_nat m h then Some (remove_nat m h, r) else None
  | (h, _ :: r) => Some (h, r)
  | (_, []) => None
  end.

Fixpoint set_nth {A} (i : nat) (x : A) (l : list A) : list A :=
  match l, i with
  | [], _ => []
  | _ :: r, O => x :: r
  | y :: r, S j => y :: set_nth j x r
  end.

(* thread i moves *)
Definition step (c : cfg) (i : nat) : option cfg :=
  match nth_error c i with
  | Some t => match thread_step c t with Some t' => Some (set_nth i t' c) | None => None end
  | None => None
  end.

Inductive reach (c0 : cfg) : cfg -> Prop :=
| reach_refl : reach c0 c0
| reach_step : forall c i c', reach c0 c -> step c i = Some c' -> reach c0 c'.

(* run a schedule (thread ids); a disabled choice is skipped *)
Fixpoint run_sched (c : cfg) (sched : list nat) : cfg :=
  match sched with
  | [] => c
  | i :: r => match step c i with Some c' => run_sched c' r | None => run_sched c r end
  end.

Definition init_cfg (progs : list (list action)) : cfg := map (fun p => ([], p)) progs.

Definition next_access (t : thread) : option (nat * bool) :=    (* location, is a write *)
  match snd t with
  | Rd l :: _ => Some (l, false)
  | Wr l :: _ => Some (l, true)
  | _ => None
  end.

(* two different threads about to perform conflicting accesses to one location *)
Definition race (c : cfg) : Prop :=
  exists i j ti tj l wi wj, i <> j /\ nth_error c i = Some ti /\ nth_error c j = Some tj /\
    next_access ti = Some (l, wi) /\ next_access tj = Some (l, wj) /\ (wi = true \/ wj = true).

Definition well_guarded (progs : list (list action)) : bool := forallb (scans []) progs.
End Lockset.

(* ------------------------------------------------------------------ *)
(* Lock order and deadlock.  A thread is blocked when its next action is an Acq of a mutex somebody
   holds; a configuration is deadlocked when some thread is unfinished and no thread can move.
   `oscan` is the static lock-order check: every Acq m happens while holding only mutexes of
   strictly smaller rank, every Rel releases a held mutex, a program ends holding nothing. *)
Section Order.
Variable rank : nat -> nat.

Fixpoint oscan (held : list nat) (p : list action) : option (list nat) :=
  match p with
  | [] => Some held
  | Acq m :: r => if forallb (fun x => rank x <? rank m) held then oscan (m :: held) r else None
  | Rel m :: r => if mem_nat m held then oscan (remove_nat m held) r else None
  | _ :: r => oscan held r
  end.

Definition ordered (held : list nat) (p : list action) : bool :=
  match oscan held p with Some [] => true | _ => false end.

Definition well_ordered (progs : list (list action)) : bool := forallb (ordered []) progs.
End Order.

Definition unfinished (c : cfg) : Prop := exists i t, nth_error c i = Some t /\ snd t <> [].
Definition can_move (c : cfg) : Prop := exists i c', step c i = Some c'.

(* ------------------------------------------------------------------ *)
(* Idempotent lazy initialisation *)

Section Lazy.
Variable V : Type.
Variable init_value : nat -> V.        (* what the initialiser of a slot computes: a function of the slot only *)

Inductive lop := Get (s : nat) | Reset (s : nat).
Definition lmem := nat -> option V.

Definition lmem_set (m : lmem) (s : nat) (v : option V) : lmem := fun x => if Nat.eqb x s then v else m x.

(* one operation, atomic (it runs under the slot's mutex) *)
Definition do_lop (m : lmem) (o : lop) : lmem * list V :=
  match o with
  | Get s => match m s with
             | Some v => (m, [v])
             | None => (lmem_set m s (Some (init_value s)), [init_value s])
             end
  | Reset s => (lmem_set m s None, [])
  end.

Definition lthread := (list V * list lop)%type.      (* results so far, rest of the request *)

Definition lstep (m : lmem) (c : list lthread) (i : nat) : option (lmem * list lthread) :=
  match nth_error c i with
  | Some (res, o :: r) => let '(m', out) := do_lop m o in Some (m', set_nth i (res ++ out, r) c)
  | _ => None
  end.

Fixpoint lrun (m : lmem) (c : list lthread) (sched : list nat) : lmem * list lthread :=
  match sched with
  | [] => (m, c)
  | i :: r => match lstep m c i with Some (m', c') => lrun m' c' r | None => lrun m c r end
  end.

Fixpoint run_alone (m : lmem) (p : list lop) : list V :=
  match p with
  | [] => []
  | o :: r => let '(m', out) := do_lop m o in out ++ run_alone m' r
  end.

Definition empty_lmem : lmem := fun _ => None.
Definition linit (reqs : list (list lop)) : list lthread := map (fun p => ([], p)) reqs.
Definition finished (c : list lthread) : Prop := forall t, In t c -> snd t = [].
End Lazy.


(* ------------------------------------------------------------------ *)
(* The access summary of the library's request-time operations (after fixes 82aa91f, 3c034cc and
   ddaa07b's planMu).  Hand-written from definition.go / schema.go / plan.go / plan_cache.go. *)

(* locations *)
Definition L_enum_values := 0.      (* Enum.valuesLookup *)
Definition L_enum_names := 1.       (* Enum.nameLookup *)
Definition L_possible := 2.         (* Schema.possibleTypeMap *)
Definition L_obj_fields := 3.       (* Object.fields / initialisedFields *)
Definition L_obj_ifaces := 4.       (* Object.interfaces / initialisedInterfaces *)
Definition L_iface_fields := 5.     (* Interface.fields / initialisedFields *)
Definition L_union_types := 6.      (* Union.types / initalizedTypes *)
Definition L_input_fields := 7.     (* InputObject.fields / init *)
Definition L_alternatives := 8.     (* fieldPlan.abstractAlternatives (all fieldPlans of one Plan) *)
Definition L_subplans := 9.         (* Plan.subPlans and the selectionPlans being built *)
Definition L_cache_entries := 10.   (* PlanCache.entries *)
Definition L_cache_order := 11.     (* PlanCache.order *)
Definition L_hits := 12.            (* PlanCache.hits (atomic) *)
Definition L_misses := 13.          (* PlanCache.misses (atomic) *)
Definition L_typemap := 14.         (* Schema.typeMap, directives, root types: read only *)

(* mutexes *)
Definition M_abstract := 0.         (* Plan.abstractMu *)
Definition M_plan := 1.             (* Plan.planMu *)
Definition M_cache := 2.            (* PlanCache.mu *)
Definition M_hits := 3.             (* an atomic counter is its own tiny critical section *)
Definition M_misses := 4.

Definition lib_guard (l : nat) : option nat :=
  match l with
  | 8 => Some M_abstract
  | 9 => Some M_plan
  | 10 | 11 => Some M_cache
  | 12 => Some M_hits
  | 13 => Some M_misses
  | _ => None          (* built by the constructors / NewSchema, read-only at request time *)
  end.

Definition atomic_rw (m l : nat) : list action := [Acq m; Rd l; Wr l; Rel m].
Definition atomic_rd (m l : nat) : list action := [Acq m; Rd l; Rel m].

Definition op_enum_serialize := [Rd L_enum_values].
Definition op_enum_parse := [Rd L_enum_names].
Definition op_is_possible_type := [Rd L_possible; Rd L_union_types; Rd L_obj_ifaces].
Definition op_object_fields := [Rd L_obj_fields].
Definition op_object_interfaces := [Rd L_obj_ifaces].
Definition op_interface_fields := [Rd L_iface_fields].
Definition op_union_types := [Rd L_union_types].
Definition op_input_fields := [Rd L_input_fields].
Definition op_schema_lookup := [Rd L_typemap].
(* Plan.abstractAlternative: abstractMu around the map; planning the missing alternative takes planMu inside *)
Definition op_abstract_alternative :=
  [Acq M_abstract; Rd L_alternatives; Acq M_plan; Rd L_subplans; Rd L_obj_fields; Wr L_subplans; Rel M_plan;
   Wr L_alternatives; Rel M_abstract].
Definition op_collect_at_runtime := [Acq M_plan; Rd L_subplans; Rd L_obj_fields; Wr L_subplans; Rel M_plan].
Definition op_cache_lookup :=
  [Acq M_cache; Rd L_cache_entries] ++ atomic_rw M_misses L_misses ++
  [Rd L_cache_order; Wr L_cache_order; Wr L_cache_entries] ++ atomic_rw M_hits L_hits ++ [Rel M_cache].
Definition op_cache_store :=
  [Acq M_cache; Rd L_cache_entries; Wr L_cache_entries; Rd L_cache_order; Wr L_cache_order; Rel M_cache].
Definition op_cache_reset := [Acq M_cache; Wr L_cache_entries; Wr L_cache_order; Rel M_cache].
Definition op_cache_hitsmisses := atomic_rd M_hits L_hits ++ atomic_rd M_misses L_misses.

Definition lib_ops : list (list action) :=
  [op_enum_serialize; op_enum_parse; op_is_possible_type; op_object_fields; op_object_interfaces;
   op_interface_fields; op_union_types; op_input_fields; op_schema_lookup; op_abstract_alternative;
   op_collect_at_runtime; op_cache_lookup; op_cache_store; op_cache_reset; op_cache_hitsmisses].

(* the same operations as the code had them before the repairs / as the mutants have them *)
Definition op_enum_serialize_lazy := [Rd L_enum_values; Wr L_enum_values].                 (* before 82aa91f *)
Definition op_is_possible_type_lazy := [Rd L_possible; Wr L_possible].                     (* before 3c034cc *)
Definition op_abstract_alternative_nomutex :=                                              (* c07_no_abstract_mutex *)
  [Rd L_alternatives; Acq M_plan; Rd L_subplans; Wr L_subplans; Rel M_plan; Wr L_alternatives].
Definition op_cache_reset_nolock := [Wr L_cache_entries; Wr L_cache_order].                (* c07_reset_without_lock *)

(* the lock order of the code: abstractMu is taken before planMu (abstractAlternative plans under both),
   the cache mutex before the counters; the rank of a mutex is its number *)
Definition lib_rank (m : nat) : nat := m.

(* request-level entry points as sequences of summary operations (ids into lib_ops) *)
Definition op_of_id (k : nat) : list action := nth k lib_ops [].
Definition prog_of_ids (ks : list nat) : list action := flat_map op_of_id ks.
