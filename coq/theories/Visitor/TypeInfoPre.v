(* C14 -- checked precondition of C14_typeinfo: the kind of a node is determined by its
   identity (no identity occurs twice in the tree), so the id -> kind table of the tree is a
   function.  No proofs here. *)
From Coq Require Import List NArith Bool.
From GQL Require Import Visitor.VisitorTree Visitor.VisitorLoop Visitor.VisitorKeysSpec Visitor.TypeInfo.
Import ListNotations.
Open Scope N_scope.

Definition kinds_fun (t : gnode) : bool := nodupb N.eqb (map fst (kinds_of t)).

Definition kind_of_tbl (tbl : list (N * N)) (id : N) : N :=
  match assoc id tbl with Some k => k | None => 9999 end.
Definition kind_of_tree (t : gnode) : N -> N := kind_of_tbl (kinds_of t).

(* ---- Model: the validator's composition VisitWithTypeInfo(typeInfo, VisitInParallel(subs...)) ----
   The loop sees the generic functions of the VisitWithTypeInfo wrapper, whose answer is the
   parallel wrapper's: always no-change.  Per traversal event: TypeInfo.Enter, then the parallel
   dispatch (skipping marks per sub-visitor, Loop.par_step) on enter; the dispatch, then
   TypeInfo.Leave on leave.  What one sub-visitor (sel, pol) reads from the TypeInfo inside
   its callbacks: *)
Section Stacked.
Variable sch : tschema.
Variable attr : N -> nattr.
Variable sel : N -> phase -> option N.
Variable pol : N -> phase -> action.

Fixpoint stack_run (st : tistate) (sk : option skipmark) (evs : list event) : list (phase * N * tenv) :=
  match evs with
  | [] => []
  | e :: r =>
    let '(sk', seen) := par_step sel pol sk e in
    match e_phase e with
    | PEnter =>
      let st1 := ti_enter sch attr st (e_id e) (e_kind e) in
      (if is_nil seen then [] else [(PEnter, e_id e, tops st1)]) ++ stack_run st1 sk' r
    | PLeave =>
      (if is_nil seen then [] else [(PLeave, e_id e, tops st)]) ++ stack_run (ti_leave st (e_kind e)) sk' r
    end
  end.
End Stacked.
