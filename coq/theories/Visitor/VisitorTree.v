(* C14 -- generic AST view walked by the visitor, events, traces.
   A node is an identity (the Go pointer), its kind, and its node-valued struct fields
   ("slots") in struct order: a slot holds an optional child (nil pointer/interface = None)
   or a list of children.  No proofs here. *)
From Coq Require Import List NArith String Bool.
Import ListNotations.

Inductive pkey := KName (s : N) | KIdx (i : N).

Inductive gnode := GNode (id : N) (kind : N) (slots : list slot)
with slot := One (name : N) (o : option gnode) | Many (name : N) (l : list gnode).

Definition g_id (n : gnode) : N := match n with GNode id _ _ => id end.
Definition g_kind (n : gnode) : N := match n with GNode _ k _ => k end.
Definition g_slots (n : gnode) : list slot := match n with GNode _ _ s => s end.
Definition slot_name (s : slot) : N := match s with One nm _ => nm | Many nm _ => nm end.

(* getFieldValue(struct, name): first slot of that name *)
Fixpoint find_slot (k : N) (ss : list slot) : option slot :=
  match ss with
  | [] => None
  | s :: ss' => if N.eqb k (slot_name s) then Some s else find_slot k ss'
  end.

Inductive action := Continue | Skip | Break.
Inductive phase := PEnter | PLeave.

(* what a visitor callback receives (VisitFuncParams), plus which function slot of the
   VisitorOptions was selected by GetVisitFn *)
Record event := mkEvent {
  e_phase : phase;
  e_fn : N;
  e_id : N;
  e_kind : N;
  e_key : option pkey;          (* None = nil (the root) *)
  e_parent : option N;          (* None = nil *)
  e_path : list pkey;
  e_ancs : list (option N)
}.

Definition optl {A} (o : option A) : list A := match o with Some x => [x] | None => [] end.

(* a trace: the events delivered, and whether the traversal was stopped (break) *)
Definition tr := (list event * bool)%type.
Definition nil_tr : tr := ([], false).
Definition seq (p q : tr) : tr :=
  let '(e, b) := p in if b then (e, true) else let '(e', b') := q in (e ++ e', b').

(* decidable equalities used by the runner *)
Definition pkey_eqb (a b : pkey) : bool :=
  match a, b with
  | KName x, KName y => N.eqb x y
  | KIdx x, KIdx y => N.eqb x y
  | _, _ => false
  end.
Definition opt_eqb {A} (f : A -> A -> bool) (a b : option A) : bool :=
  match a, b with Some x, Some y => f x y | None, None => true | _, _ => false end.
Fixpoint list_eqb {A} (f : A -> A -> bool) (a b : list A) : bool :=
  match a, b with
  | [], [] => true
  | x :: a', y :: b' => f x y && list_eqb f a' b'
  | _, _ => false
  end.
Definition phase_eqb (a b : phase) : bool :=
  match a, b with PEnter, PEnter => true | PLeave, PLeave => true | _, _ => false end.
Definition event_eqb (a b : event) : bool :=
  phase_eqb (e_phase a) (e_phase b) && N.eqb (e_fn a) (e_fn b) && N.eqb (e_id a) (e_id b)
  && N.eqb (e_kind a) (e_kind b) && opt_eqb pkey_eqb (e_key a) (e_key b)
  && opt_eqb N.eqb (e_parent a) (e_parent b) && list_eqb pkey_eqb (e_path a) (e_path b)
  && list_eqb (opt_eqb N.eqb) (e_ancs a) (e_ancs b).

(* identities occurring in a tree; a tree of pointers cannot contain a node below itself *)
Definition slot_ids (ids : gnode -> list N) (s : slot) : list N :=
  match s with One _ None => [] | One _ (Some c) => ids c | Many _ l => flat_map ids l end.
Fixpoint ids (n : gnode) : list N :=
  match n with GNode id _ slots => id :: flat_map (slot_ids ids) slots end.
Definition desc_ids (n : gnode) : list N := flat_map (slot_ids ids) (g_slots n).

Definition slot_all (f : gnode -> bool) (s : slot) : bool :=
  match s with One _ None => true | One _ (Some c) => f c | Many _ l => forallb f l end.
(* no node has the identity of one of its descendants *)
Fixpoint tree_ok (n : gnode) : bool :=
  match n with
  | GNode id _ slots =>
    negb (existsb (N.eqb id) (flat_map (slot_ids ids) slots)) && forallb (slot_all tree_ok) slots
  end.
