(* C14 -- Spec: document order.  The Euler tour of a tree by the child-key table: a node,
   then -- unless it is skipped -- its children in key-table order, each with its own tour,
   then the node again.  Enter marks in tour order are the pre-order, leave marks the
   post-order, of the nodes that are not below a skipped node.  No proofs here. *)
From Coq Require Import List NArith Bool.
From GQL Require Import Visitor.VisitorTree Visitor.VisitorWalk.
Import ListNotations.

Section Tour.
Variable keys_of : N -> list N.
Variable sk : gnode -> bool.          (* the nodes whose subtree and leave are dropped *)

Fixpoint tour (n : gnode) {struct n} : list (phase * gnode) :=
  match n with
  | GNode id kind slots =>
    (PEnter, GNode id kind slots) ::
    (if sk (GNode id kind slots) then []
     else
       (fix tkeys (ks : list N) : list (phase * gnode) :=
          match ks with
          | [] => []
          | k :: ks' =>
            (fix find (ss : list slot) : list (phase * gnode) :=
               match ss with
               | [] => []
               | One nm o :: ss' =>
                 if N.eqb k nm then match o with Some ch => tour ch | None => [] end else find ss'
               | Many nm l :: ss' =>
                 if N.eqb k nm
                 then (fix tl (l : list gnode) : list (phase * gnode) :=
                         match l with [] => [] | ch :: l' => tour ch ++ tl l' end) l
                 else find ss'
               end) slots ++ tkeys ks'
          end) (keys_of kind)
       ++ [(PLeave, GNode id kind slots)])
  end.

Fixpoint tlist (l : list gnode) : list (phase * gnode) :=
  match l with [] => [] | ch :: l' => tour ch ++ tlist l' end.
Definition tslot (s : option slot) : list (phase * gnode) :=
  match s with
  | None => []
  | Some (One _ None) => []
  | Some (One _ (Some ch)) => tour ch
  | Some (Many _ l) => tlist l
  end.
Fixpoint tkeys (slots : list slot) (ks : list N) : list (phase * gnode) :=
  match ks with [] => [] | k :: ks' => tslot (find_slot k slots) ++ tkeys slots ks' end.

Definition is_enter (x : phase * gnode) : bool := match fst x with PEnter => true | PLeave => false end.
Definition is_leave (x : phase * gnode) : bool := negb (is_enter x).
(* the nodes in pre-order / post-order *)
Definition enters (n : gnode) : list gnode := map snd (filter is_enter (tour n)).
Definition leaves (n : gnode) : list gnode := map snd (filter is_leave (tour n)).
End Tour.

(* all nodes reachable through the key table, in pre-order *)
Definition preorder (keys_of : N -> list N) (n : gnode) : list gnode := enters keys_of (fun _ => false) n.

(* which nodes a visitor skips: a function is selected for the enter of that kind and the
   policy says skip *)
Definition skips (sel : N -> phase -> option N) (pol : N -> phase -> action) (n : gnode) : bool :=
  match act sel pol n PEnter with Skip => true | _ => false end.

(* what a visitor with selection `sel` is shown of a tour *)
Definition shown (sel : N -> phase -> option N) (t : list (phase * gnode)) : list (phase * N * N) :=
  flat_map (fun x => match sel (g_kind (snd x)) (fst x) with
                     | Some _ => [(fst x, g_id (snd x), g_kind (snd x))]
                     | None => [] end) t.
Definition ev_mark (e : event) : phase * N * N := (e_phase e, e_id e, e_kind e).

(* policy with every break replaced by continue *)
Definition unbreak (pol : N -> phase -> action) (id : N) (ph : phase) : action :=
  match pol id ph with Break => Continue | a => a end.

(* node identities of the enter / leave events of an event list, in order *)
Definition enter_ids (evs : list event) : list N :=
  map e_id (filter (fun e => phase_eqb (e_phase e) PEnter) evs).
Definition leave_ids (evs : list event) : list N :=
  map e_id (filter (fun e => phase_eqb (e_phase e) PLeave) evs).
Definition has_fn (sel : N -> phase -> option N) (ph : phase) (n : gnode) : bool :=
  match sel (g_kind n) ph with Some _ => true | None => false end.
