(* C14 -- Spec: the plain recursive traversal.
   walk = enter; children in the order of the key table (QueryDocumentKeys), each key looked
   up by name among the node's fields; leave.  Skip on enter drops the subtree and the leave,
   break stops everything.  Conventions of the library for the parameters handed to callbacks
   (DESIGN.md 7 C14): key = field name or list index (nil for the root); parent = the
   immediate container, a list container being nil; ancestors = the containers above the
   parent, outermost first, starting with the root's nil, nil for every list; path = keys from
   the root (on leave the node's own key is already popped).  Absent children and empty lists
   produce no events.  No proofs here. *)
From Coq Require Import List NArith String Bool.
From GQL Require Import Visitor.VisitorTree.
Import ListNotations.

(* the position of a container: path to it, the container itself (None for a list), and
   the containers above it *)
Record wctx := mkWctx { w_path : list pkey; w_parent : option N; w_ancs : list (option N) }.

Definition w_root : wctx := mkWctx [] None [].

(* the position "inside" the container p that sits at key `key` of container c *)
Definition w_inner (c : wctx) (key : option pkey) (p : option N) : wctx :=
  mkWctx (w_path c ++ optl key) p (w_ancs c ++ [w_parent c]).

Section Walk.
Variable keys_of : N -> list N.            (* the child-key table *)
Variable sel : N -> phase -> option N.          (* GetVisitFn: which function, if any *)
Variable pol : N -> phase -> action.                 (* the visitor policy, per node occurrence and phase *)

Definition act (n : gnode) (ph : phase) : action :=
  match sel (g_kind n) ph with None => Continue | Some _ => pol (g_id n) ph end.

Definition mk_event (ph : phase) (c : wctx) (key : option pkey) (n : gnode) (fn : N) : event :=
  mkEvent ph fn (g_id n) (g_kind n) key (w_parent c)
          (match ph with PEnter => w_path c ++ optl key | PLeave => w_path c end) (w_ancs c).

Definition emit (ph : phase) (c : wctx) (key : option pkey) (n : gnode) : list event :=
  match sel (g_kind n) ph with None => [] | Some fn => [mk_event ph c key n fn] end.

Definition leave_tr (c : wctx) (key : option pkey) (n : gnode) : tr :=
  (emit PLeave c key n, match act n PLeave with Break => true | _ => false end).

Fixpoint walk (c : wctx) (key : option pkey) (n : gnode) {struct n} : tr :=
  match n with
  | GNode id kind slots =>
    match act (GNode id kind slots) PEnter with
    | Break => (emit PEnter c key (GNode id kind slots), true)
    | Skip => (emit PEnter c key (GNode id kind slots), false)
    | Continue =>
      let cin := w_inner c key (Some id) in
      seq (emit PEnter c key (GNode id kind slots), false)
        (seq ((fix wkeys (ks : list N) : tr :=
                 match ks with
                 | [] => nil_tr
                 | k :: ks' =>
                   seq ((fix find (ss : list slot) : tr :=
                           match ss with
                           | [] => nil_tr
                           | One nm o :: ss' =>
                             if N.eqb k nm
                             then match o with Some ch => walk cin (Some (KName k)) ch | None => nil_tr end
                             else find ss'
                           | Many nm l :: ss' =>
                             if N.eqb k nm
                             then (fix wl (l : list gnode) (i : nat) : tr :=
                                     match l with
                                     | [] => nil_tr
                                     | ch :: l' => seq (walk (w_inner cin (Some (KName k)) None)
                                                             (Some (KIdx (N.of_nat i))) ch) (wl l' (S i))
                                     end) l 0%nat
                             else find ss'
                           end) slots)
                       (wkeys ks')
                 end) (keys_of kind))
             (leave_tr c key (GNode id kind slots)))
    end
  end.

(* the same, as separate functions (walk_unfold in Proofs/VisitorWalkProofs.v) *)
Fixpoint wlist (cl : wctx) (i : nat) (l : list gnode) : tr :=
  match l with
  | [] => nil_tr
  | ch :: l' => seq (walk cl (Some (KIdx (N.of_nat i))) ch) (wlist cl (S i) l')
  end.

Definition wslot (cin : wctx) (k : N) (s : option slot) : tr :=
  match s with
  | None => nil_tr
  | Some (One _ None) => nil_tr
  | Some (One _ (Some ch)) => walk cin (Some (KName k)) ch
  | Some (Many _ l) => wlist (w_inner cin (Some (KName k)) None) 0 l
  end.

Fixpoint wkeys (cin : wctx) (slots : list slot) (ks : list N) : tr :=
  match ks with
  | [] => nil_tr
  | k :: ks' => seq (wslot cin k (find_slot k slots)) (wkeys cin slots ks')
  end.

(* the whole traversal of a document *)
Definition walk_root (t : gnode) : tr := walk w_root None t.
Definition walk_events (t : gnode) : list event := fst (walk_root t).

End Walk.

(* well-bracketed event lists: a skipped node is a lone enter; any other node is its enter, a
   well-bracketed list, and its leave carrying the same node, key, parent and ancestors *)
Inductive nested (pol : N -> phase -> action) : list event -> Prop :=
| N_nil : nested pol []
| N_app l1 l2 : nested pol l1 -> nested pol l2 -> nested pol (l1 ++ l2)
| N_skip e : e_phase e = PEnter -> pol (e_id e) PEnter = Skip -> nested pol [e]
| N_node e l e' :
    e_phase e = PEnter -> e_phase e' = PLeave -> pol (e_id e) PEnter = Continue ->
    e_id e' = e_id e -> e_kind e' = e_kind e -> e_key e' = e_key e ->
    e_parent e' = e_parent e -> e_ancs e' = e_ancs e ->
    nested pol l -> nested pol (e :: l ++ [e']).
