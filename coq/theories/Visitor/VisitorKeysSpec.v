(* C14 -- the child relation: the generated key table (Gen/VisitorKeys.v) as a function, and
   the obligation `keys_complete` that ties a key table to the struct declarations of
   language/ast: every kind that has a struct has an entry, no key is listed twice, every
   key names a node-valued field of the struct, and every node-valued field is listed, except
   the fields that this edition does not count as children (Appendix A of DESIGN.md:
   descriptions are not children; FragmentDefinition.VariableDefinitions exists only to satisfy
   the Definition interface and is never filled by the parser).  No proofs here. *)
From Coq Require Import List NArith String Bool.
From GQL Require Import Gen.VisitorKeys.
Import ListNotations.

Fixpoint assoc_by {A B} (eqb : A -> A -> bool) (k : A) (l : list (A * B)) : option B :=
  match l with [] => None | (k', v) :: r => if eqb k k' then Some v else assoc_by eqb k r end.

Definition keys_of (k : N) : list N :=
  match assoc_by N.eqb k keys_table with Some l => l | None => [] end.

Section Complete.
Context {A : Type}.
Variable eqb : A -> A -> bool.
Variable exempt : A -> A -> bool.        (* kind, field *)

Definition memb (x : A) (l : list A) : bool := existsb (eqb x) l.
Fixpoint nodupb (l : list A) : bool :=
  match l with [] => true | x :: r => negb (memb x r) && nodupb r end.

Definition kind_complete (kind : A) (ks : list A) (fields : list (A * bool)) : bool :=
  nodupb ks
  && forallb (fun k => memb k (map fst fields)) ks
  && forallb (fun f => memb (fst f) ks || exempt kind (fst f)) fields.

Definition keys_complete (keys : list (A * list A)) (shape : list (A * list (A * bool))) : bool :=
  forallb (fun ks => match assoc_by eqb (fst ks) keys with
                     | Some l => kind_complete (fst ks) l (snd ks)
                     | None => false end) shape
  && forallb (fun kk => match assoc_by eqb (fst kk) shape with Some _ => true | None => false end) keys
  && nodupb (map fst keys).
End Complete.

Open Scope string_scope.
Definition exempt_names (kind field : string) : bool :=
  String.eqb field "Description"
  || (String.eqb kind "FragmentDefinition" && String.eqb field "VariableDefinitions").

Definition name_of (tbl : list (N * string)) (c : N) : string :=
  match assoc_by N.eqb c tbl with Some s => s | None => "?" end.

Definition exempt_codes (kind field : N) : bool :=
  exempt_names (name_of kind_names kind) (name_of field_names field).

(* the generated tables, decoded to names *)
Definition gen_keys_named : list (string * list string) :=
  map (fun kk => (name_of kind_names (fst kk), map (name_of field_names) (snd kk))) keys_table.
Definition gen_shape_named : list (string * list (string * bool)) :=
  map (fun kk => (name_of kind_names (fst kk), map (fun f => (name_of field_names (fst f), snd f)) (snd kk))) ast_shape.
