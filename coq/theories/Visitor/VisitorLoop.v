(* C14 -- Model of language/visitor/visitor.go as the code is written.
   `step` is one iteration of the `for` loop of Visit with its explicit state
   (sstack / keys / index / inSlice / parent / parentSlice / path / ancestors / ancestorsSlice /
   edits); `get_visit_fn` is GetVisitFn; `par_*` is the bookkeeping of VisitInParallel.
   Differences from the Go text, all representation only:
     - v_next holds index+1 (the value `index` takes after the `index++` at the loop head);
     - nil and empty slices are both [];
     - visitor callbacks are a policy (node id, phase) -> continue|skip|break; the Update
       action is not modelled, so `edits` stays empty -- the branches that apply or collect
       edits are kept (abstracted to the flag v_rebuilt and the edit list) so that
       C14_no_edit_identity says something about them;
     - reflection (getFieldValue / isNode / isSlice / isNilNode) is lookup in the gnode view.
   No proofs here. *)
From Coq Require Import List NArith String Bool Arith.
From GQL Require Import Visitor.VisitorTree.
Import ListNotations.

(* ---- GetVisitFn ---- *)
(* function slots of a VisitorOptions value; the codes are what the harness records *)
Definition FN_KIND : N := 1.       (* KindFuncMap[kind].Kind *)
Definition FN_KENTER : N := 2.     (* KindFuncMap[kind].Enter *)
Definition FN_KLEAVE : N := 3.     (* KindFuncMap[kind].Leave *)
Definition FN_ENTER : N := 4.      (* Enter *)
Definition FN_LEAVE : N := 5.      (* Leave *)
Definition FN_EKM : N := 6.        (* EnterKindMap[kind] *)
Definition FN_LKM : N := 7.        (* LeaveKindMap[kind] *)

Record kfuncs := mkKfuncs { kf_kind : bool; kf_leave : bool; kf_enter : bool }.
Record vopts := mkVopts {
  vo_kindmap : list (N * kfuncs);
  vo_enter : bool;
  vo_leave : bool;
  vo_ekm : list N;
  vo_lkm : list N
}.

Fixpoint assoc {A} (k : N) (l : list (N * A)) : option A :=
  match l with [] => None | (k', v) :: r => if N.eqb k k' then Some v else assoc k r end.
Definition mem (k : N) (l : list N) : bool := existsb (N.eqb k) l.

Definition get_visit_fn (o : vopts) (kind : N) (ph : phase) : option N :=
  match assoc kind (vo_kindmap o) with
  | Some kv =>
    match ph with
    | PEnter => if kf_kind kv then Some FN_KIND
                else if kf_enter kv then Some FN_KENTER else None
    | PLeave => if kf_leave kv then Some FN_KLEAVE else None
    end
  | None =>
    match ph with
    | PLeave => if vo_leave o then Some FN_LEAVE
                else if mem kind (vo_lkm o) then Some FN_LKM else None
    | PEnter => if vo_enter o then Some FN_ENTER
                else if mem kind (vo_ekm o) then Some FN_EKM else None
    end
  end.

(* ---- the loop state ---- *)
Inductive keys := KFields (ks : list N) | KNodes (ns : list gnode).
Definition keys_len (k : keys) : nat :=
  match k with KFields l => List.length l | KNodes l => List.length l end.

Record edit := mkEdit { ed_key : option pkey; ed_node : option gnode; ed_slice : list gnode }.

Record sframe := mkFrame { s_index : nat; s_keys : keys; s_edits : list edit; s_inSlice : bool }.

Record vstate := mkState {
  v_stack : list sframe;                 (* sstack, innermost first; [] = nil *)
  v_parent : option gnode;
  v_parentSlice : list gnode;
  v_inSlice : bool;
  v_prevInSlice : bool;
  v_keys : keys;
  v_next : nat;                          (* index + 1 *)
  v_edits : list edit;
  v_path : list pkey;
  v_ancestors : list (option gnode);
  v_ancestorsSlice : list (list gnode);
  v_rebuilt : bool                       (* some node was rebuilt from edits *)
}.

(* pop / popNodeSlice *)
Definition pop {A} (l : list A) : option A * list A :=
  match rev l with [] => (None, []) | x :: r => (Some x, rev r) end.

Definition is_nil {A} (l : list A) : bool := match l with [] => true | _ => false end.
Definition is_some {A} (o : option A) : bool := match o with Some _ => true | None => false end.
Definition join {A} (o : option (option A)) : option A := match o with Some x => x | None => None end.
Definition orl {A} (o : option (list A)) : list A := match o with Some x => x | None => [] end.

Inductive outcome :=
| Next (st : vstate) (evs : list event)      (* next iteration; events delivered in this one *)
| Stop (st : vstate) (evs : list event).     (* break Loop *)

Inductive result :=
| Done (evs : list event) (replaced : bool) (rebuilt : bool)
| OutOfFuel.

Section Loop.
Variable keys_of : N -> list N.      (* visitorKeys *)
Variable sel : N -> phase -> option N.    (* GetVisitFn(visitorOpts, kind, isLeaving) *)
Variable pol : N -> phase -> action.

Definition init_state (root : gnode) : vstate :=
  mkState [] None [] false false (KNodes [root]) 0 [] [] [] [] false.

Definition ev_of (ph : phase) (fn : N) (n : gnode) (key : option pkey) (parent : option gnode)
           (path : list pkey) (ancestors : list (option gnode)) : event :=
  mkEvent ph fn (g_id n) (g_kind n) key (option_map g_id parent) path (map (option_map g_id) ancestors).

(* getFieldValue(keys, index) for a key list of field names *)
Definition key_at (k : keys) (index : nat) : option pkey :=
  match k with KFields l => option_map KName (nth_error l index) | KNodes _ => None end.

(* getFieldValue(parent, key) classified by isNode / isSlice *)
Definition field_value (p : gnode) (key : option pkey) : option gnode * list gnode :=
  match key with
  | Some (KName k) =>
    match find_slot k (g_slots p) with
    | Some (One _ o) => (o, [])
    | Some (Many _ l) => (None, l)
    | None => (None, [])
    end
  | _ => (None, [])
  end.
Definition slice_value (l : list gnode) (key : option pkey) : option gnode :=
  match key with Some (KIdx i) => nth_error l (N.to_nat i) | _ => None end.

Definition set_next (st : vstate) (i : nat) : vstate :=
  mkState (v_stack st) (v_parent st) (v_parentSlice st) (v_inSlice st) (v_prevInSlice st) (v_keys st)
          i (v_edits st) (v_path st) (v_ancestors st) (v_ancestorsSlice st) (v_rebuilt st).
Definition set_path (st : vstate) (p : list pkey) : vstate :=
  mkState (v_stack st) (v_parent st) (v_parentSlice st) (v_inSlice st) (v_prevInSlice st) (v_keys st)
          (v_next st) (v_edits st) p (v_ancestors st) (v_ancestorsSlice st) (v_rebuilt st).
Definition set_edits (st : vstate) (e : list edit) : vstate :=
  mkState (v_stack st) (v_parent st) (v_parentSlice st) (v_inSlice st) (v_prevInSlice st) (v_keys st)
          (v_next st) e (v_path st) (v_ancestors st) (v_ancestorsSlice st) (v_rebuilt st).

(* the `if isLeaving { ... }` half of an iteration *)
Definition step_leave (st : vstate) : outcome :=
  match v_stack st with
  | [] => Stop st []                     (* no frame to return to (fix for defect #20) *)
  | fr :: stk =>
    let isEdited := negb (is_nil (v_edits st)) in
    let '(key, path) := pop (v_path st) in
    let node := v_parent st in
    let '(par, ancestors) := pop (v_ancestors st) in
    let nodeSlice := v_parentSlice st in
    let '(ps, ancestorsSlice) := pop (v_ancestorsSlice st) in
    let prevInSlice := if isEdited then v_inSlice st else v_prevInSlice st in
    (* if isEdited: the node / slice is rebuilt from the edits (abstracted) *)
    let st1 := mkState stk (join par) (orl ps) (s_inSlice fr) prevInSlice (s_keys fr)
                       (S (s_index fr)) (s_edits fr) path ancestors ancestorsSlice
                       (v_rebuilt st || isEdited) in
    let finish (st2 : vstate) (evs : list event) : outcome :=
      (* collect back edits on the way out; loop guard *)
      let st3 := if isEdited
                 then set_edits st2 (v_edits st2 ++
                        [if prevInSlice then mkEdit key None nodeSlice else mkEdit key node []])
                 else st2 in
      if is_nil (v_stack st3) then Stop st3 evs else Next st3 evs in
    match node with
    | None => finish st1 []
    | Some n =>
      match sel (g_kind n) PLeave with
      | None => finish st1 []
      | Some fn =>
        let ev := ev_of PLeave fn n key (join par) path ancestors in
        match pol (g_id n) PLeave with
        | Break => Stop st1 [ev]
        | _ => finish st1 [ev]               (* skip on leave is ignored *)
        end
      end
    end
  end.

(* "add to stack / replace keys" at the end of an entering iteration *)
Definition push_state (st : vstate) (index : nat) (node : option gnode) (nodeSlice : list gnode)
           (path : list pkey) : vstate :=
  let fr := mkFrame index (v_keys st) (v_edits st) (v_inSlice st) in
  let keys' := match nodeSlice with
               | _ :: _ => KNodes nodeSlice
               | [] => match node with Some n => KFields (keys_of (g_kind n)) | None => KFields [] end
               end in
  mkState (fr :: v_stack st) node nodeSlice (negb (is_nil nodeSlice)) (v_prevInSlice st)
          keys' 0 [] path (v_ancestors st ++ [v_parent st])
          (v_ancestorsSlice st ++ [v_parentSlice st]) (v_rebuilt st).

(* the visit-function call of an entering iteration and what follows it; the loop guard
   (sstack == nil) cannot fire after a push *)
Definition enter_node (st : vstate) (index : nat) (key : option pkey) (node : option gnode)
           (nodeSlice : list gnode) (path : list pkey) : outcome :=
  match node with
  | None => Next (push_state st index node nodeSlice path) []
  | Some n =>
    match sel (g_kind n) PEnter with
    | None => Next (push_state st index node nodeSlice path) []
    | Some fn =>
      let ev := ev_of PEnter fn n key (v_parent st) path (v_ancestors st) in
      match pol (g_id n) PEnter with
      | Break => Stop (set_path st path) [ev]
      | Skip => Next (set_next (set_path st (snd (pop path))) (S index)) [ev]
      | Continue => Next (push_state st index node nodeSlice path) [ev]
      end
    end
  end.

(* the `else { ... }` half, index = the key being processed *)
Definition step_enter (root : gnode) (st : vstate) (index : nat) : outcome :=
  let key := if v_inSlice st then Some (KIdx (N.of_nat index))
             else match v_parent st with Some _ => key_at (v_keys st) index | None => None end in
  let '(node, nodeSlice) :=
      match v_parent st with
      | Some p => field_value p key
      | None => match v_parentSlice st with
                | _ :: _ => (slice_value (v_parentSlice st) key, [])
                | [] => (Some root, [])
                end
      end in
  if negb (is_some node) && is_nil nodeSlice then Next (set_next st (S index)) []
  else
    let path := if (negb (v_inSlice st) && is_some (v_parent st))
                   || (v_inSlice st && negb (is_nil (v_parentSlice st)))
                then v_path st ++ optl key else v_path st in
    enter_node st index key node nodeSlice path.

Definition step (root : gnode) (st : vstate) : outcome :=
  let index := v_next st in
  if Nat.eqb (keys_len (v_keys st)) index then step_leave st else step_enter root st index.

Fixpoint run (fuel : nat) (root : gnode) (st : vstate) (acc : list event) : result :=
  match fuel with
  | O => OutOfFuel
  | S f =>
    match step root st with
    | Next st' evs => run f root st' (rev evs ++ acc)
    | Stop st' evs => Done (rev (rev evs ++ acc)) (negb (is_nil (v_edits st'))) (v_rebuilt st')
    end
  end.

Definition visit_loop (fuel : nat) (root : gnode) : result := run fuel root (init_state root) [].

End Loop.

(* ---- VisitInParallel: per-sub-visitor bookkeeping ----
   The combined Enter/Leave return ActionNoChange whatever the sub-visitors answer (no Update),
   so the loop delivers the full traversal to the wrapper; sub-visitor i is called for an event
   unless skipping[i] is set. *)
Inductive skipmark := SkNode (id : N) | SkBreak.

Section Parallel.
Variable sel : N -> phase -> option N.
Variable pol : N -> phase -> action.

(* one event through the wrapper for one sub-visitor: new mark and what the sub-visitor saw *)
Definition par_step (sk : option skipmark) (e : event) : option skipmark * list event :=
  match e_phase e with
  | PEnter =>
    match sk with
    | Some _ => (sk, [])
    | None =>
      match sel (e_kind e) PEnter with
      | None => (None, [])
      | Some fn =>
        let e' := mkEvent (e_phase e) fn (e_id e) (e_kind e) (e_key e) (e_parent e) (e_path e) (e_ancs e) in
        match pol (e_id e) PEnter with
        | Skip => (Some (SkNode (e_id e)), [e'])
        | Break => (Some SkBreak, [e'])
        | Continue => (None, [e'])
        end
      end
    end
  | PLeave =>
    match sk with
    | None =>
      match sel (e_kind e) PLeave with
      | None => (None, [])
      | Some fn =>
        let e' := mkEvent (e_phase e) fn (e_id e) (e_kind e) (e_key e) (e_parent e) (e_path e) (e_ancs e) in
        match pol (e_id e) PLeave with
        | Break => (Some SkBreak, [e'])
        | _ => (None, [e'])
        end
      end
    | Some (SkNode id) => if N.eqb id (e_id e) then (None, []) else (sk, [])
    | Some SkBreak => (sk, [])
    end
  end.

Fixpoint par_run (sk : option skipmark) (evs : list event) : option skipmark * list event :=
  match evs with
  | [] => (sk, [])
  | e :: r => let '(sk1, o1) := par_step sk e in
              let '(sk2, o2) := par_run sk1 r in (sk2, o1 ++ o2)
  end.

Definition par_observed (evs : list event) : list event := snd (par_run None evs).
End Parallel.

(* what the loop sees of the VisitInParallel wrapper: generic Enter and Leave, never an action *)
Definition par_sel (_ : N) (ph : phase) : option N :=
  Some (match ph with PEnter => FN_ENTER | PLeave => FN_LEAVE end).
Definition par_pol (_ : N) (_ : phase) : action := Continue.

(* ---- an upper bound for the number of loop iterations (termination lemma) ----
   one iteration per absent child, two per visited node, two per non-empty list *)
Section Fuel.
Variable keys_of : N -> list N.

Fixpoint nsteps (n : gnode) {struct n} : nat :=
  match n with
  | GNode id kind slots =>
    S (S ((fix ksteps (ks : list N) : nat :=
             match ks with
             | [] => O
             | k :: ks' =>
               ((fix find (ss : list slot) : nat :=
                   match ss with
                   | [] => 1
                   | One nm o :: ss' =>
                     if N.eqb k nm then match o with Some ch => nsteps ch | None => 1 end else find ss'
                   | Many nm l :: ss' =>
                     if N.eqb k nm
                     then match l with
                          | [] => 1
                          | _ => S (S ((fix ls (l : list gnode) : nat :=
                                          match l with [] => O | ch :: l' => nsteps ch + ls l' end) l))
                          end
                     else find ss'
                   end) slots) + ksteps ks'
             end) (keys_of kind)))
  end.

Fixpoint lsteps (l : list gnode) : nat :=
  match l with [] => O | ch :: l' => nsteps ch + lsteps l' end.
Definition sstep (s : option slot) : nat :=
  match s with
  | None => 1
  | Some (One _ None) => 1
  | Some (One _ (Some ch)) => nsteps ch
  | Some (Many _ []) => 1
  | Some (Many _ l) => S (S (lsteps l))
  end.
Fixpoint ksteps (slots : list slot) (ks : list N) : nat :=
  match ks with [] => O | k :: ks' => sstep (find_slot k slots) + ksteps slots ks' end.

Definition loop_fuel (t : gnode) : nat := nsteps t.
End Fuel.
