(* C14 -- type tracking: Model of type_info.go (TypeInfo.Enter / Leave with its four stacks and
   two variables) and of visitor.VisitWithTypeInfo, and Spec `types_at`: the schema types that
   apply at a position, defined top-down from the chain of enclosing nodes alone.
   The schema crosses as finite tables; names are interned codes (only equality matters).
   Not modelled: a custom FieldDefFn, type references to unknown types nested inside list /
   non-null wrappers of a variable type, schemas without a mutation or subscription type
   (typed-nil pointers inside Go interfaces).  No proofs here. *)
From Coq Require Import List NArith String Bool.
From GQL Require Import Visitor.VisitorTree Visitor.VisitorWalk Visitor.VisitorLoop
     Visitor.VisitorKeysSpec Gen.VisitorKeys.
Import ListNotations.
Open Scope N_scope.

Inductive ty := TNamed (n : N) | TList (t : ty) | TNonNull (t : ty).

Fixpoint ty_eqb (a b : ty) : bool :=
  match a, b with
  | TNamed x, TNamed y => N.eqb x y
  | TList x, TList y => ty_eqb x y
  | TNonNull x, TNonNull y => ty_eqb x y
  | _, _ => false
  end.

Record tfield := mkTfield { tf_name : N; tf_type : ty; tf_args : list (N * ty) }.
Inductive tkind := KScalar | KObject | KInterface | KUnion | KEnum | KInput.
Record tdef := mkTdef { td_name : N; td_kind : tkind; td_fields : list tfield }.
Record tschema := mkTschema {
  ts_types : list tdef;
  ts_query : option N; ts_mutation : option N; ts_subscription : option N;
  ts_directives : list (N * list (N * ty));
  ts_meta_schema : tfield; ts_meta_type : tfield; ts_meta_typename : tfield
}.

(* what the AST nodes carry that TypeInfo reads *)
Record nattr := mkNattr {
  na_name : option N;      (* Field / Directive / Argument / ObjectField: the name;
                              InlineFragment / FragmentDefinition: the type condition, if any *)
  na_op : N;               (* OperationDefinition: 0 query, 1 mutation, 2 subscription, 3 other *)
  na_type : option ty      (* VariableDefinition: the written type *)
}.
Definition no_attr : nattr := mkNattr None 3 None.

(* kind codes, from the generated table *)
Definition kind_code (s : string) : N :=
  match find (fun p => String.eqb (snd p) s) kind_names with Some p => fst p | None => 9999 end.
Definition K_SELSET := Eval vm_compute in kind_code "SelectionSet".
Definition K_FIELD := Eval vm_compute in kind_code "Field".
Definition K_DIRECTIVE := Eval vm_compute in kind_code "Directive".
Definition K_OPDEF := Eval vm_compute in kind_code "OperationDefinition".
Definition K_INLINE := Eval vm_compute in kind_code "InlineFragment".
Definition K_FRAGDEF := Eval vm_compute in kind_code "FragmentDefinition".
Definition K_VARDEF := Eval vm_compute in kind_code "VariableDefinition".
Definition K_ARGUMENT := Eval vm_compute in kind_code "Argument".
Definition K_LISTVALUE := Eval vm_compute in kind_code "ListValue".
Definition K_OBJFIELD := Eval vm_compute in kind_code "ObjectField".

Section TI.
Variable S : tschema.
Variable attr : N -> nattr.          (* by node id *)

Fixpoint get_named (t : ty) : N :=
  match t with TNamed n => n | TList t' => get_named t' | TNonNull t' => get_named t' end.
Definition get_nullable (t : ty) : ty := match t with TNonNull t' => t' | _ => t end.

Definition find_type (n : N) : option tdef := find (fun d => N.eqb (td_name d) n) (ts_types S).
Definition find_field (n : N) (l : list tfield) : option tfield := find (fun f => N.eqb (tf_name f) n) l.
(* `for _, arg := range args { if arg.Name() == name { argDef = arg } }`: the last match *)
Definition find_arg (n : N) (l : list (N * ty)) : option (N * ty) :=
  find (fun a => N.eqb (fst a) n) (rev l).

Definition is_composite (n : N) : bool :=
  match find_type n with
  | Some d => match td_kind d with KObject | KInterface | KUnion => true | _ => false end
  | None => false
  end.

(* typeFromAST *)
Fixpoint resolve (t : ty) : option ty :=
  match t with
  | TNamed n => match find_type n with Some _ => Some t | None => None end
  | TList t' => option_map TList (resolve t')
  | TNonNull t' => option_map TNonNull (resolve t')
  end.

(* DefaultTypeInfoFieldDef *)
Definition field_def (parent : N) (name : N) : option tfield :=
  if N.eqb name (tf_name (ts_meta_schema S)) && opt_eqb N.eqb (ts_query S) (Some parent)
  then Some (ts_meta_schema S)
  else if N.eqb name (tf_name (ts_meta_type S)) && opt_eqb N.eqb (ts_query S) (Some parent)
  then Some (ts_meta_type S)
  else match find_type parent with
       | None => None
       | Some d =>
         if N.eqb name (tf_name (ts_meta_typename S))
            && match td_kind d with KObject | KInterface | KUnion => true | _ => false end
         then Some (ts_meta_typename S)
         else match td_kind d with
              | KObject | KInterface => find_field name (td_fields d)
              | _ => None
              end
       end.

Definition op_type (op : N) : option ty :=
  option_map TNamed (match op with 0 => ts_query S | 1 => ts_mutation S | 2 => ts_subscription S | _ => None end).

Definition name_of_node (id : N) : N := match na_name (attr id) with Some n => n | None => 0 end.

(* ---- the values TypeInfo reports ---- *)
Record tenv := mkTenv {
  te_type : option ty; te_parent : option N; te_input : option ty;
  te_fdef : option tfield; te_dir : option (N * list (N * ty)); te_arg : option (N * ty)
}.
Definition empty_env : tenv := mkTenv None None None None None None.

(* Spec: what applies inside node (id, kind), given what applies around it *)
Definition enter_env (e : tenv) (id kind : N) : tenv :=
  if N.eqb kind K_SELSET then
    let p := match te_type e with
             | Some t => if is_composite (get_named t) then Some (get_named t) else None
             | None => None end in
    mkTenv (te_type e) p (te_input e) (te_fdef e) (te_dir e) (te_arg e)
  else if N.eqb kind K_FIELD then
    let fd := match te_parent e with Some p => field_def p (name_of_node id) | None => None end in
    mkTenv (option_map tf_type fd) (te_parent e) (te_input e) fd (te_dir e) (te_arg e)
  else if N.eqb kind K_DIRECTIVE then
    mkTenv (te_type e) (te_parent e) (te_input e) (te_fdef e)
           (find (fun d => N.eqb (fst d) (name_of_node id)) (ts_directives S)) (te_arg e)
  else if N.eqb kind K_OPDEF then
    mkTenv (op_type (na_op (attr id))) (te_parent e) (te_input e) (te_fdef e) (te_dir e) (te_arg e)
  else if N.eqb kind K_INLINE || N.eqb kind K_FRAGDEF then
    (* without a type condition an inline fragment applies to the *named* type of the enclosing
       field (fix c36820b); a fragment definition always has a condition in parsed documents *)
    let t := match na_name (attr id) with
             | Some n => resolve (TNamed n)
             | None => if N.eqb kind K_INLINE
                       then option_map (fun t0 => TNamed (get_named t0)) (te_type e)
                       else te_type e end in
    mkTenv t (te_parent e) (te_input e) (te_fdef e) (te_dir e) (te_arg e)
  else if N.eqb kind K_VARDEF then
    let t := match na_type (attr id) with Some t => resolve t | None => None end in
    mkTenv (te_type e) (te_parent e) t (te_fdef e) (te_dir e) (te_arg e)
  else if N.eqb kind K_ARGUMENT then
    let ad := match te_dir e with
              | Some d => find_arg (name_of_node id) (snd d)
              | None => match te_fdef e with
                        | Some f => find_arg (name_of_node id) (tf_args f)
                        | None => None end
              end in
    mkTenv (te_type e) (te_parent e) (option_map snd ad) (te_fdef e) (te_dir e) ad
  else if N.eqb kind K_LISTVALUE then
    let t := match te_input e with
             | Some t => match get_nullable t with TList t' => Some t' | _ => None end
             | None => None end in
    mkTenv (te_type e) (te_parent e) t (te_fdef e) (te_dir e) (te_arg e)
  else if N.eqb kind K_OBJFIELD then
    let t := match te_input e with
             | Some t => match find_type (get_named t) with
                         | Some d => match td_kind d with
                                     | KInput => option_map tf_type (find_field (name_of_node id) (td_fields d))
                                     | _ => None end
                         | None => None end
             | None => None end in
    mkTenv (te_type e) (te_parent e) t (te_fdef e) (te_dir e) (te_arg e)
  else e.

(* Spec: the types at a position = the enclosing nodes, outermost first, then the node *)
Definition types_at (chain : list (N * N)) : tenv :=
  fold_left (fun e n => enter_env e (fst n) (snd n)) chain empty_env.

(* ---- Model: TypeInfo as coded (stacks; head = top) ---- *)
Record tistate := mkTi {
  ti_types : list (option ty); ti_parents : list (option N); ti_inputs : list (option ty);
  ti_fdefs : list (option tfield); ti_dir : option (N * list (N * ty)); ti_arg : option (N * ty)
}.
Definition ti_init : tistate := mkTi [] [] [] [] None None.
Definition top {A} (l : list (option A)) : option A := match l with x :: _ => x | [] => None end.
Definition tops (st : tistate) : tenv :=
  mkTenv (top (ti_types st)) (top (ti_parents st)) (top (ti_inputs st)) (top (ti_fdefs st)) (ti_dir st) (ti_arg st).

Definition ti_enter (st : tistate) (id kind : N) : tistate :=
  let e := enter_env (tops st) id kind in
  if N.eqb kind K_SELSET then
    mkTi (ti_types st) (te_parent e :: ti_parents st) (ti_inputs st) (ti_fdefs st) (ti_dir st) (ti_arg st)
  else if N.eqb kind K_FIELD then
    mkTi (te_type e :: ti_types st) (ti_parents st) (ti_inputs st) (te_fdef e :: ti_fdefs st) (ti_dir st) (ti_arg st)
  else if N.eqb kind K_DIRECTIVE then
    mkTi (ti_types st) (ti_parents st) (ti_inputs st) (ti_fdefs st) (te_dir e) (ti_arg st)
  else if N.eqb kind K_OPDEF || N.eqb kind K_INLINE || N.eqb kind K_FRAGDEF then
    mkTi (te_type e :: ti_types st) (ti_parents st) (ti_inputs st) (ti_fdefs st) (ti_dir st) (ti_arg st)
  else if N.eqb kind K_VARDEF || N.eqb kind K_LISTVALUE || N.eqb kind K_OBJFIELD then
    mkTi (ti_types st) (ti_parents st) (te_input e :: ti_inputs st) (ti_fdefs st) (ti_dir st) (ti_arg st)
  else if N.eqb kind K_ARGUMENT then
    mkTi (ti_types st) (ti_parents st) (te_input e :: ti_inputs st) (ti_fdefs st) (ti_dir st) (te_arg e)
  else st.

Definition ti_leave (st : tistate) (kind : N) : tistate :=
  if N.eqb kind K_SELSET then
    mkTi (ti_types st) (tl (ti_parents st)) (ti_inputs st) (ti_fdefs st) (ti_dir st) (ti_arg st)
  else if N.eqb kind K_FIELD then
    mkTi (tl (ti_types st)) (ti_parents st) (ti_inputs st) (tl (ti_fdefs st)) (ti_dir st) (ti_arg st)
  else if N.eqb kind K_DIRECTIVE then
    mkTi (ti_types st) (ti_parents st) (ti_inputs st) (ti_fdefs st) None (ti_arg st)
  else if N.eqb kind K_OPDEF || N.eqb kind K_INLINE || N.eqb kind K_FRAGDEF then
    mkTi (tl (ti_types st)) (ti_parents st) (ti_inputs st) (ti_fdefs st) (ti_dir st) (ti_arg st)
  else if N.eqb kind K_VARDEF || N.eqb kind K_LISTVALUE || N.eqb kind K_OBJFIELD then
    mkTi (ti_types st) (ti_parents st) (tl (ti_inputs st)) (ti_fdefs st) (ti_dir st) (ti_arg st)
  else if N.eqb kind K_ARGUMENT then
    mkTi (ti_types st) (ti_parents st) (tl (ti_inputs st)) (ti_fdefs st) (ti_dir st) None
  else st.

(* ---- Model: VisitWithTypeInfo around a sub-visitor (sel, pol) ----
   The loop sees generic Enter / Leave functions; the action it gets back is the sub-visitor's
   (no change where the sub-visitor has no function).  An observation is what the sub-visitor
   can read from the TypeInfo inside its callback. *)
Variable sel : N -> phase -> option N.
Variable pol : N -> phase -> action.

Definition twi_pol (kind_of : N -> N) (id : N) (ph : phase) : action :=
  match sel (kind_of id) ph with Some _ => pol id ph | None => Continue end.

Definition ti_step (st : tistate) (e : event) : tistate * list (phase * N * tenv) :=
  match e_phase e with
  | PEnter =>
    let st1 := ti_enter st (e_id e) (e_kind e) in
    match sel (e_kind e) PEnter with
    | None => (st1, [])
    | Some _ =>
      (match pol (e_id e) PEnter with Skip => ti_leave st1 (e_kind e) | _ => st1 end,
       [(PEnter, e_id e, tops st1)])
    end
  | PLeave =>
    (ti_leave st (e_kind e),
     match sel (e_kind e) PLeave with None => [] | Some _ => [(PLeave, e_id e, tops st)] end)
  end.

Fixpoint ti_run (st : tistate) (evs : list event) : list (phase * N * tenv) :=
  match evs with
  | [] => []
  | e :: r => let '(st', o) := ti_step st e in o ++ ti_run st' r
  end.

(* Spec side: the chain of enclosing nodes of an event, from its ancestors and parent *)
Definition chain_of (kind_of : N -> N) (e : event) : list (N * N) :=
  map (fun id => (id, kind_of id)) (flat_map (fun o => optl o) (e_ancs e ++ [e_parent e]))
  ++ [(e_id e, e_kind e)].

End TI.

(* id -> kind of a tree *)
Fixpoint kinds_of (n : gnode) : list (N * N) :=
  match n with
  | GNode id kind slots =>
    (id, kind) :: flat_map (fun s => match s with
                                     | One _ None => []
                                     | One _ (Some c) => kinds_of c
                                     | Many _ l => flat_map kinds_of l end) slots
  end.

(* shape of parsed documents that TypeInfo relies on: no Directive node below a Directive
   node, no Argument node below an Argument node (Leave resets Directive() / Argument() to
   nil instead of restoring them) *)
Fixpoint ti_ok (d a : bool) (n : gnode) : bool :=
  match n with
  | GNode _ kind slots =>
    negb (N.eqb kind K_DIRECTIVE && d) && negb (N.eqb kind K_ARGUMENT && a)
    && forallb (slot_all (ti_ok (d || N.eqb kind K_DIRECTIVE) (a || N.eqb kind K_ARGUMENT))) slots
  end.
