(* Model of the string quoting of language/printer/printer.go (quoteString): the only
   escapes produced are the ones the lexer reads back (backslash followed by a double quote,
   a backslash, b, f, n, r, t, or uXXXX).
   The Go loop ranges over the runes of the value; a byte that is not valid UTF-8 is
   written as U+FFFD (such values are outside the round-trip law, DESIGN Appendix A). *)
From Coq Require Import List NArith Bool.
From GQL Require Import Base.Bytes Syntax.Lexer.
Import ListNotations.
Open Scope N_scope.

(* utf8.AppendRune *)
Definition encode_rune (r : N) : bytes :=
  if r <? 65536 then utf8_encode r
  else if 1114111 <? r then [239; 191; 189]
  else [240 + r / 262144; 128 + (r / 4096) mod 64; 128 + (r / 64) mod 64; 128 + r mod 64].

(* one upper-case hexadecimal digit, as fmt's %X *)
Definition hexdigit (x : N) : N := if x <? 10 then 48 + x else 55 + x.

Definition quote_rune (r : N) : bytes :=
  if r =? 34 then [92; 34]
  else if r =? 92 then [92; 92]
  else if r =? 8 then [92; 98]
  else if r =? 12 then [92; 102]
  else if r =? 10 then [92; 110]
  else if r =? 13 then [92; 114]
  else if r =? 9 then [92; 116]
  else if (r <? 32) || (r =? 127) then [92; 117; 48; 48; hexdigit (r / 16); hexdigit (r mod 16)]
  else encode_rune r.

Fixpoint quote_body (fuel : nat) (s : bytes) : res bytes :=
  match fuel with
  | O => OutOfFuel
  | S f =>
    match rune_at s with
    | None => Ok []
    | Some (r, n) =>
      match quote_body f (dropN n s) with
      | Ok rest => Ok (quote_rune r ++ rest)
      | Err => Err
      | OutOfFuel => OutOfFuel
      end
    end
  end.

(* quoteString *)
Definition quote_string (s : bytes) : res bytes :=
  match quote_body (S (length s)) s with
  | Ok b => Ok (34 :: b ++ [34])
  | Err => Err
  | OutOfFuel => OutOfFuel
  end.
