(* Model of the string quoting of language/printer/printer.go (quoteString): the only
   escapes produced are the ones the lexer reads back (backslash followed by a double quote,
   a backslash, b, f, n, r, t, or uXXXX).
   The Go loop ranges over the runes of the value; a byte that is not valid UTF-8 is
   written as U+FFFD (such values are outside the round-trip law, DESIGN Appendix A). *)
From Coq Require Import List NArith Bool.
From GQL Require Import Base.Bytes Syntax.Lexer.
Import ListNotations.
Open Scope N_scope.

(* utf8.AppendRune *)
Definition encode_rune (r : N) : bytes :=
  if r <? 65536 then utf8_encode r
  else if 1114111 <? r then [239; 191; 189]
  else [240 + r / 262144; 128 + (r / 4096) mod 64; 128 + (r / 64) mod 64; 128 + r mod 64].

(* one upper-case hexadecimal digit, as fmt's %X *)
Definition hexdigit (x : N) : N := if x <? 10 then 48 + x else 55 + x.

Definition quote_rune (r : N) : bytes :=
  if r =? 34 then [92; 34]
  else if r =? 92 then [92; 92]
  else if r =? 8 then [92; 98]
  else if r =? 12 then [92; 102]
  else if r =? 10 then [92; 110]
  else if r =? 13 then [92; 114]
  else if r =? 9 then [92; 116]
  else if (r <? 32) || (r =? 127) then [92; 117; 48; 48; hexdigit (r / 16); hexdigit (r mod 16)]
  else encode_rune r.

Fixpoint quote_body (fuel : nat) (s : bytes) : res bytes :=
  match fuel with
  | O => OutOfFuel
  | S f =>
    match rune_at s with
    | None => Ok []
    | Some (r, n) =>
      match quote_body f (dropN n s) with
      | Ok rest => Ok (quote_rune r ++ rest)
      | Err => Err
      | OutOfFuel => OutOfFuel
      end
    end
  end.

(* quoteString *)
Definition quote_string (s : bytes) : res bytes :=
  match quote_body (S (length s)) s with
  | Ok b => Ok (34 :: b ++ [34])
  | Err => Err
  | OutOfFuel => OutOfFuel
  end.

(* ------------------------------------------------------------------------
   Layout model of printer.go for executable documents.

   The printer builds strings with join / wrap / block / indent.  The model
   builds the same strings as lists of pieces -- a token (kind, value) or a
   separator (bytes between tokens) -- with the same four combinators, and
   print_doc flattens the pieces.  A piece list is empty exactly when the Go
   string is empty (join drops empty strings, wrap tests for them). *)
From Coq Require Import String.
From GQL Require Import Syntax.Ast Syntax.Parser.

Inductive piece := PTok (k : tkind) (v : bytes) | PSep (s : bytes).
Definition layout := list piece.

Definition quote_str (s : bytes) : bytes :=
  match quote_string s with Ok q => q | _ => [34; 34] end.

Definition punct_bytes (k : tkind) : bytes :=
  match k with
  | BANG => [33] | DOLLAR => [36] | AMP => [38] | PAREN_L => [40] | PAREN_R => [41]
  | SPREAD => [46; 46; 46] | COLON => [58] | EQUALS => [61] | AT => [64]
  | BRACKET_L => [91] | BRACKET_R => [93] | BRACE_L => [123] | PIPE => [124] | BRACE_R => [125]
  | _ => []
  end.

Definition render_piece (p : piece) : bytes :=
  match p with
  | PSep s => s
  | PTok k v =>
    match k with
    | NAME | INT | FLOAT => v
    | STRING | BLOCK_STRING => quote_str v
    | _ => punct_bytes k
    end
  end.

Definition flat (l : layout) : bytes := flat_map render_piece l.

Definition T (k : tkind) : layout := [PTok k []].
Definition Nm (n : name) : layout := [PTok NAME (nval n)].
Definition Kw (s : string) : layout := [PTok NAME (kw s)].
Definition sp : layout := [PSep [32]].
Definition comma_sp : bytes := [44; 32].

(* join: empty strings are dropped, the rest separated by sep *)
Fixpoint ljoin_ne (l : list layout) (sep : bytes) : layout :=
  match l with
  | [] => []
  | [a] => a
  | a :: r => a ++ PSep sep :: ljoin_ne r sep
  end.
Definition ljoin (l : list layout) (sep : bytes) : layout :=
  ljoin_ne (filter (fun x => negb (is_nil x)) l) sep.
(* wrap(start, maybeString, end) *)
Definition lwrap (a m b : layout) : layout := if is_nil m then [] else a ++ m ++ b.
(* indent: every newline gets two spaces after it *)
Fixpoint indent_bytes (s : bytes) : bytes :=
  match s with
  | [] => []
  | c :: r => if c =? 10 then 10 :: 32 :: 32 :: indent_bytes r else c :: indent_bytes r
  end.
Definition lindent (l : layout) : layout :=
  map (fun p => match p with PSep s => PSep (indent_bytes s) | t => t end) l.
(* block(items) *)
Definition lblock (items : list layout) : layout :=
  if is_nil items then [PTok BRACE_L []; PTok BRACE_R []]
  else lindent (PTok BRACE_L [] :: PSep [10] :: ljoin items [10]) ++ [PSep [10]; PTok BRACE_R []].

Fixpoint lay_value (v : value) : layout :=
  match v with
  | VVar n _ => PTok DOLLAR [] :: Nm n
  | VInt s _ => [PTok INT s]
  | VFloat s _ => [PTok FLOAT s]
  | VStr s _ => [PTok STRING s]
  | VBool b _ => if b then Kw "true" else Kw "false"
  | VEnum s _ => [PTok NAME s]
  | VList vs _ => T BRACKET_L ++ ljoin (map lay_value vs) comma_sp ++ T BRACKET_R
  | VObj fs _ =>
    T BRACE_L ++
    ljoin (map (fun f => match f with OField n v _ => Nm n ++ PTok COLON [] :: PSep [32] :: lay_value v end) fs) comma_sp ++
    T BRACE_R
  end.

Fixpoint lay_type (t : ty) : layout :=
  match t with
  | TNamed n => Nm (nd_name n)
  | TList t _ => T BRACKET_L ++ lay_type t ++ T BRACKET_R
  | TNonNull t _ => lay_type t ++ T BANG
  end.

Definition lay_arg (a : argument) : layout := Nm (a_name a) ++ PTok COLON [] :: PSep [32] :: lay_value (a_value a).
Definition lay_args (l : list argument) : layout := lwrap (T PAREN_L) (ljoin (map lay_arg l) comma_sp) (T PAREN_R).
Definition lay_dir (d : directive) : layout := PTok AT [] :: Nm (d_name d) ++ lay_args (d_args d).
Definition lay_dirs (l : list directive) : layout := ljoin (map lay_dir l) [32].

Fixpoint lay_sel (s : selection) : layout :=
  match s with
  | SField al nm args dirs sub _ =>
    ljoin [ lwrap [] (match al with Some a => Nm a | None => [] end) [PTok COLON []; PSep [32]] ++ Nm nm ++ lay_args args;
            lay_dirs dirs;
            match sub with Some ss => lay_selset ss | None => [] end ] [32]
  | SSpread n dirs _ => T SPREAD ++ Nm n ++ lwrap sp (lay_dirs dirs) []
  | SInline tc dirs ss _ =>
    ljoin [ T SPREAD;
            lwrap (Kw "on" ++ sp) (match tc with Some t => Nm (nd_name t) | None => [] end) [];
            lay_dirs dirs;
            lay_selset ss ] [32]
  end
with lay_selset (ss : selset) : layout :=
  match ss with
  | SelSet sels _ => lblock (map lay_sel sels)
  end.

Definition lay_vardef (v : vardef) : layout :=
  PTok DOLLAR [] :: Nm (vd_var v) ++ PTok COLON [] :: PSep [32] :: lay_type (vd_type v) ++
  lwrap (sp ++ T EQUALS ++ sp) (match vd_default v with Some d => lay_value d | None => [] end) [].

Definition is_query (o : optype) : bool := match o with Query => true | _ => false end.

Definition lay_op (o : opdef) : layout :=
  let name := match op_name o with Some n => Nm n | None => [] end in
  let vardefs := lwrap (T PAREN_L) (ljoin (map lay_vardef (op_vars o)) comma_sp) (T PAREN_R) in
  let dirs := lay_dirs (op_dirs o) in
  let sel := lay_selset (op_sel o) in
  if is_nil name && is_nil dirs && is_nil vardefs && is_query (op_type o) then sel
  else ljoin [ [PTok NAME (optype_name (op_type o))]; name ++ vardefs; dirs; sel ] [32].

Definition lay_frag (f : fragdef) : layout :=
  Kw "fragment" ++ sp ++ Nm (fr_name f) ++ sp ++ Kw "on" ++ sp ++ Nm (nd_name (fr_cond f)) ++ sp ++
  lwrap [] (lay_dirs (fr_dirs f)) sp ++ lay_selset (fr_sel f).

(* type-system definitions are not modelled: they print as nothing here and
   [print_doc] is only compared on executable documents *)
Definition lay_def (d : definition) : layout :=
  match d with
  | DOp o => lay_op o
  | DFrag f => lay_frag f
  | _ => []
  end.

Definition lay_doc (d : document) : layout := ljoin (map lay_def (doc_defs d)) [10; 10] ++ [PSep [10]].

Definition print_value (v : value) : bytes := flat (lay_value v).
Definition print_type (t : ty) : bytes := flat (lay_type t).
Definition print_doc (d : document) : bytes := flat (lay_doc d).
