(* Model of the string quoting of language/printer/printer.go (quoteString): the only
   escapes produced are the ones the lexer reads back (backslash followed by a double quote,
   a backslash, b, f, n, r, t, or uXXXX).
   The Go loop ranges over the runes of the value; a byte that is not valid UTF-8 is
   written as it stands (since fixes/C08-invalid-utf8-bytes.patch). *)
From Coq Require Import List NArith Bool.
From GQL Require Import Base.Bytes Syntax.Lexer.
Import ListNotations.
Open Scope N_scope.

(* utf8.AppendRune *)
Definition encode_rune (r : N) : bytes :=
  if r <? 65536 then utf8_encode r
  else if 1114111 <? r then [239; 191; 189]
  else [240 + r / 262144; 128 + (r / 4096) mod 64; 128 + (r / 64) mod 64; 128 + r mod 64].

(* one upper-case hexadecimal digit, as fmt's %X *)
Definition hexdigit (x : N) : N := if x <? 10 then 48 + x else 55 + x.

Definition quote_rune (r : N) : bytes :=
  if r =? 34 then [92; 34]
  else if r =? 92 then [92; 92]
  else if r =? 8 then [92; 98]
  else if r =? 12 then [92; 102]
  else if r =? 10 then [92; 110]
  else if r =? 13 then [92; 114]
  else if r =? 9 then [92; 116]
  else if (r <? 32) || (r =? 127) then [92; 117; 48; 48; hexdigit (r / 16); hexdigit (r mod 16)]
  else encode_rune r.

(* what the loop writes for the character decoded at the head of s: a byte that does not decode
   (utf8.RuneError with width 1) is kept as it stands (fixes/C08-invalid-utf8-bytes.patch;
   before that repair it was written as U+FFFD: [quote_piece_fffd]) *)
Definition quote_piece (s : bytes) (r n : N) : bytes :=
  if (r =? 65533) && (n =? 1) then takeN 1 s else quote_rune r.
Definition quote_piece_fffd (s : bytes) (r n : N) : bytes := quote_rune r.

Section QuoteBody.
  Variable piece : bytes -> N -> N -> bytes.
  Fixpoint quote_body_with (fuel : nat) (s : bytes) : res bytes :=
    match fuel with
    | O => OutOfFuel
    | S f =>
      match rune_at s with
      | None => Ok []
      | Some (r, n) =>
        match quote_body_with f (dropN n s) with
        | Ok rest => Ok (piece s r n ++ rest)
        | Err => Err
        | OutOfFuel => OutOfFuel
        end
      end
    end.
End QuoteBody.
Definition quote_body := quote_body_with quote_piece.
(* quoteString before the repair: every byte that does not decode becomes U+FFFD *)
Definition quote_string_fffd (s : bytes) : res bytes :=
  match quote_body_with quote_piece_fffd (S (length s)) s with
  | Ok b => Ok (34 :: b ++ [34])
  | Err => Err
  | OutOfFuel => OutOfFuel
  end.

(* quoteString *)
Definition quote_string (s : bytes) : res bytes :=
  match quote_body (S (length s)) s with
  | Ok b => Ok (34 :: b ++ [34])
  | Err => Err
  | OutOfFuel => OutOfFuel
  end.

(* ------------------------------------------------------------------------
   Layout model of printer.go for executable documents.

   The printer builds strings with join / wrap / block / indent.  The model
   builds the same strings as lists of pieces -- a token (kind, value) or a
   separator (bytes between tokens) -- with the same four combinators, and
   print_doc flattens the pieces.  A piece list is empty exactly when the Go
   string is empty (join drops empty strings, wrap tests for them). *)
From Coq Require Import String.
From GQL Require Import Syntax.Ast Syntax.Parser.

(* PBlk d s: the description s written as a block string (getDescription when
   printableAsBlockString holds), inside d enclosing calls of indent() *)
Inductive piece := PTok (k : tkind) (v : bytes) | PSep (s : bytes) | PBlk (depth : N) (s : bytes).
Definition layout := list piece.

Definition quote_str (s : bytes) : bytes :=
  match quote_string s with Ok q => q | _ => [34; 34] end.

Definition punct_bytes (k : tkind) : bytes :=
  match k with
  | BANG => [33] | DOLLAR => [36] | AMP => [38] | PAREN_L => [40] | PAREN_R => [41]
  | SPREAD => [46; 46; 46] | COLON => [58] | EQUALS => [61] | AT => [64]
  | BRACKET_L => [91] | BRACKET_R => [93] | BRACE_L => [123] | PIPE => [124] | BRACE_R => [125]
  | _ => []
  end.

(* indent: every newline gets two spaces after it *)
Fixpoint indent_bytes (s : bytes) : bytes :=
  match s with
  | [] => []
  | c :: r => if c =? 10 then 10 :: 32 :: 32 :: indent_bytes r else c :: indent_bytes r
  end.

(* ---- descriptions: getDescription / printableAsBlockString ---- *)
Definition tq : bytes := [34; 34; 34].
(* no_tq s: s does not contain three double quotes in a row (strings.Contains negated) *)
Fixpoint no_tq (s : bytes) : bool :=
  match s with
  | [] => true
  | _ :: r => negb (starts_with tq s) && no_tq r
  end.
(* s ends neither with a double quote nor with a backslash (the two strings.HasSuffix tests) *)
Fixpoint last_ok (s : bytes) : bool :=
  match s with
  | [] => true
  | [c] => negb (c =? 34) && negb (c =? 92)
  | _ :: r => last_ok r
  end.
(* for _, r := range s { if !p(r) { return false } } *)
Fixpoint all_runes (p : N -> bool) (fuel : nat) (s : bytes) : bool :=
  match fuel with
  | O => false
  | S f =>
    match rune_at s with
    | None => true
    | Some (r, n) => p r && all_runes p f (dropN n s)
    end
  end.
Definition block_rune_ok (r : N) : bool :=
  negb (((r <? 32) && negb (r =? 9) && negb (r =? 10)) || (r =? 65279)).
(* strings.Split(s, LF) *)
Fixpoint split_nl (s : bytes) : list bytes :=
  match s with
  | [] => [[]]
  | c :: r =>
    if c =? 10 then [] :: split_nl r
    else match split_nl r with l :: ls => (c :: l) :: ls | [] => [[c]] end
  end.
(* isBlank: strings.Trim(l, space tab) is empty *)
Definition blank_line (l : bytes) : bool := forallb is_blank_char l.
(* l[0] is a space or a tab *)
Definition starts_blank (l : bytes) : bool := match l with c :: _ => is_blank_char c | [] => false end.

Definition printable_as_block (s : bytes) : bool :=
  no_tq s && last_ok s && all_runes block_rune_ok (S (List.length s)) s &&
  (let lines := split_nl s in
   negb (blank_line (hd [] lines)) && negb (blank_line (last lines [])) && negb (starts_blank (hd [] lines)) &&
   match lines with
   | _ :: ((_ :: _) as rest) => existsb (fun l => negb (blank_line l) && negb (starts_blank l)) rest
   | _ => true
   end).

(* the text between the triple quotes: join of the opening quotes, desc and the closing quotes
   with separator LF when the description contains a newline, no separator otherwise *)
Definition block_raw (s : bytes) : bytes := if existsb (N.eqb 10) s then 10 :: s ++ [10] else s.

Definition render_piece (p : piece) : bytes :=
  match p with
  | PSep s => s
  | PBlk d s => tq ++ N.iter d indent_bytes (block_raw s) ++ tq
  | PTok k v =>
    match k with
    | NAME | INT | FLOAT => v
    | STRING | BLOCK_STRING => quote_str v
    | _ => punct_bytes k
    end
  end.

Definition flat (l : layout) : bytes := flat_map render_piece l.

Definition T (k : tkind) : layout := [PTok k []].
Definition Nm (n : name) : layout := [PTok NAME (nval n)].
Definition Kw (s : string) : layout := [PTok NAME (kw s)].
Definition sp : layout := [PSep [32]].
Definition comma_sp : bytes := [44; 32].

(* join: empty strings are dropped, the rest separated by sep *)
Fixpoint ljoin_ne (l : list layout) (sep : bytes) : layout :=
  match l with
  | [] => []
  | [a] => a
  | a :: r => a ++ PSep sep :: ljoin_ne r sep
  end.
Definition ljoin (l : list layout) (sep : bytes) : layout :=
  ljoin_ne (filter (fun x => negb (is_nil x)) l) sep.
(* wrap(start, maybeString, end) *)
Definition lwrap (a m b : layout) : layout := if is_nil m then [] else a ++ m ++ b.
(* indent(str) on a layout: separators and block-string descriptions contain the newlines *)
Definition lindent (l : layout) : layout :=
  map (fun p => match p with PSep s => PSep (indent_bytes s) | PBlk d s => PBlk (N.succ d) s | t => t end) l.
(* block(items) *)
Definition lblock (items : list layout) : layout :=
  if is_nil items then [PTok BRACE_L []; PTok BRACE_R []]
  else lindent (PTok BRACE_L [] :: PSep [10] :: ljoin items [10]) ++ [PSep [10]; PTok BRACE_R []].

Fixpoint lay_value (v : value) : layout :=
  match v with
  | VVar n _ => PTok DOLLAR [] :: Nm n
  | VInt s _ => [PTok INT s]
  | VFloat s _ => [PTok FLOAT s]
  | VStr s _ => [PTok STRING s]
  | VBool b _ => if b then Kw "true" else Kw "false"
  | VEnum s _ => [PTok NAME s]
  | VList vs _ => T BRACKET_L ++ ljoin (map lay_value vs) comma_sp ++ T BRACKET_R
  | VObj fs _ =>
    T BRACE_L ++
    ljoin (map (fun f => match f with OField n v _ => Nm n ++ PTok COLON [] :: PSep [32] :: lay_value v end) fs) comma_sp ++
    T BRACE_R
  end.

Fixpoint lay_type (t : ty) : layout :=
  match t with
  | TNamed n => Nm (nd_name n)
  | TList t _ => T BRACKET_L ++ lay_type t ++ T BRACKET_R
  | TNonNull t _ => lay_type t ++ T BANG
  end.

Definition lay_arg (a : argument) : layout := Nm (a_name a) ++ PTok COLON [] :: PSep [32] :: lay_value (a_value a).
Definition lay_args (l : list argument) : layout := lwrap (T PAREN_L) (ljoin (map lay_arg l) comma_sp) (T PAREN_R).
Definition lay_dir (d : directive) : layout := PTok AT [] :: Nm (d_name d) ++ lay_args (d_args d).
Definition lay_dirs (l : list directive) : layout := ljoin (map lay_dir l) [32].

Fixpoint lay_sel (s : selection) : layout :=
  match s with
  | SField al nm args dirs sub _ =>
    ljoin [ lwrap [] (match al with Some a => Nm a | None => [] end) [PTok COLON []; PSep [32]] ++ Nm nm ++ lay_args args;
            lay_dirs dirs;
            match sub with Some ss => lay_selset ss | None => [] end ] [32]
  | SSpread n dirs _ => T SPREAD ++ Nm n ++ lwrap sp (lay_dirs dirs) []
  | SInline tc dirs ss _ =>
    ljoin [ T SPREAD;
            lwrap (Kw "on" ++ sp) (match tc with Some t => Nm (nd_name t) | None => [] end) [];
            lay_dirs dirs;
            lay_selset ss ] [32]
  end
with lay_selset (ss : selset) : layout :=
  match ss with
  | SelSet sels _ => lblock (map lay_sel sels)
  end.

Definition lay_vardef (v : vardef) : layout :=
  PTok DOLLAR [] :: Nm (vd_var v) ++ PTok COLON [] :: PSep [32] :: lay_type (vd_type v) ++
  lwrap (sp ++ T EQUALS ++ sp) (match vd_default v with Some d => lay_value d | None => [] end) [].

Definition is_query (o : optype) : bool := match o with Query => true | _ => false end.

Definition lay_op (o : opdef) : layout :=
  let name := match op_name o with Some n => Nm n | None => [] end in
  let vardefs := lwrap (T PAREN_L) (ljoin (map lay_vardef (op_vars o)) comma_sp) (T PAREN_R) in
  let dirs := lay_dirs (op_dirs o) in
  let sel := lay_selset (op_sel o) in
  if is_nil name && is_nil dirs && is_nil vardefs && is_query (op_type o) then sel
  else ljoin [ [PTok NAME (optype_name (op_type o))]; name ++ vardefs; dirs; sel ] [32].

Definition lay_frag (f : fragdef) : layout :=
  Kw "fragment" ++ sp ++ Nm (fr_name f) ++ sp ++ Kw "on" ++ sp ++ Nm (nd_name (fr_cond f)) ++ sp ++
  lwrap [] (lay_dirs (fr_dirs f)) sp ++ lay_selset (fr_sel f).

(* ---- type-system definitions (the map branch of each reducer: a definition always has an
   edited child -- its name, its operation types, the extended definition -- so the visitor
   hands the reducer the map copy) ---- *)

(* join with a separator that contains a token: " & " and " | " *)
Fixpoint ljoinL_ne (l : list layout) (sep : layout) : layout :=
  match l with
  | [] => []
  | [a] => a
  | a :: r => a ++ sep ++ ljoinL_ne r sep
  end.
Definition ljoinL (l : list layout) (sep : layout) : layout :=
  ljoinL_ne (filter (fun x => negb (is_nil x)) l) sep.
Definition amp_sep : layout := [PSep [32]; PTok AMP []; PSep [32]].
Definition pipe_sep : layout := [PSep [32]; PTok PIPE []; PSep [32]].
Definition nl : layout := [PSep [10]].

(* getDescription: nothing for an absent or empty description, a block string when
   printableAsBlockString holds, the quoted string otherwise *)
Definition lay_descr (d : descr) : layout :=
  match d with
  | None => []
  | Some (s, _) =>
    if is_nil s then []
    else if printable_as_block s then [PBlk 0 s]
    else [PTok STRING s]
  end.
(* if desc != "" { str = desc + LF + str } *)
Definition with_desc (d : descr) (body : layout) : layout := lwrap [] (lay_descr d) nl ++ body.
(* if desc != "" { str = LF + desc + LF + str } *)
Definition with_desc_nl (d : descr) (body : layout) : layout := lwrap nl (lay_descr d) nl ++ body.

Definition dflt_lay (dv : option value) : layout := match dv with Some d => lay_value d | None => [] end.

Definition lay_ivdef (i : ivdef) : layout :=
  with_desc_nl (iv_desc i)
    (ljoin [ Nm (iv_name i) ++ PTok COLON [] :: PSep [32] :: lay_type (iv_type i);
             lwrap (T EQUALS ++ sp) (dflt_lay (iv_default i)) [];
             lay_dirs (iv_dirs i) ] [32]).

(* strings.TrimSpace at the start of an argument's text, which begins with LF, a double quote
   or a name character: the ASCII white space *)
Fixpoint trim_space (s : bytes) : bytes :=
  match s with
  | c :: r => if ((9 <=? c) && (c <=? 13)) || (c =? 32) then trim_space r else s
  | [] => []
  end.
(* hasArgDesc: some printed argument starts, after TrimSpace, with three double quotes *)
Definition has_arg_desc (args : list layout) : bool :=
  existsb (fun a => starts_with tq (trim_space (flat a))) args.
Definition lay_argdefs (l : list ivdef) : layout :=
  let args := map lay_ivdef l in
  if has_arg_desc args then lwrap (T PAREN_L) (lindent (nl ++ ljoin args [10])) (nl ++ T PAREN_R)
  else lwrap (T PAREN_L) (ljoin args comma_sp) (T PAREN_R).

Definition lay_fielddef (f : fielddef) : layout :=
  with_desc_nl (fd_desc f)
    (Nm (fd_name f) ++ lay_argdefs (fd_args f) ++ PTok COLON [] :: PSep [32] :: lay_type (fd_type f) ++
     lwrap sp (lay_dirs (fd_dirs f)) []).

Definition lay_optypedef (o : optypedef) : layout :=
  PTok NAME (optype_name (ot_op o)) :: PTok COLON [] :: PSep [32] :: Nm (nd_name (ot_type o)).

Definition lay_objdef (o : objdef) : layout :=
  with_desc (ob_desc o)
    (ljoin [ Kw "type"; Nm (ob_name o);
             lwrap (Kw "implements" ++ sp) (ljoinL (map (fun n => Nm (nd_name n)) (ob_ifaces o)) amp_sep) [];
             lay_dirs (ob_dirs o);
             lblock (map lay_fielddef (ob_fields o)) ] [32]).

Definition lay_enumval (v : enumvaldef) : layout :=
  with_desc_nl (ev_desc v) (ljoin [ Nm (ev_name v); lay_dirs (ev_dirs v) ] [32]).

Definition lay_def (d : definition) : layout :=
  match d with
  | DOp o => lay_op o
  | DFrag f => lay_frag f
  | DSchema dirs ots _ => ljoin [ Kw "schema"; lay_dirs dirs; lblock (map lay_optypedef ots) ] [32]
  | DScalar d n dirs _ => with_desc d (ljoin [ Kw "scalar"; Nm n; lay_dirs dirs ] [32])
  | DObject o => lay_objdef o
  | DInterface d n dirs fs _ =>
    with_desc d (ljoin [ Kw "interface"; Nm n; lay_dirs dirs; lblock (map lay_fielddef fs) ] [32])
  | DUnion d n dirs ts _ =>
    with_desc d (ljoin [ Kw "union"; Nm n; lay_dirs dirs;
                         T EQUALS ++ sp ++ ljoinL (map (fun t => Nm (nd_name t)) ts) pipe_sep ] [32])
  | DEnum d n dirs vs _ =>
    with_desc d (ljoin [ Kw "enum"; Nm n; lay_dirs dirs; lblock (map lay_enumval vs) ] [32])
  | DInput d n dirs fs _ =>
    with_desc d (ljoin [ Kw "input"; Nm n; lay_dirs dirs; lblock (map lay_ivdef fs) ] [32])
  | DExtend o _ => Kw "extend" ++ sp ++ lay_objdef o
  | DDirective d n args locs _ =>
    with_desc d (Kw "directive" ++ sp ++ T AT ++ Nm n ++ lay_argdefs args ++ sp ++ Kw "on" ++ sp ++
                 ljoinL (map Nm locs) pipe_sep)
  end.

Definition lay_doc (d : document) : layout := ljoin (map lay_def (doc_defs d)) [10; 10] ++ [PSep [10]].

Definition print_value (v : value) : bytes := flat (lay_value v).
Definition print_type (t : ty) : bytes := flat (lay_type t).
Definition print_doc (d : document) : bytes := flat (lay_doc d).

(* DESIGN.md Appendix A: an empty description is the same AST as an absent one (the printer
   omits both); norm_doc replaces every empty description by none *)
Definition norm_descr (d : descr) : descr := match d with Some ([], _) => None | _ => d end.
Definition norm_ivdef (i : ivdef) : ivdef :=
  mkivdef (norm_descr (iv_desc i)) (iv_name i) (iv_type i) (iv_default i) (iv_dirs i) (iv_loc i).
Definition norm_fielddef (f : fielddef) : fielddef :=
  mkfielddef (norm_descr (fd_desc f)) (fd_name f) (map norm_ivdef (fd_args f)) (fd_type f) (fd_dirs f) (fd_loc f).
Definition norm_objdef (o : objdef) : objdef :=
  mkobjdef (norm_descr (ob_desc o)) (ob_name o) (ob_ifaces o) (ob_dirs o) (map norm_fielddef (ob_fields o)) (ob_loc o).
Definition norm_enumval (v : enumvaldef) : enumvaldef :=
  mkenumvaldef (norm_descr (ev_desc v)) (ev_name v) (ev_dirs v) (ev_loc v).
Definition norm_def (d : definition) : definition :=
  match d with
  | DOp _ | DFrag _ | DSchema _ _ _ => d
  | DScalar ds n dirs l => DScalar (norm_descr ds) n dirs l
  | DObject o => DObject (norm_objdef o)
  | DInterface ds n dirs fs l => DInterface (norm_descr ds) n dirs (map norm_fielddef fs) l
  | DUnion ds n dirs ts l => DUnion (norm_descr ds) n dirs ts l
  | DEnum ds n dirs vs l => DEnum (norm_descr ds) n dirs (map norm_enumval vs) l
  | DInput ds n dirs fs l => DInput (norm_descr ds) n dirs (map norm_ivdef fs) l
  | DExtend o l => DExtend (norm_objdef o) l
  | DDirective ds n args locs l => DDirective (norm_descr ds) n (map norm_ivdef args) locs l
  end.
Definition norm_doc (d : document) : document := mkdoc (map norm_def (doc_defs d)) (doc_loc d).
