(* Typed AST mirroring language/ast, every node with its Loc (start, end). *)
From Coq Require Import List NArith Bool.
From GQL Require Import Base.Bytes.
Import ListNotations.
Open Scope N_scope.

Record loc := mkloc { lstart : N; lend : N }.
Record name := mkname { nval : bytes; nloc : loc }.
Record named := mknamed { nd_name : name; nd_loc : loc }.

Inductive ty :=
| TNamed (n : named)
| TList (t : ty) (l : loc)
| TNonNull (t : ty) (l : loc).

Inductive value :=
| VVar (n : name) (l : loc)
| VInt (s : bytes) (l : loc)
| VFloat (s : bytes) (l : loc)
| VStr (s : bytes) (l : loc)
| VBool (b : bool) (l : loc)
| VEnum (s : bytes) (l : loc)
| VList (vs : list value) (l : loc)
| VObj (fs : list objfield) (l : loc)
with objfield :=
| OField (n : name) (v : value) (l : loc).

Record argument := mkarg { a_name : name; a_value : value; a_loc : loc }.
Record directive := mkdir { d_name : name; d_args : list argument; d_loc : loc }.

Inductive selection :=
| SField (alias : option name) (nm : name) (args : list argument) (dirs : list directive)
         (sub : option selset) (l : loc)
| SSpread (nm : name) (dirs : list directive) (l : loc)
| SInline (tc : option named) (dirs : list directive) (sub : selset) (l : loc)
with selset :=
| SelSet (sels : list selection) (l : loc).

Record vardef := mkvardef { vd_var : name; vd_varloc : loc; vd_type : ty; vd_default : option value; vd_loc : loc }.

Inductive optype := Query | Mutation | Subscription.

Record opdef := mkopdef { op_type : optype; op_name : option name; op_vars : list vardef;
                          op_dirs : list directive; op_sel : selset; op_loc : loc }.
Record fragdef := mkfragdef { fr_name : name; fr_cond : named; fr_dirs : list directive;
                              fr_sel : selset; fr_loc : loc }.

(* type-system definitions *)
Definition descr := option (bytes * loc).
Record ivdef := mkivdef { iv_desc : descr; iv_name : name; iv_type : ty; iv_default : option value;
                          iv_dirs : list directive; iv_loc : loc }.
Record fielddef := mkfielddef { fd_desc : descr; fd_name : name; fd_args : list ivdef; fd_type : ty;
                                fd_dirs : list directive; fd_loc : loc }.
Record optypedef := mkoptypedef { ot_op : optype; ot_type : named; ot_loc : loc }.
Record objdef := mkobjdef { ob_desc : descr; ob_name : name; ob_ifaces : list named;
                            ob_dirs : list directive; ob_fields : list fielddef; ob_loc : loc }.
Record enumvaldef := mkenumvaldef { ev_desc : descr; ev_name : name; ev_dirs : list directive; ev_loc : loc }.

Inductive definition :=
| DOp (o : opdef)
| DFrag (f : fragdef)
| DSchema (dirs : list directive) (ots : list optypedef) (l : loc)
| DScalar (d : descr) (n : name) (dirs : list directive) (l : loc)
| DObject (o : objdef)
| DInterface (d : descr) (n : name) (dirs : list directive) (fields : list fielddef) (l : loc)
| DUnion (d : descr) (n : name) (dirs : list directive) (types : list named) (l : loc)
| DEnum (d : descr) (n : name) (dirs : list directive) (vals : list enumvaldef) (l : loc)
| DInput (d : descr) (n : name) (dirs : list directive) (fields : list ivdef) (l : loc)
| DExtend (o : objdef) (l : loc)
| DDirective (d : descr) (n : name) (args : list ivdef) (locs : list name) (l : loc).

Record document := mkdoc { doc_defs : list definition; doc_loc : loc }.

(* ---- the kind/field/value tree in which ASTs are compared with the implementation ---- *)
Inductive gt := G (tag : N) (atom : bytes) (st en : N) (kids : list gt).

Definition gnone : gt := G 0 [] 0 0 [].
Definition glist (l : list gt) : gt := G 1 [] 0 0 l.
Definition gopt {A} (f : A -> gt) (o : option A) : gt := match o with Some a => f a | None => gnone end.
Definition gl (tag : N) (a : bytes) (l : loc) (kids : list gt) : gt := G tag a (lstart l) (lend l) kids.

Definition g_name (n : name) : gt := gl 2 (nval n) (nloc n) [].
Definition g_named (n : named) : gt := gl 3 [] (nd_loc n) [g_name (nd_name n)].
Fixpoint g_ty (t : ty) : gt :=
  match t with
  | TNamed n => g_named n
  | TList t l => gl 4 [] l [g_ty t]
  | TNonNull t l => gl 5 [] l [g_ty t]
  end.
Fixpoint g_value (v : value) : gt :=
  match v with
  | VVar n l => gl 6 [] l [g_name n]
  | VInt s l => gl 7 s l []
  | VFloat s l => gl 8 s l []
  | VStr s l => gl 9 s l []
  | VBool b l => gl 10 [if b then 1 else 0] l []
  | VEnum s l => gl 11 s l []
  | VList vs l => gl 12 [] l (map g_value vs)
  | VObj fs l => gl 13 [] l (map (fun f => match f with OField n v l' => gl 14 [] l' [g_name n; g_value v] end) fs)
  end.
Definition g_arg (a : argument) : gt := gl 15 [] (a_loc a) [g_name (a_name a); g_value (a_value a)].
Definition g_dir (d : directive) : gt := gl 16 [] (d_loc d) [g_name (d_name d); glist (map g_arg (d_args d))].
Definition g_dirs (ds : list directive) : gt := glist (map g_dir ds).
Fixpoint g_sel (s : selection) : gt :=
  match s with
  | SField al nm args dirs sub l =>
    gl 17 [] l [gopt g_name al; g_name nm; glist (map g_arg args); g_dirs dirs;
                match sub with Some ss => g_selset ss | None => gnone end]
  | SSpread nm dirs l => gl 18 [] l [g_name nm; g_dirs dirs]
  | SInline tc dirs sub l => gl 19 [] l [gopt g_named tc; g_dirs dirs; g_selset sub]
  end
with g_selset (ss : selset) : gt :=
  match ss with
  | SelSet sels l => gl 20 [] l (map g_sel sels)
  end.
Definition optype_name (o : optype) : bytes :=
  match o with
  | Query => [113;117;101;114;121]
  | Mutation => [109;117;116;97;116;105;111;110]
  | Subscription => [115;117;98;115;99;114;105;112;116;105;111;110]
  end.
Definition g_vardef (v : vardef) : gt :=
  gl 21 [] (vd_loc v) [gl 6 [] (vd_varloc v) [g_name (vd_var v)]; g_ty (vd_type v); gopt g_value (vd_default v)].
Definition g_descr (d : descr) : gt := match d with Some (s, l) => gl 9 s l [] | None => gnone end.
Definition g_ivdef (i : ivdef) : gt :=
  gl 24 [] (iv_loc i) [g_descr (iv_desc i); g_name (iv_name i); g_ty (iv_type i); gopt g_value (iv_default i); g_dirs (iv_dirs i)].
Definition g_fielddef (f : fielddef) : gt :=
  gl 25 [] (fd_loc f) [g_descr (fd_desc f); g_name (fd_name f); glist (map g_ivdef (fd_args f)); g_ty (fd_type f); g_dirs (fd_dirs f)].
Definition g_objdef (o : objdef) : gt :=
  gl 28 [] (ob_loc o) [g_descr (ob_desc o); g_name (ob_name o); glist (map g_named (ob_ifaces o)); g_dirs (ob_dirs o);
                       glist (map g_fielddef (ob_fields o))].
Definition g_def (d : definition) : gt :=
  match d with
  | DOp o => gl 22 (optype_name (op_type o)) (op_loc o)
               [gopt g_name (op_name o); glist (map g_vardef (op_vars o)); g_dirs (op_dirs o); g_selset (op_sel o)]
  | DFrag f => gl 23 [] (fr_loc f) [g_name (fr_name f); g_named (fr_cond f); g_dirs (fr_dirs f); g_selset (fr_sel f)]
  | DSchema dirs ots l =>
    gl 26 [] l [g_dirs dirs; glist (map (fun o => gl 27 (optype_name (ot_op o)) (ot_loc o) [g_named (ot_type o)]) ots)]
  | DScalar d n dirs l => gl 29 [] l [g_descr d; g_name n; g_dirs dirs]
  | DObject o => g_objdef o
  | DInterface d n dirs fs l => gl 30 [] l [g_descr d; g_name n; g_dirs dirs; glist (map g_fielddef fs)]
  | DUnion d n dirs ts l => gl 31 [] l [g_descr d; g_name n; g_dirs dirs; glist (map g_named ts)]
  | DEnum d n dirs vs l =>
    gl 32 [] l [g_descr d; g_name n; g_dirs dirs;
                glist (map (fun v => gl 33 [] (ev_loc v) [g_descr (ev_desc v); g_name (ev_name v); g_dirs (ev_dirs v)]) vs)]
  | DInput d n dirs fs l => gl 34 [] l [g_descr d; g_name n; g_dirs dirs; glist (map g_ivdef fs)]
  | DExtend o l => gl 35 [] l [g_objdef o]
  | DDirective d n args locs l => gl 36 [] l [g_descr d; g_name n; glist (map g_ivdef args); glist (map g_name locs)]
  end.
Definition g_doc (d : document) : gt := gl 37 [] (doc_loc d) (map g_def (doc_defs d)).

Fixpoint gt_eqb (locs : bool) (a b : gt) : bool :=
  match a, b with
  | G t1 a1 s1 e1 k1, G t2 a2 s2 e2 k2 =>
    (t1 =? t2) && bytes_eqb a1 a2 && (negb locs || ((s1 =? s2) && (e1 =? e2))) &&
    (fix go (x y : list gt) : bool :=
       match x, y with
       | [], [] => true
       | p :: x', q :: y' => gt_eqb locs p q && go x' y'
       | _, _ => false
       end) k1 k2
  end.
