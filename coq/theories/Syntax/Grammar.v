(* The grammar the library targets, as inductive relations between a token
   list and the AST node it derives -- one relation per nonterminal, one
   constructor per alternative of the productions quoted in parser.go
   (executable definitions, type-system definitions, extend type, directive
   definitions, descriptions).  A node's Loc is, by the relation itself, the
   span of its tokens: start of the first, end of the last ([span]).

   Edition choices (DESIGN.md Appendix A, pinned by the library's tests):
   no null literal; variable definitions carry no directives; `&`-separated
   implements with an optional leading `&`; empty { } bodies are derivable for
   type / interface / enum / input definitions (FieldDefinition* etc.), not
   for selection sets, argument lists, variable definitions and schema
   definitions; `extend` ObjectTypeDefinition (so a description may follow
   `extend`); schema definitions carry no description; Document : Definition+. *)
From Coq Require Import String List NArith Bool.
From GQL Require Import Base.Bytes Syntax.Lexer Syntax.Ast Syntax.Parser.
Import ListNotations.
Open Scope N_scope.

(* PrevEnd after consuming p, starting from pe *)
Definition endof (pe : N) (p : list token) : N := fold_left (fun _ t => tend t) p pe.
Definition start_of (p : list token) : N := match p with t :: _ => tstart t | [] => 0 end.
Definition span (p : list token) : loc := mkloc (start_of p) (endof 0 p).

Definition tok_name (t : token) : name := mkname (tval t) (tokloc t).
Definition tok_named (t : token) : named := mknamed (tok_name t) (tokloc t).

Section Lists.
  Context {A : Type}.
  Variable I : list token -> A -> Prop.
  (* Item* *)
  Inductive DStar : list token -> list A -> Prop :=
  | DStar_nil : DStar [] []
  | DStar_cons : forall p a ps l, I p a -> DStar ps l -> DStar (p ++ ps) (a :: l).
  (* open Item* close   (nonempty: Item+) *)
  Inductive DDelim (open close : tkind) (nonempty : bool) : list token -> list A -> Prop :=
  | DDelim_intro : forall o ps c l,
      tk o = open -> tk c = close -> DStar ps l -> (nonempty = true -> l <> []) ->
      DDelim open close nonempty (o :: ps ++ [c]) l.
  (* Item (sep Item)* *)
  Inductive DSep (sep : tkind) : list token -> list A -> Prop :=
  | DSep_one : forall p a, I p a -> DSep sep p [a]
  | DSep_cons : forall p a s ps l, I p a -> tk s = sep -> DSep sep ps l -> DSep sep (p ++ s :: ps) (a :: l).
  (* Item? *)
  Inductive DOpt : list token -> option A -> Prop :=
  | DOpt_none : DOpt [] None
  | DOpt_some : forall p a, I p a -> DOpt p (Some a).
  (* ( open Item+ close )?  giving the empty list when absent *)
  Inductive DOptDelim (open close : tkind) : list token -> list A -> Prop :=
  | DOptDelim_none : DOptDelim open close [] []
  | DOptDelim_some : forall p l, DDelim open close true p l -> DOptDelim open close p l.
End Lists.

(* Name, NamedType *)
Inductive DName : list token -> name -> Prop :=
| DName_intro : forall t, tk t = NAME -> DName [t] (tok_name t).
Inductive DNamed : list token -> named -> Prop :=
| DNamed_intro : forall t, tk t = NAME -> DNamed [t] (tok_named t).
(* FragmentName : Name but not `on` *)
Inductive DFragName : list token -> name -> Prop :=
| DFragName_intro : forall t, tk t = NAME -> tval t <> kw "on" -> DFragName [t] (tok_name t).

(* Value[Const] *)
Inductive DObjFieldOf (V : list token -> value -> Prop) : list token -> objfield -> Prop :=
| DOF_intro : forall n c pv v, tk n = NAME -> tk c = COLON -> V pv v ->
    DObjFieldOf V (n :: c :: pv) (OField (tok_name n) v (span (n :: c :: pv))).

Inductive DValue (c : bool) : list token -> value -> Prop :=
| DV_var : forall d n, c = false -> tk d = DOLLAR -> tk n = NAME ->
    DValue c [d; n] (VVar (tok_name n) (span [d; n]))
| DV_int : forall t, tk t = INT -> DValue c [t] (VInt (tval t) (tokloc t))
| DV_float : forall t, tk t = FLOAT -> DValue c [t] (VFloat (tval t) (tokloc t))
| DV_string : forall t, tk t = STRING \/ tk t = BLOCK_STRING -> DValue c [t] (VStr (tval t) (tokloc t))
| DV_true : forall t, tk t = NAME -> tval t = kw "true" -> DValue c [t] (VBool true (tokloc t))
| DV_false : forall t, tk t = NAME -> tval t = kw "false" -> DValue c [t] (VBool false (tokloc t))
| DV_enum : forall t, tk t = NAME -> tval t <> kw "true" -> tval t <> kw "false" -> tval t <> kw "null" ->
    DValue c [t] (VEnum (tval t) (tokloc t))
| DV_list : forall p l, DDelim (DValue c) BRACKET_L BRACKET_R false p l -> DValue c p (VList l (span p))
| DV_object : forall p l, DDelim (DObjFieldOf (DValue c)) BRACE_L BRACE_R false p l -> DValue c p (VObj l (span p)).

(* Type *)
Definition is_nonnull (t : ty) : bool := match t with TNonNull _ _ => true | _ => false end.
Inductive DType : list token -> ty -> Prop :=
| DT_named : forall n, tk n = NAME -> DType [n] (TNamed (tok_named n))
| DT_list : forall o p t c, tk o = BRACKET_L -> DType p t -> tk c = BRACKET_R ->
    DType (o :: p ++ [c]) (TList t (span (o :: p ++ [c])))
| DT_nonnull : forall p t b, DType p t -> is_nonnull t = false -> tk b = BANG ->
    DType (p ++ [b]) (TNonNull t (span (p ++ [b]))).

(* Argument, Arguments, Directive, Directives *)
Inductive DArgument : list token -> argument -> Prop :=
| DArg_intro : forall n c pv v, tk n = NAME -> tk c = COLON -> DValue false pv v ->
    DArgument (n :: c :: pv) (mkarg (tok_name n) v (span (n :: c :: pv))).
Definition DArguments := DOptDelim DArgument PAREN_L PAREN_R.
Inductive DDirec : list token -> directive -> Prop :=
| DDir_intro : forall a n pa args, tk a = AT -> tk n = NAME -> DArguments pa args ->
    DDirec (a :: n :: pa) (mkdir (tok_name n) args (span (a :: n :: pa))).
Definition DDirecs := DStar DDirec.

(* SelectionSet, Selection = Field | FragmentSpread | InlineFragment *)
Inductive DAlias : list token -> option name * name -> Prop :=
| DAlias_no : forall n, tk n = NAME -> DAlias [n] (None, tok_name n)
| DAlias_yes : forall a c n, tk a = NAME -> tk c = COLON -> tk n = NAME -> DAlias [a; c; n] (Some (tok_name a), tok_name n).
Inductive DTypeCond : list token -> named -> Prop :=
| DTypeCond_intro : forall o t, tk o = NAME -> tval o = kw "on" -> tk t = NAME -> DTypeCond [o; t] (tok_named t).

Inductive DSelectionOf (SS : list token -> selset -> Prop) : list token -> selection -> Prop :=
| DS_field : forall pn al nm pa args pd dirs ps sub,
    DAlias pn (al, nm) -> DArguments pa args -> DDirecs pd dirs -> DOpt SS ps sub ->
    DSelectionOf SS (pn ++ pa ++ pd ++ ps) (SField al nm args dirs sub (span (pn ++ pa ++ pd ++ ps)))
| DS_spread : forall s pn n pd dirs, tk s = SPREAD -> DFragName pn n -> DDirecs pd dirs ->
    DSelectionOf SS (s :: pn ++ pd) (SSpread n dirs (span (s :: pn ++ pd)))
| DS_inline : forall s pt tc pd dirs ps ss, tk s = SPREAD -> DOpt DTypeCond pt tc -> DDirecs pd dirs -> SS ps ss ->
    DSelectionOf SS (s :: pt ++ pd ++ ps) (SInline tc dirs ss (span (s :: pt ++ pd ++ ps))).

Inductive DSelSet : list token -> selset -> Prop :=
| DSS_intro : forall p l, DDelim (DSelectionOf DSelSet) BRACE_L BRACE_R true p l -> DSelSet p (SelSet l (span p)).
Definition DSelection := DSelectionOf DSelSet.

(* OperationDefinition, VariableDefinition, FragmentDefinition *)
Definition optype_of (v : bytes) : option optype :=
  if bytes_eqb v (kw "query") then Some Query
  else if bytes_eqb v (kw "mutation") then Some Mutation
  else if bytes_eqb v (kw "subscription") then Some Subscription
  else None.

Inductive DDefault : list token -> value -> Prop :=
| DDefault_intro : forall e pv v, tk e = EQUALS -> DValue true pv v -> DDefault (e :: pv) v.

Inductive DVarDef : list token -> vardef -> Prop :=
| DVD_intro : forall d n c pt t pv dv, tk d = DOLLAR -> tk n = NAME -> tk c = COLON -> DType pt t -> DOpt DDefault pv dv ->
    DVarDef (d :: n :: c :: pt ++ pv) (mkvardef (tok_name n) (span [d; n]) t dv (span (d :: n :: c :: pt ++ pv))).
Definition DVarDefs := DOptDelim DVarDef PAREN_L PAREN_R.

Inductive DOperation : list token -> opdef -> Prop :=
| DO_short : forall p ss, DSelSet p ss -> DOperation p (mkopdef Query None [] [] ss (span p))
| DO_full : forall k op pn nm pv vds pd dirs ps ss,
    tk k = NAME -> optype_of (tval k) = Some op ->
    DOpt DName pn nm -> DVarDefs pv vds -> DDirecs pd dirs -> DSelSet ps ss ->
    DOperation (k :: pn ++ pv ++ pd ++ ps) (mkopdef op nm vds dirs ss (span (k :: pn ++ pv ++ pd ++ ps))).

Inductive DFragment : list token -> fragdef -> Prop :=
| DF_intro : forall f pn n o t pd dirs ps ss,
    tk f = NAME -> tval f = kw "fragment" -> DFragName pn n -> tk o = NAME -> tval o = kw "on" -> tk t = NAME ->
    DDirecs pd dirs -> DSelSet ps ss ->
    DFragment (f :: pn ++ o :: t :: pd ++ ps) (mkfragdef n (tok_named t) dirs ss (span (f :: pn ++ o :: t :: pd ++ ps))).

(* ---- type-system definitions ---- *)
Inductive DDescr : list token -> descr -> Prop :=
| DDescr_none : DDescr [] None
| DDescr_some : forall t, tk t = STRING \/ tk t = BLOCK_STRING -> DDescr [t] (Some (tval t, tokloc t)).

Inductive DIVDef : list token -> ivdef -> Prop :=
| DIV_intro : forall pdsc dsc n c pt t pv dv pd dirs,
    DDescr pdsc dsc -> tk n = NAME -> tk c = COLON -> DType pt t -> DOpt DDefault pv dv -> DDirecs pd dirs ->
    DIVDef (pdsc ++ n :: c :: pt ++ pv ++ pd)
           (mkivdef dsc (tok_name n) t dv dirs (span (pdsc ++ n :: c :: pt ++ pv ++ pd))).
Definition DArgDefs := DOptDelim DIVDef PAREN_L PAREN_R.

Inductive DFieldDef : list token -> fielddef -> Prop :=
| DFD_intro : forall pdsc dsc n pa args c pt t pd dirs,
    DDescr pdsc dsc -> tk n = NAME -> DArgDefs pa args -> tk c = COLON -> DType pt t -> DDirecs pd dirs ->
    DFieldDef (pdsc ++ n :: pa ++ c :: pt ++ pd)
              (mkfielddef dsc (tok_name n) args t dirs (span (pdsc ++ n :: pa ++ c :: pt ++ pd))).

Inductive DOpTypeDef : list token -> optypedef -> Prop :=
| DOT_intro : forall k op c t, tk k = NAME -> optype_of (tval k) = Some op -> tk c = COLON -> tk t = NAME ->
    DOpTypeDef [k; c; t] (mkoptypedef op (tok_named t) (span [k; c; t])).

(* ImplementsInterfaces : implements `&`? NamedType (& NamedType)* *)
Inductive DImplements : list token -> list named -> Prop :=
| DImpl_none : DImplements [] []
| DImpl_some : forall i pa p l, tk i = NAME -> tval i = kw "implements" ->
    (pa = [] \/ exists a, pa = [a] /\ tk a = AMP) -> DSep DNamed AMP p l ->
    DImplements (i :: pa ++ p) l.

Inductive DObjDef : list token -> objdef -> Prop :=
| DOD_intro : forall pdsc dsc k n pi ifs pd dirs pf fs,
    DDescr pdsc dsc -> tk k = NAME -> tval k = kw "type" -> tk n = NAME -> DImplements pi ifs -> DDirecs pd dirs ->
    DDelim DFieldDef BRACE_L BRACE_R false pf fs ->
    DObjDef (pdsc ++ k :: n :: pi ++ pd ++ pf)
            (mkobjdef dsc (tok_name n) ifs dirs fs (span (pdsc ++ k :: n :: pi ++ pd ++ pf))).

Inductive DEnumValDef : list token -> enumvaldef -> Prop :=
| DEV_intro : forall pdsc dsc n pd dirs, DDescr pdsc dsc -> tk n = NAME -> DDirecs pd dirs ->
    DEnumValDef (pdsc ++ n :: pd) (mkenumvaldef dsc (tok_name n) dirs (span (pdsc ++ n :: pd))).

Inductive DTypeSystem : list token -> definition -> Prop :=
| DTS_schema : forall k pd dirs po ots, tk k = NAME -> tval k = kw "schema" -> DDirecs pd dirs ->
    DDelim DOpTypeDef BRACE_L BRACE_R true po ots ->
    DTypeSystem (k :: pd ++ po) (DSchema dirs ots (span (k :: pd ++ po)))
| DTS_scalar : forall pdsc dsc k n pd dirs, DDescr pdsc dsc -> tk k = NAME -> tval k = kw "scalar" -> tk n = NAME ->
    DDirecs pd dirs ->
    DTypeSystem (pdsc ++ k :: n :: pd) (DScalar dsc (tok_name n) dirs (span (pdsc ++ k :: n :: pd)))
| DTS_object : forall p o, DObjDef p o -> DTypeSystem p (DObject o)
| DTS_interface : forall pdsc dsc k n pd dirs pf fs, DDescr pdsc dsc -> tk k = NAME -> tval k = kw "interface" ->
    tk n = NAME -> DDirecs pd dirs -> DDelim DFieldDef BRACE_L BRACE_R false pf fs ->
    DTypeSystem (pdsc ++ k :: n :: pd ++ pf) (DInterface dsc (tok_name n) dirs fs (span (pdsc ++ k :: n :: pd ++ pf)))
| DTS_union : forall pdsc dsc k n pd dirs e pm ms, DDescr pdsc dsc -> tk k = NAME -> tval k = kw "union" ->
    tk n = NAME -> DDirecs pd dirs -> tk e = EQUALS -> DSep DNamed PIPE pm ms ->
    DTypeSystem (pdsc ++ k :: n :: pd ++ e :: pm) (DUnion dsc (tok_name n) dirs ms (span (pdsc ++ k :: n :: pd ++ e :: pm)))
| DTS_enum : forall pdsc dsc k n pd dirs pv vs, DDescr pdsc dsc -> tk k = NAME -> tval k = kw "enum" ->
    tk n = NAME -> DDirecs pd dirs -> DDelim DEnumValDef BRACE_L BRACE_R false pv vs ->
    DTypeSystem (pdsc ++ k :: n :: pd ++ pv) (DEnum dsc (tok_name n) dirs vs (span (pdsc ++ k :: n :: pd ++ pv)))
| DTS_input : forall pdsc dsc k n pd dirs pf fs, DDescr pdsc dsc -> tk k = NAME -> tval k = kw "input" ->
    tk n = NAME -> DDirecs pd dirs -> DDelim DIVDef BRACE_L BRACE_R false pf fs ->
    DTypeSystem (pdsc ++ k :: n :: pd ++ pf) (DInput dsc (tok_name n) dirs fs (span (pdsc ++ k :: n :: pd ++ pf)))
| DTS_extend : forall k p o, tk k = NAME -> tval k = kw "extend" -> DObjDef p o ->
    DTypeSystem (k :: p) (DExtend o (span (k :: p)))
| DTS_directive : forall pdsc dsc k a n pa args o pl locs, DDescr pdsc dsc -> tk k = NAME -> tval k = kw "directive" ->
    tk a = AT -> tk n = NAME -> DArgDefs pa args -> tk o = NAME -> tval o = kw "on" -> DSep DName PIPE pl locs ->
    DTypeSystem (pdsc ++ k :: a :: n :: pa ++ o :: pl)
                (DDirective dsc (tok_name n) args locs (span (pdsc ++ k :: a :: n :: pa ++ o :: pl))).

Inductive DDefinition : list token -> definition -> Prop :=
| DD_op : forall p o, DOperation p o -> DDefinition p (DOp o)
| DD_frag : forall p f, DFragment p f -> DDefinition p (DFrag f)
| DD_ts : forall p d, DTypeSystem p d -> DDefinition p d.

(* Document : Definition+ , followed by the end of input *)
Inductive Derives : list token -> document -> Prop :=
| Derives_intro : forall p defs e, DStar DDefinition p defs -> defs <> [] -> tk e = EOF ->
    Derives (p ++ [e]) (mkdoc defs (span (p ++ [e]))).
