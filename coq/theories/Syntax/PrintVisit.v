(* C08, no-edit clause: how language/visitor/visitor.go applies the values that visit
   functions return (ActionUpdate) -- the part of Visit that printer.Print exercises, with
   leave functions only.

   The AST handed to Visit lives in a heap of structs (address -> kind and fields: a pointer,
   a slice of pointers, nil, or a scalar).  Leaving a node whose frame collected edits
   (isEdited), Visit applies them to `node`:
     - in a slice frame, to nodeSlice -- the fresh []interface{} that toSliceInterfaces made
       of the field's elements (a copy): replaced, or removed when the value is nil;
     - in a struct frame, per edit: a value that is an ast.Node (or a slice of ast.Nodes)
       goes through updateNodeField, which SETS THE FIELD OF THE ORIGINAL STRUCT by
       reflection (the heap is written); any other value makes convertMap copy the struct
       into a map first, and the edit is stored in the copy (the heap is not touched).
   The leave function then sees the copy, and what it returns becomes an edit of the parent
   frame; a frame that was edited but whose function returned no value hands its (copied)
   node up instead ("collect back edits on the way out").

   Abstractions: a map copy is RCopy a ov (the fields of struct a overridden by ov) instead of
   a materialised map; the deferred edit loop of a slice frame (index shifted by editOffset)
   is its net effect (an element is kept, replaced or dropped); Break/Skip and enter
   functions, which Print does not use, are not modelled; fuel bounds the descent through
   pointers (OutOfFuel = None; an AST is a tree, so its height suffices). *)
From Coq Require Import List NArith Bool.
From GQL Require Import Base.Bytes.
Import ListNotations.
Open Scope N_scope.

Inductive hval := HNil | HPtr (a : N) | HSlice (l : list N) | HAtom (s : bytes).
Record hstruct := mkHS { hs_kind : N; hs_fields : list (N * hval) }.
Definition heap := list (N * hstruct).

(* values that travel as edits / are handed to visit functions *)
Inductive rval :=
| RNil
| RStr (s : bytes)                       (* any non-node value; the printer's are strings *)
| RNode (a : N)                          (* an ast.Node: pointer to a struct of the heap *)
| RCopy (a : N) (ov : list (N * rval))   (* convertMap(node a) with entries ov stored over it *)
| RSlice (l : list rval).

Fixpoint hlookup (a : N) (h : heap) : option hstruct :=
  match h with [] => None | (b, s) :: r => if a =? b then Some s else hlookup a r end.
Fixpoint set_field (k : N) (v : hval) (fs : list (N * hval)) : list (N * hval) :=
  match fs with [] => [] | (k', x) :: r => if k =? k' then (k', v) :: r else (k', x) :: set_field k v r end.
(* srcFieldValue.Set(...) on the struct at address a *)
Fixpoint hwrite (a k : N) (v : hval) (h : heap) : heap :=
  match h with
  | [] => []
  | (b, s) :: r => if a =? b then (b, mkHS (hs_kind s) (set_field k v (hs_fields s))) :: r else (b, s) :: hwrite a k v r
  end.
Fixpoint field (k : N) (fs : list (N * hval)) : hval :=
  match fs with [] => HNil | (k', x) :: r => if k =? k' then x else field k r end.

(* isStructNode; isConvertMap *)
Definition is_struct_node (v : rval) : bool := match v with RNode _ => true | _ => false end.
Definition needs_map (v : rval) : bool :=
  match v with
  | RSlice l => existsb (fun x => negb (is_struct_node x)) l
  | _ => negb (is_struct_node v)
  end.
Definition is_nil_val (v : rval) : bool := match v with RNil => true | _ => false end.

Definition addr_of (v : rval) : N := match v with RNode a => a | _ => 0 end.
Definition to_hval (v : rval) : hval :=
  match v with RNode a => HPtr a | RSlice l => HSlice (map addr_of l) | _ => HNil end.

(* one round of the loop `for _, edit := range edits` of a struct frame *)
Definition apply_edit (st : heap * rval) (e : N * rval) : heap * rval :=
  let '(h, cur) := st in
  let '(k, v) := e in
  if needs_map v then
    match cur with
    | RNode a => (h, RCopy a [(k, v)])
    | RCopy a ov => (h, RCopy a (ov ++ [(k, v)]))
    | _ => (h, cur)
    end
  else
    match cur with
    | RNode a => (hwrite a k (to_hval v) h, cur)     (* updateNodeField on the original *)
    | _ => (h, cur)                                   (* updateNodeField on a map: returns src *)
    end.
Definition apply_edits (h : heap) (a : N) (eds : list (N * rval)) : heap * rval :=
  fold_left apply_edit eds (h, RNode a).

Section Visit.
  Variable keys : N -> list N.                 (* visitor.QueryDocumentKeys *)
  Variable fn : N -> rval -> option rval.      (* the leave function of a kind: None = ActionNoChange, Some v = ActionUpdate, v *)

  (* result of visiting a node: the heap, and the edit the node contributes to its parent's frame *)
  Definition visit_res := option (heap * option rval).

  (* the elements of a slice field, visited by [rec]: the copy under construction and whether
     any element was edited *)
  Fixpoint elems (rec : heap -> N -> visit_res) (h : heap) (cs : list N) : option (heap * list rval * bool) :=
    match cs with
    | [] => Some (h, [], false)
    | c :: r =>
      match rec h c with
      | None => None
      | Some (h1, e) =>
        match elems rec h1 r with
        | None => None
        | Some (h2, l, ed) =>
          match e with
          | None => Some (h2, RNode c :: l, ed)
          | Some v => Some (h2, (if is_nil_val v then l else v :: l), true)
          end
        end
      end
    end.

  (* the fields of struct a named by the key table, in order: the edits of a's frame *)
  Fixpoint fields (rec : heap -> N -> visit_res) (a : N) (h : heap) (ks : list N) : option (heap * list (N * rval)) :=
    match ks with
    | [] => Some (h, [])
    | k :: r =>
      match hlookup a h with
      | None => None
      | Some cur_st =>
        match field k (hs_fields cur_st) with
        | HPtr c =>
          match rec h c with
          | None => None
          | Some (h1, e) =>
            match fields rec a h1 r with
            | None => None
            | Some (h2, eds) => Some (h2, match e with Some v => (k, v) :: eds | None => eds end)
            end
          end
        | HSlice cs =>
          match elems rec h cs with
          | None => None
          | Some (h1, l, ed) =>
            match fields rec a h1 r with
            | None => None
            | Some (h2, eds) => Some (h2, if ed then (k, RSlice l) :: eds else eds)
            end
          end
        | _ => fields rec a h r
        end
      end
    end.

  Fixpoint visit_node (fuel : nat) (h : heap) (a : N) {struct fuel} : visit_res :=
    match fuel with
    | O => None
    | S f =>
      match hlookup a h with
      | None => None
      | Some st =>
        match fields (visit_node f) a h (keys (hs_kind st)) with
        | None => None
        | Some (h1, eds) =>
          let '(h2, cur) := apply_edits h1 a eds in
          match fn (hs_kind st) cur with
          | Some v => Some (h2, Some v)
          | None => Some (h2, match eds with [] => None | _ => Some cur end)
          end
        end
      end
    end.

  (* Visit(root, {LeaveKindMap: fn}, keys): the heap afterwards and the returned value *)
  Definition visit (fuel : nat) (h : heap) (root : N) : visit_res := visit_node fuel h root.
End Visit.
