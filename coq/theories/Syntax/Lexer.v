(* Model of language/lexer/lexer.go over byte lists.

   Tokens carry BYTE offsets (start, end).  The Go lexer reports name tokens
   (and syntax errors) in characters counted from the resume point; that is the
   recorded finding "mixed offset units" (C18-mixed-offset-units): the model
   keeps byte offsets and returns, next to the tokens, a flag saying whether a
   multi-byte character was skipped in the ignored stretch right before some
   name token (only then do the two units differ).

   Loops that advance by the width of a decoded character use fuel with a
   distinguished OutOfFuel result; fuel (S (length source)) always suffices
   (Proofs/SyntaxLexer.v, lex_all_terminates). *)
From Coq Require Import List NArith Bool.
From GQL Require Import Base.Bytes.
Import ListNotations.
Open Scope N_scope.

Inductive res (A : Type) : Type := Ok (a : A) | Err | OutOfFuel.
Arguments Ok {A} a.
Arguments Err {A}.
Arguments OutOfFuel {A}.

Inductive tkind :=
| EOF | BANG | DOLLAR | PAREN_L | PAREN_R | SPREAD | COLON | EQUALS | AT
| BRACKET_L | BRACKET_R | BRACE_L | PIPE | BRACE_R | NAME | INT | FLOAT
| STRING | BLOCK_STRING | AMP.

Definition tkind_beq (a b : tkind) : bool :=
  match a, b with
  | EOF, EOF | BANG, BANG | DOLLAR, DOLLAR | PAREN_L, PAREN_L | PAREN_R, PAREN_R
  | SPREAD, SPREAD | COLON, COLON | EQUALS, EQUALS | AT, AT | BRACKET_L, BRACKET_L
  | BRACKET_R, BRACKET_R | BRACE_L, BRACE_L | PIPE, PIPE | BRACE_R, BRACE_R
  | NAME, NAME | INT, INT | FLOAT, FLOAT | STRING, STRING
  | BLOCK_STRING, BLOCK_STRING | AMP, AMP => true
  | _, _ => false
  end.

Record token := mktok { tk : tkind; tstart : N; tend : N; tval : bytes }.

(* ---- runeAt: utf8.DecodeRune; invalid or truncated sequences give (U+FFFD, 1) ---- *)
Definition cont (b : N) : bool := (128 <=? b) && (b <=? 191).
Definition rune_error : N * N := (65533, 1).

Definition rune_at (s : bytes) : option (N * N) :=
  match s with
  | [] => None
  | c :: r =>
    if c <? 128 then Some (c, 1)
    else if (c <? 194) || (244 <? c) then Some rune_error
    else if c <? 224 then
      match r with
      | b1 :: _ => if cont b1 then Some ((c - 192) * 64 + (b1 - 128), 2) else Some rune_error
      | _ => Some rune_error
      end
    else if c <? 240 then
      let lo := if c =? 224 then 160 else 128 in
      let hi := if c =? 237 then 159 else 191 in
      match r with
      | b1 :: b2 :: _ =>
        if (lo <=? b1) && (b1 <=? hi) && cont b2
        then Some ((c - 224) * 4096 + (b1 - 128) * 64 + (b2 - 128), 3) else Some rune_error
      | _ => Some rune_error
      end
    else
      let lo := if c =? 240 then 144 else 128 in
      let hi := if c =? 244 then 143 else 191 in
      match r with
      | b1 :: b2 :: b3 :: _ =>
        if (lo <=? b1) && (b1 <=? hi) && cont b2 && cont b3
        then Some ((c - 240) * 262144 + (b1 - 128) * 4096 + (b2 - 128) * 64 + (b3 - 128), 4)
        else Some rune_error
      | _ => Some rune_error
      end
  end.

Definition dropN (n : N) (s : bytes) : bytes := skipn (N.to_nat n) s.
Definition takeN (n : N) (s : bytes) : bytes := firstn (N.to_nat n) s.

Fixpoint span (p : N -> bool) (s : bytes) : bytes * bytes :=
  match s with
  | c :: r => if p c then let '(a, b) := span p r in (c :: a, b) else ([], s)
  | [] => ([], [])
  end.

(* ---- positionAfterWhitespace ---- *)
Definition is_ignored (code : N) : bool :=
  (code =? 65279) || (code =? 9) || (code =? 32) || (code =? 10) || (code =? 13) || (code =? 44).

Definition is_comment_char (code : N) : bool :=
  negb (code =? 0) && ((31 <? code) || (code =? 9)) && negb (code =? 10) && negb (code =? 13).

Fixpoint skip_comment (fuel : nat) (s : bytes) (pos : N) (mb : bool) : res (bytes * N * bool) :=
  match fuel with
  | O => OutOfFuel
  | S f =>
    match rune_at s with
    | Some (code, n) =>
      if is_comment_char code then skip_comment f (dropN n s) (pos + n) (mb || (1 <? n))
      else Ok (s, pos, mb)
    | None => Ok (s, pos, mb)
    end
  end.

Fixpoint skip_ws (fuel : nat) (s : bytes) (pos : N) (mb : bool) : res (bytes * N * bool) :=
  match fuel with
  | O => OutOfFuel
  | S f =>
    match rune_at s with
    | None => Ok (s, pos, mb)
    | Some (code, n) =>
      if is_ignored code then skip_ws f (dropN n s) (pos + n) (mb || (1 <? n))
      else if code =? 35 then
        match skip_comment f (dropN n s) (pos + n) mb with
        | Ok (s', pos', mb') => skip_ws f s' pos' mb'
        | Err => Err
        | OutOfFuel => OutOfFuel
        end
      else Ok (s, pos, mb)
    end
  end.

(* ---- names and numbers (all their characters are single bytes, so the loops
        of readName / readDigits are [span]) ---- *)
Definition is_digit (c : N) : bool := (48 <=? c) && (c <=? 57).
Definition is_name_start (c : N) : bool :=
  (c =? 95) || ((65 <=? c) && (c <=? 90)) || ((97 <=? c) && (c <=? 122)).
Definition is_name_char (c : N) : bool := is_name_start c || is_digit c.

Definition read_int_part (s : bytes) : option (bytes * bytes) :=
  match s with
  | c :: r =>
    if c =? 48 then
      match r with
      | d :: _ => if is_digit d then None else Some ([48], r)
      | [] => Some ([48], r)
      end
    else let '(ds, r') := span is_digit s in
         match ds with [] => None | _ => Some (ds, r') end
  | [] => None
  end.

Definition read_frac_part (s : bytes) : option (bytes * bool * bytes) :=
  match s with
  | c :: r =>
    if c =? 46 then
      let '(ds, r') := span is_digit r in
      match ds with [] => None | _ => Some (46 :: ds, true, r') end
    else Some ([], false, s)
  | [] => Some ([], false, s)
  end.

Definition read_exp_part (s : bytes) : option (bytes * bool * bytes) :=
  match s with
  | e :: r =>
    if (e =? 69) || (e =? 101) then
      let '(sg, r1) := match r with
                       | c :: r' => if (c =? 43) || (c =? 45) then ([c], r') else ([], r)
                       | [] => ([], r)
                       end in
      let '(ds, r2) := span is_digit r1 in
      match ds with [] => None | _ => Some (e :: sg ++ ds, true, r2) end
    else Some ([], false, s)
  | [] => Some ([], false, s)
  end.

(* lexeme, isFloat, rest *)
Definition read_number (s : bytes) : option (bytes * bool * bytes) :=
  let '(sign, s1) := match s with c :: r => if c =? 45 then ([45], r) else ([], s) | [] => ([], s) end in
  match read_int_part s1 with
  | None => None
  | Some (ip, s2) =>
    match read_frac_part s2 with
    | None => None
    | Some (fp, f1, s3) =>
      match read_exp_part s3 with
      | None => None
      | Some (ep, f2, s4) => Some (sign ++ ip ++ fp ++ ep, f1 || f2, s4)
      end
    end
  end.

(* ---- strings ---- *)
Definition char2hex (a : N) : option N :=
  if (48 <=? a) && (a <=? 57) then Some (a - 48)
  else if (65 <=? a) && (a <=? 70) then Some (a - 55)
  else if (97 <=? a) && (a <=? 102) then Some (a - 87)
  else None.

Definition uni_char_code (a b c d : N) : option N :=
  match char2hex a, char2hex b, char2hex c, char2hex d with
  | Some x, Some y, Some z, Some w => Some (x * 4096 + y * 256 + z * 16 + w)
  | _, _, _, _ => None
  end.

(* bytes.Buffer.WriteRune for code points below 0x10000 (surrogates become U+FFFD) *)
Definition utf8_encode (r : N) : bytes :=
  if r <? 128 then [r]
  else if r <? 2048 then [192 + r / 64; 128 + r mod 64]
  else if (55296 <=? r) && (r <=? 57343) then [239; 191; 189]
  else [224 + r / 4096; 128 + (r / 64) mod 64; 128 + r mod 64].

Definition simple_escape (e : N) : option N :=
  match e with
  | 34 => Some 34 | 47 => Some 47 | 92 => Some 92
  | 98 => Some 8 | 102 => Some 12 | 110 => Some 10 | 114 => Some 13 | 116 => Some 9
  | _ => None
  end.

(* s starts after the opening quote; returns value, rest after the closing quote, its offset *)
Fixpoint read_string (fuel : nat) (s : bytes) (pos : N) : res (bytes * bytes * N) :=
  match fuel with
  | O => OutOfFuel
  | S f =>
    match rune_at s with
    | None => Err
    | Some (code, n) =>
      if (code =? 10) || (code =? 13) then Err
      else if code =? 34 then Ok ([], dropN 1 s, pos + 1)
      else if (code <? 32) && negb (code =? 9) then Err
      else if code =? 92 then
        match dropN 1 s with
        | [] => Err
        | e :: r =>
          match simple_escape e with
          | Some c =>
            match read_string f r (pos + 2) with
            | Ok (v, rest, p) => Ok (c :: v, rest, p)
            | Err => Err
            | OutOfFuel => OutOfFuel
            end
          | None =>
            if e =? 117 then
              match r with
              | a :: b :: c :: d :: r' =>
                match uni_char_code a b c d with
                | Some cp =>
                  match read_string f r' (pos + 6) with
                  | Ok (v, rest, p) => Ok (utf8_encode cp ++ v, rest, p)
                  | Err => Err
                  | OutOfFuel => OutOfFuel
                  end
                | None => Err
                end
              | _ => Err
              end
            else Err
          end
        end
      else
        match read_string f (dropN n s) (pos + n) with
        | Ok (v, rest, p) => Ok (takeN n s ++ v, rest, p)
        | Err => Err
        | OutOfFuel => OutOfFuel
        end
    end
  end.

Fixpoint starts_with (p s : bytes) : bool :=
  match p, s with
  | [], _ => true
  | a :: p', b :: s' => (a =? b) && starts_with p' s'
  | _, [] => false
  end.

(* s starts after the opening triple quote; returns the raw value *)
Fixpoint read_block_raw (fuel : nat) (s : bytes) (pos : N) : res (bytes * bytes * N) :=
  match fuel with
  | O => OutOfFuel
  | S f =>
    match rune_at s with
    | None => Err
    | Some (code, n) =>
      if (code =? 34) && starts_with [34; 34] (dropN 1 s) then Ok ([], dropN 3 s, pos + 3)
      else if (code <? 32) && negb (code =? 9) && negb (code =? 10) && negb (code =? 13) then Err
      else if (code =? 92) && starts_with [34; 34; 34] (dropN 1 s) then
        match read_block_raw f (dropN 4 s) (pos + 4) with
        | Ok (v, rest, p) => Ok (34 :: 34 :: 34 :: v, rest, p)
        | Err => Err
        | OutOfFuel => OutOfFuel
        end
      else
        match read_block_raw f (dropN n s) (pos + n) with
        | Ok (v, rest, p) => Ok (takeN n s ++ v, rest, p)
        | Err => Err
        | OutOfFuel => OutOfFuel
        end
    end
  end.

(* ---- blockStringValue ---- *)
(* splitLinesRegex "\r\n|[\n\r]" *)
Fixpoint split_lines (s : bytes) : list bytes :=
  match s with
  | [] => [[]]
  | 13 :: 10 :: r => [] :: split_lines r
  | c :: r =>
    if (c =? 10) || (c =? 13) then [] :: split_lines r
    else match split_lines r with
         | l :: ls => (c :: l) :: ls
         | [] => [[c]]
         end
  end.

Definition is_blank_char (c : N) : bool := (c =? 32) || (c =? 9).
Definition leading_ws (l : bytes) : N := nlen (fst (span is_blank_char l)).
Definition line_is_blank (l : bytes) : bool := leading_ws l =? nlen l.

(* minimum indentation of the non-blank lines; None when there is none *)
Fixpoint common_indent (ls : list bytes) (acc : option N) : option N :=
  match ls with
  | [] => acc
  | l :: r =>
    let i := leading_ws l in
    if i <? nlen l then
      match acc with
      | None => common_indent r (Some i)
      | Some a => common_indent r (Some (N.min a i))
      end
    else common_indent r acc
  end.

Definition unindent (k : N) (l : bytes) : bytes := if nlen l <? k then [] else dropN k l.

Fixpoint drop_blank (ls : list bytes) : list bytes :=
  match ls with
  | l :: r => if line_is_blank l then drop_blank r else ls
  | [] => []
  end.

Fixpoint join_lines (ls : list bytes) : bytes :=
  match ls with
  | [] => []
  | [l] => l
  | l :: r => l ++ 10 :: join_lines r
  end.

Definition block_string_value (raw : bytes) : bytes :=
  let lines := split_lines raw in
  let lines1 :=
    match lines with
    | [] => []
    | first :: rest =>
      match common_indent rest None with
      | Some k => if 0 <? k then first :: map (unindent k) rest else lines
      | None => lines
      end
    end in
  join_lines (rev (drop_blank (rev (drop_blank lines1)))).

(* ---- readToken ---- *)
Definition punct1 (code : N) : option tkind :=
  match code with
  | 33 => Some BANG | 36 => Some DOLLAR | 38 => Some AMP | 40 => Some PAREN_L
  | 41 => Some PAREN_R | 58 => Some COLON | 61 => Some EQUALS | 64 => Some AT
  | 91 => Some BRACKET_L | 93 => Some BRACKET_R | 123 => Some BRACE_L
  | 124 => Some PIPE | 125 => Some BRACE_R
  | _ => None
  end.

(* s is the source from the token's first byte (after positionAfterWhitespace) *)
Definition read_token (fuel : nat) (s : bytes) (pos : N) : res (token * bytes * N) :=
  match rune_at s with
  | None => Ok (mktok EOF pos pos [], [], pos)
  | Some (code, n) =>
    if (code <? 32) && negb (code =? 9) && negb (code =? 10) && negb (code =? 13) then Err
    else
      match punct1 code with
      | Some k => Ok (mktok k pos (pos + 1) [], dropN 1 s, pos + 1)
      | None =>
        if code =? 46 then
          if starts_with [46; 46] (dropN 1 s) then Ok (mktok SPREAD pos (pos + 3) [], dropN 3 s, pos + 3)
          else Err
        else if is_name_start code then
          let '(nm, r) := span is_name_char s in
          Ok (mktok NAME pos (pos + nlen nm) nm, r, pos + nlen nm)
        else if (code =? 45) || is_digit code then
          match read_number s with
          | Some (lexeme, isf, r) =>
            Ok (mktok (if isf then FLOAT else INT) pos (pos + nlen lexeme) lexeme, r, pos + nlen lexeme)
          | None => Err
          end
        else if code =? 34 then
          if starts_with [34; 34] (dropN 1 s) then
            match read_block_raw fuel (dropN 3 s) (pos + 3) with
            | Ok (raw, r, p) => Ok (mktok BLOCK_STRING pos p (block_string_value raw), r, p)
            | Err => Err
            | OutOfFuel => OutOfFuel
            end
          else
            match read_string fuel (dropN 1 s) (pos + 1) with
            | Ok (v, r, p) => Ok (mktok STRING pos p v, r, p)
            | Err => Err
            | OutOfFuel => OutOfFuel
            end
        else Err
      end
  end.

(* the whole token stream, ending with the EOF token; the flag says that some
   name token follows an ignored stretch containing a multi-byte character *)
Fixpoint lex_all (fuel : nat) (s : bytes) (pos : N) : res (list token * bool) :=
  match fuel with
  | O => OutOfFuel
  | S f =>
    match skip_ws fuel s pos false with
    | Ok (s1, p1, mb) =>
      match read_token fuel s1 p1 with
      | Ok (t, s2, p2) =>
        match tk t with
        | EOF => Ok ([t], false)
        | k =>
          match lex_all f s2 p2 with
          | Ok (ts, fl) => Ok (t :: ts, fl || (mb && tkind_beq k NAME))
          | Err => Err
          | OutOfFuel => OutOfFuel
          end
        end
      | Err => Err
      | OutOfFuel => OutOfFuel
      end
    | Err => Err
    | OutOfFuel => OutOfFuel
    end
  end.

(* The Go lexer works on the caller's byte slice; the state-passing model
   returns the buffer it was given together with the tokens. *)
Definition lex_src (src : bytes) : bytes * res (list token * bool) :=
  (src, lex_all (S (length src)) src 0).

Definition lex (src : bytes) : res (list token * bool) := snd (lex_src src).
