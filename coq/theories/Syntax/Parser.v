(* Model of language/parser/parser.go: recursive descent over the token list
   produced by the lexer model, with the parser's helper vocabulary
   (peek / skip / expect / expectKeyWord / advance / reverse(many) / loc).

   Parser state = (PrevEnd, remaining tokens); the head of the list is
   parser.Token.  The Go parser lexes lazily; it accepts exactly when the whole
   source lexes and the token list parses, and then it has seen exactly these
   tokens, so the model parses the complete token list.

   Not modelled: parseType's internal leniency at EOF (a type may be missing at
   the very end of input; every public entry point then fails at the caller's
   next expect) -- the model fails at once.  Error values are not modelled
   (C18's subject); Err only says "syntax error". *)
From Coq Require Import String List NArith Bool.
From GQL Require Import Base.Bytes Syntax.Lexer Syntax.Ast.
Import ListNotations.
Open Scope N_scope.

Definition pst := (N * list token)%type.

Notation "' p <- e ;; f" :=
  (match e with Ok p => f | Err => Err | OutOfFuel => OutOfFuel end)
  (at level 61, p pattern, e at next level, right associativity).

Definition kw (s : string) : bytes := of_string s.

Definition peek (k : tkind) (st : pst) : bool :=
  match snd st with t :: _ => tkind_beq (tk t) k | [] => false end.
Definition cur_start (st : pst) : N :=
  match snd st with t :: _ => tstart t | [] => 0 end.
Definition cur_is_kw (w : bytes) (st : pst) : bool :=
  match snd st with t :: _ => tkind_beq (tk t) NAME && bytes_eqb (tval t) w | [] => false end.
Definition advance (st : pst) : res pst :=
  match snd st with t :: r => Ok (tend t, r) | [] => Err end.
Definition skip (k : tkind) (st : pst) : res (bool * pst) :=
  if peek k st then ' st' <- advance st ;; Ok (true, st') else Ok (false, st).
Definition expect (k : tkind) (st : pst) : res (token * pst) :=
  match snd st with
  | t :: r => if tkind_beq (tk t) k then Ok (t, (tend t, r)) else Err
  | [] => Err
  end.
Definition expect_kw (w : bytes) (st : pst) : res (token * pst) :=
  match snd st with
  | t :: r => if tkind_beq (tk t) NAME && bytes_eqb (tval t) w then Ok (t, (tend t, r)) else Err
  | [] => Err
  end.
(* loc(parser, start) *)
Definition mkl (start : N) (st : pst) : loc := mkloc start (fst st).
Definition tokloc (t : token) : loc := mkloc (tstart t) (tend t).

Definition is_nil {A} (l : list A) : bool := match l with [] => true | _ => false end.

Section Many.
  Context {A : Type}.
  (* the loop of reverse(): items until the closing token, which is consumed *)
  Fixpoint many (fuel : nat) (item : pst -> res (A * pst)) (close : tkind) (st : pst) : res (list A * pst) :=
    match fuel with
    | O => OutOfFuel
    | S f =>
      if peek close st then ' st' <- advance st ;; Ok ([], st')
      else ' (a, st1) <- item st ;; ' (l, st2) <- many f item close st1 ;; Ok (a :: l, st2)
    end.
  Definition reverse (fuel : nat) (open : tkind) (item : pst -> res (A * pst)) (close : tkind)
             (nonempty : bool) (st : pst) : res (list A * pst) :=
    ' (_, st1) <- expect open st ;;
    ' (l, st2) <- many fuel item close st1 ;;
    if nonempty && is_nil l then Err else Ok (l, st2).
  (* "for peek(k) { item }" *)
  Fixpoint while_peek (fuel : nat) (k : tkind) (item : pst -> res (A * pst)) (st : pst) : res (list A * pst) :=
    match fuel with
    | O => OutOfFuel
    | S f =>
      if peek k st then ' (a, st1) <- item st ;; ' (l, st2) <- while_peek f k item st1 ;; Ok (a :: l, st2)
      else Ok ([], st)
    end.
  (* "for { item; if !skip(sep) break }" *)
  Fixpoint sep_by (fuel : nat) (sep : tkind) (item : pst -> res (A * pst)) (st : pst) : res (list A * pst) :=
    match fuel with
    | O => OutOfFuel
    | S f =>
      ' (a, st1) <- item st ;;
      ' (b, st2) <- skip sep st1 ;;
      if b then ' (l, st3) <- sep_by f sep item st2 ;; Ok (a :: l, st3) else Ok ([a], st2)
    end.
End Many.

Definition parse_name (st : pst) : res (name * pst) :=
  ' (t, st1) <- expect NAME st ;; Ok (mkname (tval t) (tokloc t), st1).

Definition parse_named (st : pst) : res (named * pst) :=
  let start := cur_start st in
  ' (n, st1) <- parse_name st ;; Ok (mknamed n (mkl start st1), st1).

Definition parse_variable (st : pst) : res (value * pst) :=
  let start := cur_start st in
  ' (_, st1) <- expect DOLLAR st ;;
  ' (n, st2) <- parse_name st1 ;;
  Ok (VVar n (mkl start st2), st2).

(* ---- values ---- *)
Definition parse_objfield_with (pv : pst -> res (value * pst)) (st : pst) : res (objfield * pst) :=
  let start := cur_start st in
  ' (n, st1) <- parse_name st ;;
  ' (_, st2) <- expect COLON st1 ;;
  ' (v, st3) <- pv st2 ;;
  Ok (OField n v (mkl start st3), st3).

Fixpoint parse_value (fuel : nat) (c : bool) (st : pst) : res (value * pst) :=
  match fuel with
  | O => OutOfFuel
  | S f =>
    match snd st with
    | [] => Err
    | t :: r =>
      let leaf := (tend t, r) in
      match tk t with
      | BRACKET_L =>
        ' (l, st1) <- reverse f BRACKET_L (parse_value f c) BRACKET_R false st ;;
        Ok (VList l (mkl (tstart t) st1), st1)
      | BRACE_L =>
        ' (l, st1) <- reverse f BRACE_L (parse_objfield_with (parse_value f c)) BRACE_R false st ;;
        Ok (VObj l (mkl (tstart t) st1), st1)
      | INT => Ok (VInt (tval t) (tokloc t), leaf)
      | FLOAT => Ok (VFloat (tval t) (tokloc t), leaf)
      | STRING | BLOCK_STRING => Ok (VStr (tval t) (tokloc t), leaf)
      | NAME =>
        if bytes_eqb (tval t) (kw "true") then Ok (VBool true (tokloc t), leaf)
        else if bytes_eqb (tval t) (kw "false") then Ok (VBool false (tokloc t), leaf)
        else if bytes_eqb (tval t) (kw "null") then Err
        else Ok (VEnum (tval t) (tokloc t), leaf)
      | DOLLAR => if c then Err else parse_variable st
      | _ => Err
      end
    end
  end.

(* ---- types ---- *)
Fixpoint parse_type (fuel : nat) (st : pst) : res (ty * pst) :=
  match fuel with
  | O => OutOfFuel
  | S f =>
    match snd st with
    | [] => Err
    | t :: _ =>
      ' (ty0, st1) <-
        match tk t with
        | BRACKET_L =>
          ' st0 <- advance st ;;
          ' (inner, st1) <- parse_type f st0 ;;
          ' (_, st2) <- expect BRACKET_R st1 ;;
          Ok (TList inner (mkl (tstart t) st2), st2)
        | NAME => ' (n, st1) <- parse_named st ;; Ok (TNamed n, st1)
        | _ => Err
        end ;;
      ' (b, st2) <- skip BANG st1 ;;
      if b then Ok (TNonNull ty0 (mkl (tstart t) st2), st2) else Ok (ty0, st2)
    end
  end.

(* ---- arguments, directives ---- *)
Definition parse_argument (fuel : nat) (st : pst) : res (argument * pst) :=
  let start := cur_start st in
  ' (n, st1) <- parse_name st ;;
  ' (_, st2) <- expect COLON st1 ;;
  ' (v, st3) <- parse_value fuel false st2 ;;
  Ok (mkarg n v (mkl start st3), st3).

Definition parse_arguments (fuel : nat) (st : pst) : res (list argument * pst) :=
  if peek PAREN_L st then reverse fuel PAREN_L (parse_argument fuel) PAREN_R true st
  else Ok ([], st).

Definition parse_directive (fuel : nat) (st : pst) : res (directive * pst) :=
  let start := cur_start st in
  ' (_, st1) <- expect AT st ;;
  ' (n, st2) <- parse_name st1 ;;
  ' (args, st3) <- parse_arguments fuel st2 ;;
  Ok (mkdir n args (mkl start st3), st3).

Definition parse_directives (fuel : nat) (st : pst) : res (list directive * pst) :=
  while_peek fuel AT (parse_directive fuel) st.

(* ---- selection sets ---- *)
Definition parse_field_with (psel : pst -> res (selset * pst)) (fuel : nat) (st : pst) : res (selection * pst) :=
  let start := cur_start st in
  ' (n0, st1) <- parse_name st ;;
  ' (b, st2) <- skip COLON st1 ;;
  ' (alias, nm, st3) <-
    (if b then ' (n1, st3) <- parse_name st2 ;; Ok (Some n0, n1, st3) else Ok (None, n0, st2)) ;;
  ' (args, st4) <- parse_arguments fuel st3 ;;
  ' (dirs, st5) <- parse_directives fuel st4 ;;
  if peek BRACE_L st5 then
    ' (ss, st6) <- psel st5 ;;
    Ok (SField alias nm args dirs (Some ss) (mkl start st6), st6)
  else Ok (SField alias nm args dirs None (mkl start st5), st5).

Definition parse_fragment_name (st : pst) : res (name * pst) :=
  if cur_is_kw (kw "on") st then Err else parse_name st.

Definition parse_fragment_with (psel : pst -> res (selset * pst)) (fuel : nat) (st : pst) : res (selection * pst) :=
  let start := cur_start st in
  ' (_, st1) <- expect SPREAD st ;;
  if peek NAME st1 && negb (cur_is_kw (kw "on") st1) then
    ' (n, st2) <- parse_fragment_name st1 ;;
    ' (dirs, st3) <- parse_directives fuel st2 ;;
    Ok (SSpread n dirs (mkl start st3), st3)
  else
    ' (tc, st2) <-
      (if cur_is_kw (kw "on") st1 then
         ' st1' <- advance st1 ;; ' (n, st2) <- parse_named st1' ;; Ok (Some n, st2)
       else Ok (None, st1)) ;;
    ' (dirs, st3) <- parse_directives fuel st2 ;;
    ' (ss, st4) <- psel st3 ;;
    Ok (SInline tc dirs ss (mkl start st4), st4).

Definition parse_selection_with (psel : pst -> res (selset * pst)) (fuel : nat) (st : pst) : res (selection * pst) :=
  if peek SPREAD st then parse_fragment_with psel fuel st else parse_field_with psel fuel st.

Fixpoint parse_selset (fuel : nat) (st : pst) : res (selset * pst) :=
  match fuel with
  | O => OutOfFuel
  | S f =>
    let start := cur_start st in
    ' (l, st1) <- reverse f BRACE_L (parse_selection_with (parse_selset f) f) BRACE_R true st ;;
    Ok (SelSet l (mkl start st1), st1)
  end.

(* ---- operations, fragments ---- *)
Definition parse_optype (st : pst) : res (optype * pst) :=
  ' (t, st1) <- expect NAME st ;;
  if bytes_eqb (tval t) (kw "query") then Ok (Query, st1)
  else if bytes_eqb (tval t) (kw "mutation") then Ok (Mutation, st1)
  else if bytes_eqb (tval t) (kw "subscription") then Ok (Subscription, st1)
  else Err.

Definition parse_vardef (fuel : nat) (st : pst) : res (vardef * pst) :=
  let start := cur_start st in
  ' (_, st1) <- expect DOLLAR st ;;
  ' (n, st2) <- parse_name st1 ;;
  let vl := mkl start st2 in
  ' (_, st3) <- expect COLON st2 ;;
  ' (t, st4) <- parse_type fuel st3 ;;
  ' (b, st5) <- skip EQUALS st4 ;;
  if b then
    ' (v, st6) <- parse_value fuel true st5 ;;
    Ok (mkvardef n vl t (Some v) (mkl start st6), st6)
  else Ok (mkvardef n vl t None (mkl start st5), st5).

Definition parse_vardefs (fuel : nat) (st : pst) : res (list vardef * pst) :=
  if peek PAREN_L st then reverse fuel PAREN_L (parse_vardef fuel) PAREN_R true st
  else Ok ([], st).

Definition parse_operation (fuel : nat) (st : pst) : res (definition * pst) :=
  let start := cur_start st in
  if peek BRACE_L st then
    ' (ss, st1) <- parse_selset fuel st ;;
    Ok (DOp (mkopdef Query None [] [] ss (mkl start st1)), st1)
  else
    ' (op, st1) <- parse_optype st ;;
    ' (nm, st2) <- (if peek NAME st1 then ' (n, st2) <- parse_name st1 ;; Ok (Some n, st2) else Ok (None, st1)) ;;
    ' (vds, st3) <- parse_vardefs fuel st2 ;;
    ' (dirs, st4) <- parse_directives fuel st3 ;;
    ' (ss, st5) <- parse_selset fuel st4 ;;
    Ok (DOp (mkopdef op nm vds dirs ss (mkl start st5)), st5).

Definition parse_fragment_definition (fuel : nat) (st : pst) : res (definition * pst) :=
  let start := cur_start st in
  ' (_, st1) <- expect_kw (kw "fragment") st ;;
  ' (n, st2) <- parse_fragment_name st1 ;;
  ' (_, st3) <- expect_kw (kw "on") st2 ;;
  ' (tc, st4) <- parse_named st3 ;;
  ' (dirs, st5) <- parse_directives fuel st4 ;;
  ' (ss, st6) <- parse_selset fuel st5 ;;
  Ok (DFrag (mkfragdef n tc dirs ss (mkl start st6)), st6).

(* ---- type-system definitions ---- *)
Definition peek_description (st : pst) : bool := peek STRING st || peek BLOCK_STRING st.

Definition parse_description (st : pst) : res (descr * pst) :=
  match snd st with
  | t :: r =>
    if peek_description st then Ok (Some (tval t, tokloc t), (tend t, r)) else Ok (None, st)
  | [] => Ok (None, st)
  end.

Definition parse_optypedef (st : pst) : res (optypedef * pst) :=
  let start := cur_start st in
  ' (op, st1) <- parse_optype st ;;
  ' (_, st2) <- expect COLON st1 ;;
  ' (t, st3) <- parse_named st2 ;;
  Ok (mkoptypedef op t (mkl start st3), st3).

Definition parse_schema_definition (fuel : nat) (st : pst) : res (definition * pst) :=
  let start := cur_start st in
  ' (_, st1) <- expect_kw (kw "schema") st ;;
  ' (dirs, st2) <- parse_directives fuel st1 ;;
  ' (ots, st3) <- reverse fuel BRACE_L parse_optypedef BRACE_R true st2 ;;
  Ok (DSchema dirs ots (mkl start st3), st3).

Definition parse_scalar_definition (fuel : nat) (st : pst) : res (definition * pst) :=
  let start := cur_start st in
  ' (d, st1) <- parse_description st ;;
  ' (_, st2) <- expect_kw (kw "scalar") st1 ;;
  ' (n, st3) <- parse_name st2 ;;
  ' (dirs, st4) <- parse_directives fuel st3 ;;
  Ok (DScalar d n dirs (mkl start st4), st4).

Definition parse_ivdef (fuel : nat) (st : pst) : res (ivdef * pst) :=
  let start := cur_start st in
  ' (d, st1) <- parse_description st ;;
  ' (n, st2) <- parse_name st1 ;;
  ' (_, st3) <- expect COLON st2 ;;
  ' (t, st4) <- parse_type fuel st3 ;;
  ' (b, st5) <- skip EQUALS st4 ;;
  ' (dv, st6) <- (if b then ' (v, st6) <- parse_value fuel true st5 ;; Ok (Some v, st6) else Ok (None, st5)) ;;
  ' (dirs, st7) <- parse_directives fuel st6 ;;
  Ok (mkivdef d n t dv dirs (mkl start st7), st7).

Definition parse_argdefs (fuel : nat) (st : pst) : res (list ivdef * pst) :=
  if peek PAREN_L st then reverse fuel PAREN_L (parse_ivdef fuel) PAREN_R true st
  else Ok ([], st).

Definition parse_fielddef (fuel : nat) (st : pst) : res (fielddef * pst) :=
  let start := cur_start st in
  ' (d, st1) <- parse_description st ;;
  ' (n, st2) <- parse_name st1 ;;
  ' (args, st3) <- parse_argdefs fuel st2 ;;
  ' (_, st4) <- expect COLON st3 ;;
  ' (t, st5) <- parse_type fuel st4 ;;
  ' (dirs, st6) <- parse_directives fuel st5 ;;
  Ok (mkfielddef d n args t dirs (mkl start st6), st6).

Definition parse_implements (fuel : nat) (st : pst) : res (list named * pst) :=
  if cur_is_kw (kw "implements") st then
    ' st1 <- advance st ;;
    ' (_, st2) <- skip AMP st1 ;;
    sep_by fuel AMP parse_named st2
  else Ok ([], st).

Definition parse_objdef (fuel : nat) (st : pst) : res (objdef * pst) :=
  let start := cur_start st in
  ' (d, st1) <- parse_description st ;;
  ' (_, st2) <- expect_kw (kw "type") st1 ;;
  ' (n, st3) <- parse_name st2 ;;
  ' (ifs, st4) <- parse_implements fuel st3 ;;
  ' (dirs, st5) <- parse_directives fuel st4 ;;
  ' (fs, st6) <- reverse fuel BRACE_L (parse_fielddef fuel) BRACE_R false st5 ;;
  Ok (mkobjdef d n ifs dirs fs (mkl start st6), st6).

Definition parse_interface_definition (fuel : nat) (st : pst) : res (definition * pst) :=
  let start := cur_start st in
  ' (d, st1) <- parse_description st ;;
  ' (_, st2) <- expect_kw (kw "interface") st1 ;;
  ' (n, st3) <- parse_name st2 ;;
  ' (dirs, st4) <- parse_directives fuel st3 ;;
  ' (fs, st5) <- reverse fuel BRACE_L (parse_fielddef fuel) BRACE_R false st4 ;;
  Ok (DInterface d n dirs fs (mkl start st5), st5).

Definition parse_union_definition (fuel : nat) (st : pst) : res (definition * pst) :=
  let start := cur_start st in
  ' (d, st1) <- parse_description st ;;
  ' (_, st2) <- expect_kw (kw "union") st1 ;;
  ' (n, st3) <- parse_name st2 ;;
  ' (dirs, st4) <- parse_directives fuel st3 ;;
  ' (_, st5) <- expect EQUALS st4 ;;
  ' (ts, st6) <- sep_by fuel PIPE parse_named st5 ;;
  Ok (DUnion d n dirs ts (mkl start st6), st6).

Definition parse_enumvaldef (fuel : nat) (st : pst) : res (enumvaldef * pst) :=
  let start := cur_start st in
  ' (d, st1) <- parse_description st ;;
  ' (n, st2) <- parse_name st1 ;;
  ' (dirs, st3) <- parse_directives fuel st2 ;;
  Ok (mkenumvaldef d n dirs (mkl start st3), st3).

Definition parse_enum_definition (fuel : nat) (st : pst) : res (definition * pst) :=
  let start := cur_start st in
  ' (d, st1) <- parse_description st ;;
  ' (_, st2) <- expect_kw (kw "enum") st1 ;;
  ' (n, st3) <- parse_name st2 ;;
  ' (dirs, st4) <- parse_directives fuel st3 ;;
  ' (vs, st5) <- reverse fuel BRACE_L (parse_enumvaldef fuel) BRACE_R false st4 ;;
  Ok (DEnum d n dirs vs (mkl start st5), st5).

Definition parse_input_definition (fuel : nat) (st : pst) : res (definition * pst) :=
  let start := cur_start st in
  ' (d, st1) <- parse_description st ;;
  ' (_, st2) <- expect_kw (kw "input") st1 ;;
  ' (n, st3) <- parse_name st2 ;;
  ' (dirs, st4) <- parse_directives fuel st3 ;;
  ' (fs, st5) <- reverse fuel BRACE_L (parse_ivdef fuel) BRACE_R false st4 ;;
  Ok (DInput d n dirs fs (mkl start st5), st5).

Definition parse_extend_definition (fuel : nat) (st : pst) : res (definition * pst) :=
  let start := cur_start st in
  ' (_, st1) <- expect_kw (kw "extend") st ;;
  ' (o, st2) <- parse_objdef fuel st1 ;;
  Ok (DExtend o (mkl start st2), st2).

Definition parse_directive_definition (fuel : nat) (st : pst) : res (definition * pst) :=
  let start := cur_start st in
  ' (d, st1) <- parse_description st ;;
  ' (_, st2) <- expect_kw (kw "directive") st1 ;;
  ' (_, st3) <- expect AT st2 ;;
  ' (n, st4) <- parse_name st3 ;;
  ' (args, st5) <- parse_argdefs fuel st4 ;;
  ' (_, st6) <- expect_kw (kw "on") st5 ;;
  ' (locs, st7) <- sep_by fuel PIPE parse_name st6 ;;
  Ok (DDirective d n args locs (mkl start st7), st7).

(* the keyword that selects the definition: the current token, or the one after a description *)
Definition keyword_token (st : pst) : option token :=
  match snd st with
  | t :: r => if peek_description st then (match r with t2 :: _ => Some t2 | [] => None end) else Some t
  | [] => None
  end.

Definition parse_type_system_definition (fuel : nat) (st : pst) : res (definition * pst) :=
  match keyword_token st with
  | None => Err
  | Some k =>
    if negb (tkind_beq (tk k) NAME) then Err
    else
      let v := tval k in
      if bytes_eqb v (kw "fragment") then parse_fragment_definition fuel st
      else if bytes_eqb v (kw "query") || bytes_eqb v (kw "mutation") || bytes_eqb v (kw "subscription")
           then parse_operation fuel st
      else if bytes_eqb v (kw "schema") then parse_schema_definition fuel st
      else if bytes_eqb v (kw "scalar") then parse_scalar_definition fuel st
      else if bytes_eqb v (kw "type") then ' (o, st1) <- parse_objdef fuel st ;; Ok (DObject o, st1)
      else if bytes_eqb v (kw "interface") then parse_interface_definition fuel st
      else if bytes_eqb v (kw "union") then parse_union_definition fuel st
      else if bytes_eqb v (kw "enum") then parse_enum_definition fuel st
      else if bytes_eqb v (kw "input") then parse_input_definition fuel st
      else if bytes_eqb v (kw "extend") then parse_extend_definition fuel st
      else if bytes_eqb v (kw "directive") then parse_directive_definition fuel st
      else Err
  end.

Definition parse_definition (fuel : nat) (st : pst) : res (definition * pst) :=
  if peek BRACE_L st then parse_operation fuel st
  else if peek NAME st || peek STRING st || peek BLOCK_STRING st then parse_type_system_definition fuel st
  else Err.

(* parseDocument: definitions until EOF (which is consumed, so the document's
   Loc ends at the EOF token); Document : Definition+.  The EOF token is the
   last token there is (lexing stops at it), so a token list that continues
   after its first EOF token is not a token stream and is refused. *)
Definition parse_document (fuel : nat) (ts : list token) : res document :=
  let st : pst := (0, ts) in
  let start := cur_start st in
  ' (defs, st1) <- many fuel (parse_definition fuel) EOF st ;;
  if is_nil defs then Err
  else match snd st1 with [] => Ok (mkdoc defs (mkl start st1)) | _ :: _ => Err end.

Definition parse_tokens (ts : list token) : res document :=
  parse_document (S (2 * List.length ts)) ts.

(* parser.Parse on a byte string *)
Definition parse (src : bytes) : res (document * bool) :=
  match lex src with
  | Ok (ts, mb) => ' d <- parse_tokens ts ;; Ok (d, mb)
  | Err => Err
  | OutOfFuel => OutOfFuel
  end.
