(* The printer's string quoting is read back by the lexer: for every string of
   single-byte characters, lexing quote_string s gives the token value s. *)
From Coq Require Import List NArith Bool Lia.
From GQL Require Import Base.Bytes Syntax.Lexer Syntax.Printer.
Import ListNotations.
Open Scope N_scope.

Lemma rune_at_ascii : forall c r, c < 128 -> rune_at (c :: r) = Some (c, 1).
Proof. intros c r H. unfold rune_at. apply N.ltb_lt in H. rewrite H. reflexivity. Qed.

Lemma in_below : forall c, c < 128 -> In c (map N.of_nat (seq 0 128)).
Proof.
  intros c H. apply in_map_iff. exists (N.to_nat c). split; [apply Nnat.N2Nat.id|].
  apply in_seq. lia.
Qed.

Lemma hex_ok : forall c, c < 128 -> uni_char_code 48 48 (hexdigit (c / 16)) (hexdigit (c mod 16)) = Some c.
Proof.
  intros c H.
  assert (A : forallb (fun c => match uni_char_code 48 48 (hexdigit (c / 16)) (hexdigit (c mod 16)) with
                                | Some x => x =? c | None => false end) (map N.of_nat (seq 0 128)) = true)
    by (vm_compute; reflexivity).
  rewrite forallb_forall in A. specialize (A c (in_below c H)).
  destruct (uni_char_code 48 48 (hexdigit (c / 16)) (hexdigit (c mod 16))); [|discriminate].
  apply N.eqb_eq in A. congruence.
Qed.

Lemma utf8_encode_ascii : forall c, c < 128 -> utf8_encode c = [c].
Proof. intros c H. unfold utf8_encode. apply N.ltb_lt in H. rewrite H. reflexivity. Qed.

Definition lift (c : N) (r : res (bytes * bytes * N)) : res (bytes * bytes * N) :=
  match r with Ok (v, rest, p) => Ok (c :: v, rest, p) | Err => Err | OutOfFuel => OutOfFuel end.

(* reading the quoted form of one character *)
Lemma read_quote_rune : forall c, c < 128 -> forall f tail pos,
  read_string (S f) (quote_rune c ++ tail) pos = lift c (read_string f tail (pos + nlen (quote_rune c))).
Proof.
  intros c H f tail pos. unfold quote_rune.
  destruct (c =? 34) eqn:E34. { apply N.eqb_eq in E34; subst. reflexivity. }
  destruct (c =? 92) eqn:E92. { apply N.eqb_eq in E92; subst. reflexivity. }
  destruct (c =? 8) eqn:E8. { apply N.eqb_eq in E8; subst. reflexivity. }
  destruct (c =? 12) eqn:E12. { apply N.eqb_eq in E12; subst. reflexivity. }
  destruct (c =? 10) eqn:E10. { apply N.eqb_eq in E10; subst. reflexivity. }
  destruct (c =? 13) eqn:E13. { apply N.eqb_eq in E13; subst. reflexivity. }
  destruct (c =? 9) eqn:E9. { apply N.eqb_eq in E9; subst. reflexivity. }
  destruct ((c <? 32) || (c =? 127)) eqn:EC.
  - cbn [app read_string]. rewrite (rune_at_ascii 92 _ ltac:(lia)).
    change ((92 =? 10) || (92 =? 13)) with false. change (92 =? 34) with false.
    change ((92 <? 32) && negb (92 =? 9)) with false. change (92 =? 92) with true. cbv iota.
    change (dropN 1 (92 :: 117 :: 48 :: 48 :: hexdigit (c / 16) :: hexdigit (c mod 16) :: tail))
      with (117 :: 48 :: 48 :: hexdigit (c / 16) :: hexdigit (c mod 16) :: tail).
    change (simple_escape 117) with (@None N). change (117 =? 117) with true. cbv iota.
    rewrite (hex_ok c H). rewrite (utf8_encode_ascii c H).
    unfold lift, nlen. cbn [length app]. change (N.of_nat 6) with 6.
    destruct (read_string f tail (pos + 6)) as [[[v r] p]| |]; reflexivity.
  - apply orb_false_iff in EC. destruct EC as [E32 E127].
    unfold encode_rune. assert (c <? 65536 = true) by (apply N.ltb_lt; lia). rewrite H0.
    rewrite (utf8_encode_ascii c H). cbn [app read_string]. rewrite (rune_at_ascii c _ H).
    rewrite E10, E13, E34, E32, E92. cbn [orb andb]. cbv iota.
    change (dropN 1 (c :: tail)) with tail. change (takeN 1 (c :: tail)) with [c].
    unfold lift, nlen. cbn [length app]. change (N.of_nat 1) with 1.
    destruct (read_string f tail (pos + 1)) as [[[v r] p]| |]; reflexivity.
Qed.

Lemma quote_body_step : forall f s, quote_body (S f) s =
  match rune_at s with
  | None => Ok []
  | Some (r, n) => match quote_body f (dropN n s) with Ok rest => Ok (quote_piece s r n ++ rest) | Err => Err | OutOfFuel => OutOfFuel end
  end.
Proof. reflexivity. Qed.

(* the piece written for a decoded character is its quoted form; only a byte that does not decode is copied *)
Lemma quote_piece_ascii : forall c s, c < 128 -> quote_piece (c :: s) c 1 = quote_rune c.
Proof. intros c s H. unfold quote_piece. assert (c =? 65533 = false) by (apply N.eqb_neq; lia). rewrite H0. reflexivity. Qed.
Lemma quote_piece_multi : forall s r n, 1 < n -> quote_piece s r n = quote_rune r.
Proof. intros s r n H. unfold quote_piece. assert (n =? 1 = false) by (apply N.eqb_neq; lia). rewrite H0, andb_false_r. reflexivity. Qed.

Lemma quote_body_ascii : forall s, (forall c, In c s -> c < 128) ->
  exists b, quote_body (S (length s)) s = Ok b /\
    forall f rest pos, (length s < f)%nat -> read_string f (b ++ 34 :: rest) pos = Ok (s, rest, pos + nlen b + 1).
Proof.
  induction s as [|c s IH]; intro H.
  - exists []. split; [reflexivity|]. intros f rest pos Hf. destruct f; [simpl in Hf; lia|].
    cbn [app read_string]. rewrite (rune_at_ascii 34 _ ltac:(lia)). cbn. f_equal. f_equal. unfold nlen; cbn. lia.
  - destruct (IH (fun x Hx => H x (or_intror Hx))) as (b & Hb & Hr).
    assert (Hc : c < 128) by (apply H; left; reflexivity).
    exists (quote_rune c ++ b). split.
    + cbn [length]. rewrite (quote_body_step (S (length s)) (c :: s)). rewrite (rune_at_ascii c s Hc).
      change (dropN 1 (c :: s)) with s. rewrite Hb, (quote_piece_ascii c s Hc). reflexivity.
    + intros f rest pos Hf. destruct f; [simpl in Hf; lia|]. rewrite <- app_assoc.
      rewrite (read_quote_rune c Hc). rewrite (Hr f rest _ ltac:(simpl in Hf; lia)). unfold lift.
      f_equal. f_equal. unfold nlen. rewrite app_length. lia.
Qed.

(* lexing the printed form of a string of single-byte characters gives the string back:
   the token read from  quote_string s ++ rest  is the STRING token with value s, spanning
   exactly the quoted text (provided the text is not mistaken for the start of a block
   string, i.e. s is not empty or rest does not start with a double quote) *)
Theorem quote_lex_roundtrip_ascii_gen : forall s rest, (forall c, In c s -> c < 128) ->
  (s <> [] \/ forall r, rest <> 34 :: r) ->
  exists q, quote_string s = Ok q /\
    forall pos fuel, (length (q ++ rest) < fuel)%nat ->
    read_token fuel (q ++ rest) pos = Ok (mktok STRING pos (pos + nlen q) s, rest, pos + nlen q).
Proof.
  intros s rest H Hne. destruct (quote_body_ascii s H) as (b & Hb & Hr).
  exists (34 :: b ++ [34]). split; [unfold quote_string; unfold bytes, byte in *; rewrite Hb; reflexivity|].
  intros pos fuel Hf.
  unfold read_token. cbn [app]. rewrite (rune_at_ascii 34 _ ltac:(lia)).
  change ((34 <? 32) && negb (34 =? 9) && negb (34 =? 10) && negb (34 =? 13)) with false. cbv iota.
  change (punct1 34) with (@None tkind). cbv iota. change (34 =? 46) with false. cbv iota.
  change (is_name_start 34) with false. cbv iota. change ((34 =? 45) || is_digit 34) with false. cbv iota.
  change (34 =? 34) with true. cbv iota.
  change (dropN 1 (34 :: (b ++ [34]) ++ rest)) with ((b ++ [34]) ++ rest).
  assert (NB : starts_with [34; 34] ((b ++ [34]) ++ rest) = false).
  { destruct s as [|c s].
    - change (quote_body (S (length (@nil N))) []) with (@Ok bytes []) in Hb. inversion Hb; subst b. cbn [app starts_with].
      destruct rest as [|x r]; [reflexivity|]. destruct (34 =? x) eqn:E; [|rewrite andb_false_r; reflexivity].
      apply N.eqb_eq in E. subst x. destruct Hne as [Hn|Hn]; [contradiction Hn; reflexivity|]. exfalso. apply (Hn r). reflexivity.
    - cbn [length] in Hb. rewrite quote_body_step in Hb. assert (Hc : c < 128) by (apply H; left; reflexivity).
      rewrite (rune_at_ascii c s Hc) in Hb. destruct (quote_body (S (length s)) (dropN 1 (c :: s))) as [b'| |]; try discriminate.
      rewrite (quote_piece_ascii c s Hc) in Hb. inversion Hb; subst b. clear Hb Hr.
      (* the quoted form of a character never starts with two double quotes *)
      assert (Q : exists x y, quote_rune c = x :: y /\ x <> 34 \/ exists y, quote_rune c = [92; 34] ++ y).
      { unfold quote_rune.
        destruct (c =? 34) eqn:E34; [exists 92, [34]; right; exists []; reflexivity|].
        destruct (c =? 92); [exists 92, [92]; left; split; [reflexivity|discriminate]|].
        destruct (c =? 8); [exists 92, [98]; left; split; [reflexivity|discriminate]|].
        destruct (c =? 12); [exists 92, [102]; left; split; [reflexivity|discriminate]|].
        destruct (c =? 10); [exists 92, [110]; left; split; [reflexivity|discriminate]|].
        destruct (c =? 13); [exists 92, [114]; left; split; [reflexivity|discriminate]|].
        destruct (c =? 9); [exists 92, [116]; left; split; [reflexivity|discriminate]|].
        destruct ((c <? 32) || (c =? 127)); [eexists; eexists; left; split; [reflexivity|discriminate]|].
        unfold encode_rune. assert (c <? 65536 = true) by (apply N.ltb_lt; lia). rewrite H0.
        rewrite (utf8_encode_ascii c Hc). exists c, []. left. split; [reflexivity|]. apply N.eqb_neq. exact E34. }
      destruct Q as (x & y & [[Q1 Q2] | [y' Q1]]).
      + rewrite Q1. cbn [app starts_with]. apply N.eqb_neq in Q2. rewrite N.eqb_sym in Q2. rewrite Q2. reflexivity.
      + rewrite Q1. reflexivity. }
  rewrite NB.
  change (dropN 1 (34 :: (b ++ [34]) ++ rest)) with ((b ++ [34]) ++ rest).
  rewrite <- app_assoc. cbn [app].
  unfold bytes, byte in *. rewrite (Hr fuel rest (pos + 1)).
  - f_equal. f_equal; [f_equal|].
    + f_equal. unfold nlen. cbn [length]. rewrite app_length. cbn [length]. lia.
    + unfold nlen. cbn [length]. rewrite app_length. cbn [length]. lia.
  - cbn [length app] in Hf. rewrite !app_length in Hf. cbn [length] in Hf.
    assert (length s <= length b)%nat; [|lia].
    clear - Hb H. revert b Hb. induction s as [|c s IH]; intros b Hb; [simpl; lia|].
    cbn [length] in Hb. rewrite quote_body_step in Hb. assert (Hc : c < 128) by (apply H; left; reflexivity).
    rewrite (rune_at_ascii c s Hc) in Hb. change (dropN 1 (c :: s)) with s in Hb.
    destruct (quote_body (S (length s)) s) as [b'| |] eqn:E; try discriminate. rewrite (quote_piece_ascii c s Hc) in Hb. inversion Hb; subst b.
    specialize (IH (fun x Hx => H x (or_intror Hx)) b' eq_refl). rewrite app_length. cbn [length].
    assert (1 <= length (quote_rune c))%nat; [|unfold bytes, byte in *; lia].
    unfold quote_rune. repeat (match goal with |- context [if ?X then _ else _] => destruct X end; try (simpl; lia)).
    unfold encode_rune, utf8_encode. repeat (match goal with |- context [if ?X then _ else _] => destruct X end; try (simpl; lia)).
Qed.

Theorem quote_lex_roundtrip_ascii : forall s rest, (forall c, In c s -> c < 128) ->
  (s <> [] \/ forall r, rest <> 34 :: r) ->
  exists q, quote_string s = Ok q /\
    read_token (S (length (q ++ rest))) (q ++ rest) 0 = Ok (mktok STRING 0 (nlen q) s, rest, nlen q).
Proof.
  intros s rest H Hne. destruct (quote_lex_roundtrip_ascii_gen s rest H Hne) as (q & Hq & Hr).
  exists q. split; [exact Hq|]. rewrite (Hr 0 (S (length (q ++ rest))) ltac:(lia)). reflexivity.
Qed.
