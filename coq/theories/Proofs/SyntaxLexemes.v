(* The lexer model only produces well-formed lexemes: name tokens are names, and number tokens
   are lexemes that re-read as themselves. *)
From Coq Require Import List NArith Bool Lia.
From GQL Require Import Base.Bytes Syntax.Lexer Syntax.Ast Syntax.Parser Syntax.Printer
  Proofs.SyntaxPrinter Proofs.SyntaxRender Proofs.SyntaxLexer.
Import ListNotations.
Open Scope N_scope.

Definition lexeme_ok (t : token) : bool :=
  match tk t with
  | NAME => name_ok (tval t)
  | INT => num_okb (tval t) false
  | FLOAT => num_okb (tval t) true
  | _ => true
  end.

Lemma bytes_eqb_refl' : forall a, bytes_eqb a a = true.
Proof. intro a. apply bytes_eqb_eq. reflexivity. Qed.

Lemma span_fst_all : forall p s a b, span p s = (a, b) -> forallb p a = true.
Proof.
  induction s as [|c s IH]; intros a b H; simpl in H.
  - inversion H; reflexivity.
  - destruct (p c) eqn:E.
    + destruct (span p s) as [a' b'] eqn:E2. pose proof (IH a' b' eq_refl) as X. inversion H; subst. cbn [forallb]. rewrite E, X. reflexivity.
    + inversion H; subst. reflexivity.
Qed.

Definition stopd (y : bytes) : bool := match y with [] => true | b :: _ => negb (is_digit b) end.

(* each part of a number, re-read before any continuation that cannot extend it *)
Lemma int_part_prefix : forall s ip s2, read_int_part s = Some (ip, s2) ->
  forall y, stopd y = true -> read_int_part (ip ++ y) = Some (ip, y).
Proof.
  intros s ip s2 H y Hy. destruct s as [|c r]; [discriminate|]. cbn [read_int_part] in H. destruct (c =? 48) eqn:E48.
  - apply N.eqb_eq in E48. subst c.
    assert (ip = [48]) by (destruct r as [|d r']; [inversion H; reflexivity|destruct (is_digit d); [discriminate|inversion H; reflexivity]]).
    subst ip. cbn [app read_int_part]. change (48 =? 48) with true. cbv iota.
    destruct y as [|b y']; [reflexivity|]. cbn [stopd] in Hy. apply negb_true_iff in Hy. rewrite Hy. reflexivity.
  - destruct (span is_digit (c :: r)) as [ds r'] eqn:E. destruct ds as [|d0 ds]; [discriminate|]. inversion H; subst ip s2.
    pose proof (span_fst_all _ _ _ _ E) as A. pose proof (span_split _ _ _ _ E) as S.
    assert (d0 = c) by (cbn [app] in S; inversion S; reflexivity). subst d0.
    pose proof (span_app_stop is_digit (c :: ds) y A Hy) as Sp. cbn [app] in Sp.
    cbn [app read_int_part]. rewrite E48. unfold bytes, byte in *. rewrite Sp. reflexivity.
Qed.

Lemma frac_part_prefix : forall s fp f s3, read_frac_part s = Some (fp, f, s3) ->
  (fp = [] /\ f = false) \/
  (exists ds, fp = 46 :: ds /\ f = true /\ forall y, stopd y = true -> read_frac_part (fp ++ y) = Some (fp, f, y)).
Proof.
  intros s fp f s3 H. destruct s as [|c r]; [cbn in H; inversion H; left; split; reflexivity|].
  cbn [read_frac_part] in H. destruct (c =? 46) eqn:E46.
  - apply N.eqb_eq in E46. subst c. destruct (span is_digit r) as [ds r'] eqn:E. destruct ds as [|d0 ds]; [discriminate|].
    inversion H; subst. right. exists (d0 :: ds). split; [reflexivity|]. split; [reflexivity|].
    intros y Hy. pose proof (span_app_stop is_digit (d0 :: ds) y (span_fst_all _ _ _ _ E) Hy) as Sp. cbn [app] in Sp.
    cbn [app read_frac_part]. change (46 =? 46) with true. cbv iota. unfold bytes, byte in *. rewrite Sp. reflexivity.
  - inversion H; subst. left. split; reflexivity.
Qed.

Lemma exp_part_prefix : forall s ep f s4, read_exp_part s = Some (ep, f, s4) ->
  (ep = [] /\ f = false) \/
  (exists e rest, ep = e :: rest /\ ((e =? 69) || (e =? 101)) = true /\ f = true /\ read_exp_part ep = Some (ep, f, [])).
Proof.
  intros s ep f s4 H. destruct s as [|e r]; [cbn in H; inversion H; left; split; reflexivity|].
  cbn [read_exp_part] in H. destruct ((e =? 69) || (e =? 101)) eqn:Ee; [|inversion H; subst; left; split; reflexivity].
  right. destruct r as [|c r1]; [cbn in H; discriminate|].
  destruct ((c =? 43) || (c =? 45)) eqn:Ec.
  - destruct (span is_digit r1) as [ds r2] eqn:E. destruct ds as [|d0 ds]; [discriminate|]. inversion H; subst.
    exists e, ([c] ++ d0 :: ds). split; [reflexivity|]. split; [exact Ee|]. split; [reflexivity|].
    pose proof (span_app_stop is_digit (d0 :: ds) [] (span_fst_all _ _ _ _ E) eq_refl) as Sp. rewrite app_nil_r in Sp.
    cbn [app read_exp_part]. rewrite Ee, Ec. unfold bytes, byte in *. rewrite Sp. reflexivity.
  - destruct (span is_digit (c :: r1)) as [ds r2] eqn:E. destruct ds as [|d0 ds]; [discriminate|]. inversion H; subst.
    pose proof (span_split _ _ _ _ E) as S. assert (d0 = c) by (cbn [app] in S; inversion S; reflexivity). subst d0.
    exists e, ([] ++ c :: ds). split; [reflexivity|]. split; [exact Ee|]. split; [reflexivity|].
    pose proof (span_app_stop is_digit (c :: ds) [] (span_fst_all _ _ _ _ E) eq_refl) as Sp. rewrite app_nil_r in Sp.
    cbn [app read_exp_part]. rewrite Ee, Ec. unfold bytes, byte in *. rewrite Sp. reflexivity.
Qed.

Lemma eE_not_digit : forall e, ((e =? 69) || (e =? 101)) = true -> is_digit e = false /\ (e =? 46) = false.
Proof. intros e H. apply orb_true_iff in H. destruct H as [H|H]; apply N.eqb_eq in H; subst; split; reflexivity. Qed.

Lemma read_number_lexeme : forall s lx isf r, read_number s = Some (lx, isf, r) -> read_number lx = Some (lx, isf, []).
Proof.
  intros s lx isf r H. unfold read_number in H.
  set (sg := match s with c :: r0 => if c =? 45 then ([45], r0) else ([], s) | [] => ([], s) end) in H.
  assert (Hsg : (fst sg = [45] \/ (fst sg = [] /\ forall c r0, snd sg = c :: r0 -> (c =? 45) = false))).
  { unfold sg. destruct s as [|c r0]; [right; split; [reflexivity|intros; discriminate]|].
    destruct (c =? 45) eqn:E; [left; reflexivity|right; split; [reflexivity|]]. intros c' r' X. inversion X; subst. exact E. }
  destruct sg as [sign s1]. cbn [fst snd] in Hsg.
  destruct (read_int_part s1) as [[ip s2]|] eqn:E1; [|discriminate].
  destruct (read_frac_part s2) as [[[fp f1] s3]|] eqn:E2; [|discriminate].
  destruct (read_exp_part s3) as [[[ep f2] s4]|] eqn:E3; [|discriminate].
  inversion H; subst lx isf r. clear H.
  (* what the parts look like *)
  assert (Hip : exists c0 ip', ip = c0 :: ip' /\ (c0 =? 45) = false).
  { destruct s1 as [|c r0]; [discriminate|]. cbn [read_int_part] in E1. destruct (c =? 48) eqn:E48.
    - apply N.eqb_eq in E48. subst c. exists 48, []. split; [|reflexivity].
      destruct r0 as [|d r1]; [inversion E1; reflexivity|destruct (is_digit d); [discriminate|inversion E1; reflexivity]].
    - destruct (span is_digit (c :: r0)) as [ds r'] eqn:E. destruct ds as [|d0 ds]; [discriminate|]. inversion E1; subst.
      pose proof (span_fst_all _ _ _ _ E) as A. cbn [forallb] in A. apply andb_true_iff in A. destruct A as [A _].
      exists d0, ds. split; [reflexivity|]. destruct (d0 =? 45) eqn:X; [apply N.eqb_eq in X; subst; discriminate A|reflexivity]. }
  destruct Hip as (c0 & ip' & Hip & Hc0).
  pose proof (frac_part_prefix _ _ _ _ E2) as F. pose proof (exp_part_prefix _ _ _ _ E3) as X.
  assert (Sep : stopd ep = true).
  { destruct X as [[-> _]|(e & rest & -> & Ee & _ & _)]; [reflexivity|]. cbn [stopd]. destruct (eE_not_digit e Ee) as [Hd _]. rewrite Hd. reflexivity. }
  assert (Sfe : stopd (fp ++ ep) = true).
  { destruct F as [[-> _]|(ds & -> & _ & _)]; [exact Sep|reflexivity]. }
  (* re-read *)
  assert (G : read_int_part (ip ++ fp ++ ep) = Some (ip, fp ++ ep)) by (apply (int_part_prefix _ _ _ E1); exact Sfe).
  assert (G2 : read_frac_part (fp ++ ep) = Some (fp, f1, ep)).
  { destruct F as [[-> ->]|(ds & -> & -> & Hf)]; [|apply Hf; exact Sep].
    cbn [app]. destruct X as [[-> _]|(e & rest & -> & Ee & _ & _)]; [reflexivity|].
    cbn [read_frac_part]. destruct (eE_not_digit e Ee) as [_ H46]. rewrite H46. reflexivity. }
  assert (G3 : read_exp_part ep = Some (ep, f2, [])).
  { destruct X as [[-> ->]|(e & rest & -> & _ & -> & Hx)]; [reflexivity|exact Hx]. }
  unfold read_number.
  destruct Hsg as [->|[-> Hs1]].
  - cbn [app]. change (45 =? 45) with true. cbv iota. rewrite G, G2, G3. reflexivity.
  - subst ip. cbn [app] in G |- *. rewrite Hc0. cbv beta iota. unfold bytes, byte in *. rewrite G, G2, G3. reflexivity.
Qed.

Lemma read_token_lexeme : forall fuel s pos t r p, read_token fuel s pos = Ok (t, r, p) -> lexeme_ok t = true.
Proof.
  intros fuel s pos t r p H. unfold read_token in H.
  destruct (rune_at s) as [[code n]|] eqn:R; [|inversion H; reflexivity].
  destruct ((code <? 32) && negb (code =? 9) && negb (code =? 10) && negb (code =? 13)); [discriminate|].
  destruct (punct1 code) as [k|] eqn:P.
  { inversion H; subst. unfold lexeme_ok. cbn [tk].
    destruct k; try reflexivity; exfalso; revert P; clear; unfold punct1;
      repeat (match goal with |- context [match ?c with _ => _ end] => destruct c end); discriminate. }
  destruct (code =? 46).
  { destruct (starts_with [46; 46] (dropN 1 s)); [inversion H; reflexivity|discriminate]. }
  destruct (is_name_start code) eqn:NS.
  { destruct (span is_name_char s) as [nm r'] eqn:E. inversion H; subst. unfold lexeme_ok. cbn [tk tval].
    destruct s as [|c s']; [discriminate R|].
    assert (Hlow : code < 128) by (destruct (name_start_facts code NS) as [X _]; exact X).
    pose proof (rune_at_low _ _ _ _ R Hlow) as Ec. subst c.
    pose proof (span_fst_all _ _ _ _ E) as A. cbn [span] in E. unfold is_name_char at 1 in E. rewrite NS in E. cbn [orb] in E.
    destruct (span is_name_char s') as [a b]. inversion E; subst. cbn [name_ok]. rewrite NS. cbn [forallb] in A.
    apply andb_true_iff in A. destruct A as [_ A]. exact A. }
  destruct ((code =? 45) || is_digit code).
  { destruct (read_number s) as [[[lexeme isf] r']|] eqn:E; [|discriminate]. inversion H; subst.
    pose proof (read_number_lexeme _ _ _ _ E) as L. unfold lexeme_ok. cbn [tk tval].
    destruct isf; unfold num_okb; rewrite L; rewrite bytes_eqb_refl'; reflexivity. }
  destruct (code =? 34); [|discriminate].
  destruct (starts_with [34; 34] (dropN 1 s)).
  - destruct (read_block_raw fuel (dropN 3 s) (pos + 3)) as [[[raw r'] p']| |]; try discriminate. inversion H; reflexivity.
  - destruct (read_string fuel (dropN 1 s) (pos + 1)) as [[[v r'] p']| |]; try discriminate. inversion H; reflexivity.
Qed.

Lemma lex_all_lexemes : forall fuel s pos ts mb, lex_all fuel s pos = Ok (ts, mb) -> forallb lexeme_ok ts = true.
Proof.
  induction fuel as [|f IH]; intros s pos ts mb H; [discriminate|]. cbn [lex_all] in H.
  destruct (skip_ws (S f) s pos false) as [[[s1 p1] m1]| |]; try discriminate.
  destruct (read_token (S f) s1 p1) as [[[t s2] p2]| |] eqn:R; try discriminate.
  pose proof (read_token_lexeme _ _ _ _ _ _ R) as L.
  destruct (tk t) eqn:K;
    try (destruct (lex_all f s2 p2) as [[ts' fl]| |] eqn:E; try discriminate; inversion H; subst;
         cbn [forallb]; rewrite L, (IH _ _ _ _ E); reflexivity).
  inversion H; subst. cbn [forallb]. rewrite L. reflexivity.
Qed.
