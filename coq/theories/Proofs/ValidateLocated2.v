(* Locations of NoFragmentCycles (a fragment spread of some fragment definition) and of
   UniqueInputFieldNames (the name node of a field of an object literal occurring in a value). *)
From Coq Require Import List Arith Lia Bool String NArith.
From GQL Require Import Exec.Syntax Validate.VSyntax Validate.Overlap Validate.Rules
     Proofs.ValidateRules Proofs.ValidateCycles Proofs.ValidateInputFields.
Import ListNotations.
Open Scope list_scope.

Section Cyc.
Variable W : wdoc.

Definition SpreadId (x : N) : Prop :=
  exists f, In f (w_frags W) /\ In x (map fst (ctx_spreads (wf_sel f))).

Lemma fold_inv : forall {A} (P : cyc -> Prop) (step : cyc -> A -> cyc) (l : list A),
  (forall st x, In x l -> P st -> P (step st x)) -> forall st, P st -> P (fold_left step l st).
Proof.
  intros A P step l. induction l as [|x r IH]; intros H st Hs; simpl; [exact Hs|].
  apply IH; [intros st' y Hy; apply H; right; exact Hy | apply H; [left; reflexivity | exact Hs]].
Qed.

Lemma detect_located : forall fuel f path idx st,
  In f (w_frags W) -> (forall x, In x path -> SpreadId x) -> (forall x, In x (cy_errs st) -> SpreadId x) ->
  forall x, In x (cy_errs (detect W fuel f path idx st)) -> SpreadId x.
Proof.
  induction fuel as [|fu IH]; intros f path idx st Hf Hp He; [exact He|]. cbn [detect].
  destruct (ctx_spreads (wf_sel f)) as [|sp0 sps] eqn:Esp; [exact He|].
  apply (fold_inv (fun st' => forall x, In x (cy_errs st') -> SpreadId x)); [|exact He].
  intros st' sp Hsp He'.
  assert (Hid : SpreadId (fst sp)).
  { exists f. split; [exact Hf|]. rewrite Esp. apply in_map. exact Hsp. }
  destruct (alookup (snd (snd sp)) ((wf_name f, Datatypes.length path) :: idx)) as [ci|].
  - simpl. intros x Hx. apply in_app_or in Hx. destruct Hx as [Hx|[Hx|[]]]; [apply He'; exact Hx|]. subst x.
    destruct (skipn ci path) as [|y r] eqn:Es; [exact Hid|]. apply Hp.
    assert (In y (skipn ci path)) by (rewrite Es; left; reflexivity).
    clear -H. revert path H. induction ci as [|c IHc]; intros path H; [exact H|].
    destruct path as [|z p]; [destruct H|]. right. apply IHc. exact H.
  - destruct (nmem (snd (snd sp)) (cy_visited st')); [exact He'|].
    destruct (fragw W (snd (snd sp))) as [sf|] eqn:Efw; [|exact He'].
    destruct (fragw_some W _ _ Efw) as [Hsf _]. apply IH; [exact Hsf | | exact He'].
    intros x Hx. apply in_app_or in Hx. destruct Hx as [Hx|[Hx|[]]]; [apply Hp; exact Hx | subst x; exact Hid].
Qed.

Theorem no_fragment_cycles_located : forall x, In x (rule_no_fragment_cycles W) -> SpreadId x.
Proof.
  intros x. unfold rule_no_fragment_cycles.
  apply (fold_inv (fun st' => forall x, In x (cy_errs st') -> SpreadId x)); [|intros y []].
  intros st f Hf He. destruct (nmem (wf_name f) (cy_visited st)); [exact He|].
  apply detect_located; [exact Hf | intros y [] | exact He].
Qed.
End Cyc.

(* UniqueInputFieldNames *)
Lemma obj_dups_located : forall v x, In x (obj_dups v) ->
  exists o p, sub_obj v o /\ In p o /\ x = fst p.
Proof.
  induction v as [id n|id z|id n d|id s|id b|id e|id l IHl|id l IHl] using wvalue_ind'; intros x H; try destruct H.
  - simpl in H. apply in_flat_map in H. destruct H as [e [He H]]. rewrite Forall_forall in IHl.
    destruct (IHl e He x H) as [o [p [Hs [Hp E]]]]. exists o, p. split; [eapply sub_list; eauto | auto].
  - rewrite Forall_forall in IHl.
    assert (G : forall (r : ofields) seen, incl r l -> (forall q, In q seen -> exists p, In p l /\ snd q = fst p) ->
      In x ((fix go (l : list (N * (name * wvalue))) (seen : list (name * N)) : list N :=
               match l with
               | [] => []
               | p :: r =>
                 match alookup (fst (snd p)) seen with
                 | Some first => first :: obj_dups (snd (snd p)) ++ go r seen
                 | None => obj_dups (snd (snd p)) ++ go r (seen ++ [(fst (snd p), fst p)])
                 end
               end) r seen) ->
      exists o p, sub_obj (WObj id l) o /\ In p o /\ x = fst p).
    { induction r as [|p r IHr]; intros seen Hi Hs K; [destruct K|].
      assert (Hp : In p l) by (apply Hi; left; reflexivity).
      assert (Hr : incl r l) by (intros y Hy; apply Hi; right; exact Hy).
      assert (Nested : In x (obj_dups (snd (snd p))) -> exists o q, sub_obj (WObj id l) o /\ In q o /\ x = fst q).
      { intro Hx. destruct (IHl p Hp x Hx) as [o [q [So [Hq E]]]]. exists o, q. split; [eapply sub_field; eauto | auto]. }
      destruct (alookup (fst (snd p)) seen) as [first|] eqn:Ea.
      - destruct K as [K|K].
        + subst x. apply alookup_in in Ea. destruct (Hs _ Ea) as [q [Hq E]]. simpl in E.
          exists l, q. split; [apply sub_here | auto].
        + apply in_app_or in K. destruct K as [K|K]; [apply Nested; exact K | apply (IHr seen Hr Hs K)].
      - apply in_app_or in K. destruct K as [K|K]; [apply Nested; exact K|].
        apply (IHr (seen ++ [(fst (snd p), fst p)]) Hr); [|exact K].
        intros q Hq. apply in_app_or in Hq. destruct Hq as [Hq|[Hq|[]]]; [apply Hs; exact Hq|].
        subst q. exists p. split; [exact Hp | reflexivity]. }
    apply (G l [] (incl_refl _)); [intros q [] | exact H].
Qed.

Theorem unique_input_field_names_located : forall S W x, In x (rule_unique_input_field_names S W) ->
  exists v o p, sub_obj v o /\ In p o /\ x = fst p /\
    ((exists op vd, In op (w_ops W) /\ In vd (wo_vars op) /\ wv_default vd = Some v) \/
     (exists ow ad a, In (IArg ow ad a) (doc_items S W) /\ wa_val a = v)).
Proof.
  intros S W x H. unfold rule_unique_input_field_names in H. apply in_app_or in H. destruct H as [H|H].
  - apply in_flat_map in H. destruct H as [op [Ho H]]. apply in_flat_map in H. destruct H as [vd [Hv H]].
    destruct (wv_default vd) as [d|] eqn:Ed; [|destruct H].
    destruct (obj_dups_located d x H) as [o [p [Hs [Hp E]]]]. exists d, o, p. repeat split; try assumption.
    left. exists op, vd. auto.
  - apply in_flat_map in H. destruct H as [i [Hi H]]. destruct i as [| | | |ow ad a|]; try contradiction.
    destruct (obj_dups_located (wa_val a) x H) as [o [p [Hs [Hp E]]]]. exists (wa_val a), o, p. repeat split; try assumption.
    right. exists ow, ad, a. auto.
Qed.
