(* C08: print -> lex -> derive -> parse for type-system definitions, and for whole documents
   of any kind.  Same scheme as Proofs/SyntaxRoundTrip.v: for every nonterminal, from a
   derivation whose tokens carry well-formed lexemes, (a) the layout is well-formed and
   (b) any token list with the signatures of the layout's token pieces derives a node that is
   equal up to locations and empty descriptions (DESIGN Appendix A) and has the same layout. *)
From Coq Require Import String List NArith Bool Lia.
From GQL Require Import Base.Bytes Syntax.Lexer Syntax.Ast Syntax.Parser Syntax.Grammar Syntax.Printer
  Proofs.SyntaxSound Proofs.SyntaxComplete Proofs.SyntaxCompleteSDL Proofs.SyntaxPrinter Proofs.SyntaxUtf8 Proofs.SyntaxBlock
  Proofs.SyntaxRender Proofs.SyntaxLayoutWf Proofs.SyntaxRoundTrip.
Import ListNotations.
Open Scope N_scope.

(* ---- block-string pieces in the layout calculus ---- *)
Lemma P0_blk : forall d s X, blk_okb s = true -> P0 X -> P0 (PBlk d s :: X).
Proof. intros d s X Hs HX L H. cbn [app]. unfold wf0. cbn [layout_wfb]. rewrite Hs. apply HX. exact H. Qed.

Lemma P0_wordy_sep : forall k v s X, wordy_ok k v = true -> sep_wf s = true -> P0 X -> P0 (PTok k v :: PSep s :: X).
Proof. intros k v s X Hv Hs HX. apply P0_wordy; [exact Hv|apply P0_sep; assumption|apply SFs_sep; exact Hs]. Qed.

(* ---- blocks, empty ones included ---- *)
Lemma lblock_P0_all : forall items, Forall P1 items -> P0 (lblock items).
Proof.
  intros items H. destruct items as [|a items'].
  - unfold lblock. cbn [is_nil]. apply P0_punct; [reflexivity|]. apply P0_punct; [reflexivity|apply P0_nil].
  - apply lblock_P0; [discriminate|exact H].
Qed.
Lemma ltoks_lblock_all : forall items, ltoks (lblock items) = (BRACE_L, []) :: flat_map ltoks items ++ [(BRACE_R, [])].
Proof. intros [|a items']; [reflexivity|]. apply ltoks_lblock. discriminate. Qed.

(* ---- joins with a separator that contains a token ---- *)
Definition tsep (k : tkind) : layout := [PSep [32]; PTok k []; PSep [32]].

Lemma tsep_P0 : forall k, is_punct k = true -> P0 (tsep k).
Proof. intros k H. unfold tsep. apply P0_sep; [reflexivity|]. apply P0_punct; [exact H|]. apply P0_sep; [reflexivity|apply P0_nil]. Qed.
Lemma tsep_SFs : forall k X, SFs (tsep k ++ X).
Proof. intros k X. unfold tsep. cbn [app]. apply SFs_sep. reflexivity. Qed.

Lemma ljoinL_ne_P1 : forall k l, is_punct k = true -> Forall P1 l -> P1 (ljoinL_ne l (tsep k)).
Proof.
  intros k l Hk H. induction H as [|a l Ha Hl IH]; [apply P1_nil|].
  destruct l as [|b l']; [exact Ha|].
  change (ljoinL_ne (a :: b :: l') (tsep k)) with (a ++ tsep k ++ ljoinL_ne (b :: l') (tsep k)).
  apply P1_app1; [exact Ha|apply P1_app0; [apply tsep_P0; exact Hk|exact IH]|apply SFs_SF; apply tsep_SFs].
Qed.
Lemma ljoinL_P1 : forall k l, is_punct k = true -> Forall P1 l -> P1 (ljoinL l (tsep k)).
Proof. intros k l Hk H. unfold ljoinL. apply ljoinL_ne_P1; [exact Hk|apply filter_Forall; exact H]. Qed.

Section SepLists.
  Context {A : Type}.
  Variable I : list token -> A -> Prop.
  Variable lay : A -> layout.
  Variable g : A -> gt.
  Variable k : tkind.
  Hypothesis Hk : is_punct k = true.
  Hypothesis lay_nonnil : forall a, lay a <> [].

  Lemma ljoinL_map : forall l, ljoinL (map lay l) (tsep k) = ljoinL_ne (map lay l) (tsep k).
  Proof.
    intro l. unfold ljoinL. rewrite filter_id; [reflexivity|]. intros a Ha. apply in_map_iff in Ha. destruct Ha as (x & <- & _). apply lay_nonnil.
  Qed.

  Lemma ljoinL_nonnil : forall l, l <> [] -> ljoinL (map lay l) (tsep k) <> [].
  Proof.
    intros l H. rewrite ljoinL_map. destruct l as [|a [|b l']]; [contradiction|cbn; apply lay_nonnil|].
    change (ljoinL_ne (map lay (a :: b :: l')) (tsep k)) with (lay a ++ tsep k ++ ljoinL_ne (map lay (b :: l')) (tsep k)).
    intro X. apply app_eq_nil in X. destruct X as [X _]. apply (lay_nonnil a X).
  Qed.

  Lemma sepl_reloc : forall l, Forall (Rb I lay g) l -> l <> [] ->
    forall ts, map sig ts = ltoks (ljoinL (map lay l) (tsep k)) ->
    exists l', DSep I k ts l' /\ map gnl (map g l') = map gnl (map g l) /\ map lay l' = map lay l.
  Proof.
    intros l H. induction H as [|a l Ha Hl IH]; intros Hne ts Hts; [contradiction|]. rewrite ljoinL_map in Hts.
    destruct l as [|b l'].
    - cbn [map ljoinL_ne] in Hts. destruct (Ha ts Hts) as (a' & Da & Ea & La).
      exists [a']. split; [apply DSep_one; exact Da|]. cbn [map]. rewrite Ea, La. split; reflexivity.
    - change (ljoinL_ne (map lay (a :: b :: l')) (tsep k)) with (lay a ++ tsep k ++ ljoinL_ne (map lay (b :: l')) (tsep k)) in Hts.
      rewrite ltoks_app in Hts. unfold tsep in Hts. cbn [app ltoks] in Hts. rewrite (tokval_punct k Hk) in Hts.
      apply map_eq_app in Hts. destruct Hts as (t1 & t2 & -> & H1 & H2).
      apply map_eq_cons in H2. destruct H2 as (s' & t3 & -> & Ss & H3). apply sig_inv in Ss. destruct Ss as [Ks _].
      destruct (Ha t1 H1) as (a' & Da & Ea & La).
      destruct (IH ltac:(discriminate) t3 ltac:(rewrite ljoinL_map; exact H3)) as (l2 & D2 & E2 & L2).
      exists (a' :: l2). split; [apply DSep_cons; assumption|]. cbn [map] in *. rewrite Ea, La, E2, L2. split; reflexivity.
  Qed.

  Lemma sep_elems : forall p l, DSep I k p l -> toks_wf p -> l <> [] /\ Forall (fun a => exists q, I q a /\ toks_wf q) l.
  Proof.
    intros p l D. induction D as [p a Hpa|p a s ps l Hpa Ks Dl IH]; intro W.
    - split; [discriminate|]. constructor; [exists p; split; assumption|constructor].
    - apply toks_wf_app in W. destruct W as [W1 W2]. apply toks_wf_cons in W2. destruct W2 as [_ W2].
      split; [discriminate|]. constructor; [exists p; split; assumption|apply IH; exact W2].
  Qed.
End SepLists.

(* ---- names and named types as list items ---- *)
Definition lay_nm (n : name) : layout := Nm n.
Definition lay_named (n : named) : layout := Nm (nd_name n).
Lemma lay_nm_nonnil : forall n, lay_nm n <> []. Proof. intro n. discriminate. Qed.
Lemma lay_named_nonnil : forall n, lay_named n <> []. Proof. intro n. discriminate. Qed.

Lemma name_rt : forall p n, DName p n -> toks_wf p -> P1 (lay_nm n) /\ Rb DName lay_nm g_name n.
Proof.
  intros p n D W. destruct D as [t Kt]. apply toks_wf_cons in W. destruct W as [Wt _]. split.
  - unfold lay_nm, Nm, tok_name. cbn [nval]. apply P1_wordy_last. apply name_tok_wf; assumption.
  - intros ts Hts. unfold lay_nm, Nm, tok_name in Hts. cbn [nval ltoks tokval] in Hts. sigs Hts.
    exists (tok_name t0). split; [constructor; assumption|]. unfold lay_nm, Nm, tok_name, g_name. cbn [nval nloc gl gnl map]. rewrite V. split; reflexivity.
Qed.
Lemma named_rt : forall p n, DNamed p n -> toks_wf p -> P1 (lay_named n) /\ Rb DNamed lay_named g_named n.
Proof.
  intros p n D W. destruct D as [t Kt]. apply toks_wf_cons in W. destruct W as [Wt _]. split.
  - unfold lay_named, Nm, tok_named, tok_name. cbn [nd_name nval]. apply P1_wordy_last. apply name_tok_wf; assumption.
  - intros ts Hts. unfold lay_named, Nm, tok_named, tok_name in Hts. cbn [nd_name nval ltoks tokval] in Hts. sigs Hts.
    exists (tok_named t0). split; [constructor; assumption|].
    unfold lay_named, Nm, tok_named, tok_name, g_named, g_name. cbn [nd_name nd_loc nval nloc gl gnl map]. rewrite V. split; reflexivity.
Qed.

(* a PIPE- or AMP-separated list of names *)
Section NameLists.
  Context {A : Type}.
  Variable I : list token -> A -> Prop.
  Variable lay : A -> layout.
  Variable g : A -> gt.
  Variable k : tkind.
  Hypothesis Hk : is_punct k = true.
  Hypothesis lay_nonnil : forall a, lay a <> [].
  Hypothesis item_rt : forall p a, I p a -> toks_wf p -> P1 (lay a) /\ Rb I lay g a.

  Lemma sepl_rt : forall p l, DSep I k p l -> toks_wf p ->
    l <> [] /\ P1 (ljoinL (map lay l) (tsep k)) /\
    forall ts, map sig ts = ltoks (ljoinL (map lay l) (tsep k)) ->
      exists l', DSep I k ts l' /\ map gnl (map g l') = map gnl (map g l) /\ map lay l' = map lay l.
  Proof.
    intros p l D W. destruct (sep_elems I k p l D W) as [Hne X].
    assert (E : Forall (fun a => P1 (lay a) /\ Rb I lay g a) l).
    { eapply Forall_impl; [|exact X]. intros a (q & Dq & Wq). apply (item_rt q a Dq Wq). }
    split; [exact Hne|]. split.
    - apply ljoinL_P1; [exact Hk|]. rewrite Forall_map. eapply Forall_impl; [|exact E]. intros a [Ha _]. exact Ha.
    - apply (sepl_reloc I lay g k Hk lay_nonnil l); [|exact Hne]. eapply Forall_impl; [|exact E]. intros a [_ Ha]. exact Ha.
  Qed.
End NameLists.

(* ---- descriptions ---- *)
Definition gn_descr (d : descr) : gt := g_descr (norm_descr d).

Lemma norm_descr_some : forall v l, v <> [] -> norm_descr (Some (v, l)) = Some (v, l).
Proof. intros [|c v] l H; [contradiction|reflexivity]. Qed.

Lemma descr_rt : forall p d, DDescr p d -> toks_wf p ->
  P0 (lay_descr d ++ nl) /\
  forall ts, map sig ts = ltoks (lay_descr d) ->
    exists d', DDescr ts d' /\ gnl (gn_descr d') = gnl (gn_descr d) /\ lay_descr d' = lay_descr d.
Proof.
  intros p d D W. destruct D as [|t K].
  - split; [cbn [lay_descr app]; unfold nl; apply P0_sep; [reflexivity|apply P0_nil]|].
    intros ts H. cbn in H. apply map_eq_nil in H. subst. exists None. split; [constructor|split; reflexivity].
  - apply toks_wf_cons in W. destruct W as [Wt _]. unfold tok_wf in Wt.
    assert (Wa : str_okb (tval t) = true) by (destruct K as [K|K]; rewrite K in Wt; exact Wt). clear Wt.
    set (v := tval t) in *. cbn [lay_descr]. destruct (is_nil v) eqn:En.
    + split; [cbn [app]; unfold nl; apply P0_sep; [reflexivity|apply P0_nil]|].
      intros ts H. cbn in H. apply map_eq_nil in H. subst. exists None. split; [constructor|].
      apply is_nil_true in En. rewrite En. split; reflexivity.
    + assert (Nv : v <> []) by (intro X; rewrite X in En; discriminate En).
      destruct (printable_as_block v) eqn:Pb.
      * split.
        { cbn [app]. unfold nl. apply P0_blk; [unfold blk_okb; rewrite En, Pb, Wa; reflexivity|]. apply P0_sep; [reflexivity|apply P0_nil]. }
        intros ts H. cbn [ltoks] in H. sigs H.
        exists (Some (tval t0, tokloc t0)). split; [constructor; right; exact K0|].
        cbn [lay_descr]. rewrite V, En, Pb. unfold gn_descr. rewrite !norm_descr_some by exact Nv. cbn [g_descr gl gnl map]. split; reflexivity.
      * split.
        { cbn [app]. unfold nl. apply P0_wordy_sep; [exact Wa|reflexivity|apply P0_nil]. }
        intros ts H. cbn [ltoks tokval] in H. sigs H.
        exists (Some (tval t0, tokloc t0)). split; [constructor; left; exact K0|].
        cbn [lay_descr]. rewrite V, En, Pb. unfold gn_descr. rewrite !norm_descr_some by exact Nv. cbn [g_descr gl gnl map]. split; reflexivity.
Qed.

Lemma with_desc_P1 : forall d body, P0 (lay_descr d ++ nl) -> P1 body -> P1 (with_desc d body).
Proof.
  intros d body Hd Hb. unfold with_desc, lwrap. destruct (is_nil (lay_descr d)); [exact Hb|].
  rewrite app_nil_l. apply P1_app0; [exact Hd|exact Hb].
Qed.
Lemma with_desc_nl_P1 : forall d body, P0 (lay_descr d ++ nl) -> P1 body -> P1 (with_desc_nl d body).
Proof.
  intros d body Hd Hb. unfold with_desc_nl, lwrap. destruct (is_nil (lay_descr d)); [exact Hb|].
  unfold nl at 1. cbn [app]. apply P1_sep; [reflexivity|]. apply P1_app0; [exact Hd|exact Hb].
Qed.
Lemma ltoks_with_desc : forall d body, ltoks (with_desc d body) = ltoks (lay_descr d) ++ ltoks body.
Proof. intros d body. unfold with_desc. rewrite ltoks_app, (ltoks_lwrap_sep [] (lay_descr d) nl eq_refl eq_refl). reflexivity. Qed.
Lemma ltoks_with_desc_nl : forall d body, ltoks (with_desc_nl d body) = ltoks (lay_descr d) ++ ltoks body.
Proof. intros d body. unfold with_desc_nl. rewrite ltoks_app, (ltoks_lwrap_sep nl (lay_descr d) nl eq_refl eq_refl). reflexivity. Qed.

(* ---- default values written "= v" ---- *)
Definition eq_wrap2 : layout := T EQUALS ++ sp.
Lemma default_rt2 : forall pv dv, DOpt DDefault pv dv -> toks_wf pv ->
  P1 (lwrap eq_wrap2 (dflt_lay dv) []) /\
  forall ts, map sig ts = ltoks (lwrap eq_wrap2 (dflt_lay dv) []) ->
    exists dv', DOpt DDefault ts dv' /\ gnl (gopt g_value dv') = gnl (gopt g_value dv) /\ dflt_lay dv' = dflt_lay dv.
Proof.
  intros pv dv D W. destruct D as [|pv v Dd].
  - split; [apply P1_nil|]. intros ts H. cbn in H. apply map_eq_nil in H. subst. exists None. split; [constructor|split; reflexivity].
  - destruct Dd as [e pv v Ke Dv]. apply toks_wf_cons in W. destruct W as [_ W].
    destruct (value_rt _ true pv v (le_n _) Dv W) as [Pv Rv]. cbn [dflt_lay]. split.
    + apply lwrap_P1_open; [|exact Pv]. unfold eq_wrap2, sp, T. cbn [app].
      apply P0_punct; [reflexivity|]. apply P0_sep; [reflexivity|apply P0_nil].
    + intros ts H. rewrite ltoks_lwrap in H. pose proof (lay_value_nonnil v) as Nv.
      destruct (lay_value v) as [|x lv] eqn:E; [contradiction|]. cbn [is_nil] in H. rewrite <- E in *. clear E.
      unfold eq_wrap2, sp, T in H. cbn [app ltoks tokval] in H. rewrite app_nil_r in H.
      apply map_eq_cons in H. destruct H as (e' & tv & -> & Se & H). apply sig_inv in Se. destruct Se as [Ke' _].
      destruct (Rv tv H) as (v' & Dv' & Ev & Lv).
      exists (Some v'). split; [constructor; constructor; assumption|]. cbn [gopt dflt_lay]. split; assumption.
Qed.

(* ---- input value definitions ---- *)
Definition gn_ivdef (i : ivdef) : gt := g_ivdef (norm_ivdef i).
Definition ivdef_body (n : name) (t : ty) (dv : option value) (dirs : list directive) : layout :=
  ljoin [ Nm n ++ PTok COLON [] :: PSep [32] :: lay_type t; lwrap eq_wrap2 (dflt_lay dv) []; lay_dirs dirs ] [32].
Lemma lay_ivdef_eq : forall i, lay_ivdef i = with_desc_nl (iv_desc i) (ivdef_body (iv_name i) (iv_type i) (iv_default i) (iv_dirs i)).
Proof. reflexivity. Qed.
Lemma ljoin_hd_nonnil : forall a l sep, a <> [] -> ljoin (a :: l) sep <> [].
Proof.
  intros a l sep H. destruct a as [|x a']; [contradiction|]. unfold ljoin. cbn [filter is_nil negb].
  destruct (filter (fun x => negb (is_nil x)) l); discriminate.
Qed.
Lemma ivdef_body_nonnil : forall n t dv dirs, ivdef_body n t dv dirs <> [].
Proof. intros. unfold ivdef_body. apply ljoin_hd_nonnil. unfold Nm. discriminate. Qed.
Lemma lay_ivdef_nonnil : forall i, lay_ivdef i <> [].
Proof.
  intro i. rewrite lay_ivdef_eq. unfold with_desc_nl. intro X. apply app_eq_nil in X. destruct X as [_ X]. apply (ivdef_body_nonnil _ _ _ _ X).
Qed.

Lemma ivdef_rt : forall p i, DIVDef p i -> toks_wf p -> P1 (lay_ivdef i) /\ Rb DIVDef lay_ivdef gn_ivdef i.
Proof.
  intros p i D W. destruct D as [pdsc dsc n c pt t pv dv pd dirs Dd Kn Kc Dt Dv Ddir].
  apply toks_wf_app in W. destruct W as [Wdsc W]. apply toks_wf_cons in W. destruct W as [Wn W].
  apply toks_wf_cons in W. destruct W as [_ W]. apply toks_wf_app in W. destruct W as [Wt W]. apply toks_wf_app in W. destruct W as [Wv Wd].
  destruct (descr_rt _ _ Dd Wdsc) as [Pdsc Rdsc]. destruct (type_rt _ _ Dt Wt) as [Pt Rt].
  destruct (default_rt2 _ _ Dv Wv) as [Pv Rv]. destruct (dirs_rt _ _ Ddir Wd) as (Pd & Sd & Rd).
  rewrite lay_ivdef_eq. cbn [iv_desc iv_name iv_type iv_default iv_dirs]. split.
  - apply with_desc_nl_P1; [exact Pdsc|]. unfold ivdef_body. apply ljoin_P1; [reflexivity|]. repeat constructor; try assumption.
    unfold Nm, tok_name. cbn [nval app]. apply P1_wordy; [apply name_tok_wf; assumption| |apply SFs_SF; apply SFs_punct; reflexivity].
    apply P1_punct; [reflexivity|]. apply P1_sep; [reflexivity|exact Pt].
  - intros ts Hts. rewrite lay_ivdef_eq in Hts. cbn [iv_desc iv_name iv_type iv_default iv_dirs] in Hts.
    rewrite ltoks_with_desc_nl in Hts. unfold ivdef_body in Hts. rewrite ltoks_ljoin in Hts. cbn [flat_map] in Hts.
    rewrite app_nil_r in Hts. unfold Nm, tok_name in Hts. cbn [nval app] in Hts. cbn [ltoks tokval] in Hts.
    apply map_eq_app in Hts. destruct Hts as (tdsc & tl & -> & Hdsc & Hts).
    apply map_eq_cons in Hts. destruct Hts as (n' & tl2 & -> & Sn & Hts). apply sig_inv in Sn. destruct Sn as [Kn' Vn'].
    apply map_eq_cons in Hts. destruct Hts as (c' & tl3 & -> & Sc & Hts). apply sig_inv in Sc. destruct Sc as [Kc' _].
    apply map_eq_app in Hts. destruct Hts as (tt & tl4 & -> & Htt & Hts).
    apply map_eq_app in Hts. destruct Hts as (tv & td & -> & Htv & Htd).
    destruct (Rdsc tdsc Hdsc) as (dsc' & Ddsc' & Edsc & Ldsc). destruct (Rt tt Htt) as (t' & Dt' & Et & Lt).
    destruct (Rv tv Htv) as (dv' & Dv' & Ev & Lv). destruct (Rd td Htd) as (dirs' & Dd' & Ed & Ld).
    exists (mkivdef dsc' (tok_name n') t' dv' dirs' (span (tdsc ++ n' :: c' :: tt ++ tv ++ td))). split; [constructor; assumption|].
    split.
    + unfold gn_ivdef, norm_ivdef, g_ivdef. cbn [iv_desc iv_name iv_type iv_default iv_dirs iv_loc gl gnl map g_name g_dirs glist].
      unfold gn_descr in Edsc. unfold tok_name. cbn [nval nloc]. rewrite Vn', Edsc, Et, Ev, Ed. reflexivity.
    + rewrite !lay_ivdef_eq. cbn [iv_desc iv_name iv_type iv_default iv_dirs]. unfold with_desc_nl, ivdef_body, Nm, tok_name. cbn [nval].
      rewrite Vn', Ldsc, Lt, Lv, Ld. reflexivity.
Qed.

(* ---- argument definitions: on one line, or one per line when some argument carries a block-string description ---- *)
Definition lay_argdefs_opt := lay_opt lay_ivdef PAREN_L PAREN_R comma_sp.

Lemma has_arg_desc_nonnil : forall A (f : A -> layout) l, has_arg_desc (map f l) = true -> l <> [].
Proof. intros A f [|a l] H; [discriminate H|discriminate]. Qed.

Lemma ltoks_argdefs : forall l, ltoks (lay_argdefs l) = ltoks (lay_argdefs_opt l).
Proof.
  intro l. unfold lay_argdefs. cbv zeta. destruct (has_arg_desc (map lay_ivdef l)) eqn:H; [|reflexivity].
  pose proof (has_arg_desc_nonnil _ _ _ H) as Hne.
  rewrite ltoks_lwrap. change (is_nil (lindent (nl ++ ljoin (map lay_ivdef l) [10]))) with false. cbv iota.
  rewrite ltoks_lindent, !ltoks_app, ltoks_ljoin.
  unfold lay_argdefs_opt, lay_opt. rewrite ltoks_lwrap. rewrite (ljoin_map_nil _ lay_ivdef l comma_sp lay_ivdef_nonnil).
  destruct l as [|a l']; [contradiction|]. cbn [is_nil]. rewrite ltoks_ljoin. reflexivity.
Qed.

Lemma argdefs_rt : forall p l, DArgDefs p l -> toks_wf p ->
  P1 (lay_argdefs l) /\ SF (lay_argdefs l) /\
  forall ts, map sig ts = ltoks (lay_argdefs l) ->
    exists l', DArgDefs ts l' /\ map gnl (map gn_ivdef l') = map gnl (map gn_ivdef l) /\ lay_argdefs l' = lay_argdefs l.
Proof.
  intros p l D W. pose proof (optdelim_elems _ _ _ _ _ _ D W) as X.
  assert (E : Forall (fun a => P1 (lay_ivdef a) /\ Rb DIVDef lay_ivdef gn_ivdef a) l).
  { eapply Forall_impl; [|exact X]. intros a (q & Dq & _ & Wq). apply (ivdef_rt q a Dq Wq). }
  assert (E1 : Forall P1 (map lay_ivdef l)) by (rewrite Forall_map; eapply Forall_impl; [|exact E]; intros a [Ha _]; exact Ha).
  split; [|split].
  - unfold lay_argdefs. cbv zeta. destruct (has_arg_desc (map lay_ivdef l)).
    + apply lwrap_P1.
      * unfold T. apply P0_punct; [reflexivity|apply P0_nil].
      * apply lindent_P1. unfold nl. cbn [app]. apply P1_sep; [reflexivity|]. apply ljoin_P1; [reflexivity|exact E1].
      * unfold nl, T. cbn [app]. apply P0_sep; [reflexivity|]. apply P0_punct; [reflexivity|apply P0_nil].
      * unfold nl. cbn [app]. apply SFs_sep. reflexivity.
    + apply (optdelim_P1 lay_ivdef PAREN_L PAREN_R comma_sp eq_refl eq_refl eq_refl eq_refl l).
      eapply Forall_impl; [|exact E]. intros a [Ha _]. exact Ha.
  - unfold lay_argdefs. cbv zeta. destruct (has_arg_desc (map lay_ivdef l)); apply lwrap_SF; apply SFs_punct; reflexivity.
  - intros ts Hts. rewrite ltoks_argdefs in Hts.
    destruct (optdelim_reloc DIVDef lay_ivdef gn_ivdef PAREN_L PAREN_R comma_sp eq_refl eq_refl lay_ivdef_nonnil l
                ltac:(eapply Forall_impl; [|exact E]; intros a [_ Ha]; exact Ha) ts Hts) as (l' & D' & E' & L').
    exists l'. split; [exact D'|]. split; [exact E'|]. unfold lay_argdefs. rewrite L'. reflexivity.
Qed.

(* ---- field definitions ---- *)
Definition gn_fielddef (f : fielddef) : gt := g_fielddef (norm_fielddef f).
Definition fielddef_body (n : name) (args : list ivdef) (t : ty) (dirs : list directive) : layout :=
  Nm n ++ lay_argdefs args ++ PTok COLON [] :: PSep [32] :: lay_type t ++ lwrap sp (lay_dirs dirs) [].
Lemma lay_fielddef_eq : forall f, lay_fielddef f = with_desc_nl (fd_desc f) (fielddef_body (fd_name f) (fd_args f) (fd_type f) (fd_dirs f)).
Proof. reflexivity. Qed.

Lemma map_gn_ivdef : forall l, map g_ivdef (map norm_ivdef l) = map gn_ivdef l.
Proof. intro l. rewrite map_map. reflexivity. Qed.

Lemma fielddef_rt : forall p f, DFieldDef p f -> toks_wf p -> P1 (lay_fielddef f) /\ Rb DFieldDef lay_fielddef gn_fielddef f.
Proof.
  intros p f D W. destruct D as [pdsc dsc n pa args c pt t pd dirs Dd Kn Da Kc Dt Ddir].
  apply toks_wf_app in W. destruct W as [Wdsc W]. apply toks_wf_cons in W. destruct W as [Wn W].
  apply toks_wf_app in W. destruct W as [Wa W]. apply toks_wf_cons in W. destruct W as [_ W]. apply toks_wf_app in W. destruct W as [Wt Wd].
  destruct (descr_rt _ _ Dd Wdsc) as [Pdsc Rdsc]. destruct (argdefs_rt _ _ Da Wa) as (Pa & Sa & Ra).
  destruct (type_rt _ _ Dt Wt) as [Pt Rt]. destruct (dirs_rt _ _ Ddir Wd) as (Pd & Sd & Rd).
  rewrite lay_fielddef_eq. cbn [fd_desc fd_name fd_args fd_type fd_dirs]. split.
  - apply with_desc_nl_P1; [exact Pdsc|]. unfold fielddef_body, Nm, tok_name. cbn [nval app].
    apply P1_wordy; [apply name_tok_wf; assumption| |apply SF_app; [exact Sa|apply SFs_SF; apply SFs_punct; reflexivity]].
    apply P1_app1; [exact Pa| |apply SFs_SF; apply SFs_punct; reflexivity].
    apply P1_punct; [reflexivity|]. apply P1_sep; [reflexivity|].
    apply P1_app1; [exact Pt|apply lwrap_P1_open; [apply P0_sep; [reflexivity|apply P0_nil]|exact Pd]|apply lwrap_SF; apply SFs_sep; reflexivity].
  - intros ts Hts. rewrite lay_fielddef_eq in Hts. cbn [fd_desc fd_name fd_args fd_type fd_dirs] in Hts.
    rewrite ltoks_with_desc_nl in Hts. unfold fielddef_body, Nm, tok_name in Hts. cbn [nval app ltoks tokval] in Hts.
    rewrite ltoks_app in Hts. cbn [ltoks tokval] in Hts. rewrite ltoks_app in Hts.
    rewrite (ltoks_lwrap_sep sp (lay_dirs dirs) [] eq_refl eq_refl) in Hts.
    apply map_eq_app in Hts. destruct Hts as (tdsc & tl & -> & Hdsc & Hts).
    apply map_eq_cons in Hts. destruct Hts as (n' & tl2 & -> & Sn & Hts). apply sig_inv in Sn. destruct Sn as [Kn' Vn'].
    apply map_eq_app in Hts. destruct Hts as (ta & tl3 & -> & Hta & Hts).
    apply map_eq_cons in Hts. destruct Hts as (c' & tl4 & -> & Sc & Hts). apply sig_inv in Sc. destruct Sc as [Kc' _].
    apply map_eq_app in Hts. destruct Hts as (tt & td & -> & Htt & Htd).
    destruct (Rdsc tdsc Hdsc) as (dsc' & Ddsc' & Edsc & Ldsc). destruct (Ra ta Hta) as (args' & Da' & Ea & La).
    destruct (Rt tt Htt) as (t' & Dt' & Et & Lt). destruct (Rd td Htd) as (dirs' & Dd' & Ed & Ld).
    exists (mkfielddef dsc' (tok_name n') args' t' dirs' (span (tdsc ++ n' :: ta ++ c' :: tt ++ td))). split; [constructor; assumption|].
    split.
    + unfold gn_fielddef, norm_fielddef, g_fielddef. cbn [fd_desc fd_name fd_args fd_type fd_dirs fd_loc gl gnl map g_name g_dirs glist].
      unfold gn_descr in Edsc. unfold tok_name. cbn [nval nloc]. rewrite !map_gn_ivdef. rewrite Vn', Edsc, Ea, Et, Ed. reflexivity.
    + rewrite !lay_fielddef_eq. cbn [fd_desc fd_name fd_args fd_type fd_dirs]. unfold with_desc_nl, fielddef_body, Nm, tok_name. cbn [nval].
      rewrite Vn', Ldsc, La, Lt, Ld. reflexivity.
Qed.

(* ---- blocks of definitions: { item* } ---- *)
Section Blocks.
  Context {A : Type}.
  Variable I : list token -> A -> Prop.
  Variable lay : A -> layout.
  Variable g : A -> gt.
  Hypothesis item_rt : forall p a, I p a -> toks_wf p -> P1 (lay a) /\ Rb I lay g a.

  Lemma block_rt : forall ne p l, DDelim I BRACE_L BRACE_R ne p l -> toks_wf p ->
    P0 (lblock (map lay l)) /\
    forall ts, map sig ts = ltoks (lblock (map lay l)) ->
      exists l', DDelim I BRACE_L BRACE_R ne ts l' /\ map gnl (map g l') = map gnl (map g l) /\ map lay l' = map lay l.
  Proof.
    intros ne p l D W. destruct D as [o ps c l Ho Hc Hs Hne].
    apply toks_wf_cons in W. destruct W as [_ W]. apply toks_wf_app in W. destruct W as [W _].
    assert (E : Forall (fun a => P1 (lay a) /\ Rb I lay g a) l).
    { pose proof (star_elems _ _ _ Hs W) as X. eapply Forall_impl; [|exact X]. intros a (q & Dq & _ & Wq). apply (item_rt q a Dq Wq). }
    split.
    - apply lblock_P0_all. rewrite Forall_map. eapply Forall_impl; [|exact E]. intros a [Ha _]. exact Ha.
    - intros ts Hts. rewrite ltoks_lblock_all in Hts.
      apply map_eq_cons in Hts. destruct Hts as (o' & tl & -> & So & Hts). apply sig_inv in So. destruct So as [Ko _].
      apply map_eq_app in Hts. destruct Hts as (mid & cl & -> & Hmid & Hcl). sigs Hcl.
      destruct (star_reloc I lay g l ltac:(eapply Forall_impl; [|exact E]; intros a [_ Ha]; exact Ha) mid Hmid) as (l' & Dl' & El & Ll).
      exists l'. split; [|split; assumption]. constructor; try assumption.
      intros En X. subst l'. specialize (Hne En). destruct l; [contradiction Hne; reflexivity|discriminate Ll].
  Qed.
End Blocks.

(* ---- operation type definitions of a schema ---- *)
Definition g_optypedef (o : optypedef) : gt := gl 27 (optype_name (ot_op o)) (ot_loc o) [g_named (ot_type o)].

Lemma optypedef_rt : forall p o, DOpTypeDef p o -> toks_wf p -> P1 (lay_optypedef o) /\ Rb DOpTypeDef lay_optypedef g_optypedef o.
Proof.
  intros p o D W. destruct D as [k op c t Kk Ho Kc Kt].
  apply toks_wf_cons in W. destruct W as [_ W]. apply toks_wf_cons in W. destruct W as [_ W]. apply toks_wf_cons in W. destruct W as [Wt _].
  unfold lay_optypedef, Nm, tok_named, tok_name. cbn [ot_op ot_type nd_name nval]. split.
  - apply P1_wordy; [apply optype_name_ok| |apply SFs_SF; apply SFs_punct; reflexivity].
    apply P1_punct; [reflexivity|]. apply P1_sep; [reflexivity|]. apply P1_wordy_last. apply name_tok_wf; assumption.
  - intros ts Hts. cbn [ltoks tokval] in Hts. sigs Hts.
    exists (mkoptypedef op (tok_named t2) (span [t0; t1; t2])). split; [constructor; try assumption; rewrite V; apply optype_of_name|].
    unfold lay_optypedef, g_optypedef, Nm, tok_named, tok_name, g_named, g_name. cbn [ot_op ot_type ot_loc nd_name nd_loc nval nloc gl gnl map].
    rewrite V1. split; reflexivity.
Qed.

(* ---- enum values ---- *)
Definition gn_enumval (v : enumvaldef) : gt :=
  let v := norm_enumval v in gl 33 [] (ev_loc v) [g_descr (ev_desc v); g_name (ev_name v); g_dirs (ev_dirs v)].
Definition enumval_body (n : name) (dirs : list directive) : layout := ljoin [ Nm n; lay_dirs dirs ] [32].
Lemma lay_enumval_eq : forall v, lay_enumval v = with_desc_nl (ev_desc v) (enumval_body (ev_name v) (ev_dirs v)).
Proof. reflexivity. Qed.

Lemma enumval_rt : forall p v, DEnumValDef p v -> toks_wf p -> P1 (lay_enumval v) /\ Rb DEnumValDef lay_enumval gn_enumval v.
Proof.
  intros p v D W. destruct D as [pdsc dsc n pd dirs Dd Kn Ddir].
  apply toks_wf_app in W. destruct W as [Wdsc W]. apply toks_wf_cons in W. destruct W as [Wn Wd].
  destruct (descr_rt _ _ Dd Wdsc) as [Pdsc Rdsc]. destruct (dirs_rt _ _ Ddir Wd) as (Pd & Sd & Rd).
  rewrite lay_enumval_eq. cbn [ev_desc ev_name ev_dirs]. split.
  - apply with_desc_nl_P1; [exact Pdsc|]. unfold enumval_body. apply ljoin_P1; [reflexivity|]. repeat constructor; try assumption.
    unfold Nm, tok_name. cbn [nval]. apply P1_wordy_last. apply name_tok_wf; assumption.
  - intros ts Hts. rewrite lay_enumval_eq in Hts. cbn [ev_desc ev_name ev_dirs] in Hts. rewrite ltoks_with_desc_nl in Hts.
    unfold enumval_body in Hts. rewrite ltoks_ljoin in Hts. cbn [flat_map] in Hts. rewrite app_nil_r in Hts.
    unfold Nm, tok_name in Hts. cbn [nval ltoks tokval app] in Hts.
    apply map_eq_app in Hts. destruct Hts as (tdsc & tl & -> & Hdsc & Hts).
    apply map_eq_cons in Hts. destruct Hts as (n' & td & -> & Sn & Htd). apply sig_inv in Sn. destruct Sn as [Kn' Vn'].
    destruct (Rdsc tdsc Hdsc) as (dsc' & Ddsc' & Edsc & Ldsc). destruct (Rd td Htd) as (dirs' & Dd' & Ed & Ld).
    exists (mkenumvaldef dsc' (tok_name n') dirs' (span (tdsc ++ n' :: td))). split; [constructor; assumption|]. split.
    + unfold gn_enumval, norm_enumval. cbv zeta. cbn [ev_desc ev_name ev_dirs ev_loc gl gnl map g_name g_dirs glist].
      unfold gn_descr in Edsc. unfold tok_name. cbn [nval nloc]. rewrite Vn', Edsc, Ed. reflexivity.
    + rewrite !lay_enumval_eq. cbn [ev_desc ev_name ev_dirs]. unfold with_desc_nl, enumval_body, Nm, tok_name. cbn [nval]. rewrite Vn', Ldsc, Ld. reflexivity.
Qed.

(* ---- implements ---- *)
Definition lay_impl (ifs : list named) : layout := lwrap (Kw "implements" ++ sp) (ljoinL (map lay_named ifs) (tsep AMP)) [].

Lemma impl_rt : forall p ifs, DImplements p ifs -> toks_wf p ->
  P1 (lay_impl ifs) /\
  forall ts, map sig ts = ltoks (lay_impl ifs) ->
    exists ifs', DImplements ts ifs' /\ map gnl (map g_named ifs') = map gnl (map g_named ifs) /\ lay_impl ifs' = lay_impl ifs.
Proof.
  intros p ifs D W. destruct D as [|i pa p l Ki Vi Hpa Ds].
  - split; [apply P1_nil|]. intros ts H. cbn in H. apply map_eq_nil in H. subst. exists []. split; [constructor|split; reflexivity].
  - apply toks_wf_cons in W. destruct W as [_ W]. apply toks_wf_app in W. destruct W as [_ W].
    destruct (sepl_rt DNamed lay_named g_named AMP eq_refl lay_named_nonnil named_rt p l Ds W) as (Hne & Pl & Rl).
    unfold lay_impl. split.
    + apply lwrap_P1_open; [|exact Pl]. unfold Kw, sp. cbn [app]. apply P0_wordy_sep; [reflexivity|reflexivity|apply P0_nil].
    + intros ts Hts. rewrite ltoks_lwrap in Hts. pose proof (ljoinL_nonnil lay_named AMP lay_named_nonnil l Hne) as Nn.
      destruct (ljoinL (map lay_named l) (tsep AMP)) as [|x y] eqn:E; [contradiction|]. cbn [is_nil] in Hts. rewrite <- E in *.
      unfold Kw, sp in Hts. cbn [app ltoks tokval] in Hts. rewrite app_nil_r in Hts.
      apply map_eq_cons in Hts. destruct Hts as (i' & tl & -> & Si & Hts). apply sig_inv in Si. destruct Si as [Ki' Vi'].
      destruct (Rl tl Hts) as (l' & Dl' & El & Ll).
      exists l'. split; [|split; [exact El|rewrite Ll; reflexivity]].
      change (i' :: tl) with (i' :: [] ++ tl). apply DImpl_some; try assumption. left; reflexivity.
Qed.

(* ---- object type definitions ---- *)
Definition gn_objdef (o : objdef) : gt := g_objdef (norm_objdef o).
Definition objdef_body (n : name) (ifs : list named) (dirs : list directive) (fs : list fielddef) : layout :=
  ljoin [ Kw "type"; Nm n; lay_impl ifs; lay_dirs dirs; lblock (map lay_fielddef fs) ] [32].
Lemma lay_objdef_eq : forall o, lay_objdef o = with_desc (ob_desc o) (objdef_body (ob_name o) (ob_ifaces o) (ob_dirs o) (ob_fields o)).
Proof. reflexivity. Qed.
Lemma map_gn_fielddef : forall l, map g_fielddef (map norm_fielddef l) = map gn_fielddef l.
Proof. intro l. rewrite map_map. reflexivity. Qed.

Lemma objdef_rt : forall p o, DObjDef p o -> toks_wf p ->
  P1 (lay_objdef o) /\
  forall ts, map sig ts = ltoks (lay_objdef o) -> exists o', DObjDef ts o' /\ gnl (gn_objdef o') = gnl (gn_objdef o) /\ lay_objdef o' = lay_objdef o.
Proof.
  intros p o D W. destruct D as [pdsc dsc k n pi ifs pd dirs pf fs Dd Kk Vk Kn Di Ddir Df].
  apply toks_wf_app in W. destruct W as [Wdsc W]. apply toks_wf_cons in W. destruct W as [_ W]. apply toks_wf_cons in W. destruct W as [Wn W].
  apply toks_wf_app in W. destruct W as [Wi W]. apply toks_wf_app in W. destruct W as [Wd Wf].
  destruct (descr_rt _ _ Dd Wdsc) as [Pdsc Rdsc]. destruct (impl_rt _ _ Di Wi) as [Pi Ri].
  destruct (dirs_rt _ _ Ddir Wd) as (Pd & Sd & Rd).
  destruct (block_rt DFieldDef lay_fielddef gn_fielddef fielddef_rt false pf fs Df Wf) as [Pf Rf].
  rewrite lay_objdef_eq. cbn [ob_desc ob_name ob_ifaces ob_dirs ob_fields]. split.
  - apply with_desc_P1; [exact Pdsc|]. unfold objdef_body. apply ljoin_P1; [reflexivity|]. repeat constructor; try assumption.
    + apply P1_wordy_last. reflexivity.
    + unfold Nm, tok_name. cbn [nval]. apply P1_wordy_last. apply name_tok_wf; assumption.
    + apply P0_P1. exact Pf.
  - intros ts Hts. try rewrite lay_objdef_eq in Hts. cbn [ob_desc ob_name ob_ifaces ob_dirs ob_fields] in Hts. rewrite ltoks_with_desc in Hts.
    unfold objdef_body in Hts. rewrite ltoks_ljoin in Hts. cbn [flat_map] in Hts. rewrite app_nil_r in Hts.
    unfold Kw, Nm, tok_name in Hts. cbn [nval ltoks tokval app] in Hts.
    apply map_eq_app in Hts. destruct Hts as (tdsc & tl & -> & Hdsc & Hts).
    apply map_eq_cons in Hts. destruct Hts as (k' & tl2 & -> & Sk & Hts). apply sig_inv in Sk. destruct Sk as [Kk' Vk'].
    apply map_eq_cons in Hts. destruct Hts as (n' & tl3 & -> & Sn & Hts). apply sig_inv in Sn. destruct Sn as [Kn' Vn'].
    apply map_eq_app in Hts. destruct Hts as (ti & tl4 & -> & Hti & Hts).
    apply map_eq_app in Hts. destruct Hts as (td & tf & -> & Htd & Htf).
    destruct (Rdsc tdsc Hdsc) as (dsc' & Ddsc' & Edsc & Ldsc). destruct (Ri ti Hti) as (ifs' & Di' & Ei & Li).
    destruct (Rd td Htd) as (dirs' & Dd' & Ed & Ld). destruct (Rf tf Htf) as (fs' & Df' & Ef & Lf).
    exists (mkobjdef dsc' (tok_name n') ifs' dirs' fs' (span (tdsc ++ k' :: n' :: ti ++ td ++ tf))). split; [constructor; assumption|]. split.
    + unfold gn_objdef, norm_objdef, g_objdef. cbn [ob_desc ob_name ob_ifaces ob_dirs ob_fields ob_loc gl gnl map g_name g_dirs glist].
      unfold gn_descr in Edsc. unfold tok_name. cbn [nval nloc]. rewrite !map_gn_fielddef. rewrite Vn', Edsc, Ei, Ed, Ef. reflexivity.
    + rewrite !lay_objdef_eq. cbn [ob_desc ob_name ob_ifaces ob_dirs ob_fields]. unfold with_desc, objdef_body, Nm, tok_name. cbn [nval].
      rewrite Vn', Ldsc, Li, Ld, Lf. reflexivity.
Qed.

(* ---- type-system definitions ---- *)
Definition gn_def (d : definition) : gt := g_def (norm_def d).

Ltac eat H t tl K V :=
  let S := fresh "S" in
  apply map_eq_cons in H; destruct H as (t & tl & -> & S & H); apply sig_inv in S; destruct S as [K V].
Ltac cut H t1 t2 H1 :=
  apply map_eq_app in H; destruct H as (t1 & t2 & -> & H1 & H).

Lemma map_gn_enumval : forall l,
  map (fun v => gl 33 [] (ev_loc v) [g_descr (ev_desc v); g_name (ev_name v); g_dirs (ev_dirs v)]) (map norm_enumval l) = map gn_enumval l.
Proof. intro l. rewrite map_map. reflexivity. Qed.

Lemma P1_kw : forall s, name_ok (kw s) = true -> P1 (Kw s).
Proof. intros s H. unfold Kw. apply P1_wordy_last. exact H. Qed.

Lemma lay_union_eq : forall dsc n dirs ms l, lay_def (DUnion dsc n dirs ms l) =
  with_desc dsc (ljoin [Kw "union"; Nm n; lay_dirs dirs; T EQUALS ++ sp ++ ljoinL (map lay_named ms) (tsep PIPE)] [32]).
Proof. reflexivity. Qed.
Lemma lay_directive_eq : forall dsc n args locs l, lay_def (DDirective dsc n args locs l) =
  with_desc dsc (Kw "directive" ++ sp ++ T AT ++ Nm n ++ lay_argdefs args ++ sp ++ Kw "on" ++ sp ++ ljoinL (map lay_nm locs) (tsep PIPE)).
Proof. reflexivity. Qed.

Lemma typesystem_rt : forall p d, DTypeSystem p d -> toks_wf p -> P1 (lay_def d) /\ Rb DTypeSystem lay_def gn_def d.
Proof.
  intros p d D W.
  destruct D as [k pd dirs po ots Kk Vk Ddir Do
                |pdsc dsc k n pd dirs Dd Kk Vk Kn Ddir
                |p o Do
                |pdsc dsc k n pd dirs pf fs Dd Kk Vk Kn Ddir Df
                |pdsc dsc k n pd dirs e pm ms Dd Kk Vk Kn Ddir Ke Dm
                |pdsc dsc k n pd dirs pv vs Dd Kk Vk Kn Ddir Dv
                |pdsc dsc k n pd dirs pf fs Dd Kk Vk Kn Ddir Df
                |k p o Kk Vk Do
                |pdsc dsc k a n pa args o pl locs Dd Kk Vk Ka Kn Da Ko Vo Dl].
  - (* schema *)
    apply toks_wf_cons in W. destruct W as [_ W]. apply toks_wf_app in W. destruct W as [Wd Wo].
    destruct (dirs_rt _ _ Ddir Wd) as (Pd & Sd & Rd).
    destruct (block_rt DOpTypeDef lay_optypedef g_optypedef optypedef_rt true po ots Do Wo) as [Po Ro].
    cbn [lay_def]. split.
    + apply ljoin_P1; [reflexivity|]. repeat constructor; try assumption; [apply P1_kw; reflexivity|apply P0_P1; exact Po].
    + intros ts Hts. cbn [lay_def] in Hts. rewrite ltoks_ljoin in Hts. cbn [flat_map] in Hts. rewrite app_nil_r in Hts.
      unfold Kw in Hts. cbn [ltoks tokval app] in Hts.
      eat Hts k' r1 Kk' Vk'. cut Hts td r2 Htd.
      destruct (Rd td Htd) as (dirs' & Dd' & Ed & Ld). destruct (Ro r2 Hts) as (ots' & Do' & Eo & Lo).
      exists (DSchema dirs' ots' (span (k' :: td ++ r2))). split; [constructor; assumption|]. split.
      * unfold gn_def. cbn [norm_def g_def gl gnl map g_dirs glist]. fold g_optypedef. rewrite Ed, Eo. reflexivity.
      * cbn [lay_def]. rewrite Ld, Lo. reflexivity.
  - (* scalar *)
    apply toks_wf_app in W. destruct W as [Wdsc W]. apply toks_wf_cons in W. destruct W as [_ W]. apply toks_wf_cons in W. destruct W as [Wn Wd].
    destruct (descr_rt _ _ Dd Wdsc) as [Pdsc Rdsc]. destruct (dirs_rt _ _ Ddir Wd) as (Pd & Sd & Rd).
    cbn [lay_def]. split.
    + apply with_desc_P1; [exact Pdsc|]. apply ljoin_P1; [reflexivity|]. repeat constructor; try assumption; [apply P1_kw; reflexivity|].
      unfold Nm, tok_name. cbn [nval]. apply P1_wordy_last. apply name_tok_wf; assumption.
    + intros ts Hts. cbn [lay_def] in Hts. rewrite ltoks_with_desc, ltoks_ljoin in Hts. cbn [flat_map] in Hts. rewrite app_nil_r in Hts.
      unfold Kw, Nm, tok_name in Hts. cbn [nval ltoks tokval app] in Hts.
      cut Hts tdsc r0 Hdsc. eat Hts k' r1 Kk' Vk'. eat Hts n' r2 Kn' Vn'.
      destruct (Rdsc tdsc Hdsc) as (dsc' & Ddsc' & Edsc & Ldsc). destruct (Rd r2 Hts) as (dirs' & Dd' & Ed & Ld).
      exists (DScalar dsc' (tok_name n') dirs' (span (tdsc ++ k' :: n' :: r2))). split; [constructor; assumption|]. split.
      * unfold gn_def. cbn [norm_def g_def gl gnl map g_name g_dirs glist]. unfold gn_descr in Edsc. unfold tok_name. cbn [nval nloc].
        rewrite Vn', Edsc, Ed. reflexivity.
      * cbn [lay_def]. unfold with_desc, Nm, tok_name. cbn [nval]. rewrite Vn', Ldsc, Ld. reflexivity.
  - (* object *)
    destruct (objdef_rt _ _ Do W) as [Po Ro]. split; [exact Po|]. intros ts Hts. destruct (Ro ts Hts) as (o' & Do' & Eo & Lo).
    exists (DObject o'). split; [constructor; exact Do'|]. split; [exact Eo|exact Lo].
  - (* interface *)
    apply toks_wf_app in W. destruct W as [Wdsc W]. apply toks_wf_cons in W. destruct W as [_ W]. apply toks_wf_cons in W. destruct W as [Wn W].
    apply toks_wf_app in W. destruct W as [Wd Wf].
    destruct (descr_rt _ _ Dd Wdsc) as [Pdsc Rdsc]. destruct (dirs_rt _ _ Ddir Wd) as (Pd & Sd & Rd).
    destruct (block_rt DFieldDef lay_fielddef gn_fielddef fielddef_rt false pf fs Df Wf) as [Pf Rf].
    cbn [lay_def]. split.
    + apply with_desc_P1; [exact Pdsc|]. apply ljoin_P1; [reflexivity|]. repeat constructor; try assumption; [apply P1_kw; reflexivity| |apply P0_P1; exact Pf].
      unfold Nm, tok_name. cbn [nval]. apply P1_wordy_last. apply name_tok_wf; assumption.
    + intros ts Hts. cbn [lay_def] in Hts. rewrite ltoks_with_desc, ltoks_ljoin in Hts. cbn [flat_map] in Hts. rewrite app_nil_r in Hts.
      unfold Kw, Nm, tok_name in Hts. cbn [nval ltoks tokval app] in Hts.
      cut Hts tdsc r0 Hdsc. eat Hts k' r1 Kk' Vk'. eat Hts n' r2 Kn' Vn'. cut Hts td r3 Htd.
      destruct (Rdsc tdsc Hdsc) as (dsc' & Ddsc' & Edsc & Ldsc). destruct (Rd td Htd) as (dirs' & Dd' & Ed & Ld).
      destruct (Rf r3 Hts) as (fs' & Df' & Ef & Lf).
      exists (DInterface dsc' (tok_name n') dirs' fs' (span (tdsc ++ k' :: n' :: td ++ r3))). split; [constructor; assumption|]. split.
      * unfold gn_def. cbn [norm_def g_def gl gnl map g_name g_dirs glist]. unfold gn_descr in Edsc. unfold tok_name. cbn [nval nloc].
        rewrite !map_gn_fielddef. rewrite Vn', Edsc, Ed, Ef. reflexivity.
      * cbn [lay_def]. unfold with_desc, Nm, tok_name. cbn [nval]. rewrite Vn', Ldsc, Ld, Lf. reflexivity.
  - (* union *)
    apply toks_wf_app in W. destruct W as [Wdsc W]. apply toks_wf_cons in W. destruct W as [_ W]. apply toks_wf_cons in W. destruct W as [Wn W].
    apply toks_wf_app in W. destruct W as [Wd W]. apply toks_wf_cons in W. destruct W as [_ Wm].
    destruct (descr_rt _ _ Dd Wdsc) as [Pdsc Rdsc]. destruct (dirs_rt _ _ Ddir Wd) as (Pd & Sd & Rd).
    destruct (sepl_rt DNamed lay_named g_named PIPE eq_refl lay_named_nonnil named_rt pm ms Dm Wm) as (Hne & Pm & Rm).
    rewrite lay_union_eq.
    split.
    + apply with_desc_P1; [exact Pdsc|]. apply ljoin_P1; [reflexivity|].
      apply Forall_cons; [apply P1_kw; reflexivity|]. apply Forall_cons.
      { unfold Nm, tok_name. cbn [nval]. apply P1_wordy_last. apply name_tok_wf; assumption. }
      apply Forall_cons; [exact Pd|]. apply Forall_cons; [|apply Forall_nil].
      unfold T, sp. cbn [app]. apply P1_punct; [reflexivity|]. apply P1_sep; [reflexivity|exact Pm].
    + intros ts Hts. rewrite lay_union_eq, ltoks_with_desc, ltoks_ljoin in Hts. cbn [flat_map] in Hts. rewrite app_nil_r in Hts.
      unfold Kw, Nm, tok_name, T, sp in Hts. cbn [nval ltoks tokval app] in Hts.
      cut Hts tdsc r0 Hdsc. eat Hts k' r1 Kk' Vk'. eat Hts n' r2 Kn' Vn'. cut Hts td r3 Htd. eat Hts e' r4 Ke' Ve'.
      destruct (Rdsc tdsc Hdsc) as (dsc' & Ddsc' & Edsc & Ldsc). destruct (Rd td Htd) as (dirs' & Dd' & Ed & Ld).
      destruct (Rm r4 Hts) as (ms' & Dm' & Em & Lm).
      exists (DUnion dsc' (tok_name n') dirs' ms' (span (tdsc ++ k' :: n' :: td ++ e' :: r4))). split; [constructor; assumption|]. split.
      * unfold gn_def. cbn [norm_def g_def gl gnl map g_name g_dirs glist]. unfold gn_descr in Edsc. unfold tok_name. cbn [nval nloc].
        rewrite Vn', Edsc, Ed, Em. reflexivity.
      * rewrite !lay_union_eq.
        unfold with_desc, Nm, tok_name. cbn [nval]. rewrite Vn', Ldsc, Ld, Lm. reflexivity.
  - (* enum *)
    apply toks_wf_app in W. destruct W as [Wdsc W]. apply toks_wf_cons in W. destruct W as [_ W]. apply toks_wf_cons in W. destruct W as [Wn W].
    apply toks_wf_app in W. destruct W as [Wd Wf].
    destruct (descr_rt _ _ Dd Wdsc) as [Pdsc Rdsc]. destruct (dirs_rt _ _ Ddir Wd) as (Pd & Sd & Rd).
    destruct (block_rt DEnumValDef lay_enumval gn_enumval enumval_rt false pv vs Dv Wf) as [Pf Rf].
    cbn [lay_def]. split.
    + apply with_desc_P1; [exact Pdsc|]. apply ljoin_P1; [reflexivity|]. repeat constructor; try assumption; [apply P1_kw; reflexivity| |apply P0_P1; exact Pf].
      unfold Nm, tok_name. cbn [nval]. apply P1_wordy_last. apply name_tok_wf; assumption.
    + intros ts Hts. cbn [lay_def] in Hts. rewrite ltoks_with_desc, ltoks_ljoin in Hts. cbn [flat_map] in Hts. rewrite app_nil_r in Hts.
      unfold Kw, Nm, tok_name in Hts. cbn [nval ltoks tokval app] in Hts.
      cut Hts tdsc r0 Hdsc. eat Hts k' r1 Kk' Vk'. eat Hts n' r2 Kn' Vn'. cut Hts td r3 Htd.
      destruct (Rdsc tdsc Hdsc) as (dsc' & Ddsc' & Edsc & Ldsc). destruct (Rd td Htd) as (dirs' & Dd' & Ed & Ld).
      destruct (Rf r3 Hts) as (vs' & Dv' & Ev & Lv).
      exists (DEnum dsc' (tok_name n') dirs' vs' (span (tdsc ++ k' :: n' :: td ++ r3))). split; [constructor; assumption|]. split.
      * unfold gn_def. cbn [norm_def g_def gl gnl map g_name g_dirs glist]. unfold gn_descr in Edsc. unfold tok_name. cbn [nval nloc].
        rewrite !map_gn_enumval. rewrite Vn', Edsc, Ed, Ev. reflexivity.
      * cbn [lay_def]. unfold with_desc, Nm, tok_name. cbn [nval]. rewrite Vn', Ldsc, Ld, Lv. reflexivity.
  - (* input object *)
    apply toks_wf_app in W. destruct W as [Wdsc W]. apply toks_wf_cons in W. destruct W as [_ W]. apply toks_wf_cons in W. destruct W as [Wn W].
    apply toks_wf_app in W. destruct W as [Wd Wf].
    destruct (descr_rt _ _ Dd Wdsc) as [Pdsc Rdsc]. destruct (dirs_rt _ _ Ddir Wd) as (Pd & Sd & Rd).
    destruct (block_rt DIVDef lay_ivdef gn_ivdef ivdef_rt false pf fs Df Wf) as [Pf Rf].
    cbn [lay_def]. split.
    + apply with_desc_P1; [exact Pdsc|]. apply ljoin_P1; [reflexivity|]. repeat constructor; try assumption; [apply P1_kw; reflexivity| |apply P0_P1; exact Pf].
      unfold Nm, tok_name. cbn [nval]. apply P1_wordy_last. apply name_tok_wf; assumption.
    + intros ts Hts. cbn [lay_def] in Hts. rewrite ltoks_with_desc, ltoks_ljoin in Hts. cbn [flat_map] in Hts. rewrite app_nil_r in Hts.
      unfold Kw, Nm, tok_name in Hts. cbn [nval ltoks tokval app] in Hts.
      cut Hts tdsc r0 Hdsc. eat Hts k' r1 Kk' Vk'. eat Hts n' r2 Kn' Vn'. cut Hts td r3 Htd.
      destruct (Rdsc tdsc Hdsc) as (dsc' & Ddsc' & Edsc & Ldsc). destruct (Rd td Htd) as (dirs' & Dd' & Ed & Ld).
      destruct (Rf r3 Hts) as (fs' & Df' & Ef & Lf).
      exists (DInput dsc' (tok_name n') dirs' fs' (span (tdsc ++ k' :: n' :: td ++ r3))). split; [constructor; assumption|]. split.
      * unfold gn_def. cbn [norm_def g_def gl gnl map g_name g_dirs glist]. unfold gn_descr in Edsc. unfold tok_name. cbn [nval nloc].
        rewrite !map_gn_ivdef. rewrite Vn', Edsc, Ed, Ef. reflexivity.
      * cbn [lay_def]. unfold with_desc, Nm, tok_name. cbn [nval]. rewrite Vn', Ldsc, Ld, Lf. reflexivity.
  - (* extend *)
    apply toks_wf_cons in W. destruct W as [_ W]. destruct (objdef_rt _ _ Do W) as [Po Ro].
    cbn [lay_def]. unfold Kw, sp. cbn [app]. split.
    + apply P1_wordy; [reflexivity| |apply SFs_SF; apply SFs_sep; reflexivity]. apply P1_sep; [reflexivity|exact Po].
    + intros ts Hts. cbn [lay_def] in Hts. unfold Kw, sp in Hts. cbn [app ltoks tokval] in Hts. eat Hts k' r1 Kk' Vk'.
      destruct (Ro r1 Hts) as (o' & Do' & Eo & Lo).
      exists (DExtend o' (span (k' :: r1))). split; [constructor; assumption|]. split.
      * unfold gn_def. cbn [norm_def g_def gl gnl map]. unfold gn_objdef in Eo. rewrite Eo. reflexivity.
      * cbn [lay_def]. rewrite Lo. reflexivity.
  - (* directive definition *)
    apply toks_wf_app in W. destruct W as [Wdsc W]. apply toks_wf_cons in W. destruct W as [_ W]. apply toks_wf_cons in W. destruct W as [_ W].
    apply toks_wf_cons in W. destruct W as [Wn W]. apply toks_wf_app in W. destruct W as [Wa W]. apply toks_wf_cons in W. destruct W as [_ Wl].
    destruct (descr_rt _ _ Dd Wdsc) as [Pdsc Rdsc]. destruct (argdefs_rt _ _ Da Wa) as (Pa & Sa & Ra).
    destruct (sepl_rt DName lay_nm g_name PIPE eq_refl lay_nm_nonnil name_rt pl locs Dl Wl) as (Hne & Pl & Rl).
    rewrite lay_directive_eq.
    split.
    + apply with_desc_P1; [exact Pdsc|]. unfold Kw, sp, T, Nm, tok_name. cbn [nval app].
      apply P1_wordy; [reflexivity| |apply SFs_SF; apply SFs_sep; reflexivity]. apply P1_sep; [reflexivity|].
      apply P1_punct; [reflexivity|].
      apply P1_wordy; [apply name_tok_wf; assumption| |apply SF_app; [exact Sa|apply SFs_SF; apply SFs_sep; reflexivity]].
      apply P1_app1; [exact Pa| |apply SFs_SF; apply SFs_sep; reflexivity].
      apply P1_sep; [reflexivity|]. apply P1_wordy; [reflexivity| |apply SFs_SF; apply SFs_sep; reflexivity]. apply P1_sep; [reflexivity|exact Pl].
    + intros ts Hts. rewrite lay_directive_eq, ltoks_with_desc in Hts. unfold Kw, sp, T, Nm, tok_name in Hts. cbn [nval app ltoks tokval] in Hts.
      rewrite ltoks_app in Hts. cbn [ltoks tokval] in Hts.
      cut Hts tdsc r0 Hdsc. eat Hts k' r1 Kk' Vk'. eat Hts a' r2 Ka' Va'. eat Hts n' r3 Kn' Vn'. cut Hts ta r4 Hta. eat Hts o' r5 Ko' Vo'.
      destruct (Rdsc tdsc Hdsc) as (dsc' & Ddsc' & Edsc & Ldsc). destruct (Ra ta Hta) as (args' & Da' & Ea & La).
      destruct (Rl r5 Hts) as (locs' & Dl' & El & Ll).
      exists (DDirective dsc' (tok_name n') args' locs' (span (tdsc ++ k' :: a' :: n' :: ta ++ o' :: r5))). split; [constructor; assumption|]. split.
      * unfold gn_def. cbn [norm_def g_def gl gnl map g_name glist]. unfold gn_descr in Edsc. unfold tok_name. cbn [nval nloc].
        rewrite !map_gn_ivdef. rewrite Vn', Edsc, Ea, El. reflexivity.
      * rewrite !lay_directive_eq.
        unfold with_desc, Nm, tok_name. cbn [nval]. rewrite Vn', Ldsc, La, Ll. reflexivity.
Qed.

(* ---- definitions and documents of any kind ---- *)
Lemma def_rt_all : forall p d, DDefinition p d -> toks_wf p -> P1 (lay_def d) /\ Rb DDefinition lay_def gn_def d.
Proof.
  intros p d D W. destruct D as [p o Do|p f Df|p d Dt].
  - destruct (op_rt _ _ Do W) as [Po Ro]. split; [exact Po|]. intros ts Hts. destruct (Ro ts Hts) as (o' & Do' & Eo & Lo).
    exists (DOp o'). split; [apply DD_op; exact Do'|]. split; [exact Eo|exact Lo].
  - destruct (frag_rt _ _ Df W) as [Pf Rf]. split; [exact Pf|]. intros ts Hts. destruct (Rf ts Hts) as (f' & Df' & Ef & Lf).
    exists (DFrag f'). split; [apply DD_frag; exact Df'|]. split; [exact Ef|exact Lf].
  - destruct (typesystem_rt _ _ Dt W) as [Pt Rt]. split; [exact Pt|]. intros ts Hts. destruct (Rt ts Hts) as (d' & Dt' & Et & Lt).
    exists d'. split; [apply DD_ts; exact Dt'|]. split; [exact Et|exact Lt].
Qed.

(* equality up to locations and empty descriptions *)
Definition erase_loc_descr (d : document) : gt := erase_loc (norm_doc d).

Theorem doc_rt_all : forall ts d, Derives ts d -> toks_wf ts ->
  layout_wfb (lay_doc d) = true /\
  forall tx e, map sig tx = ltoks (lay_doc d) -> tk e = EOF ->
    exists d', Derives (tx ++ [e]) d' /\ erase_loc_descr d' = erase_loc_descr d /\ lay_doc d' = lay_doc d.
Proof.
  intros ts d D W. destruct D as [p defs e0 Ds Hne Ke].
  apply toks_wf_app in W. destruct W as [W _].
  assert (X : Forall (fun a => P1 (lay_def a) /\ Rb DDefinition lay_def gn_def a) defs).
  { pose proof (star_elems _ _ _ Ds W) as X. eapply Forall_impl; [|exact X]. intros a (q & Dq & _ & Wq). apply (def_rt_all q a Dq Wq). }
  split.
  - unfold lay_doc. cbn [doc_defs].
    assert (P : P0 (ljoin (map lay_def defs) [10; 10] ++ [PSep [10]])).
    { apply P0_app1; [|apply P0_sep; [reflexivity|apply P0_nil]|apply SFs_sep; reflexivity].
      apply ljoin_P1; [reflexivity|]. rewrite Forall_map. eapply Forall_impl; [|exact X]. intros a [Ha _]. exact Ha. }
    specialize (P [] eq_refl). rewrite app_nil_r in P. exact P.
  - intros tx e Htx Ke'. unfold lay_doc in Htx. cbn [doc_defs] in Htx. rewrite ltoks_app, ltoks_ljoin in Htx. cbn [ltoks] in Htx.
    rewrite app_nil_r in Htx.
    destruct (star_reloc DDefinition lay_def gn_def defs ltac:(eapply Forall_impl; [|exact X]; intros a [_ Ha]; exact Ha) tx Htx)
      as (defs' & D' & E' & L').
    exists (mkdoc defs' (span (tx ++ [e]))). split; [|split].
    + constructor; [exact D'| |exact Ke']. intro Z. subst defs'. destruct defs; [contradiction Hne; reflexivity|discriminate L'].
    + unfold erase_loc_descr, erase_loc, norm_doc. cbn [g_doc doc_defs doc_loc gl gnl]. rewrite !map_map.
      rewrite !map_map in E'. unfold gn_def in E'. rewrite E'. reflexivity.
    + unfold lay_doc. cbn [doc_defs]. rewrite L'. reflexivity.
Qed.

(* print, lex, parse: any document whose tokens carry well-formed lexemes *)
Theorem roundtrip_tokens : forall ts d, parse_tokens ts = Ok d -> toks_wf ts ->
  exists d', parse (print_doc d) = Ok (d', false) /\ erase_loc_descr d' = erase_loc_descr d /\ print_doc d' = print_doc d.
Proof.
  intros ts d Hp W. apply parse_tokens_sound in Hp.
  destruct (doc_rt_all ts d Hp W) as [Lw R].
  pose proof (lex_flat_layout (lay_doc d) Lw) as Hl.
  destruct (R (ptoks 0 (lay_doc d)) (eof_tok (nlen (flat (lay_doc d)))) (sig_ptoks _ _) eq_refl) as (d' & D' & Ed & Ld).
  exists d'. split; [|split; [exact Ed|unfold print_doc; rewrite Ld; reflexivity]].
  unfold parse, print_doc. rewrite Hl. rewrite (parse_tokens_complete _ _ D'). reflexivity.
Qed.

(* on executable documents nothing is normalised *)
Lemma norm_doc_exec : forall d, exec_only d = true -> norm_doc d = d.
Proof.
  intros [defs l] E. unfold norm_doc. cbn [doc_defs doc_loc]. f_equal. unfold exec_only in E. cbn [doc_defs] in E.
  induction defs as [|a defs IH]; [reflexivity|]. cbn [forallb] in E. apply andb_true_iff in E. destruct E as [Ea Ed].
  cbn [map]. rewrite (IH Ed). destruct a; try discriminate Ea; reflexivity.
Qed.
