(* C20, "exactly once unless an earlier failure already nulled the enclosing object":
   every object value that survives in the response has had, for each of its response keys that
   names a field of its runtime type, one resolver invocation with that key's path, the runtime
   type as parent, the object's source, the field's name, its coerced arguments and all the merged
   occurrences (PCall / PCallG).  Together with request_calls_nodup (at most once) this is
   "exactly once".  All resolver outcomes, deferred values at any depth, any fuel. *)
From Coq Require Import List ZArith NArith String Bool.
From GQL Require Import Exec.Syntax Exec.Coerce Exec.Exec Exec.Request Exec.Conform.
Import ListNotations.
Open Scope string_scope.
Open Scope list_scope.

Definition first_args (occs : list occ) : list (name * value) :=
  match occs with o :: _ => oc_args o | [] => [] end.

Section Cov.
Variable E : env.
Variable C : call -> Prop.     (* "has been invoked" *)

Inductive PCall : list occ -> path -> presp -> Prop :=
| K_null occs b : PCall occs b QNull
| K_leaf occs b v : PCall occs b (QLeaf v)
| K_list occs b l : PCallL occs b 0%N l -> PCall occs b (QList l)
| K_obj occs b rt src fuel g fs :
    collect_all fuel (en_S E) (en_D E) (en_vars E) rt (map oc_sub occs) [] [] = Some g ->
    PCallG rt src b g fs -> PCall occs b (QObj fs)
| K_thunk occs b t nodes o : PCall occs b (QThunk t nodes occs b o)
with PCallL : list occ -> path -> N -> list presp -> Prop :=
| KL_nil occs b i : PCallL occs b i []
| KL_cons occs b i q l : PCall occs (b ++ [PIdx i]) q -> PCallL occs b (i + 1)%N l -> PCallL occs b i (q :: l)
with PCallG : name -> rv -> path -> groups -> list (name * presp) -> Prop :=
| KG_nil rt src b : PCallG rt src b [] []
| KG_typename rt src b k occs g fs :
    String.eqb (first_name occs) "__typename" = true ->
    PCallG rt src b g fs -> PCallG rt src b ((k, occs) :: g) ((k, QLeaf (JStr rt)) :: fs)
| KG_skip rt src b k occs g fs :
    String.eqb (first_name occs) "__typename" = false ->
    find_field (first_name occs) (object_fields (en_S E) rt) = None ->
    PCallG rt src b g fs -> PCallG rt src b ((k, occs) :: g) fs
| KG_field rt src b k occs g fs fd fuel args q :
    String.eqb (first_name occs) "__typename" = false ->
    find_field (first_name occs) (object_fields (en_S E) rt) = Some fd ->
    get_argument_values fuel (en_S E) (f_args fd) (first_args occs) (Some (en_vars E)) = Some args ->
    C {| c_path := b ++ [PKey k]; c_parent := rt; c_field := first_name occs; c_source := src;
         c_args := args; c_nodes := map oc_id occs |} ->
    PCall occs (b ++ [PKey k]) q ->
    PCallG rt src b g fs -> PCallG rt src b ((k, occs) :: g) ((k, q) :: fs).
End Cov.

Scheme PCall_ind' := Minimality for PCall Sort Prop
  with PCallL_ind' := Minimality for PCallL Sort Prop
  with PCallG_ind' := Minimality for PCallG Sort Prop.
Combined Scheme PCall_mutind from PCall_ind', PCallL_ind', PCallG_ind'.

Lemma PCall_mono_all : forall E (C C' : call -> Prop), (forall c, C c -> C' c) ->
  (forall occs b q, PCall E C occs b q -> PCall E C' occs b q) /\
  (forall occs b i l, PCallL E C occs b i l -> PCallL E C' occs b i l) /\
  (forall rt src b g fs, PCallG E C rt src b g fs -> PCallG E C' rt src b g fs).
Proof.
  intros E C C' HC. apply PCall_mutind; intros; try (constructor; assumption).
  - eapply K_obj; eassumption.
  - eapply KG_field; try eassumption. apply HC. assumption.
Qed.

Definition called (s : st) : call -> Prop := fun c => In c (st_calls s).

Lemma called_mono : forall s s', incl (st_calls s) (st_calls s') -> forall c, called s c -> called s' c.
Proof. intros s s' H c Hc. apply H. exact Hc. Qed.

Lemma PCall_up : forall E s s' occs b q, incl (st_calls s) (st_calls s') ->
  PCall E (called s) occs b q -> PCall E (called s') occs b q.
Proof. intros E s s' occs b q H. apply (PCall_mono_all E _ _ (called_mono s s' H)). Qed.
Lemma PCallL_up : forall E s s' occs b i l, incl (st_calls s) (st_calls s') ->
  PCallL E (called s) occs b i l -> PCallL E (called s') occs b i l.
Proof. intros E s s' occs b i l H. apply (PCall_mono_all E _ _ (called_mono s s' H)). Qed.
Lemma PCallG_up : forall E s s' rt src b g fs, incl (st_calls s) (st_calls s') ->
  PCallG E (called s) rt src b g fs -> PCallG E (called s') rt src b g fs.
Proof. intros E s s' rt src b g fs H. apply (PCall_mono_all E _ _ (called_mono s s' H)). Qed.

(* the shape of the invariant: the trace only grows, and the result is covered by the final trace *)
Definition covr {A : Type} (Q : A -> st -> Prop) (s : st) (r : xres A) : Prop :=
  match r with
  | XOk y s' => incl (st_calls s) (st_calls s') /\ Q y s'
  | XRaise _ s' => incl (st_calls s) (st_calls s')
  | XFuel => True
  end.

Lemma covr_pre : forall A (Q : A -> st -> Prop) s0 s r,
  incl (st_calls s0) (st_calls s) -> covr Q s r -> covr Q s0 r.
Proof.
  intros A Q s0 s [y s'|e s'|] H Hr; cbn in *; auto.
  - destruct Hr as [H1 H2]. split; [eapply incl_tran; eassumption|exact H2].
  - eapply incl_tran; eassumption.
Qed.

Section Inv.
Variable E : env.

Definition Q1 (occs : list occ) (b : path) : presp -> st -> Prop := fun y s' => PCall E (called s') occs b y.

Lemma covr_catch : forall occs b s t r, covr (Q1 occs b) s r -> covr (Q1 occs b) s (catch_at t r).
Proof.
  intros occs b s t [y s'|e s'|] H; cbn in *; auto.
  destruct (is_nonnull t); cbn; [exact H|]. split; [exact H|constructor].
Qed.

Lemma items_loop_cov : forall cmp occs b,
  (forall i x s, covr (Q1 occs (b ++ [PIdx i])) s (cmp i x s)) ->
  forall l i s, covr (fun ys s' => PCallL E (called s') occs b i ys) s (items_loop cmp l i s).
Proof.
  intros cmp occs b Hc. induction l as [|x l IH]; intros i s; cbn [items_loop].
  - cbn. split; [apply incl_refl|constructor].
  - specialize (Hc i x s). destruct (cmp i x s) as [y s'|e s'|]; cbn in Hc |- *; auto.
    destruct Hc as [H1 H2]. specialize (IH (i + 1)%N s').
    destruct (items_loop cmp l (i + 1)%N s') as [ys s''|e s''|]; cbn in IH |- *; auto.
    + destruct IH as [I1 I2]. split; [eapply incl_tran; eassumption|].
      constructor; [eapply PCall_up; [exact I1|exact H2]|exact I2].
    + eapply incl_tran; eassumption.
Qed.

Lemma dethunk_list_cov : forall f,
  (forall occs b x s, PCall E (called s) occs b x -> covr (Q1 occs b) s (f x s)) ->
  forall l occs b i s, PCallL E (called s) occs b i l ->
    covr (fun ys s' => PCallL E (called s') occs b i ys) s (dethunk_list f l s).
Proof.
  intros f Hf. induction l as [|x l IH]; intros occs b i s Hl; cbn [dethunk_list].
  - cbn. split; [apply incl_refl|constructor].
  - inversion Hl as [|? ? ? ? ? Hx Hr]; subst. specialize (Hf occs _ x s Hx).
    destruct (f x s) as [y s'|e s'|]; cbn in Hf |- *; auto.
    destruct Hf as [H1 H2].
    specialize (IH occs b (i + 1)%N s' (PCallL_up _ _ _ _ _ _ _ H1 Hr)).
    destruct (dethunk_list f l s') as [ys s''|e s''|]; cbn in IH |- *; auto.
    + destruct IH as [I1 I2]. split; [eapply incl_tran; eassumption|].
      constructor; [eapply PCall_up; [exact I1|exact H2]|exact I2].
    + eapply incl_tran; eassumption.
Qed.

Lemma dethunk_fields_cov : forall f,
  (forall occs b x s, PCall E (called s) occs b x -> covr (Q1 occs b) s (f x s)) ->
  (forall v s, f (QLeaf v) s = XOk (QLeaf v) s \/ f (QLeaf v) s = XFuel) ->
  forall g rt src b l s, PCallG E (called s) rt src b g l ->
    covr (fun ys s' => PCallG E (called s') rt src b g ys) s (dethunk_fields f l s).
Proof.
  intros f Hf Hleaf. induction g as [|[k occs] g IH]; intros rt src b l s Hl.
  - inversion Hl; subst. cbn. split; [apply incl_refl|constructor].
  - inversion Hl as [|? ? ? ? ? ? ? Htn Hr|? ? ? ? ? ? ? Htn Hnf Hr|? ? ? ? ? ? ? fd fl args q Htn Hfd Hargs Hc Hq Hr]; subst.
    + cbn [dethunk_fields]. destruct (Hleaf (JStr rt) s) as [-> | ->]; [|exact I].
      specialize (IH rt src b fs s Hr).
      destruct (dethunk_fields f fs s) as [ys s''|e s''|]; cbn in IH |- *; auto.
      destruct IH as [I1 I2]. split; [exact I1|]. apply KG_typename; assumption.
    + specialize (IH rt src b l s Hr).
      destruct (dethunk_fields f l s) as [ys s''|e s''|]; cbn in IH |- *; auto.
      destruct IH as [I1 I2]. split; [exact I1|]. apply KG_skip; assumption.
    + cbn [dethunk_fields]. specialize (Hf occs _ q s Hq).
      destruct (f q s) as [y s'|e s'|]; cbn in Hf |- *; auto.
      destruct Hf as [H1 H2].
      specialize (IH rt src b fs s' (PCallG_up _ _ _ _ _ _ _ _ H1 Hr)).
      destruct (dethunk_fields f fs s') as [ys s''|e s''|]; cbn in IH |- *; auto.
      * destruct IH as [I1 I2]. split; [eapply incl_tran; eassumption|].
        eapply KG_field; try eassumption.
        -- apply I1. apply H1. exact Hc.
        -- eapply PCall_up; [exact I1|exact H2].
      * eapply incl_tran; eassumption.
Qed.

(* what ExecuteField leaves behind for one group *)
Definition fcov (obj : name) (src : rv) (k : name) (occs : list occ) (p : path) (y : option presp) (s' : st) : Prop :=
  (String.eqb (first_name occs) "__typename" = true -> y = Some (QLeaf (JStr obj))) /\
  (String.eqb (first_name occs) "__typename" = false ->
   find_field (first_name occs) (object_fields (en_S E) obj) = None -> y = None) /\
  (forall fd, String.eqb (first_name occs) "__typename" = false ->
   find_field (first_name occs) (object_fields (en_S E) obj) = Some fd ->
   exists fuel args q,
     get_argument_values fuel (en_S E) (f_args fd) (first_args occs) (Some (en_vars E)) = Some args /\
     y = Some q /\
     called s' {| c_path := p ++ [PKey k]; c_parent := obj; c_field := first_name occs; c_source := src;
                  c_args := args; c_nodes := map oc_id occs |} /\
     PCall E (called s') occs (p ++ [PKey k]) q).

Ltac absurd_eq :=
  intros;
  match goal with
  | H1 : ?a = true, H2 : ?a = false |- _ => rewrite H1 in H2; discriminate
  | H1 : ?a = Some _, H2 : ?a = None |- _ => rewrite H1 in H2; discriminate
  end.

Lemma incl_add_call : forall c s, incl (st_calls s) (st_calls (add_call c s)).
Proof. intros c s x Hx. cbn. apply in_or_app. left. exact Hx. Qed.

Lemma exec_field_cov : forall fuel' cmp dth obj src k occs p s,
  (forall t nodes occs0 fpath p0 v s0, covr (Q1 occs0 p0) s0 (cmp t nodes occs0 fpath p0 v s0)) ->
  (forall occs0 b q s0, PCall E (called s0) occs0 b q -> covr (Q1 occs0 b) s0 (dth q s0)) ->
  covr (fcov obj src k occs p) s (exec_field fuel' cmp dth E obj src k occs p s).
Proof.
  intros fuel' cmp dth obj src k occs p s IHc IHd. unfold exec_field. cbv zeta.
  fold (first_name occs). fold (first_args occs).
  destruct (String.eqb (first_name occs) "__typename") eqn:Etn.
  { cbn. split; [apply incl_refl|]. split; [reflexivity|]. split; absurd_eq. }
  destruct (find_field (first_name occs) (object_fields (en_S E) obj)) as [fd|] eqn:Efd.
  2:{ cbn. split; [apply incl_refl|]. split; [absurd_eq|]. split; [reflexivity|]. absurd_eq. }
  destruct (get_argument_values fuel' (en_S E) (f_args fd) (first_args occs) (Some (en_vars E))) as [args|] eqn:Eargs; [|exact I].
  set (fp := p ++ [PKey k]).
  set (c := {| c_path := fp; c_parent := obj; c_field := first_name occs; c_source := src;
               c_args := args; c_nodes := map oc_id occs |}).
  set (s1 := add_call c s).
  assert (Hin1 : called s1 c) by (unfold called, s1; cbn; apply in_or_app; right; left; reflexivity).
  destruct (match en_or E fp with Some o => force o | None => (OVal RNull, false) end) as [o thunked].
  set (s2 := match en_or E fp with Some _ => s1 | None => add_missing fp s1 end).
  assert (Hs2 : st_calls s2 = st_calls s1) by (unfold s2; destruct (en_or E fp); reflexivity).
  assert (Hss2 : incl (st_calls s) (st_calls s2)) by (rewrite Hs2; apply incl_add_call).
  assert (Hin2 : called s2 c) by (unfold called; rewrite Hs2; exact Hin1).
  (* everything after s2 keeps c and covers its own result *)
  match goal with |- covr _ _ (match catch_at ?t ?r1 with _ => _ end) =>
    assert (Hr1 : covr (Q1 occs fp) s2 r1) end.
  { destruct (thunked && negb (is_nonnull (f_type fd))).
    - cbn. split; [apply incl_refl|constructor].
    - match goal with |- covr _ _ (match ?c0 with _ => _ end) => assert (Hc0 : covr (Q1 occs fp) s2 c0) end.
      { destruct o; try (cbn; apply incl_refl). apply IHc. }
      match goal with |- covr _ _ (match ?c0 with _ => _ end) => destruct c0 as [q0 s0|e0 s0|] end; cbn in Hc0 |- *; auto.
      destruct thunked; cbn; exact Hc0. }
  pose proof (covr_catch _ _ _ (f_type fd) _ Hr1) as Hcatch.
  match goal with |- covr _ _ (match ?cc with _ => _ end) => destruct cc as [y s'|e s'|] end; cbn in Hcatch |- *.
  - destruct Hcatch as [H1 H2].
    destruct (en_serial E && match p with [] => true | _ :: _ => false end).
    + specialize (IHd occs fp y s' H2).
      destruct (dth y s') as [y' s''|e s''|]; cbn in IHd |- *; auto.
      * destruct IHd as [D1 D2]. split; [eapply incl_tran; [exact Hss2|eapply incl_tran; eassumption]|].
        split; [absurd_eq|]. split; [absurd_eq|].
        intros fd' _ Hfd'. rewrite Efd in Hfd'. inversion Hfd'; subst fd'.
        exists fuel', args, y'. repeat split; try assumption.
        apply D1. apply H1. exact Hin2.
      * eapply incl_tran; [exact Hss2|eapply incl_tran; eassumption].
    + cbn. split; [eapply incl_tran; eassumption|].
      split; [absurd_eq|]. split; [absurd_eq|].
      intros fd' _ Hfd'. rewrite Efd in Hfd'. inversion Hfd'; subst fd'.
      exists fuel', args, y. repeat split; try assumption.
      apply H1. exact Hin2.
  - eapply incl_tran; eassumption.
  - exact I.
Qed.

Definition PK (fuel : nat) : Prop :=
  (forall t nodes occs fpath p v s, covr (Q1 occs p) s (complete fuel E t nodes occs fpath p v s)) /\
  (forall obj occs p src s, covr (Q1 occs p) s (exec_object fuel E obj occs p src s)) /\
  (forall obj src g p s, covr (fun fs s' => PCallG E (called s') obj src p g fs) s (exec_groups fuel E obj src g p s)) /\
  (forall occs b q s, PCall E (called s) occs b q -> covr (Q1 occs b) s (dethunk fuel E q s)).

Lemma dethunk_leaf_eq : forall fuel v s,
  dethunk fuel E (QLeaf v) s = XOk (QLeaf v) s \/ dethunk fuel E (QLeaf v) s = XFuel.
Proof. intros [|fuel] v s; cbn; auto. Qed.

Lemma cov_inv : forall fuel, PK fuel.
Proof.
  induction fuel as [|fuel [IHc [IHo [IHg IHd]]]].
  - repeat split; intros; exact I.
  - repeat split.
    + (* complete *)
      intros t nodes occs fpath p v s. cbn [complete].
      destruct t as [n|t'|t'].
      * destruct (rv_nullish v); [cbn; split; [apply incl_refl|constructor]|].
        destruct (lookup_type (en_S E) n) as [[k|vals|fs ifs|fs|ms|fs]|]; try (cbn; apply incl_refl).
        -- cbn. split; [apply incl_refl|]. destruct (nullish (serialize_scalar k v)); constructor.
        -- cbn. split; [apply incl_refl|]. destruct (nullish (serialize_enum vals v)); constructor.
        -- apply IHo.
        -- destruct (en_tor E v) as [rt|]; [|cbn; apply incl_refl].
           destruct (possible_type (en_S E) n rt); [|cbn; apply incl_refl].
           eapply covr_pre; [|apply IHo]. cbn. apply incl_refl.
        -- destruct (en_tor E v) as [rt|]; [|cbn; apply incl_refl].
           destruct (possible_type (en_S E) n rt); [|cbn; apply incl_refl].
           eapply covr_pre; [|apply IHo]. cbn. apply incl_refl.
      * destruct (rv_nullish v); [cbn; split; [apply incl_refl|constructor]|].
        destruct v; try (cbn; apply incl_refl).
        pose proof (items_loop_cov
                      (fun i x s0 => catch_at t' (complete fuel E t' nodes occs fpath (p ++ [PIdx i]) x s0)) occs p) as HL.
        match goal with |- covr _ _ (match items_loop ?c ?l0 ?i0 ?s0 with _ => _ end) =>
          specialize (HL (fun i x s1 => covr_catch occs (p ++ [PIdx i]) s1 t' _
                              (IHc t' nodes occs fpath (p ++ [PIdx i]) x s1)) l0 i0 s0);
          destruct (items_loop c l0 i0 s0) as [ys s'|e s'|]; cbn in HL |- *; auto
        end.
        destruct HL as [H1 H2]. split; [exact H1|]. constructor. exact H2.
      * specialize (IHc t' nodes occs fpath p v s).
        destruct (complete fuel E t' nodes occs fpath p v s) as [q s'|e s'|]; cbn in IHc |- *; auto.
        destruct q; cbn; try exact IHc. exact (proj1 IHc).
    + (* exec_object *)
      intros obj occs p src s. cbn [exec_object].
      destruct (collect_all fuel (en_S E) (en_D E) (en_vars E) obj (map oc_sub occs) [] []) as [g|] eqn:Ec; [|exact I].
      specialize (IHg obj src g p s).
      destruct (exec_groups fuel E obj src g p s) as [fs s'|e s'|]; cbn in IHg |- *; auto.
      destruct IHg as [H1 H2]. split; [exact H1|]. eapply K_obj; eassumption.
    + (* exec_groups *)
      intros obj src g p s. cbn [exec_groups].
      destruct g as [|[k occs] rest]; [cbn; split; [apply incl_refl|constructor]|].
      pose proof (exec_field_cov fuel (complete fuel E) (dethunk fuel E) obj src k occs p s
                    (fun t nodes occs0 fpath p0 v s0 => IHc t nodes occs0 fpath p0 v s0)
                    (fun occs0 b q s0 H0 => IHd occs0 b q s0 H0)) as Hf.
      destruct (exec_field fuel (complete fuel E) (dethunk fuel E) E obj src k occs p s) as [y s'|e s'|]; cbn in Hf |- *; auto.
      destruct Hf as [F1 [Ft [Fn Ff]]].
      specialize (IHg obj src rest p s').
      destruct (exec_groups fuel E obj src rest p s') as [ys s''|e s''|]; cbn in IHg |- *; auto.
      * destruct IHg as [G1 G2]. split; [eapply incl_tran; eassumption|].
        destruct (String.eqb (first_name occs) "__typename") eqn:Etn.
        -- rewrite (Ft eq_refl). apply KG_typename; assumption.
        -- destruct (find_field (first_name occs) (object_fields (en_S E) obj)) as [fd|] eqn:Efd.
           ++ destruct (Ff fd eq_refl eq_refl) as [fl [args [q [Ha [-> [Hc Hq]]]]]].
              eapply KG_field; try eassumption.
              ** apply G1. exact Hc.
              ** eapply PCall_up; [exact G1|exact Hq].
           ++ rewrite (Fn eq_refl eq_refl). apply KG_skip; assumption.
      * eapply incl_tran; eassumption.
    + (* dethunk *)
      intros occs b q s Hq. cbn [dethunk].
      destruct q as [|v|l|l|t nodes occs0 tp o].
      * cbn. split; [apply incl_refl|constructor].
      * cbn. split; [apply incl_refl|constructor].
      * inversion Hq as [| |? ? ? HL0| |]; subst.
        pose proof (dethunk_list_cov (dethunk fuel E) (fun occs1 b0 x s0 H0 => IHd occs1 b0 x s0 H0) l occs b 0%N s HL0) as HL.
        destruct (dethunk_list (dethunk fuel E) l s) as [ys s'|e s'|]; cbn in HL |- *; auto.
        destruct HL as [H1 H2]. split; [exact H1|constructor; exact H2].
      * inversion Hq as [| | |? ? rt src fl g ? Hc HG0|]; subst.
        pose proof (dethunk_fields_cov (dethunk fuel E) (fun occs1 b0 x s0 H0 => IHd occs1 b0 x s0 H0)
                      (dethunk_leaf_eq fuel) g rt src b l s HG0) as HL.
        destruct (dethunk_fields (dethunk fuel E) l s) as [ys s'|e s'|]; cbn in HL |- *; auto.
        destruct HL as [H1 H2]. split; [exact H1|eapply K_obj; eassumption].
      * assert (Hx : occs0 = occs /\ tp = b) by (inversion Hq; subst; split; reflexivity).
        destruct Hx as [-> ->].
        match goal with |- covr _ _ (match catch_at _ ?r with _ => _ end) => assert (Hr : covr (Q1 occs b) s r) end.
        { destruct o; try (cbn; apply incl_refl). apply IHc. }
        pose proof (covr_catch _ _ _ t _ Hr) as Hcatch.
        match goal with |- covr _ _ (match ?c with _ => _ end) => destruct c as [y s'|e s'|] end; cbn in Hcatch |- *; auto.
        destruct Hcatch as [H1 H2]. eapply covr_pre; [exact H1|]. apply IHd. exact H2.
Qed.
End Inv.

(* ---- the request level ---- *)
Theorem request_calls_cover : forall fuel S D opn inputs root or tor d s,
  request fuel S D opn inputs root or tor = RDone (Some d) s ->
  exists op rt vars g fs,
    get_operation D opn = Some op /\ root_type S op = Some rt /\
    get_variable_values fuel S (o_vars op) inputs = Some (inl vars) /\
    (exists v, collect fuel S D vars rt (o_sel op) [] [] = Some (g, v)) /\
    let E := {| en_S := S; en_D := D; en_vars := vars; en_or := or; en_tor := tor;
                en_serial := match o_kind op with OpMutation => true | _ => false end |} in
    PCallG E (called s) rt root [] g fs /\ d = to_resp (QObj fs).
Proof.
  intros fuel S D opn inputs root or tor d s H. unfold request in H.
  destruct (get_operation D opn) as [op|] eqn:Eop; [|discriminate].
  destruct (root_type S op) as [rt|] eqn:Ert; [|discriminate].
  destruct (get_variable_values fuel S (o_vars op) inputs) as [[vars|e]|] eqn:Ev; try discriminate.
  destruct (collect fuel S D vars rt (o_sel op) [] []) as [[g v]|] eqn:Ec; [|discriminate].
  set (E := {| en_S := S; en_D := D; en_vars := vars; en_or := or; en_tor := tor;
               en_serial := match o_kind op with OpMutation => true | _ => false end |}) in *.
  destruct (cov_inv E fuel) as [_ [_ [IHg _]]].
  specialize (IHg rt root g [] st0).
  destruct (exec_groups fuel E rt root g [] st0) as [fs s1|e s1|] eqn:Eg; try discriminate.
  cbn in IHg. destruct IHg as [_ HG].
  destruct (dethunk fuel E (QObj fs) s1) as [q s2|e s2|] eqn:Ed; try discriminate.
  inversion H; subst.
  assert (Hshape : exists fs', q = QObj fs' /\ PCallG E (called s) rt root [] g fs').
  { destruct fuel as [|fuel']; [discriminate|]. cbn [dethunk] in Ed.
    destruct (cov_inv E fuel') as [_ [_ [_ IHd']]].
    pose proof (dethunk_fields_cov E (dethunk fuel' E) (fun occs1 b0 x s0 H0 => IHd' occs1 b0 x s0 H0)
                  (dethunk_leaf_eq E fuel') g rt root [] fs s1 HG) as HL.
    destruct (dethunk_fields (dethunk fuel' E) fs s1) as [l' s'|e s'|]; try discriminate.
    inversion Ed; subst. exists l'. split; [reflexivity|exact (proj2 HL)]. }
  destruct Hshape as [fs' [-> Hg']].
  exists op, rt, vars, g, fs'.
  split; [first [reflexivity|assumption]|]. split; [first [reflexivity|assumption]|].
  split; [first [reflexivity|assumption]|].
  split; [exists v; exact Ec|]. cbv zeta. fold E. split; [exact Hg'|reflexivity].
Qed.

(* ---- exactly once ---- *)
From GQL Require Import Proofs.ExecInv Proofs.ExecPaths.

Definition called_once (s : st) : call -> Prop :=
  fun c => In c (st_calls s) /\ forall c', In c' (st_calls s) -> c_path c' = c_path c -> c' = c.

Lemma nodup_map_inj : forall (A B : Type) (f : A -> B) (l : list A) a b,
  NoDup (map f l) -> In a l -> In b l -> f a = f b -> a = b.
Proof.
  intros A B f. induction l as [|x l IH]; intros a b Hn Ha Hb Hf; [contradiction|].
  cbn [map] in Hn. inversion Hn as [|? ? Hx Hn']; subst.
  destruct Ha as [->|Ha]; destruct Hb as [->|Hb]; auto.
  - exfalso. apply Hx. rewrite Hf. apply in_map. exact Hb.
  - exfalso. apply Hx. rewrite <- Hf. apply in_map. exact Ha.
Qed.

Theorem request_calls_exactly_once : forall fuel S D opn inputs root or tor d s,
  request fuel S D opn inputs root or tor = RDone (Some d) s ->
  exists op rt vars g fs,
    get_operation D opn = Some op /\ root_type S op = Some rt /\
    get_variable_values fuel S (o_vars op) inputs = Some (inl vars) /\
    (exists v, collect fuel S D vars rt (o_sel op) [] [] = Some (g, v)) /\
    let E := {| en_S := S; en_D := D; en_vars := vars; en_or := or; en_tor := tor;
                en_serial := match o_kind op with OpMutation => true | _ => false end |} in
    PCallG E (called_once s) rt root [] g fs /\ d = to_resp (QObj fs).
Proof.
  intros fuel S D opn inputs root or tor d s H.
  pose proof (request_calls_nodup _ _ _ _ _ _ _ _ _ _ H) as Hn.
  destruct (request_calls_cover _ _ _ _ _ _ _ _ _ _ H) as [op [rt [vars [g [fs [H1 [H2 [H3 [H4 H5]]]]]]]]].
  exists op, rt, vars, g, fs. repeat (split; [assumption|]).
  cbv zeta in H5 |- *. destruct H5 as [H5 H6]. split; [|exact H6].
  refine (proj2 (proj2 (PCall_mono_all _ (called s) (called_once s) _)) _ _ _ _ _ H5).
  intros c Hc. split; [exact Hc|]. intros c' Hc' Hp.
  eapply nodup_map_inj; eassumption.
Qed.
