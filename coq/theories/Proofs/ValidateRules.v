(* Simple validation rules: the model of each rule reports an error exactly when the
   declarative violation predicate holds, and reports it at an offending node. *)
From Coq Require Import List Arith Lia Bool String NArith.
From GQL Require Import Exec.Syntax Validate.VSyntax Validate.Overlap Validate.Rules.
Import ListNotations.
Open Scope string_scope.
Open Scope list_scope.

(* ---- generic facts ---- *)
Lemma flat_map_nonempty : forall {A B} (f : A -> list B) (l : list A),
  flat_map f l <> [] <-> exists x, In x l /\ f x <> [].
Proof.
  intros A B f l. induction l as [|x r IH]; simpl.
  - split; [intro H; contradiction | intros [x [[] _]]].
  - split.
    + intro H. destruct (f x) as [|y ys] eqn:E.
      * simpl in H. apply IH in H. destruct H as [z [Hz Hf]]. exists z. split; [right; exact Hz | exact Hf].
      * exists x. split; [left; reflexivity | rewrite E; discriminate].
    + intros [z [[Ez|Hz] Hf]].
      * subst z. destruct (f x); [contradiction | discriminate].
      * intro H. apply app_eq_nil in H. destruct H as [_ H]. revert H. apply IH. exists z. split; assumption.
Qed.

Lemma alookup_in : forall {A} k (l : list (name * A)) v, alookup k l = Some v -> In (k, v) l.
Proof.
  intros A k l. induction l as [|[k' v'] r IH]; simpl; intros v H; [discriminate|].
  destruct (String.eqb k k') eqn:E.
  - apply String.eqb_eq in E. inversion H; subst. left. reflexivity.
  - right. apply IH. exact H.
Qed.

Lemma alookup_none : forall {A} k (l : list (name * A)), alookup k l = None <-> ~ In k (map fst l).
Proof.
  intros A k l. induction l as [|[k' v'] r IH]; simpl.
  - split; [intros _ [] | reflexivity].
  - destruct (String.eqb k k') eqn:E.
    + apply String.eqb_eq in E. subst. split; [discriminate | intro H; exfalso; apply H; left; reflexivity].
    + apply String.eqb_neq in E. rewrite IH. split.
      * intros H [H'|H']; [apply E; symmetry; exact H' | apply H; exact H'].
      * intros H H'. apply H. right. exact H'.
Qed.

Lemma NoDup_app_one : forall {A} (l : list A) x, NoDup l -> ~ In x l -> NoDup (l ++ [x]).
Proof.
  intros A l x ND NI. induction ND as [|y l Hy ND IH]; simpl.
  - constructor; [intros [] | constructor].
  - constructor.
    + intro H. apply in_app_or in H. destruct H as [H|[H|[]]]; [apply Hy; exact H|].
      subst. apply NI. left. reflexivity.
    + apply IH. intro H. apply NI. right. exact H.
Qed.

(* dup_firsts reports something iff a name is seen twice (counting the names already seen) *)
Lemma dup_firsts_spec : forall l seen,
  NoDup (map fst seen) ->
  (dup_firsts seen l <> [] <-> ~ NoDup (map fst seen ++ map fst l)).
Proof.
  induction l as [|[n id] r IH]; intros seen ND; simpl.
  - rewrite app_nil_r. split; [intro H; contradiction | intro H; exfalso; apply H; exact ND].
  - destruct (alookup n seen) as [first|] eqn:E.
    + split; [intros _ | intros _; discriminate].
      intro ND'. apply alookup_in in E.
      apply NoDup_remove_2 in ND'. apply ND'. apply in_or_app. left.
      apply in_map_iff. exists (n, first). split; [reflexivity | exact E].
    + apply alookup_none in E.
      assert (ND2 : NoDup (map fst (seen ++ [(n, id)]))).
      { rewrite map_app. simpl. apply NoDup_app_one; assumption. }
      rewrite (IH (seen ++ [(n, id)]) ND2). rewrite map_app. simpl. rewrite <- app_assoc. simpl. reflexivity.
Qed.


Lemma nmem_in : forall k l, nmem k l = true <-> In k l.
Proof.
  intros k l. induction l as [|x r IH]; simpl.
  - split; [discriminate | intros []].
  - rewrite orb_true_iff, IH, String.eqb_eq. split; intros [H|H]; auto.
Qed.

Lemma nmem_not_in : forall k l, nmem k l = false <-> ~ In k l.
Proof.
  intros k l. rewrite <- nmem_in. destruct (nmem k l); split; intro H.
  - discriminate.
  - exfalso. apply H. reflexivity.
  - intro H'. discriminate.
  - reflexivity.
Qed.

Section R.
Variable S : schema.
Variable W : wdoc.

(* ---- 20 UniqueOperationNames (the anonymous operation counts as the name "") ---- *)
Definition Violates_unique_operation_names : Prop :=
  ~ NoDup (map (fun o => fst (op_key o)) (w_ops W)).

Lemma unique_operation_names_iff :
  rule_unique_operation_names W <> [] <-> Violates_unique_operation_names.
Proof.
  unfold rule_unique_operation_names, Violates_unique_operation_names.
  rewrite (dup_firsts_spec _ [] (NoDup_nil _)). simpl. rewrite map_map. reflexivity.
Qed.

(* ---- 18 UniqueFragmentNames ---- *)
Definition Violates_unique_fragment_names : Prop := ~ NoDup (map wf_name (w_frags W)).

Lemma unique_fragment_names_iff :
  rule_unique_fragment_names W <> [] <-> Violates_unique_fragment_names.
Proof.
  unfold rule_unique_fragment_names, Violates_unique_fragment_names.
  rewrite (dup_firsts_spec _ [] (NoDup_nil _)). simpl. rewrite map_map. reflexivity.
Qed.

(* ---- 21 UniqueVariableNames ---- *)
Definition Violates_unique_variable_names : Prop :=
  exists o, In o (w_ops W) /\ ~ NoDup (map wv_name (wo_vars o)).

Lemma unique_variable_names_iff :
  rule_unique_variable_names W <> [] <-> Violates_unique_variable_names.
Proof.
  unfold rule_unique_variable_names, Violates_unique_variable_names.
  rewrite flat_map_nonempty. split; intros [o [Ho H]]; exists o; (split; [exact Ho|]).
  - apply (dup_firsts_spec _ [] (NoDup_nil _)) in H. simpl in H. rewrite map_map in H. exact H.
  - apply (dup_firsts_spec _ [] (NoDup_nil _)). simpl. rewrite map_map. exact H.
Qed.

(* ---- 17 UniqueArgumentNames ---- *)
Definition dup_args (args : list warg) : Prop := ~ NoDup (map wa_name args).
Definition bad_unique_args (i : item) : Prop :=
  match i with
  | IField _ _ _ _ args _ _ => dup_args args
  | IDir _ _ d => dup_args (wd_args d)
  | _ => False
  end.
Definition Violates_unique_argument_names : Prop :=
  exists i, In i (doc_items S W) /\ bad_unique_args i.

Lemma arg_dups_iff : forall args, arg_dups args <> [] <-> dup_args args.
Proof.
  intros args. unfold arg_dups, dup_args.
  rewrite (dup_firsts_spec _ [] (NoDup_nil _)). simpl. rewrite map_map. reflexivity.
Qed.

Lemma unique_argument_names_iff :
  rule_unique_argument_names S W <> [] <-> Violates_unique_argument_names.
Proof.
  unfold rule_unique_argument_names, Violates_unique_argument_names.
  rewrite flat_map_nonempty. split; intros [i [Hi H]]; exists i; (split; [exact Hi|]);
    destruct i; simpl in *; try contradiction; try (apply arg_dups_iff; exact H); try exact H.
Qed.

(* ---- 8 LoneAnonymousOperation ---- *)
Definition Violates_lone_anonymous : Prop :=
  1 < List.length (w_ops W) /\ exists o, In o (w_ops W) /\ wo_name o = None.

Lemma lone_anonymous_iff : rule_lone_anonymous W <> [] <-> Violates_lone_anonymous.
Proof.
  unfold rule_lone_anonymous, Violates_lone_anonymous.
  destruct (Nat.ltb 1 (List.length (w_ops W))) eqn:E.
  - apply Nat.ltb_lt in E. rewrite flat_map_nonempty. split.
    + intros [o [Ho H]]. split; [exact E|]. exists o. split; [exact Ho|].
      destruct (wo_name o); [contradiction | reflexivity].
    + intros [_ [o [Ho H]]]. exists o. split; [exact Ho|]. rewrite H. discriminate.
  - apply Nat.ltb_ge in E. split; [intro H; contradiction | intros [H _]; lia].
Qed.

Lemma lone_anonymous_located : forall x, In x (rule_lone_anonymous W) ->
  exists o, In o (w_ops W) /\ wo_name o = None /\ wo_id o = x.
Proof.
  unfold rule_lone_anonymous. intros x H.
  destruct (Nat.ltb 1 (List.length (w_ops W))); [|destruct H].
  apply in_flat_map in H. destruct H as [o [Ho H]]. exists o.
  destruct (wo_name o); [destruct H|]. destruct H as [H|[]]. auto.
Qed.

(* ---- 6 KnownFragmentNames ---- *)
Lemma fragw_none : forall g, fragw W g = None <-> ~ In g (map wf_name (w_frags W)).
Proof.
  intro g. unfold fragw.
  assert (G : forall l acc,
    fold_left (fun acc f => if String.eqb g (wf_name f) then Some f else acc) l acc = None <->
    acc = None /\ ~ In g (map wf_name l)).
  { induction l as [|f r IH]; intros acc; simpl.
    - split; [intro H; split; [exact H | intros []] | intros [H _]; exact H].
    - rewrite IH. destruct (String.eqb g (wf_name f)) eqn:E.
      + apply String.eqb_eq in E. split; [intros [H _]; discriminate | intros [_ H]; exfalso; apply H; left; symmetry; exact E].
      + apply String.eqb_neq in E. split; intros [H1 H2]; (split; [exact H1|]).
        * intros [H|H]; [apply E; symmetry; exact H | apply H2; exact H].
        * intro H. apply H2. right. exact H. }
  rewrite G. split; [intros [_ H]; exact H | intro H; split; [reflexivity | exact H]].
Qed.

Definition Violates_known_fragment_names : Prop :=
  exists pt id nid g, In (ISpread pt id nid g) (doc_items S W) /\ ~ In g (map wf_name (w_frags W)).

Lemma known_fragment_names_iff :
  rule_known_fragment_names S W <> [] <-> Violates_known_fragment_names.
Proof.
  unfold rule_known_fragment_names, Violates_known_fragment_names.
  rewrite flat_map_nonempty. split.
  - intros [i [Hi H]]. destruct i; try contradiction.
    exists pt, id, nid, nm. split; [exact Hi|].
    apply fragw_none. destruct (fragw W nm); [contradiction | reflexivity].
  - intros [pt [id [nid [g [Hi H]]]]]. exists (ISpread pt id nid g). split; [exact Hi|].
    apply fragw_none in H. rewrite H. discriminate.
Qed.

Lemma known_fragment_names_located : forall x, In x (rule_known_fragment_names S W) ->
  exists pt id g, In (ISpread pt id x g) (doc_items S W) /\ ~ In g (map wf_name (w_frags W)).
Proof.
  unfold rule_known_fragment_names. intros x H. apply in_flat_map in H.
  destruct H as [i [Hi H]]. destruct i; simpl in H; try contradiction.
  destruct (fragw W nm) eqn:E; [destruct H|]. destruct H as [H|[]]. subst.
  exists pt, id, nm. split; [exact Hi | apply fragw_none; exact E].
Qed.

(* ---- 16 ScalarLeafs ---- *)
Definition bad_scalar_leaf (i : item) : Prop :=
  match i with
  | IField _ (Some fd) _ _ _ _ hassub =>
    (is_leaf S (named_of (f_type fd)) = true /\ hassub = true) \/
    (is_leaf S (named_of (f_type fd)) = false /\ hassub = false)
  | _ => False
  end.
Definition Violates_scalar_leafs : Prop := exists i, In i (doc_items S W) /\ bad_scalar_leaf i.

Lemma scalar_leafs_iff : rule_scalar_leafs S W <> [] <-> Violates_scalar_leafs.
Proof.
  unfold rule_scalar_leafs, Violates_scalar_leafs. rewrite flat_map_nonempty.
  split; intros [i [Hi H]]; exists i; (split; [exact Hi|]);
    destruct i as [pt [fd|] id nm args ssid hs| | | | |]; simpl in *; try contradiction;
    destruct (is_leaf S (named_of (f_type fd))), hs; simpl in *; try contradiction; try discriminate; auto;
    destruct H as [[H1 H2]|[H1 H2]]; discriminate.
Qed.

(* ---- 2 FieldsOnCorrectType ---- *)
Definition Violates_fields_on_correct_type : Prop :=
  exists t id nm args ssid hs, In (IField (Some t) None id nm args ssid hs) (doc_items S W).

Lemma fields_on_correct_type_iff :
  rule_fields_on_correct_type S W <> [] <-> Violates_fields_on_correct_type.
Proof.
  unfold rule_fields_on_correct_type, Violates_fields_on_correct_type. rewrite flat_map_nonempty. split.
  - intros [i [Hi H]]. destruct i as [[t|] [fd|] id nm args ssid hs| | | | |]; try contradiction.
    exists t, id, nm, args, ssid, hs. exact Hi.
  - intros [t [id [nm [args [ssid [hs Hi]]]]]]. exists (IField (Some t) None id nm args ssid hs).
    split; [exact Hi | discriminate].
Qed.

Lemma fields_on_correct_type_located : forall x, In x (rule_fields_on_correct_type S W) ->
  exists t nm args ssid hs, In (IField (Some t) None x nm args ssid hs) (doc_items S W).
Proof.
  unfold rule_fields_on_correct_type. intros x H. apply in_flat_map in H. destruct H as [i [Hi H]].
  destruct i as [[t|] [fd|] id nm args ssid hs| | | | |]; simpl in H; try contradiction.
  destruct H as [H|[]]. subst. exists t, nm, args, ssid, hs. exact Hi.
Qed.

(* ---- 5 KnownDirectives ---- *)
Definition bad_directive (i : item) : Prop :=
  match i with
  | IDir loc None _ => True
  | IDir loc (Some dd) _ => ~ In loc (dd_locs dd)
  | _ => False
  end.
Definition Violates_known_directives : Prop := exists i, In i (doc_items S W) /\ bad_directive i.

Lemma dloc_eqb_eq : forall a b, dloc_eqb a b = true <-> a = b.
Proof. intros a b. destruct a, b; simpl; split; intro H; try reflexivity; try discriminate. Qed.

Lemma known_directives_iff : rule_known_directives S W <> [] <-> Violates_known_directives.
Proof.
  unfold rule_known_directives, Violates_known_directives. rewrite flat_map_nonempty.
  split; intros [i [Hi H]]; exists i; (split; [exact Hi|]);
    destruct i as [| | |loc [dd|] d| |]; simpl in *; try contradiction; auto; try discriminate.
  - destruct (existsb (dloc_eqb loc) (dd_locs dd)) eqn:E; [contradiction|].
    intro Hin. assert (existsb (dloc_eqb loc) (dd_locs dd) = true).
    { apply existsb_exists. exists loc. split; [exact Hin | apply dloc_eqb_eq; reflexivity]. }
    congruence.
  - destruct (existsb (dloc_eqb loc) (dd_locs dd)) eqn:E; [|discriminate].
    apply existsb_exists in E. destruct E as [l [Hl E]]. apply dloc_eqb_eq in E. subst l. contradiction.
Qed.

(* ---- 4 KnownArgumentNames ---- *)
Definition bad_argument_name (i : item) : Prop :=
  match i with
  | IArg (OField (Some fd) _) _ a => ~ In (wa_name a) (map a_name (f_args fd))
  | IArg (ODir (Some dd)) _ a => ~ In (wa_name a) (map a_name (dd_args dd))
  | _ => False
  end.
Definition Violates_known_argument_names : Prop :=
  exists i, In i (doc_items S W) /\ bad_argument_name i.

Lemma find_argdef_none : forall n l, find_argdef n l = None <-> ~ In n (map a_name l).
Proof.
  intros n l. induction l as [|a r IH]; simpl.
  - split; [intros _ [] | reflexivity].
  - destruct (String.eqb n (a_name a)) eqn:E.
    + apply String.eqb_eq in E. split; [discriminate | intro H; exfalso; apply H; left; symmetry; exact E].
    + apply String.eqb_neq in E. rewrite IH. split.
      * intros H [H'|H']; [apply E; symmetry; exact H' | apply H; exact H'].
      * intros H H'. apply H. right. exact H'.
Qed.

Lemma known_argument_names_iff :
  rule_known_argument_names S W <> [] <-> Violates_known_argument_names.
Proof.
  unfold rule_known_argument_names, Violates_known_argument_names. rewrite flat_map_nonempty.
  split; intros [i [Hi H]]; exists i; (split; [exact Hi|]);
    destruct i as [| | | |[[fd|] pt|[dd|]] ad a|]; simpl in *; try contradiction.
  - apply find_argdef_none. destruct (find_argdef (wa_name a) (f_args fd)); [contradiction | reflexivity].
  - apply find_argdef_none. destruct (find_argdef (wa_name a) (dd_args dd)); [contradiction | reflexivity].
  - apply find_argdef_none in H. rewrite H. discriminate.
  - apply find_argdef_none in H. rewrite H. discriminate.
Qed.

(* ---- 15 ProvidedNonNullArguments ---- *)
Definition missing (defs : list argdef) (args : list warg) : Prop :=
  exists ad, In ad defs /\ is_nonnull (a_type ad) = true /\ ~ In (a_name ad) (map wa_name args).
Definition bad_provided (i : item) : Prop :=
  match i with
  | IField _ (Some fd) _ _ args _ _ => missing (f_args fd) args
  | IDir _ (Some dd) d => missing (dd_args dd) (wd_args d)
  | _ => False
  end.
Definition Violates_provided_non_null_arguments : Prop :=
  exists i, In i (doc_items S W) /\ bad_provided i.

Lemma provided_args_existsb : forall n args,
  existsb (fun a => String.eqb (wa_name a) n) args = true <-> In n (map wa_name args).
Proof.
  intros n args. rewrite existsb_exists. split.
  - intros [a [Ha E]]. apply String.eqb_eq in E. subst. apply in_map. exact Ha.
  - intro H. apply in_map_iff in H. destruct H as [a [E Ha]]. exists a. split; [exact Ha | apply String.eqb_eq; exact E].
Qed.

Lemma missing_required_iff : forall defs args x,
  missing_required defs args x <> [] <-> missing defs args.
Proof.
  intros defs args x. unfold missing_required, missing. rewrite flat_map_nonempty.
  split; intros [ad [Had H]]; exists ad; (split; [exact Had|]).
  - destruct (is_nonnull (a_type ad)); simpl in H; [|contradiction].
    split; [reflexivity|]. intro Hin. apply provided_args_existsb in Hin. rewrite Hin in H. simpl in H. contradiction.
  - destruct H as [H1 H2]. rewrite H1. simpl.
    destruct (existsb (fun a => String.eqb (wa_name a) (a_name ad)) args) eqn:E; [|discriminate].
    apply provided_args_existsb in E. contradiction.
Qed.

Lemma provided_non_null_arguments_iff :
  rule_provided_non_null_arguments S W <> [] <-> Violates_provided_non_null_arguments.
Proof.
  unfold rule_provided_non_null_arguments, Violates_provided_non_null_arguments. rewrite flat_map_nonempty.
  split; intros [i [Hi H]]; exists i; (split; [exact Hi|]);
    destruct i as [pt [fd|] id nm args ssid hs| | |loc [dd|] d| |]; simpl in *; try contradiction;
    try (apply missing_required_iff in H; exact H); try (eapply missing_required_iff; exact H).
Qed.

(* ---- 10 NoUndefinedVariables / 12 NoUnusedVariables (over RecursiveVariableUsages) ---- *)
Definition Violates_no_undefined_variables : Prop :=
  exists o u, In o (w_ops W) /\ In u (rec_uses S W o) /\ ~ In (fst (snd u)) (map wv_name (wo_vars o)).

Lemma no_undefined_variables_iff :
  rule_no_undefined_variables S W <> [] <-> Violates_no_undefined_variables.
Proof.
  unfold rule_no_undefined_variables, Violates_no_undefined_variables. rewrite flat_map_nonempty. split.
  - intros [o [Ho H]]. apply flat_map_nonempty in H. destruct H as [u [Hu H]].
    exists o, u. split; [exact Ho|]. split; [exact Hu|].
    apply nmem_not_in. destruct (nmem (fst (snd u)) (map wv_name (wo_vars o))); [contradiction | reflexivity].
  - intros [o [u [Ho [Hu H]]]]. exists o. split; [exact Ho|]. apply flat_map_nonempty.
    exists u. split; [exact Hu|]. apply nmem_not_in in H. rewrite H. discriminate.
Qed.

Definition Violates_no_unused_variables : Prop :=
  exists o v, In o (w_ops W) /\ In v (wo_vars o) /\
              ~ In (wv_name v) (map (fun u => fst (snd u)) (rec_uses S W o)).

Lemma no_unused_variables_iff :
  rule_no_unused_variables S W <> [] <-> Violates_no_unused_variables.
Proof.
  unfold rule_no_unused_variables, Violates_no_unused_variables. rewrite flat_map_nonempty. split.
  - intros [o [Ho H]]. apply flat_map_nonempty in H. destruct H as [v [Hv H]].
    exists o, v. split; [exact Ho|]. split; [exact Hv|].
    apply nmem_not_in. destruct (nmem (wv_name v) _); [contradiction | reflexivity].
  - intros [o [v [Ho [Hv H]]]]. exists o. split; [exact Ho|]. apply flat_map_nonempty.
    exists v. split; [exact Hv|]. apply nmem_not_in in H. rewrite H. discriminate.
Qed.


Lemma app_nonempty : forall {A} (l1 l2 : list A), l1 ++ l2 <> [] <-> (l1 <> [] \/ l2 <> []).
Proof.
  intros A l1 l2. split.
  - intro H. destruct l1; [right; exact H | left; discriminate].
  - intros [H|H] E; apply app_eq_nil in E; destruct E; contradiction.
Qed.

(* ---- 22 VariablesAreInputTypes ---- *)
Definition Violates_variables_are_input_types : Prop :=
  exists o v, In o (w_ops W) /\ In v (wo_vars o) /\
    known S (snd (type_named (wv_type v))) = true /\ is_input S (snd (type_named (wv_type v))) = false.

Lemma variables_are_input_types_iff :
  rule_variables_are_input_types S W <> [] <-> Violates_variables_are_input_types.
Proof.
  unfold rule_variables_are_input_types, Violates_variables_are_input_types. rewrite flat_map_nonempty. split.
  - intros [o [Ho H]]. apply flat_map_nonempty in H. destruct H as [v [Hv H]]. exists o, v.
    split; [exact Ho|]. split; [exact Hv|].
    destruct (known S (snd (type_named (wv_type v)))); simpl in H; [|contradiction].
    destruct (is_input S (snd (type_named (wv_type v)))); simpl in H; [contradiction | auto].
  - intros [o [v [Ho [Hv [H1 H2]]]]]. exists o. split; [exact Ho|]. apply flat_map_nonempty.
    exists v. split; [exact Hv|]. rewrite H1, H2. simpl. discriminate.
Qed.

(* ---- 14 PossibleFragmentSpreads ---- *)
Definition bad_spread (i : item) : Prop :=
  match i with
  | IInline (Some p) (Some t) _ _ => types_overlap S t p = false
  | ISpread (Some p) _ _ g =>
    exists f t, fragw W g = Some f /\ resolve S (wf_cond f) = Some t /\ types_overlap S t p = false
  | _ => False
  end.
Definition Violates_possible_fragment_spreads : Prop := exists i, In i (doc_items S W) /\ bad_spread i.

Lemma possible_fragment_spreads_iff :
  rule_possible_fragment_spreads S W <> [] <-> Violates_possible_fragment_spreads.
Proof.
  unfold rule_possible_fragment_spreads, Violates_possible_fragment_spreads. rewrite flat_map_nonempty.
  split; intros [i [Hi H]]; exists i; (split; [exact Hi|]);
    destruct i as [|[p|] id nid g|[p|] [t|] id tc| | |]; simpl in *; try contradiction.
  - destruct (fragw W g) as [f|] eqn:E1; [|contradiction].
    destruct (resolve S (wf_cond f)) as [t|] eqn:E2; [|contradiction].
    destruct (types_overlap S t p) eqn:E; [contradiction|]. exists f, t.
    split; [reflexivity|]. split; [exact E2 | exact E].
  - destruct (types_overlap S t p); [contradiction | reflexivity].
  - destruct H as [f [t [H1 [H2 H3]]]]. rewrite H1, H2, H3. discriminate.
  - rewrite H. discriminate.
Qed.

(* ---- 0 ArgumentsOfCorrectType (relative to the model of isValidLiteralValue) ---- *)
Definition Violates_arguments_of_correct_type : Prop :=
  exists ow ad a, In (IArg ow (Some ad) a) (doc_items S W) /\ vlit S (wa_val a) (a_type ad) = false.

Lemma arguments_of_correct_type_iff :
  rule_arguments_of_correct_type S W <> [] <-> Violates_arguments_of_correct_type.
Proof.
  unfold rule_arguments_of_correct_type, Violates_arguments_of_correct_type. rewrite flat_map_nonempty. split.
  - intros [i [Hi H]]. destruct i as [| | | |ow [ad|] a|]; try contradiction.
    exists ow, ad, a. split; [exact Hi|]. destruct (vlit S (wa_val a) (a_type ad)); [contradiction | reflexivity].
  - intros [ow [ad [a [Hi H]]]]. exists (IArg ow (Some ad) a). split; [exact Hi|]. rewrite H. discriminate.
Qed.

Lemma arguments_of_correct_type_located : forall x, In x (rule_arguments_of_correct_type S W) ->
  exists ow ad a, In (IArg ow (Some ad) a) (doc_items S W) /\ vlit S (wa_val a) (a_type ad) = false /\
                  wv_id (wa_val a) = x.
Proof.
  unfold rule_arguments_of_correct_type. intros x H. apply in_flat_map in H. destruct H as [i [Hi H]].
  destruct i as [| | | |ow [ad|] a|]; simpl in H; try contradiction.
  destruct (vlit S (wa_val a) (a_type ad)) eqn:E; simpl in H; [contradiction|].
  destruct H as [H|[]]. exists ow, ad, a. auto.
Qed.

(* ---- 1 DefaultValuesOfCorrectType ---- *)
Definition Violates_default_values_of_correct_type : Prop :=
  exists o v d t, In o (w_ops W) /\ In v (wo_vars o) /\ wv_default v = Some d /\
    type_from_ast S (erase_type (wv_type v)) = Some t /\ (is_nonnull t = true \/ vlit S d t = false).

Lemma default_values_of_correct_type_iff :
  rule_default_values_of_correct_type S W <> [] <-> Violates_default_values_of_correct_type.
Proof.
  unfold rule_default_values_of_correct_type, Violates_default_values_of_correct_type.
  rewrite flat_map_nonempty. split.
  - intros [o [Ho H]]. apply flat_map_nonempty in H. destruct H as [v [Hv H]].
    destruct (wv_default v) as [d|] eqn:Ed; [|contradiction].
    destruct (type_from_ast S (erase_type (wv_type v))) as [t|] eqn:Et; [|contradiction].
    exists o, v, d, t. repeat (split; [assumption|]).
    destruct (is_nonnull t); [left; reflexivity|]. destruct (vlit S d t); [contradiction | right; reflexivity].
  - intros [o [v [d [t [Ho [Hv [Ed [Et H]]]]]]]]. exists o. split; [exact Ho|]. apply flat_map_nonempty.
    exists v. split; [exact Hv|]. rewrite Ed, Et. destruct H as [H|H]; rewrite H; [discriminate|].
    destruct (is_nonnull t); discriminate.
Qed.

(* ---- 23 VariablesInAllowedPosition ---- *)
Definition Violates_variables_in_allowed_position : Prop :=
  exists o u vd ut vt, In o (w_ops W) /\ In u (rec_uses S W o) /\
    find_vardef (fst (snd u)) (wo_vars o) = Some vd /\ snd (snd u) = Some ut /\
    type_from_ast S (erase_type (wv_type vd)) = Some vt /\
    subtype S (effective_type vt vd) ut = false.

Lemma variables_in_allowed_position_iff :
  rule_variables_in_allowed_position S W <> [] <-> Violates_variables_in_allowed_position.
Proof.
  unfold rule_variables_in_allowed_position, Violates_variables_in_allowed_position.
  rewrite flat_map_nonempty. split.
  - intros [o [Ho H]]. apply flat_map_nonempty in H. destruct H as [u [Hu H]].
    destruct (find_vardef (fst (snd u)) (wo_vars o)) as [vd|] eqn:Ev; [|contradiction].
    destruct (snd (snd u)) as [ut|] eqn:Eu; [|contradiction].
    destruct (type_from_ast S (erase_type (wv_type vd))) as [vt|] eqn:Et; [|contradiction].
    destruct (subtype S (effective_type vt vd) ut) eqn:Es; [contradiction|].
    exists o, u, vd, ut, vt. auto 10.
  - intros [o [u [vd [ut [vt [Ho [Hu [Ev [Eu [Et Es]]]]]]]]]]. exists o. split; [exact Ho|].
    apply flat_map_nonempty. exists u. split; [exact Hu|]. rewrite Ev, Eu, Et, Es. discriminate.
Qed.

(* ---- 3 FragmentsOnCompositeTypes ---- *)
Definition Violates_fragments_on_composite : Prop :=
  (exists pt t id tc, In (IInline pt (Some t) id (Some tc)) (doc_items S W) /\ is_composite S t = false) \/
  (exists f t, In f (w_frags W) /\ resolve S (wf_cond f) = Some t /\ is_composite S t = false).

Lemma fragments_on_composite_iff :
  rule_fragments_on_composite S W <> [] <-> Violates_fragments_on_composite.
Proof.
  unfold rule_fragments_on_composite, Violates_fragments_on_composite.
  rewrite app_nonempty, !flat_map_nonempty. split.
  - intros [[i [Hi H]]|[f [Hf H]]].
    + left. destruct i as [| |pt [t|] id [tc|]| | |]; try contradiction.
      exists pt, t, id, tc. split; [exact Hi|]. destruct (is_composite S t); [contradiction | reflexivity].
    + right. destruct (resolve S (wf_cond f)) as [t|] eqn:E; [|contradiction].
      exists f, t. split; [exact Hf|]. split; [exact E|]. destruct (is_composite S t); [contradiction | reflexivity].
  - intros [[pt [t [id [tc [Hi H]]]]]|[f [t [Hf [E H]]]]].
    + left. exists (IInline pt (Some t) id (Some tc)). split; [exact Hi|]. rewrite H. discriminate.
    + right. exists f. split; [exact Hf|]. rewrite E, H. discriminate.
Qed.


(* ---- 7 KnownTypeNames ---- *)
Definition unknown_tc (i : item) : Prop :=
  match i with IInline _ _ _ (Some tc) => known S (snd tc) = false | _ => False end.
Definition Violates_known_type_names : Prop :=
  (exists o v, In o (w_ops W) /\ In v (wo_vars o) /\ known S (snd (type_named (wv_type v))) = false) \/
  (exists i, In i (flat_map (op_items S) (w_ops W)) /\ unknown_tc i) \/
  (exists f, In f (w_frags W) /\
     (known S (wf_cond f) = false \/ exists i, In i (frag_items S f) /\ unknown_tc i)).

Lemma unknown_named_iff : forall p, unknown_named S p <> [] <-> known S (snd p) = false.
Proof.
  intros p. unfold unknown_named. destruct (known S (snd p)); split; intro H;
    try contradiction; try discriminate; reflexivity.
Qed.

Lemma inline_tc_iff : forall l,
  flat_map (fun i => match i with IInline _ _ _ (Some tc) => unknown_named S tc | _ => [] end) l <> []
  <-> exists i, In i l /\ unknown_tc i.
Proof.
  intro l. rewrite flat_map_nonempty. split; intros [i [Hi H]]; exists i; (split; [exact Hi|]);
    destruct i as [| |pt t id [tc|]| | |]; simpl in *; try contradiction; apply unknown_named_iff; exact H.
Qed.

Lemma known_type_names_iff : rule_known_type_names S W <> [] <-> Violates_known_type_names.
Proof.
  unfold rule_known_type_names, Violates_known_type_names.
  rewrite !app_nonempty, inline_tc_iff. rewrite !flat_map_nonempty.
  split.
  - intros [[o [Ho H]]|[H|[f [Hf H]]]].
    + left. apply flat_map_nonempty in H. destruct H as [v [Hv H]]. exists o, v.
      split; [exact Ho|]. split; [exact Hv|]. apply unknown_named_iff in H. exact H.
    + right. left. exact H.
    + right. right. exists f. split; [exact Hf|]. apply app_nonempty in H. destruct H as [H|H].
      * left. apply unknown_named_iff in H. exact H.
      * right. apply inline_tc_iff. exact H.
  - intros [[o [v [Ho [Hv H]]]]|[H|[f [Hf H]]]].
    + left. exists o. split; [exact Ho|]. apply flat_map_nonempty. exists v. split; [exact Hv|].
      apply unknown_named_iff. exact H.
    + right. left. exact H.
    + right. right. exists f. split; [exact Hf|]. apply app_nonempty. destruct H as [H|H].
      * left. apply (unknown_named_iff (wf_tcid f, wf_cond f)). exact H.
      * right. apply inline_tc_iff. exact H.
Qed.

End R.
