(* C13: what a resolver invocation of a mutation can observe.  From the serial order of the call
   log (Proofs/ExecSerial.v): at the moment any invocation belonging to top-level field j runs,
   every invocation that already ran belongs to a field at or before j (no successor has started),
   and every invocation still to come belongs to a field at or after j (every predecessor has
   finished completely).  With side effects folded over the call log in execution order this is
   "observes all side effects of its predecessors and none of its successors". *)
From Coq Require Import List ZArith NArith String Bool Lia.
From GQL Require Import Exec.Syntax Exec.Coerce Exec.Exec Exec.Request Proofs.ExecInv Proofs.ExecSerial Run.ExecRun.
Import ListNotations.
Open Scope list_scope.

Lemma nondecreasing_lower : forall l c, nondecreasing l c = true ->
  forall x, In x l -> exists i, x = Some i /\ (c <= i)%N.
Proof.
  induction l as [|[i|] l IH]; intros c H x Hx; cbn [nondecreasing] in H; try discriminate.
  - destruct Hx.
  - apply andb_true_iff in H. destruct H as [H1 H2]. apply N.leb_le in H1.
    destruct Hx as [<-|Hx]; [exists i; split; [reflexivity|exact H1]|].
    destruct (IH i H2 x Hx) as [i' [-> Hi']]. exists i'. split; [reflexivity|lia].
Qed.

Lemma nondecreasing_split : forall l1 j l2 c, nondecreasing (l1 ++ Some j :: l2) c = true ->
  (forall x, In x l1 -> exists i, x = Some i /\ (i <= j)%N) /\
  (forall x, In x l2 -> exists i, x = Some i /\ (j <= i)%N).
Proof.
  induction l1 as [|[i|] l1 IH]; intros j l2 c H; cbn [app nondecreasing] in H; try discriminate.
  - apply andb_true_iff in H. destruct H as [_ H2]. split; [intros x []|].
    exact (nondecreasing_lower l2 j H2).
  - apply andb_true_iff in H. destruct H as [_ H2].
    destruct (IH j l2 i H2) as [A B]. split; [|exact B].
    intros x [<-|Hx]; [|exact (A x Hx)].
    destruct (nondecreasing_lower _ _ H2 (Some j)) as [j' [E Hj']]; [apply in_or_app; right; left; reflexivity|].
    inversion E; subst. exists i. split; [reflexivity|exact Hj'].
Qed.

(* the statement on a log of call paths *)
Lemma serial_ok_observes : forall keys pre p post j,
  serial_ok keys (pre ++ p :: post) = true -> top_index keys p = Some j ->
  Forall (fun q => exists i, top_index keys q = Some i /\ (i <= j)%N) pre /\
  Forall (fun q => exists i, top_index keys q = Some i /\ (j <= i)%N) post.
Proof.
  intros keys pre p post j H Hp. unfold serial_ok in H.
  rewrite map_app in H. cbn [map] in H. rewrite Hp in H.
  destruct (nondecreasing_split _ _ _ _ H) as [A B].
  split; apply Forall_forall; intros q Hq; [apply A|apply B]; apply in_map; exact Hq.
Qed.

(* every invocation of a mutation belongs to one of its top-level fields *)
Lemma serial_ok_all_indexed : forall keys log, serial_ok keys log = true ->
  Forall (fun q => exists i, top_index keys q = Some i) log.
Proof.
  intros keys log H. apply Forall_forall. intros q Hq.
  destruct (nondecreasing_lower _ _ H (top_index keys q)) as [i [E _]]; [apply in_map; exact Hq|].
  exists i. exact E.
Qed.

Lemma mutation_observes : forall fuel S D opn inputs root or tor data s pre c post j,
  is_mutation D opn = true ->
  request fuel S D opn inputs root or tor = RDone data s ->
  st_calls s = pre ++ c :: post ->
  top_index (root_keys fuel S D opn inputs) (c_path c) = Some j ->
  Forall (fun q => exists i, top_index (root_keys fuel S D opn inputs) (c_path q) = Some i /\ (i <= j)%N) pre /\
  Forall (fun q => exists i, top_index (root_keys fuel S D opn inputs) (c_path q) = Some i /\ (j <= i)%N) post.
Proof.
  intros fuel S D opn inputs root or tor data s pre c post j Hm H Hs Hj.
  pose proof (mutation_calls_serial _ _ _ _ _ _ _ _ _ _ Hm H) as Hser.
  rewrite Hs, map_app in Hser. cbn [map] in Hser.
  destruct (serial_ok_observes _ _ _ _ _ Hser Hj) as [A B].
  split; [clear B|clear A]; apply Forall_forall; intros q Hq.
  - rewrite Forall_forall in A. apply A. apply in_map. exact Hq.
  - rewrite Forall_forall in B. apply B. apply in_map. exact Hq.
Qed.

Lemma mutation_calls_indexed : forall fuel S D opn inputs root or tor data s,
  is_mutation D opn = true ->
  request fuel S D opn inputs root or tor = RDone data s ->
  Forall (fun c => exists i, top_index (root_keys fuel S D opn inputs) (c_path c) = Some i) (st_calls s).
Proof.
  intros fuel S D opn inputs root or tor data s Hm H.
  pose proof (mutation_calls_serial _ _ _ _ _ _ _ _ _ _ Hm H) as Hser.
  apply serial_ok_all_indexed in Hser. rewrite Forall_forall in Hser.
  apply Forall_forall. intros c Hc. apply Hser. apply in_map. exact Hc.
Qed.

(* Side effects: whatever store the invocations transform in execution order, the store an
   invocation of field j observes is determined by the invocations before it (pre); these contain
   every invocation of every earlier field -- all of them, since none of those comes later -- and
   no invocation of a later field. *)
Section Effects.
  Definition of_field (keys : list name) (P : N -> bool) (c : call) : bool :=
    match top_index keys (c_path c) with Some i => P i | None => false end.

  Lemma filter_all_true : forall (f : call -> bool) l, Forall (fun c => f c = true) l -> filter f l = l.
  Proof.
    intros f l H. induction H as [|c l Hc _ IH]; [reflexivity|]. cbn [filter]. rewrite Hc, IH. reflexivity.
  Qed.
  Lemma filter_all_false : forall (f : call -> bool) l, Forall (fun c => f c = false) l -> filter f l = [].
  Proof.
    intros f l H. induction H as [|c l Hc _ IH]; [reflexivity|]. cbn [filter]. rewrite Hc, IH. reflexivity.
  Qed.

  Lemma mutation_observed_effects : forall fuel S D opn inputs root or tor data s pre c post j,
    is_mutation D opn = true ->
    request fuel S D opn inputs root or tor = RDone data s ->
    st_calls s = pre ++ c :: post ->
    top_index (root_keys fuel S D opn inputs) (c_path c) = Some j ->
    let keys := root_keys fuel S D opn inputs in
    (* all the work of every earlier field is among the observed invocations *)
    filter (of_field keys (fun i => (i <? j)%N)) (st_calls s) = filter (of_field keys (fun i => (i <? j)%N)) pre /\
    (* nothing of a later field is *)
    filter (of_field keys (fun i => (j <? i)%N)) pre = [].
  Proof.
    intros fuel S D opn inputs root or tor data s pre c post j Hm H Hs Hj keys.
    destruct (mutation_observes _ _ _ _ _ _ _ _ _ _ _ _ _ _ Hm H Hs Hj) as [A B]. fold keys in A, B, Hj.
    split.
    - rewrite Hs, filter_app. cbn [filter]. unfold of_field at 2. rewrite Hj, N.ltb_irrefl.
      rewrite (filter_all_false _ post); [rewrite app_nil_r; reflexivity|].
      eapply Forall_impl; [|exact B]. intros q [i [E Hi]]. unfold of_field. rewrite E.
      apply N.ltb_ge. exact Hi.
    - apply filter_all_false. eapply Forall_impl; [|exact A]. intros q [i [E Hi]].
      unfold of_field. rewrite E. apply N.ltb_ge. exact Hi.
  Qed.
End Effects.
