(* The in-place walk on Argument cells (Cache/NormalizeHeap.v) computes the functional
   normalisation (Cache/Normalize.v) of the document the caller passed. *)
From Coq Require Import List NArith Bool Lia.
From GQL Require Import Cache.Normalize Cache.NormalizeHeap Proofs.CacheNormalizeHeapProofs.
Import ListNotations.
Open Scope N_scope.

Section Refine.
  Context {L cval : Type}.
  Notation value := (@value L).
  Notation nst := (@nst L cval).
  Notation psel := (@psel L).
  Notation hst := (@hst L).
  Variable value_eqb : value -> value -> bool.
  Variable cval_eqb : cval -> cval -> bool.
  Variable synth_name : N -> name.
  Variable field_def : otype -> name -> option (option otype).
  Variable arg_ty : otype -> name -> name -> option ty.
  Variable tc_obj : name -> option otype.
  Variable coerce : ty -> value -> (name -> option cval) -> option cval.
  Variable lit_valid : ty -> value -> bool.
  Variable var_coerce : ty -> cval -> option cval.
  Variable taken : list name.

  Notation try_extract := (try_extract value_eqb cval_eqb synth_name coerce lit_valid var_coerce taken).
  Notation extract_value := (extract_value cval_eqb coerce lit_valid var_coerce).
  Notation norm_args := (norm_args value_eqb cval_eqb synth_name arg_ty coerce lit_valid var_coerce taken).
  Notation norm_sel := (norm_sel value_eqb cval_eqb synth_name field_def arg_ty tc_obj coerce lit_valid var_coerce taken).
  Notation normalize := (normalize value_eqb cval_eqb synth_name field_def arg_ty tc_obj coerce lit_valid var_coerce taken).
  Notation hnorm_args := (hnorm_args value_eqb cval_eqb synth_name arg_ty coerce lit_valid var_coerce taken).
  Notation hnorm_sel := (hnorm_sel value_eqb cval_eqb synth_name field_def arg_ty tc_obj coerce lit_valid var_coerce taken).
  Notation hnormalize := (hnormalize value_eqb cval_eqb synth_name field_def arg_ty tc_obj coerce lit_valid var_coerce taken).
  Notation writes_within := (writes_within value_eqb cval_eqb synth_name field_def arg_ty tc_obj coerce lit_valid var_coerce taken).

  Lemma NoDup_app_disj : forall (A : Type) (l1 l2 : list A), NoDup (l1 ++ l2) ->
    NoDup l1 /\ NoDup l2 /\ (forall x, In x l1 -> ~ In x l2).
  Proof.
    induction l1 as [|a l1 IH]; intros l2 H; simpl in *.
    - split; [constructor|split; [exact H|intros x []]].
    - inversion H as [|? ? Hn Hd]; subst. destruct (IH _ Hd) as [A1 [A2 A3]].
      split; [constructor; [intro Z; apply Hn; apply in_or_app; left; exact Z|exact A1]|split; [exact A2|]].
      intros x [->|Hx]; [intro Z; apply Hn; apply in_or_app; right; exact Z|apply A3; exact Hx].
  Qed.

  Lemma try_extract_none : forall (st : nst) t v, extract_value t v = None -> try_extract st t v = (st, v).
  Proof. intros st t v H. unfold Normalize.try_extract. rewrite H. reflexivity. Qed.

  Lemma hnorm_args_refines : forall o nm ids (st : nst) (hs : hst) st' hs',
    hnorm_args st hs o nm ids = (st', hs') -> NoDup ids ->
    norm_args st o nm (map (hget (h_heap hs)) ids) = (st', map (hget (h_heap hs')) ids).
  Proof.
    intros o nm. induction ids as [|i r IH]; intros st hs st' hs' H Hd; simpl in H.
    - injection H as <- <-. reflexivity.
    - inversion Hd as [|? ? Hni Hdr]; subst.
      destruct (hget (h_heap hs) i) as [a v] eqn:G.
      destruct (match arg_ty o nm a with
                | Some t => let '(st'0, v') := try_extract st t v in
                            match extract_value t v with Some _ => (st'0, hset hs i (a, v')) | None => (st'0, hs) end
                | None => (st, hs) end) as [st1 hs1] eqn:E1.
      assert (S1 : exists v1, (match arg_ty o nm a with Some t => try_extract st t v | None => (st, v) end) = (st1, v1) /\
                              hget (h_heap hs1) i = (a, v1) /\
                              forall j, j <> i -> hget (h_heap hs1) j = hget (h_heap hs) j).
      { destruct (arg_ty o nm a) as [t|].
        - destruct (try_extract st t v) as [st0 v'] eqn:TE. destruct (extract_value t v) eqn:EV.
          + injection E1 as <- <-. exists v'. split; [reflexivity|split].
            * simpl. rewrite hget_cons, N.eqb_refl. reflexivity.
            * intros j Hj. simpl. apply hget_cons_other. congruence.
          + injection E1 as <- <-. rewrite (try_extract_none st t v EV) in TE. injection TE as <- <-.
            exists v. split; [reflexivity|split; [exact G|intros; reflexivity]].
        - injection E1 as <- <-. exists v. split; [reflexivity|split; [exact G|intros; reflexivity]]. }
      destruct S1 as [v1 [T1 [G1 F1]]].
      pose proof (IH _ _ _ _ H Hdr) as R.
      destruct (hnorm_args_writes value_eqb cval_eqb synth_name arg_ty coerce lit_valid var_coerce taken _ _ _ _ _ _ _ H) as [_ F2].
      simpl. rewrite G. rewrite T1.
      replace (map (hget (h_heap hs)) r) with (map (hget (h_heap hs1)) r).
      + rewrite R. rewrite (F2 i Hni), G1. reflexivity.
      + apply map_ext_in. intros j Hj. apply F1. intro Z. subst j. contradiction.
  Qed.

  Definition refines (p : psel) : Prop :=
    forall o (st : nst) (hs : hst) st' hs', hnorm_sel o st hs p = (st', hs') -> NoDup (pids p) ->
      norm_sel o st (read_sel (h_heap hs) p) = (st', read_sel (h_heap hs') p).

  Lemma hwalk_list_refines : forall o (l : list psel), Forall refines l ->
    forall (st : nst) (hs : hst) st' hs', hwalk_list (hnorm_sel o) st hs l = (st', hs') -> NoDup (flat_map pids l) ->
      norm_list (norm_sel o) st (map (read_sel (h_heap hs)) l) = (st', map (read_sel (h_heap hs')) l).
  Proof.
    intros o l HF. induction HF as [|p r Hp Hr IH]; intros st hs st' hs' H Hd; simpl in H.
    - injection H as <- <-. reflexivity.
    - destruct (hnorm_sel o st hs p) as [st1 hs1] eqn:E1.
      simpl in Hd. destruct (NoDup_app_disj _ _ _ Hd) as [D1 [D2 D3]].
      pose proof (Hp _ _ _ _ _ E1 D1) as R1. pose proof (IH _ _ _ _ H D2) as R2.
      destruct (all_writes_within value_eqb cval_eqb synth_name field_def arg_ty tc_obj coerce lit_valid var_coerce taken p _ _ _ _ _ E1) as [_ F1].
      assert (HW : Forall writes_within r) by (apply Forall_forall; intros q _; apply all_writes_within).
      destruct (hwalk_list_writes value_eqb cval_eqb synth_name field_def arg_ty tc_obj coerce lit_valid var_coerce taken o r HW _ _ _ _ H) as [_ F2].
      simpl. rewrite R1.
      replace (map (read_sel (h_heap hs)) r) with (map (read_sel (h_heap hs1)) r).
      + rewrite R2. f_equal. f_equal. symmetry. apply read_sel_frame. intros j Hj. apply F2. apply D3. exact Hj.
      + apply map_ext_in. intros q Hq. apply read_sel_frame. intros j Hj. apply F1.
        intro Z. apply (D3 j Z). apply in_flat_map. exists q. split; assumption.
  Qed.

  Lemma all_refines : forall p, refines p.
  Proof.
    apply psel_ind'.
    - intros al nm ids ds sub HF o st hs st' hs' H Hd. simpl in H. simpl.
      destruct (field_def o nm) as [ft|]; [|injection H as <- <-; reflexivity].
      destruct (hnorm_args st hs o nm ids) as [st1 hs1] eqn:E1.
      simpl in Hd. destruct (NoDup_app_disj _ _ _ Hd) as [D1 [D2 D3]].
      rewrite (hnorm_args_refines _ _ _ _ _ _ _ E1 D1).
      destruct (hnorm_args_writes value_eqb cval_eqb synth_name arg_ty coerce lit_valid var_coerce taken _ _ _ _ _ _ _ E1) as [_ F1].
      assert (Sub1 : map (read_sel (h_heap hs1)) sub = map (read_sel (h_heap hs)) sub).
      { apply map_ext_in. intros q Hq. apply read_sel_frame. intros j Hj. apply F1.
        intro Z. apply (D3 j Z). apply in_flat_map. exists q. split; assumption. }
      destruct ft as [o'|].
      + pose proof (hwalk_list_refines o' sub HF _ _ _ _ H D2) as R2. rewrite Sub1 in R2. rewrite R2.
        assert (HW : Forall writes_within sub) by (apply Forall_forall; intros q _; apply all_writes_within).
        destruct (hwalk_list_writes value_eqb cval_eqb synth_name field_def arg_ty tc_obj coerce lit_valid var_coerce taken o' sub HW _ _ _ _ H) as [_ F2].
        f_equal. f_equal. apply map_ext_in. intros j Hj. symmetry. apply F2. apply D3. exact Hj.
      + injection H as <- <-. rewrite Sub1. reflexivity.
    - intros tc ds sub HF o st hs st' hs' H Hd. simpl in H. simpl. simpl in Hd.
      rewrite (hwalk_list_refines _ sub HF _ _ _ _ H Hd). reflexivity.
    - intros f ds o st hs st' hs' H Hd. simpl in H. injection H as <- <-. reflexivity.
  Qed.

  Lemma existsb_map : forall (A B : Type) (f : B -> bool) (g : A -> B) l, existsb f (map g l) = existsb (fun x => f (g x)) l.
  Proof. induction l; simpl; [reflexivity|rewrite IHl; reflexivity]. Qed.

  Lemma spreads_read : forall (h : @heap L) (p : psel), spreads (read_sel h p) = pspreads p.
  Proof.
    intros h p. pattern p. apply psel_ind'; clear p.
    - intros al nm ids ds sub HF. simpl. rewrite existsb_map. 
      induction HF as [|x xs Hx _ IH]; simpl; [reflexivity|rewrite Hx, IH; reflexivity].
    - intros tc ds sub HF. simpl. rewrite existsb_map.
      induction HF as [|x xs Hx _ IH]; simpl; [reflexivity|rewrite Hx, IH; reflexivity].
    - reflexivity.
  Qed.

  (* the code's normalizeDocument, on cells, computes the functional normalisation of the caller's document *)
  Lemma hnormalize_refines : forall root (hs : hst) (ps : list psel) st hs' ps',
    hnormalize root hs ps = (st, hs', ps') -> Forall (fun i => i < h_next hs) (flat_map pids ps) ->
    normalize root (map (read_sel (h_heap hs)) ps) = (st, map (read_sel (h_heap hs')) ps').
  Proof.
    intros root hs ps st hs' ps' H Hb. unfold NormalizeHeap.hnormalize in H. unfold Normalize.normalize.
    destruct (thread_list clone_sel hs ps) as [hs1 ps1] eqn:E1.
    assert (HF : Forall clone_good ps) by (apply Forall_forall; intros p _; apply all_clone_good).
    destruct (clone_list_ok ps HF _ _ _ E1 Hb) as [_ [_ [[_ ND] [R1 S1]]]].
    assert (SP : existsb spreads (map (read_sel (h_heap hs)) ps) = existsb pspreads ps1).
    { rewrite existsb_map. transitivity (existsb pspreads ps).
      - clear. induction ps as [|x xs IH]; simpl; [reflexivity|rewrite spreads_read, IH; reflexivity].
      - clear -S1. revert ps1 S1. induction ps as [|x xs IH]; intros [|y ys] S1; simpl in *; try discriminate; [reflexivity|].
        injection S1 as E1 E2. rewrite E1, (IH _ E2). reflexivity. }
    rewrite SP. destruct (existsb pspreads ps1).
    - injection H as <- <- <-. rewrite R1. reflexivity.
    - destruct (hwalk_list (hnorm_sel root) n_init hs1 ps1) as [st2 hs2] eqn:E2. injection H as <- <- <-.
      assert (HR : Forall refines ps1) by (apply Forall_forall; intros p _; apply all_refines).
      rewrite <- R1. apply (hwalk_list_refines root ps1 HR _ _ _ _ E2 ND).
  Qed.
End Refine.
