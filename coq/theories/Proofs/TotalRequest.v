(* C09: the reference executor terminates on every request whose document passes
   the through-field fragment-cycle check, for every oracle, within the fuel
   [request_bound S D inputs] (Total/RequestBound.v).

   Structure.
   - The executor has the level structure of [walk] (Proofs/TotalWalk.v): a level
     is the merged CollectFields of the sub-selections of one response key; the
     measure m of TotalWalk decreases from a level to the next.
   - Two more invariants of the collected groups: every field node met is a field
     node of the document (so its argument list is at most [doc_args_depth D] deep),
     and the response keys of a level are pairwise different keys of field nodes of
     the document (so a level has at most [doc_size D] groups).
   - [val] / [fval]: the values under construction, indexed by the measure of the
     level and the List wrappers left, so that the dethunk pass is bounded too.
   - The main lemma is an induction on the fuel. *)
From Coq Require Import List Arith NArith String Bool Lia.
From GQL Require Import Exec.Syntax Exec.Coerce Exec.Exec Exec.Request
     Total.CollectBound Total.FragCycle Total.PlanWalk Total.CoerceBound Total.RequestBound
     Proofs.TotalFragCycle Proofs.TotalCoerce Proofs.TotalWalk Proofs.TotalDethunk.
Import ListNotations.
Open Scope list_scope.

Local Opaque fragment_matches included.

(* ------------------------------------------------------------------ *)
(* field nodes of sub-terms                                             *)
Definition key_of (al : option name) (nm : name) : name :=
  match al with Some a => a | None => nm end.

Lemma sels_fields_cons : forall x r, sels_fields (x :: r) = sel_fields x ++ sels_fields r.
Proof. reflexivity. Qed.

Lemma sel_fields_field : forall id al nm args ds sub,
    sel_fields (SField id al nm args ds sub) = (key_of al nm, args) :: sels_fields sub.
Proof. reflexivity. Qed.

Lemma sel_fields_inline : forall id tc ds sub,
    sel_fields (SInline id tc ds sub) = sels_fields sub.
Proof. reflexivity. Qed.

Lemma sels_fields_length_forall : forall sub,
    Forall (fun s => List.length (sel_fields s) <= sel_size s) sub ->
    List.length (sels_fields sub) <= list_sum (map sel_size sub).
Proof.
  intros sub H. induction H as [|x r Hx Hr IHr].
  - simpl. lia.
  - rewrite sels_fields_cons, app_length. simpl. lia.
Qed.

Lemma sel_fields_length : forall s, List.length (sel_fields s) <= sel_size s.
Proof.
  induction s as [id al nm args ds sub IH | id nm ds | id tc ds sub IH] using selection_ind'.
  - rewrite sel_fields_field. pose proof (sels_fields_length_forall sub IH). simpl. lia.
  - simpl. lia.
  - rewrite sel_fields_inline. pose proof (sels_fields_length_forall sub IH). simpl. lia.
Qed.

Lemma sels_fields_length : forall sels, List.length (sels_fields sels) <= sels_size sels.
Proof.
  intros sels. apply sels_fields_length_forall. apply Forall_forall. intros s _.
  apply sel_fields_length.
Qed.

Lemma flat_map_length_le :
  forall (A B : Type) (f : A -> list B) (sz : A -> nat) (l : list A),
    (forall x, List.length (f x) <= sz x) ->
    List.length (flat_map f l) <= list_sum (map sz l).
Proof.
  intros A B f sz l H. induction l as [|x r IH]; simpl; [lia|].
  rewrite app_length. specialize (H x). lia.
Qed.

Lemma doc_fields_length : forall D, List.length (doc_fields D) <= doc_size D.
Proof.
  intros D. unfold doc_fields, doc_size. rewrite app_length.
  pose proof (flat_map_length_le _ _ (fun o => sels_fields (o_sel o)) (fun o => sels_size (o_sel o))
                                 (d_ops D) (fun o => sels_fields_length (o_sel o))).
  pose proof (flat_map_length_le _ _ (fun f => sels_fields (fr_sel f)) (fun f => sels_size (fr_sel f))
                                 (d_frags D) (fun f => sels_fields_length (fr_sel f))).
  lia.
Qed.

(* ------------------------------------------------------------------ *)
(* a second invariant of collect: on whole occurrences and on the keys  *)
Section CollectInv2.
  Variable D : document.
  Variable L : list selection -> Prop.      (* the levels collect steps through *)
  Variable keys : list name.
  Variable PO : occ -> Prop.

  Hypothesis L_tail : forall x rest, L (x :: rest) -> L rest.
  Hypothesis L_field : forall id al nm args ds sub rest,
      L (SField id al nm args ds sub :: rest) ->
      In (key_of al nm) keys
      /\ PO {| oc_id := id; oc_name := nm; oc_args := args; oc_sub := sub |}.
  Hypothesis L_inline : forall id tc ds sub rest, L (SInline id tc ds sub :: rest) -> L sub.
  Hypothesis L_spread : forall id nm ds rest f,
      L (SSpread id nm ds :: rest) -> find_fragment nm (d_frags D) = Some f -> L (fr_sel f).

  Definition ginv (g : groups) : Prop :=
    NoDup (map fst g)
    /\ Forall (fun kv : name * list occ =>
                 In (fst kv) keys /\ snd kv <> [] /\ Forall PO (snd kv)) g.

  Lemma add_occ_keys : forall k o g x,
      In x (map fst (add_occ k o g)) -> x = k \/ In x (map fst g).
  Proof.
    intros k o g x. induction g as [|[k' os] r IH]; simpl; intros Hin.
    - destruct Hin as [Heq | []]. left; symmetry; exact Heq.
    - destruct (String.eqb k k') eqn:E; simpl in Hin.
      + right. exact Hin.
      + destruct Hin as [Heq | Hin]; [right; left; exact Heq|].
        destruct (IH Hin) as [Hk | Hr]; [left; exact Hk | right; right; exact Hr].
  Qed.

  Lemma add_occ_inv : forall k o g, In k keys -> PO o -> ginv g -> ginv (add_occ k o g).
  Proof.
    intros k o g Hk Ho. induction g as [|[k' os] r IH]; intros [Hnd Hall]; simpl.
    - split.
      + simpl. constructor; [intros [] | constructor].
      + constructor; [| constructor]. simpl. split; [exact Hk|]. split; [discriminate|].
        constructor; [exact Ho | constructor].
    - inversion Hall as [|kv l Hkv Hr]; subst. simpl in Hnd.
      inversion Hnd as [|a l Hnotin Hnd']; subst.
      destruct (String.eqb k k') eqn:E.
      + split.
        * simpl. exact Hnd.
        * constructor; [| exact Hr]. simpl in *. destruct Hkv as [H1 [H2 H3]].
          split; [exact H1|]. split.
          -- destruct os; discriminate.
          -- apply Forall_app. split; [exact H3|]. constructor; [exact Ho | constructor].
      + destruct (IH (conj Hnd' Hr)) as [Hnd2 Hall2]. split.
        * simpl. constructor; [| exact Hnd2].
          intros Hin. destruct (add_occ_keys _ _ _ _ Hin) as [Heq | Hin'].
          -- subst k'. rewrite String.eqb_refl in E. discriminate.
          -- apply Hnotin; exact Hin'.
        * constructor; [exact Hkv | exact Hall2].
  Qed.

  Lemma collect_inv2 :
    forall fuel Sc vars obj sels visited g g' v',
      L sels -> ginv g ->
      collect fuel Sc D vars obj sels visited g = Some (g', v') -> ginv g'.
  Proof.
    induction fuel as [|fuel IH]; intros Sc vars obj sels visited g g' v' Hl Hg Hc.
    - simpl in Hc. discriminate.
    - destruct sels as [|s rest].
      + simpl in Hc. inversion Hc; subst. exact Hg.
      + pose proof (L_tail _ _ Hl) as Hrest.
        destruct s as [id al nm args ds sub | id nm ds | id tc ds sub]; simpl in Hc.
        * destruct (included Sc ds vars).
          -- eapply IH; [exact Hrest | | exact Hc].
             destruct (L_field _ _ _ _ _ _ _ Hl) as [Hk Ho].
             apply add_occ_inv; [exact Hk | exact Ho | exact Hg].
          -- eapply IH; [exact Hrest | exact Hg | exact Hc].
        * destruct (included Sc ds vars && negb (nmem nm visited));
            [| eapply IH; [exact Hrest | exact Hg | exact Hc]].
          destruct (find_fragment nm (d_frags D)) as [f|] eqn:Hfind;
            [| eapply IH; [exact Hrest | exact Hg | exact Hc]].
          destruct (fragment_matches Sc (Some (fr_cond f)) obj);
            [| eapply IH; [exact Hrest | exact Hg | exact Hc]].
          destruct (collect fuel Sc D vars obj (fr_sel f) (nm :: visited) g) as [[g1 v1]|] eqn:E1;
            [| discriminate].
          assert (Hg1 : ginv g1).
          { eapply IH; [| exact Hg | exact E1]. eapply L_spread; [exact Hl | exact Hfind]. }
          eapply IH; [exact Hrest | exact Hg1 | exact Hc].
        * destruct (included Sc ds vars && fragment_matches Sc tc obj);
            [| eapply IH; [exact Hrest | exact Hg | exact Hc]].
          destruct (collect fuel Sc D vars obj sub visited g) as [[g1 v1]|] eqn:E1;
            [| discriminate].
          assert (Hg1 : ginv g1).
          { eapply IH; [| exact Hg | exact E1]. eapply L_inline; exact Hl. }
          eapply IH; [exact Hrest | exact Hg1 | exact Hc].
  Qed.

  Lemma collect_all_inv2 :
    forall fuel Sc vars obj sets visited g g',
      Forall L sets -> ginv g ->
      collect_all fuel Sc D vars obj sets visited g = Some g' -> ginv g'.
  Proof.
    intros fuel Sc vars obj sets. induction sets as [|s r IH]; intros visited g g' Hsets Hg Hc;
      simpl in Hc.
    - inversion Hc; subst. exact Hg.
    - inversion Hsets as [|s0 r0 Hl Hr]; subst.
      destruct (collect fuel Sc D vars obj s visited g) as [[g1 v1]|] eqn:E1; [| discriminate].
      eapply IH; [exact Hr | | exact Hc]. eapply collect_inv2; [exact Hl | exact Hg | exact E1].
  Qed.

  Lemma ginv_nil : ginv [].
  Proof. split; constructor. Qed.

  Lemma ginv_length : forall g, ginv g -> List.length g <= List.length keys.
  Proof.
    intros g [Hnd Hall]. rewrite <- (map_length fst g).
    apply NoDup_incl_length; [exact Hnd|].
    intros x Hx. apply in_map_iff in Hx. destruct Hx as [kv [Heq Hin]]. subst x.
    rewrite Forall_forall in Hall. destruct (Hall kv Hin) as [Hk _]. exact Hk.
  Qed.
End CollectInv2.

(* ------------------------------------------------------------------ *)
(* the levels of the executor                                           *)
Section Levels.
  Variable D : document.
  Variable rk : name -> nat.
  Hypothesis Hrk : rank_respected D rk.

  Let dd := doc_args_depth D.
  Let keys := map fst (doc_fields D).

  (* every field node inside is a field node of the document *)
  Definition small (sels : list selection) : Prop := incl (sels_fields sels) (doc_fields D).

  Lemma small_op : forall op, In op (d_ops D) -> small (o_sel op).
  Proof.
    intros op Hop x Hx. unfold doc_fields. apply in_or_app. left.
    apply in_flat_map. exists op. split; assumption.
  Qed.

  Lemma small_frag : forall f, In f (d_frags D) -> small (fr_sel f).
  Proof.
    intros f Hf x Hx. unfold doc_fields. apply in_or_app. right.
    apply in_flat_map. exists f. split; assumption.
  Qed.

  Lemma small_tail : forall x rest, small (x :: rest) -> small rest.
  Proof.
    intros x rest H y Hy. apply H. rewrite sels_fields_cons. apply in_or_app. right; exact Hy.
  Qed.

  Lemma small_field : forall id al nm args ds sub rest,
      small (SField id al nm args ds sub :: rest) ->
      In (key_of al nm, args) (doc_fields D) /\ small sub.
  Proof.
    intros id al nm args ds sub rest H. split.
    - apply H. rewrite sels_fields_cons, sel_fields_field. left; reflexivity.
    - intros y Hy. apply H. rewrite sels_fields_cons, sel_fields_field.
      right. apply in_or_app. left; exact Hy.
  Qed.

  Lemma small_inline : forall id tc ds sub rest, small (SInline id tc ds sub :: rest) -> small sub.
  Proof.
    intros id tc ds sub rest H y Hy. apply H. rewrite sels_fields_cons, sel_fields_inline.
    apply in_or_app. left; exact Hy.
  Qed.

  Lemma doc_field_depth : forall k args, In (k, args) (doc_fields D) -> args_depth args <= dd.
  Proof.
    intros k args Hin.
    exact (list_max_in _ (fun ka : name * list (name * value) => args_depth (snd ka))
                       (doc_fields D) (k, args) Hin).
  Qed.

  (* a level of measure m and the occurrences it yields *)
  Definition Lm (m : nat) (sels : list selection) : Prop :=
    lvls (Qm D rk m) (Pm D rk m) sels /\ small sels.

  Definition POm (m : nat) (o : occ) : Prop :=
    Pm D rk m (oc_sub o) /\ args_depth (oc_args o) <= dd /\ small (oc_sub o).

  Definition Gm (m : nat) (g : groups) : Prop := ginv keys (POm m) g.

  Lemma Lm_tail : forall m x rest, Lm m (x :: rest) -> Lm m rest.
  Proof.
    intros m x rest [H1 H2]. split; [eapply lvls_tail; exact H1 | eapply small_tail; exact H2].
  Qed.

  Lemma Lm_field : forall m id al nm args ds sub rest,
      Lm m (SField id al nm args ds sub :: rest) ->
      In (key_of al nm) keys
      /\ POm m {| oc_id := id; oc_name := nm; oc_args := args; oc_sub := sub |}.
  Proof.
    intros m id al nm args ds sub rest [H1 H2].
    destruct (small_field _ _ _ _ _ _ _ H2) as [Hin Hsub]. split.
    - unfold keys. change (key_of al nm) with (fst (key_of al nm, args)).
      apply in_map; exact Hin.
    - unfold POm; simpl. split; [eapply lvls_field; exact H1|].
      split; [eapply doc_field_depth; exact Hin | exact Hsub].
  Qed.

  Lemma Lm_inline : forall m id tc ds sub rest, Lm m (SInline id tc ds sub :: rest) -> Lm m sub.
  Proof.
    intros m id tc ds sub rest [H1 H2].
    split; [eapply lvls_inline; exact H1 | eapply small_inline; exact H2].
  Qed.

  Lemma Lm_spread : forall m id nm ds rest f,
      Lm m (SSpread id nm ds :: rest) -> find_fragment nm (d_frags D) = Some f -> Lm m (fr_sel f).
  Proof.
    intros m id nm ds rest f [H1 H2] Hfind. split.
    - apply (frag_closed D rk Hrk m nm f); [eapply lvls_spread; exact H1 | exact Hfind].
    - apply small_frag. destruct (find_fragment_in _ _ _ Hfind) as [Hin _]. exact Hin.
  Qed.

  Definition set_ok (m : nat) (s : list selection) : Prop :=
    state D rk m s /\ sized D s /\ small s.

  (* one merged CollectFields of a level of measure m *)
  Lemma level_groups :
    forall Sc vars fuel m obj sets,
      Forall (set_ok m) sets -> doc_size D + 1 <= fuel ->
      exists g, collect_all fuel Sc D vars obj sets [] [] = Some g /\ Gm m g.
  Proof.
    intros Sc vars fuel m obj sets Hsets Hfuel.
    destruct (walk_level Sc D vars rk Hrk fuel m obj sets) as [g [Eg _]].
    - apply Forall_forall. intros s Hs. rewrite Forall_forall in Hsets.
      destruct (Hsets s Hs) as [H1 [H2 _]]. split; assumption.
    - exact Hfuel.
    - exists g. split; [exact Eg|].
      apply (collect_all_inv2 D (Lm m) keys (POm m) (Lm_tail m) (Lm_field m) (Lm_inline m) (Lm_spread m)
                              fuel Sc vars obj sets [] [] g); [| apply ginv_nil | exact Eg].
      apply Forall_forall. intros s Hs. rewrite Forall_forall in Hsets.
      destruct (Hsets s Hs) as [H1 [H2 H3]]. split; [apply state_lvls; assumption | exact H3].
  Qed.

  Lemma Gm_length : forall m g, Gm m g -> List.length g <= doc_size D.
  Proof.
    intros m g Hg. pose proof (ginv_length keys (POm m) g Hg) as H.
    unfold keys in H. rewrite map_length in H. pose proof (doc_fields_length D). lia.
  Qed.

  (* the occurrences of one response key, seen from the next level *)
  Definition occs_ok (m' : nat) (occs : list occ) : Prop :=
    Forall (fun o => set_ok m' (oc_sub o)) occs.

  Lemma occs_ok_sets : forall m' occs, occs_ok m' occs -> Forall (set_ok m') (map oc_sub occs).
  Proof.
    intros m' occs H. apply Forall_forall. intros s Hs. apply in_map_iff in Hs.
    destruct Hs as [o [Ho Hin]]. subst s. unfold occs_ok in H. rewrite Forall_forall in H.
    apply H; exact Hin.
  Qed.

  Lemma Gm_cons : forall m k occs rest,
      Gm m ((k, occs) :: rest) ->
      Gm m rest
      /\ exists m', m = S m' /\ occs_ok m' occs
                    /\ args_depth (match occs with o :: _ => oc_args o | [] => [] end) <= dd.
  Proof.
    intros m k occs rest [Hnd Hall]. inversion Hall as [|kv l [_ [Hne Hpo]] Hr]; subst.
    simpl in Hnd. inversion Hnd as [|a l _ Hnd']; subst. split; [split; assumption|].
    simpl in Hne, Hpo. destruct occs as [|o r]; [congruence|].
    inversion Hpo as [|o0 r0 [[Hm _] [Ha _]] _]; subst.
    destruct m as [|m']; [lia|]. exists m'. split; [reflexivity|]. split; [| exact Ha].
    unfold occs_ok. apply Forall_forall. intros o' Ho'. rewrite Forall_forall in Hpo.
    destruct (Hpo o' Ho') as [[_ [Hst Hsz]] [_ Hsm]].
    replace (S m' - 1) with m' in Hst by lia. split; [exact Hst|]. split; assumption.
  Qed.
End Levels.

(* ------------------------------------------------------------------ *)
(* results that are not out of fuel and whose value satisfies P         *)
Definition okx {A : Type} (P : A -> Prop) (r : xres A) : Prop :=
  match r with
  | XOk a _ => P a
  | XRaise _ _ => True
  | XFuel => False
  end.

Lemma okx_mono : forall (A : Type) (P Q : A -> Prop) r,
    (forall a, P a -> Q a) -> okx P r -> okx Q r.
Proof. intros A P Q r H Hr. destruct r; simpl in *; auto. Qed.

Lemma okx_nofuel : forall (A : Type) (P : A -> Prop) r, okx P r -> r <> XFuel.
Proof. intros A P r H Heq. subst r. exact H. Qed.

Lemma okx_catch : forall (P : presp -> Prop) t r, P QNull -> okx P r -> okx P (catch_at t r).
Proof.
  intros P t r Hn Hr. destruct r as [q s|e s|]; simpl in *; auto.
  destruct (is_nonnull t); simpl; auto.
Qed.

Lemma okx_items : forall (P : presp -> Prop) cmp l i s,
    (forall i x s, okx P (cmp i x s)) -> okx (Forall P) (items_loop cmp l i s).
Proof.
  intros P cmp l. induction l as [|x r IH]; intros i s H; simpl.
  - constructor.
  - pose proof (H i x s) as Hx. destruct (cmp i x s) as [y s1|e s1|]; simpl in *; auto.
    specialize (IH (i + 1)%N s1 H).
    destruct (items_loop cmp r (i + 1)%N s1) as [ys s2|e s2|]; simpl in *; auto.
Qed.

Lemma okx_dlist : forall (P Q : presp -> Prop) f l s,
    (forall x s, P x -> okx Q (f x s)) -> Forall P l -> okx (Forall Q) (Exec.dethunk_list f l s).
Proof.
  intros P Q f l. induction l as [|x r IH]; intros s H Hl; simpl.
  - constructor.
  - inversion Hl as [|x0 r0 Hx Hr]; subst.
    pose proof (H x s Hx) as Hfx. destruct (f x s) as [y s1|e s1|]; simpl in *; auto.
    specialize (IH s1 H Hr).
    destruct (Exec.dethunk_list f r s1) as [ys s2|e s2|]; simpl in *; auto.
Qed.

Lemma okx_dfields : forall (P Q : presp -> Prop) f l s,
    (forall x s, P x -> okx Q (f x s)) ->
    Forall (fun kv : name * presp => P (snd kv)) l ->
    okx (Forall (fun kv : name * presp => Q (snd kv))) (Exec.dethunk_fields f l s).
Proof.
  intros P Q f l. induction l as [|[k x] r IH]; intros s H Hl; simpl.
  - constructor.
  - inversion Hl as [|x0 r0 Hx Hr]; subst. simpl in Hx.
    pose proof (H x s Hx) as Hfx. destruct (f x s) as [y s1|e s1|]; simpl in *; auto.
    specialize (IH s1 H Hr).
    destruct (Exec.dethunk_fields f r s1) as [ys s2|e s2|]; simpl in *; auto.
Qed.

(* List wrappers of a type reference *)
Fixpoint list_depth (t : tyref) : nat :=
  match t with
  | TNamed _ => 0
  | TList t' => S (list_depth t')
  | TNonNull t' => list_depth t'
  end.

Lemma list_depth_lt : forall t, list_depth t < ty_size t.
Proof. induction t; simpl; lia. Qed.

(* operations *)
Lemma find_op_in : forall n ops acc o,
    find_op n ops acc = Some o -> In o ops \/ acc = Some o.
Proof.
  intros n ops. induction ops as [|x r IH]; intros acc o H; simpl in H.
  - right; exact H.
  - destruct (IH _ _ H) as [Hin | Hacc].
    + left; right; exact Hin.
    + destruct (o_name x) as [m|]; [| right; exact Hacc].
      destruct (String.eqb m n); [| right; exact Hacc].
      inversion Hacc; subst. left; left; reflexivity.
Qed.

Lemma get_operation_in : forall D op o, get_operation D op = Some o -> In o (d_ops D).
Proof.
  intros D op o H. unfold get_operation in H. destruct op as [n|].
  - destruct (find_op_in _ _ _ _ H) as [Hin | Hacc]; [exact Hin | discriminate].
  - destruct (d_ops D) as [|x [|y r]]; try discriminate. inversion H; subst. left; reflexivity.
Qed.

(* ------------------------------------------------------------------ *)
(* the executor                                                         *)
Section Main.
  Variable Sc : schema.
  Variable D : document.
  Variable rk : name -> nat.
  Hypothesis Hrk : rank_respected D rk.

  Definition W0 : nat := out_width Sc.
  Definition A0 : nat := coerce_bound (in_width Sc) (doc_args_depth D).
  Definition C0 : nat := doc_size D + 1.
  Definition K0 : nat := doc_size D.
  Definition U0 : nat := level_unit Sc D.

  Lemma U0_eq : U0 = K0 + A0 + W0 + C0 + 4.
  Proof. reflexivity. Qed.

  (* budget of everything below a level of measure m *)
  Definition T (m : nat) : nat := (m + 1) * U0.

  Lemma T_0 : T 0 = U0.
  Proof. unfold T. lia. Qed.
  Lemma T_S : forall m, T (S m) = T m + U0.
  Proof. intros m. unfold T. lia. Qed.

  (* fuel of one field of a level, of the dethunk pass on a value and on a field value *)
  Definition XF (m : nat) : nat :=
    match m with 0 => 0 | S m' => A0 + W0 + C0 + 3 + T m' end.
  Definition DV (m w : nat) : nat :=
    w + 1 + match m with 0 => 0 | S m' => T m' end.
  Definition DF (m : nat) : nat :=
    match m with 0 => W0 + 1 | S m' => W0 + C0 + 3 + T m' end.

  Lemma DF_le_T : forall m, DF m <= T m.
  Proof.
    intros [|m']; simpl; [rewrite T_0 | rewrite T_S]; rewrite U0_eq; lia.
  Qed.

  Lemma NG_le_T : forall m, K0 + 1 + XF m <= T m.
  Proof.
    intros [|m']; simpl; [rewrite T_0 | rewrite T_S]; rewrite U0_eq; lia.
  Qed.

  Lemma DV_le_DF : forall m w, w <= W0 -> DV m w <= DF m.
  Proof. intros [|m'] w Hw; unfold DV, DF; lia. Qed.

  (* values under construction *)
  Inductive val : nat -> nat -> presp -> Prop :=
  | val_null : forall m w, val m w QNull
  | val_leaf : forall m w v, val m w (QLeaf v)
  | val_list : forall m w l, Forall (val m w) l -> val m (S w) (QList l)
  | val_obj : forall m w fs,
      Forall (fun kv : name * presp => fval m (snd kv)) fs -> val (S m) w (QObj fs)
  with fval : nat -> presp -> Prop :=
  | fval_val : forall m w q, w <= W0 -> val m w q -> fval m q
  | fval_thunk : forall m' t nodes occs p o,
      ty_size t <= W0 -> occs_ok D rk m' occs -> fval (S m') (QThunk t nodes occs p o).

  Definition env_ok (E : env) : Prop := en_S E = Sc /\ en_D E = D.

  Definition P_complete (fuel : nat) : Prop :=
    forall E m' t nodes occs fpath p v s,
      env_ok E -> occs_ok D rk m' occs -> ty_size t + 1 + C0 + T m' <= fuel ->
      okx (val (S m') (list_depth t)) (complete fuel E t nodes occs fpath p v s).

  Definition P_object (fuel : nat) : Prop :=
    forall E m' obj occs p src s,
      env_ok E -> occs_ok D rk m' occs -> 1 + C0 + T m' <= fuel ->
      okx (fun q => forall w, val (S m') w q) (exec_object fuel E obj occs p src s).

  Definition P_groups (fuel : nat) : Prop :=
    forall E m obj src g p s,
      env_ok E -> Gm D rk m g -> List.length g + 1 + XF m <= fuel ->
      okx (Forall (fun kv : name * presp => fval m (snd kv))) (exec_groups fuel E obj src g p s).

  Definition P_dv (fuel : nat) : Prop :=
    forall E m w q s,
      env_ok E -> val m w q -> DV m w <= fuel -> okx (val m w) (dethunk fuel E q s).

  Definition P_df (fuel : nat) : Prop :=
    forall E m q s,
      env_ok E -> fval m q -> DF m <= fuel -> okx (fval m) (dethunk fuel E q s).

  Lemma step_complete : forall fuel, P_complete fuel -> P_object fuel -> P_complete (S fuel).
  Proof.
    intros fuel IHc IHo E m' t nodes occs fpath p v s HE Hocc Hf.
    rewrite complete_S. destruct t as [n | t' | t']; simpl in Hf; simpl list_depth.
    - destruct (rv_nullish v); [simpl; constructor|].
      unfold complete_named.
      assert (Hobj : forall rt s1, okx (val (S m') 0) (exec_object fuel E rt occs p v s1)).
      { intros rt s1. eapply okx_mono; [| apply (IHo E m' rt occs p v s1 HE Hocc); lia].
        intros a Ha. apply Ha. }
      destruct (lookup_type (en_S E) n) as [[k|vals|fs ifs|fs|ms|fs]|]; simpl.
      + destruct (nullish _); constructor.
      + destruct (nullish _); constructor.
      + apply Hobj.
      + destruct (en_tor E v) as [rt|]; [| exact I].
        destruct (possible_type (en_S E) n rt); [apply Hobj | exact I].
      + destruct (en_tor E v) as [rt|]; [| exact I].
        destruct (possible_type (en_S E) n rt); [apply Hobj | exact I].
      + exact I.
      + exact I.
    - destruct (rv_nullish v); [simpl; constructor|].
      destruct v; try exact I.
      assert (Hit : okx (Forall (val (S m') (list_depth t')))
                        (complete_items fuel E t' nodes occs fpath p l 0%N s)).
      { unfold complete_items. apply okx_items. intros i x s0. apply okx_catch; [constructor|].
        apply IHc; [exact HE | exact Hocc | lia]. }
      destruct (complete_items fuel E t' nodes occs fpath p l 0%N s) as [ys s1|e s1|];
        simpl in *; [constructor; exact Hit | exact I | contradiction].
    - assert (Hc : okx (val (S m') (list_depth t')) (complete fuel E t' nodes occs fpath p v s)).
      { apply IHc; [exact HE | exact Hocc | lia]. }
      destruct (complete fuel E t' nodes occs fpath p v s) as [q s1|e s1|]; simpl in *;
        [| exact I | contradiction].
      destruct q; simpl; auto.
  Qed.

  Lemma step_object : forall fuel, P_groups fuel -> P_object (S fuel).
  Proof.
    intros fuel IHg E m' obj occs p src s HE Hocc Hf.
    rewrite exec_object_S. destruct HE as [HS HD]. rewrite HS, HD.
    destruct (level_groups D rk Hrk Sc (en_vars E) fuel m' obj (map oc_sub occs)) as [g [Eg Hg]].
    - apply occs_ok_sets; exact Hocc.
    - unfold C0 in Hf. lia.
    - rewrite Eg.
      assert (Hx : okx (Forall (fun kv : name * presp => fval m' (snd kv)))
                       (exec_groups fuel E obj src g p s)).
      { apply IHg; [split; assumption | exact Hg |].
        pose proof (Gm_length D rk m' g Hg) as Hl. pose proof (NG_le_T m'). unfold K0 in *. lia. }
      destruct (exec_groups fuel E obj src g p s) as [fs s1|e s1|]; simpl in *;
        [| exact I | contradiction].
      intros w. constructor. exact Hx.
  Qed.

  Lemma step_field :
    forall fuel, P_complete fuel -> P_df fuel ->
      forall E m' obj src k occs p s,
        env_ok E -> occs_ok D rk m' occs ->
        args_depth (match occs with o :: _ => oc_args o | [] => [] end) <= doc_args_depth D ->
        XF (S m') <= fuel ->
        okx (fun y => match y with Some q => fval (S m') q | None => True end)
            (exec_field fuel E obj src k occs p s).
  Proof.
    intros fuel IHc IHd E m' obj src k occs p s HE Hocc Had Hf. simpl in Hf.
    unfold exec_field.
    destruct (String.eqb _ "__typename").
    { simpl. apply (fval_val _ 0); [lia | constructor]. }
    destruct HE as [HS HD].
    destruct (find_field _ (object_fields (en_S E) obj)) as [fd|] eqn:Hff; [| simpl; exact I].
    rewrite HS in Hff |- *.
    pose proof (find_field_arg_width Sc obj _ fd Hff) as Haw.
    pose proof (find_field_out_width Sc obj _ fd Hff) as How. fold W0 in How.
    pose proof (get_argument_values_terminates_uniform Sc (f_args fd)
                  (match occs with o :: _ => oc_args o | [] => [] end) (Some (en_vars E))
                  (in_width Sc) (doc_args_depth D) fuel Haw (le_n _) Had) as Hga.
    destruct (get_argument_values fuel Sc (f_args fd) _ (Some (en_vars E))) as [args|];
      [| exfalso; apply Hga; [unfold A0 in Hf; lia | reflexivity]].
    clear Hga.
    match goal with
    | |- okx _ (match field_serial fuel E p (catch_at _ ?fv) with _ => _ end) =>
      assert (Hfv : okx (fval (S m')) fv)
    end.
    { unfold field_value.
      destruct (snd (field_outcome E (p ++ [PKey k])) && negb (is_nonnull (f_type fd))).
      - simpl. constructor; [exact How | exact Hocc].
      - destruct (fst (field_outcome E (p ++ [PKey k]))) as [v| | | | | |]; simpl;
          try (destruct (snd (field_outcome E (p ++ [PKey k]))); exact I).
        match goal with
        | |- okx _ (match ?c with _ => _ end) =>
          assert (Hc : okx (val (S m') (list_depth (f_type fd))) c)
        end.
        { apply IHc; [split; assumption | exact Hocc | lia]. }
        match goal with
        | |- okx _ (match ?c with _ => _ end) => destruct c as [q s1|e s1|]
        end; simpl in *.
        + apply (fval_val _ (list_depth (f_type fd))); [| exact Hc].
          pose proof (list_depth_lt (f_type fd)). lia.
        + destruct (snd (field_outcome E (p ++ [PKey k]))); exact I.
        + contradiction. }
    match goal with
    | |- okx _ (match field_serial fuel E p ?c with _ => _ end) =>
      assert (Hca : okx (fval (S m')) c)
    end.
    { apply okx_catch; [apply (fval_val _ 0); [lia | constructor] | exact Hfv]. }
    match goal with
    | |- okx _ (match field_serial fuel E p ?c with _ => _ end) =>
      assert (Hse : okx (fval (S m')) (field_serial fuel E p c))
    end.
    { match goal with
      | |- okx _ (field_serial fuel E p ?c) => destruct c as [y s1|e s1|]
      end; simpl in *; [| exact I | contradiction].
      destruct (en_serial E && match p with [] => true | _ :: _ => false end); [| exact Hca].
      apply IHd; [split; assumption | exact Hca | simpl; lia]. }
    match goal with
    | |- okx _ (match ?c with _ => _ end) => destruct c as [y s1|e s1|]
    end; simpl in *; auto.
  Qed.

  Lemma step_groups : forall fuel, P_complete fuel -> P_df fuel -> P_groups fuel -> P_groups (S fuel).
  Proof.
    intros fuel IHc IHd IHg E m obj src g p s HE Hg Hf.
    rewrite exec_groups_S. destruct g as [|[k occs] rest]; [simpl; constructor|].
    destruct (Gm_cons D rk m k occs rest Hg) as [Hrest [m' [Hm [Hocc Had]]]]. subst m.
    simpl List.length in Hf.
    pose proof (step_field fuel IHc IHd E m' obj src k occs p s HE Hocc Had ltac:(lia)) as Hfld.
    destruct (exec_field fuel E obj src k occs p s) as [y s1|e s1|]; simpl in Hfld;
      [| exact I | contradiction].
    pose proof (IHg E (S m') obj src rest p s1 HE Hrest ltac:(lia)) as Hr.
    destruct (exec_groups fuel E obj src rest p s1) as [ys s2|e s2|]; simpl in *;
      [| exact I | contradiction].
    destruct y as [y|]; [constructor; [exact Hfld | exact Hr] | exact Hr].
  Qed.

  Lemma step_dv : forall fuel, P_dv fuel -> P_df fuel -> P_dv (S fuel).
  Proof.
    intros fuel IHv IHd E m w q s HE Hv Hf.
    rewrite dethunk_S. inversion Hv as [m0 w0 | m0 w0 v | m0 w0 l Hl | m0 w0 fs Hfs]; subst.
    - simpl. constructor.
    - simpl. constructor.
    - assert (Hx : okx (Forall (val m w0)) (dethunk_list fuel E l s)).
      { unfold dethunk_list. apply (okx_dlist (val m w0)); [| exact Hl].
        intros x s0 Hx. apply IHv; [exact HE | exact Hx | unfold DV in *; lia]. }
      destruct (dethunk_list fuel E l s) as [ys s1|e s1|]; simpl in *;
        [constructor; exact Hx | exact I | contradiction].
    - assert (Hx : okx (Forall (fun kv : name * presp => fval m0 (snd kv)))
                       (dethunk_fields fuel E fs s)).
      { unfold dethunk_fields. apply (okx_dfields (fval m0)); [| exact Hfs].
        intros x s0 Hx. apply IHd; [exact HE | exact Hx |].
        pose proof (DF_le_T m0). unfold DV in Hf. lia. }
      destruct (dethunk_fields fuel E fs s) as [ys s1|e s1|]; simpl in *;
        [constructor; exact Hx | exact I | contradiction].
  Qed.

  Lemma step_df : forall fuel, P_complete fuel -> P_dv fuel -> P_dv (S fuel) -> P_df (S fuel).
  Proof.
    intros fuel IHc IHv IHv' E m q s HE Hq Hf.
    inversion Hq as [m0 w q0 Hw Hv | m' t nodes occs p o Ht Hocc]; subst.
    - eapply okx_mono; [| apply (IHv' E m w q s HE Hv)].
      + intros a Ha. exact (fval_val m w a Hw Ha).
      + pose proof (DV_le_DF m w Hw). lia.
    - rewrite dethunk_S. simpl in Hf.
      match goal with
      | |- okx _ (match catch_at t ?c with _ => _ end) =>
        assert (Hc : okx (val (S m') (list_depth t)) (catch_at t c))
      end.
      { apply okx_catch; [constructor|]. destruct o; try exact I.
        apply IHc; [exact HE | exact Hocc | lia]. }
      match goal with
      | |- okx _ (match ?c with _ => _ end) => destruct c as [y s1|e s1|]
      end; simpl in *; [| exact I | contradiction].
      pose proof (list_depth_lt t) as Hld.
      eapply okx_mono; [| apply (IHv E (S m') (list_depth t) y s1 HE Hc); unfold DV; lia].
      intros a Ha. apply (fval_val _ (list_depth t)); [lia | exact Ha].
  Qed.

  Lemma exec_all : forall fuel,
      P_complete fuel /\ P_object fuel /\ P_groups fuel /\ P_dv fuel /\ P_df fuel.
  Proof.
    induction fuel as [|fuel [IHc [IHo [IHg [IHv IHd]]]]].
    - repeat split.
      + intros E m' t nodes occs fpath p v s _ _ Hf. lia.
      + intros E m' obj occs p src s _ _ Hf. lia.
      + intros E m obj src g p s _ _ Hf. lia.
      + intros E m w q s _ _ Hf. unfold DV in Hf. lia.
      + intros E m q s _ _ Hf. unfold DF, C0 in Hf. destruct m; lia.
    - pose proof (step_dv fuel IHv IHd) as Hv'.
      split; [apply step_complete; assumption|].
      split; [apply step_object; assumption|].
      split; [apply step_groups; assumption|].
      split; [exact Hv'|].
      apply step_df; assumption.
  Qed.
End Main.

(* ------------------------------------------------------------------ *)
(* the request                                                          *)
Lemma exec_bound_groups : forall Sc D, T Sc D (exec_levels D) <= exec_bound Sc D.
Proof. intros Sc D. unfold T, exec_bound, U0. nia. Qed.

Lemma exec_bound_dethunk : forall Sc D, 1 + T Sc D (exec_levels D) <= exec_bound Sc D.
Proof.
  intros Sc D. unfold T, exec_bound, U0, level_unit. nia.
Qed.

Lemma exec_bound_collect : forall Sc D, doc_size D + 1 <= exec_bound Sc D.
Proof. intros Sc D. unfold exec_bound, level_unit. nia. Qed.

Theorem request_total_rank :
  forall Sc D rk, rank_respected D rk -> (forall a, rk a <= max_rank D) ->
    forall op inputs root or tor fuel,
      request_bound Sc D inputs <= fuel ->
      request fuel Sc D op inputs root or tor <> RFuel.
Proof.
  intros Sc D rk Hrk HR op inputs root or tor fuel Hfuel.
  unfold request_bound in Hfuel. unfold request.
  destruct (get_operation D op) as [o|] eqn:Hop; [| discriminate].
  destruct (root_type Sc o) as [rt|]; [| discriminate].
  pose proof (get_operation_in D op o Hop) as Hin.
  pose proof (list_max_in _ (fun o => vars_bound Sc (o_vars o) inputs) (d_ops D) o Hin) as Hvb.
  simpl in Hvb.
  pose proof (get_variable_values_terminates Sc (o_vars o) inputs fuel ltac:(lia)) as Hgv.
  destruct (get_variable_values fuel Sc (o_vars o) inputs) as [[vars|b]|];
    [| discriminate | congruence].
  clear Hgv.
  pose proof (exec_bound_groups Sc D) as Hb1.
  pose proof (exec_bound_dethunk Sc D) as Hb2.
  pose proof (exec_bound_collect Sc D) as Hb3.
  set (M0 := exec_levels D) in *.
  destruct (level_groups D rk Hrk Sc vars fuel M0 rt [o_sel o]) as [g [Eg Hg]].
  - constructor; [| constructor]. split; [| split].
    + apply (op_state D rk (max_rank D) HR o Hin).
    + apply sized_op; exact Hin.
    + apply small_op; exact Hin.
  - lia.
  - simpl in Eg.
    destruct (collect fuel Sc D vars rt (o_sel o) [] []) as [[g' v']|]; [| discriminate].
    inversion Eg; subst g'. clear Eg.
    set (E := {| en_S := Sc; en_D := D; en_vars := vars; en_or := or; en_tor := tor;
                 en_serial := match o_kind o with OpMutation => true | _ => false end |}).
    assert (HE : env_ok Sc D E) by (split; reflexivity).
    destruct (exec_all Sc D rk Hrk fuel) as [_ [_ [IHg [IHv _]]]].
    pose proof (IHg E M0 rt root g [] st0 HE Hg) as Hx.
    assert (Hlen : List.length g + 1 + XF Sc D M0 <= fuel).
    { pose proof (Gm_length D rk M0 g Hg). pose proof (NG_le_T Sc D M0). unfold K0 in *. lia. }
    specialize (Hx Hlen).
    destruct (exec_groups fuel E rt root g [] st0) as [fs s1|e s1|]; simpl in Hx;
      [| discriminate | contradiction].
    pose proof (IHv E (S M0) 0 (QObj fs) s1 HE (val_obj Sc D rk M0 0 fs Hx)) as Hd.
    assert (Hdv : DV Sc D (S M0) 0 <= fuel) by (unfold DV; lia).
    specialize (Hd Hdv).
    destruct (dethunk fuel E (QObj fs) s1) as [q s2|e s2|]; simpl in Hd;
      [discriminate | discriminate | contradiction].
Qed.

Theorem request_total : forall S D op inputs root or tor,
    fragment_cycle_through_field D = false ->
    forall fuel, request_bound S D inputs <= fuel ->
    request fuel S D op inputs root or tor <> RFuel.
Proof.
  intros S D op inputs root or tor Hchk fuel Hfuel.
  destruct (cycle_check_bounded_rank D Hchk) as [rk [Hrk HR]].
  exact (request_total_rank S D rk Hrk HR op inputs root or tor fuel Hfuel).
Qed.

(* running with the bound itself as fuel gives a result *)
Corollary request_terminates : forall S D op inputs root or tor,
    fragment_cycle_through_field D = false ->
    exists r, request (request_bound S D inputs) S D op inputs root or tor = r /\ r <> RFuel.
Proof.
  intros S D op inputs root or tor Hchk. eexists. split; [reflexivity|].
  apply request_total; [exact Hchk | apply le_n].
Qed.

Print Assumptions request_total.
