(* Every entry of the type map built by NewSchema/AppendType is a definition
   that passed its constructor and lazy-initialisation checks, entered under
   its own name, and names are unique. *)
From Coq Require Import List NArith Bool Lia.
From GQL Require Import Base.Bytes Types.Schema Types.Consistent Proofs.TypesReduce.
Import ListNotations.
Open Scope N_scope.

Lemma bytes_eqb_refl : forall a, bytes_eqb a a = true.
Proof. intro a. apply bytes_eqb_eq. reflexivity. Qed.

Lemma tm_find_none : forall n tm, tm_find n tm = None -> ~ In n (map fst tm).
Proof.
  induction tm as [|[m i] r IH]; simpl; intros H; auto.
  destruct (bytes_eqb m n) eqn:E; try discriminate.
  intros [Hm|Hr].
  - subst. rewrite bytes_eqb_refl in E. discriminate.
  - exact (IH H Hr).
Qed.

Lemma tm_find_some : forall n tm i, tm_find n tm = Some i -> In (n, i) tm.
Proof.
  induction tm as [|[m j] r IH]; simpl; intros i H; try discriminate.
  destruct (bytes_eqb m n) eqn:E.
  - apply bytes_eqb_eq in E. inversion H; subst. left; reflexivity.
  - right. exact (IH i H).
Qed.

Lemma tm_find_in : forall tm n i, NoDup (map fst tm) -> In (n, i) tm -> tm_find n tm = Some i.
Proof.
  induction tm as [|[m j] r IH]; simpl; intros n i Hnd Hin; try contradiction.
  inversion Hnd as [|x l Hni Hnd']; subst.
  destruct Hin as [Heq|Hin].
  - inversion Heq; subst. rewrite bytes_eqb_refl. reflexivity.
  - destruct (bytes_eqb m n) eqn:E.
    + apply bytes_eqb_eq in E. subst. exfalso. apply Hni. apply (in_map fst) in Hin. exact Hin.
    + exact (IH n i Hnd' Hin).
Qed.

Definition tm_good (defs : list (N * tdef)) (tm : tmap) : Prop :=
  NoDup (map fst tm) /\
  forall n id, In (n, id) tm -> exists d, find_def defs id = Some d /\ def_name d = n /\ static_ok defs d.

Lemma tm_good_insert defs : forall tm id d,
  tm_good defs tm -> find_def defs id = Some d -> static_ok defs d -> tm_find (def_name d) tm = None ->
  tm_good defs ((def_name d, id) :: tm).
Proof.
  intros tm id d [Hnd Hall] Hd Hs Hf. split.
  - simpl. constructor; auto. apply tm_find_none; exact Hf.
  - intros n i [Heq|Hin].
    + inversion Heq; subst. exists d. auto.
    + exact (Hall n i Hin).
Qed.

Lemma tm_good_nil defs : tm_good defs [].
Proof. split; [constructor|intros n id []]. Qed.

Lemma new_schema_fuel_tm : forall fuel c sch, new_schema_fuel fuel c = OK sch ->
  s_defs sch = c_defs c /\ s_query sch = c_query c /\ s_mutation sch = c_mutation c
  /\ s_subscription sch = c_subscription c
  /\ fold_res (add_type (c_defs c) fuel) (initial_types c) [] = OK (s_tm sch)
  /\ check_implementations sch = true
  /\ (exists q, c_query c = Some q)
  /\ root_err (c_defs c) (c_query c) = false /\ root_err (c_defs c) (c_mutation c) = false
  /\ root_err (c_defs c) (c_subscription c) = false.
Proof.
  intros fuel c sch H. unfold new_schema_fuel in H.
  destruct (c_query c) as [q|] eqn:Eq; try discriminate.
  destruct (root_err (c_defs c) (Some q) || root_err (c_defs c) (c_mutation c) || root_err (c_defs c) (c_subscription c)) eqn:Er; try discriminate.
  destruct (existsb _ (c_dirs c)); try discriminate.
  destruct (fold_res _ _ _) as [tm| |] eqn:Ef; try discriminate.
  match type of H with (if ?b then _ else _) = _ => destruct b eqn:Ec end; try discriminate.
  inversion H; subst; simpl.
  apply orb_false_iff in Er. destruct Er as [Er Er3]. apply orb_false_iff in Er. destruct Er as [Er1 Er2].
  repeat split; auto. exists q; reflexivity.
Qed.

Lemma new_schema_fuel_good : forall fuel c sch, new_schema_fuel fuel c = OK sch -> tm_good (s_defs sch) (s_tm sch).
Proof.
  intros fuel c sch H. destruct (new_schema_fuel_tm _ _ _ H) as (Hd & _ & _ & _ & Hf & _).
  rewrite Hd.
  exact (add_types_inv (c_defs c) (tm_good (c_defs c)) (tm_good_insert (c_defs c)) fuel _ _ _ (tm_good_nil _) Hf).
Qed.

Lemma append_type_fuel_tm : forall fuel S t S', append_type_fuel fuel S t = OK S' ->
  s_defs S' = s_defs S /\ s_query S' = s_query S /\ s_mutation S' = s_mutation S /\ s_subscription S' = s_subscription S
  /\ add_type (s_defs S) fuel (s_tm S) t = OK (s_tm S') /\ check_implementations S' = true.
Proof.
  intros fuel S t S' H. unfold append_type_fuel in H.
  destruct (add_type _ _ _ _) as [tm| |] eqn:Ea; try discriminate.
  match type of H with (if ?b then _ else _) = _ => destruct b eqn:Ec end; try discriminate.
  inversion H; subst; simpl. repeat split; auto.
Qed.

Lemma append_type_fuel_good : forall fuel S t S', tm_good (s_defs S) (s_tm S) ->
  append_type_fuel fuel S t = OK S' -> tm_good (s_defs S') (s_tm S').
Proof.
  intros fuel S t S' Hg H. destruct (append_type_fuel_tm _ _ _ _ H) as (Hd & _ & _ & _ & Ha & _).
  rewrite Hd. exact (add_type_inv (s_defs S) _ (tm_good_insert _) fuel _ _ _ Hg Ha).
Qed.

(* a valid name survives the constructors only if it is legal *)
Lemma ctor_ok_valid_name : forall d, ctor_err d = false -> valid_name (def_name d) = true.
Proof.
  intros d H. destruct d; simpl in *;
    repeat (apply orb_false_iff in H; destruct H as [H ?]);
    apply negb_false_iff in H; exact H.
Qed.

Lemma view_names defs tm : map vt_name (map (fun e => VT (fst e) (snd e) (vdef_of defs (snd e))) tm) = map fst tm.
Proof. rewrite map_map. reflexivity. Qed.

Lemma good_unique_names : forall S, tm_good (s_defs S) (s_tm S) -> NoDup (map vt_name (v_types (view_of S))).
Proof. intros S [Hnd _]. unfold view_of; simpl. rewrite view_names. exact Hnd. Qed.

Lemma good_valid_names : forall S, tm_good (s_defs S) (s_tm S) ->
  forall vt, In vt (v_types (view_of S)) -> valid_name (vt_name vt) = true.
Proof.
  intros S [_ Hall] vt Hin. unfold view_of in Hin; simpl in Hin.
  apply in_map_iff in Hin. destruct Hin as [[n i] [Heq Hin]]. subst vt; simpl.
  destruct (Hall n i Hin) as (d & _ & Hn & Hs & _). subst n. apply ctor_ok_valid_name; exact Hs.
Qed.
