(* C02_accept_iff: the validator's model accepts a document iff no rule is violated,
   assembled from the per-rule theorems. *)
From Coq Require Import List Arith Lia Bool String NArith.
From GQL Require Import Exec.Syntax Validate.VSyntax Validate.Overlap Validate.OverlapSpec Validate.Rules Validate.All
     Proofs.ValidateRules Proofs.ValidateInputFields Proofs.ValidateCycles Proofs.ValidateCyclesComplete Proofs.ValidateUnused Proofs.ValidateMemo.
Import ListNotations.
Open Scope N_scope.

Definition Violates (r : N) (S : schema) (W : wdoc) : Prop :=
  match r with
  | 0 => Violates_arguments_of_correct_type S W
  | 1 => Violates_default_values_of_correct_type S W
  | 2 => Violates_fields_on_correct_type S W
  | 3 => Violates_fragments_on_composite S W
  | 4 => Violates_known_argument_names S W
  | 5 => Violates_known_directives S W
  | 6 => Violates_known_fragment_names S W
  | 7 => Violates_known_type_names S W
  | 8 => Violates_lone_anonymous W
  | 9 => Violates_no_fragment_cycles W
  | 10 => Violates_no_undefined_variables S W
  | 11 => Violates_no_unused_fragments W
  | 12 => Violates_no_unused_variables S W
  | 13 => ~ L1_accepts S (erase W)
  | 14 => Violates_possible_fragment_spreads S W
  | 15 => Violates_provided_non_null_arguments S W
  | 16 => Violates_scalar_leafs S W
  | 17 => Violates_unique_argument_names S W
  | 18 => Violates_unique_fragment_names W
  | 19 => Violates_unique_input_field_names S W
  | 20 => Violates_unique_operation_names W
  | 21 => Violates_unique_variable_names W
  | 22 => Violates_variables_are_input_types S W
  | 23 => Violates_variables_in_allowed_position S W
  | _ => False
  end.

Lemma nil_iff : forall {A} (l : list A) (P : Prop), (l <> [] <-> P) -> (l = [] <-> ~ P).
Proof.
  intros A l P H. split.
  - intros E HP. apply H in HP. contradiction.
  - intro HN. destruct l as [|x r]; [reflexivity|]. exfalso. apply HN. apply H. discriminate.
Qed.

Lemma flat_map_nil : forall {A B} (f : A -> list B) l, flat_map f l = [] <-> forall x, In x l -> f x = [].
Proof.
  intros A B f l. induction l as [|y r IH]; simpl.
  - split; [intros _ x [] | reflexivity].
  - split.
    + intros H x [Hx|Hx]; apply app_eq_nil in H; destruct H as [H1 H2]; [subst; exact H1 | apply IH; assumption].
    + intro H. rewrite (H y (or_introl eq_refl)). simpl. apply IH. intros x Hx. apply H. right. exact Hx.
Qed.

(* The exceptions, as hypotheses:
   - the closure iteration of RecursivelyReferencedFragments did not fall short (executable test);
   - fragment names are unique (UniqueFragmentNames; with duplicate names the DFS of
     NoFragmentCycles, which marks names, can miss a cycle through a shadowed definition);
   - overlap: the document is acyclic, and the memoised algorithm's acceptance implies L1
     (proved: L1 => accepts; L3 accepts => unmemoised accepts; the reflection of the
     unmemoised executable algorithm into the Prop-level decomposition is not proved). *)
Theorem accept_iff : forall fuel S W,
  closures_stable W = true ->
  NoDup (map wf_name (w_frags W)) ->
  acyclic S (erase W) ->
  (run_overlap S (erase W) true fuel = [] -> L1_accepts S (erase W)) ->
  (validate_model fuel S W = [] <-> forall r, ~ Violates r S W).
Proof.
  intros fuel S W Hst Hcyc Hac Hov. unfold validate_model. rewrite flat_map_nil.
  assert (R : forall r, In r all_rules -> (run_rule_f fuel r S W = [] <-> ~ Violates r S W)).
  { intros r Hr. unfold all_rules in Hr. simpl in Hr.
    repeat (destruct Hr as [Hr|Hr]; [subst r; simpl|]); try destruct Hr.
    - apply nil_iff. apply arguments_of_correct_type_iff.
    - apply nil_iff. apply default_values_of_correct_type_iff.
    - apply nil_iff. apply fields_on_correct_type_iff.
    - apply nil_iff. apply fragments_on_composite_iff.
    - apply nil_iff. apply known_argument_names_iff.
    - apply nil_iff. apply known_directives_iff.
    - apply nil_iff. apply known_fragment_names_iff.
    - apply nil_iff. apply known_type_names_iff.
    - apply nil_iff. apply lone_anonymous_iff.
    - apply nil_iff. apply no_fragment_cycles_iff. exact Hcyc.
    - apply nil_iff. apply no_undefined_variables_iff.
    - apply nil_iff. apply no_unused_fragments_iff. exact Hst.
    - apply nil_iff. apply no_unused_variables_iff.
    - split.
      + intros E HN. apply HN. apply Hov. exact E.
      + (* ~~ L1_accepts: the model's verdict is decidable *)
        intro HN. destruct (run_overlap S (erase W) true fuel) eqn:E; [reflexivity|].
        exfalso. apply HN. intro HL. rewrite (L1_accepts_exec S (erase W) true fuel Hac HL) in E. discriminate.
    - apply nil_iff. apply possible_fragment_spreads_iff.
    - apply nil_iff. apply provided_non_null_arguments_iff.
    - apply nil_iff. apply scalar_leafs_iff.
    - apply nil_iff. apply unique_argument_names_iff.
    - apply nil_iff. apply unique_fragment_names_iff.
    - apply nil_iff. apply unique_input_field_names_iff.
    - apply nil_iff. apply unique_operation_names_iff.
    - apply nil_iff. apply unique_variable_names_iff.
    - apply nil_iff. apply variables_are_input_types_iff.
    - apply nil_iff. apply variables_in_allowed_position_iff. }
  split.
  - intros H r HV.
    destruct (in_dec N.eq_dec r all_rules) as [Hin|Hout].
    + apply (proj1 (R r Hin) (H r Hin)). exact HV.
    + apply Hout. clear -HV. unfold Violates in HV. unfold all_rules.
      destruct r as [|p]; [simpl; auto|].
      do 5 (try destruct p as [p|p|]); simpl in HV; try contradiction; simpl; auto 30.
  - intros H r Hr. apply (proj2 (R r Hr)). apply H.
Qed.
