(* C02_accept_iff: the validator's model accepts a document iff no rule is violated,
   assembled from the per-rule theorems. *)
From Coq Require Import List Arith Lia Bool String NArith ListDec.
From GQL Require Import Exec.Syntax Validate.VSyntax Validate.Overlap Validate.OverlapSpec Validate.Rules Validate.All
     Validate.OverlapWf
     Proofs.ValidateRules Proofs.ValidateInputFields Proofs.ValidateCycles Proofs.ValidateCyclesComplete Proofs.ValidateUnused Proofs.ValidateMemo
     Proofs.ValidateMemoHard Proofs.ValidateWf Proofs.ValidateWfDoc Proofs.ValidateDecide Proofs.ValidateClosure Proofs.ValidateRulesDecl Proofs.ValidateLiteral.
Import ListNotations.
Open Scope N_scope.

Definition Violates (r : N) (S : schema) (W : wdoc) : Prop :=
  match r with
  | 0 => Violates_arguments_of_correct_type_decl S W
  | 1 => Violates_default_values_of_correct_type_decl S W
  | 2 => Violates_fields_on_correct_type S W
  | 3 => Violates_fragments_on_composite S W
  | 4 => Violates_known_argument_names S W
  | 5 => Violates_known_directives S W
  | 6 => Violates_known_fragment_names S W
  | 7 => Violates_known_type_names S W
  | 8 => Violates_lone_anonymous W
  | 9 => Violates_no_fragment_cycles W
  | 10 => Violates_no_undefined_variables_decl S W
  | 11 => Violates_no_unused_fragments W
  | 12 => Violates_no_unused_variables_decl S W
  | 13 => ~ L1_accepts S (erase W)
  | 14 => Violates_possible_fragment_spreads_decl S W
  | 15 => Violates_provided_non_null_arguments S W
  | 16 => Violates_scalar_leafs S W
  | 17 => Violates_unique_argument_names S W
  | 18 => Violates_unique_fragment_names W
  | 19 => Violates_unique_input_field_names S W
  | 20 => Violates_unique_operation_names W
  | 21 => Violates_unique_variable_names W
  | 22 => Violates_variables_are_input_types S W
  | 23 => Violates_variables_in_allowed_position_decl S W
  | _ => False
  end.

Lemma nil_iff : forall {A} (l : list A) (P : Prop), (l <> [] <-> P) -> (l = [] <-> ~ P).
Proof.
  intros A l P H. split.
  - intros E HP. apply H in HP. contradiction.
  - intro HN. destruct l as [|x r]; [reflexivity|]. exfalso. apply HN. apply H. discriminate.
Qed.

Lemma flat_map_nil : forall {A B} (f : A -> list B) l, flat_map f l = [] <-> forall x, In x l -> f x = [].
Proof.
  intros A B f l. induction l as [|y r IH]; simpl.
  - split; [intros _ x [] | reflexivity].
  - split.
    + intros H x [Hx|Hx]; apply app_eq_nil in H; destruct H as [H1 H2]; [subst; exact H1 | apply IH; assumption].
    + intro H. rewrite (H y (or_introl eq_refl)). simpl. apply IH. intros x Hx. apply H. right. exact Hx.
Qed.

(* The remaining hypotheses are decidable and hold for every parsed document over a schema
   the library accepts (the runner checks them on every case):
   - ids_ok: node ids (byte offsets) of selections are distinct and non-zero;
   - meta_ok: the schema does not redefine __typename / the type String as composite;
   - the fuel of the overlap model is at least fuel_of (erase W).
   Unique fragment names, acyclicity and unique argument names -- needed by the
   NoFragmentCycles DFS and by the overlap rule -- are obtained from the verdicts of
   UniqueFragmentNames, NoFragmentCycles and UniqueArgumentNames themselves. *)
Theorem accept_iff : forall fuel S W,
  ids_ok (erase W) = true ->
  meta_ok S = true ->
  (fuel_of (erase W) <= fuel)%nat ->
  (validate_model fuel S W = [] <-> forall r, ~ Violates r S W).
Proof.
  intros fuel S W Hids Hmeta Hfuel. pose proof (closures_stable_always W) as Hst. unfold validate_model. rewrite flat_map_nil.
  assert (R : forall r, In r all_rules -> r <> 9 -> r <> 13 -> (run_rule_f fuel r S W = [] <-> ~ Violates r S W)).
  { intros r Hr N9 N13. unfold all_rules in Hr. simpl in Hr.
    repeat (destruct Hr as [Hr|Hr]; [subst r; simpl|]); try destruct Hr; try (exfalso; apply N9; reflexivity); try (exfalso; apply N13; reflexivity).
    - apply nil_iff. apply arguments_of_correct_type_decl_iff.
    - apply nil_iff. apply default_values_of_correct_type_decl_iff.
    - apply nil_iff. apply fields_on_correct_type_iff.
    - apply nil_iff. apply fragments_on_composite_iff.
    - apply nil_iff. apply known_argument_names_iff.
    - apply nil_iff. apply known_directives_iff.
    - apply nil_iff. apply known_fragment_names_iff.
    - apply nil_iff. apply known_type_names_iff.
    - apply nil_iff. apply lone_anonymous_iff.
    - apply nil_iff. apply no_undefined_variables_decl_iff.
    - apply nil_iff. apply no_unused_fragments_iff. exact Hst.
    - apply nil_iff. apply no_unused_variables_decl_iff.
    - apply nil_iff. apply possible_fragment_spreads_decl_iff.
    - apply nil_iff. apply provided_non_null_arguments_iff.
    - apply nil_iff. apply scalar_leafs_iff.
    - apply nil_iff. apply unique_argument_names_iff.
    - apply nil_iff. apply unique_fragment_names_iff.
    - apply nil_iff. apply unique_input_field_names_iff.
    - apply nil_iff. apply unique_operation_names_iff.
    - apply nil_iff. apply unique_variable_names_iff.
    - apply nil_iff. apply variables_are_input_types_iff.
    - apply nil_iff. apply variables_in_allowed_position_decl_iff. }
  assert (In9 : In 9 all_rules) by (unfold all_rules; simpl; auto 30).
  assert (In13 : In 13 all_rules) by (unfold all_rules; simpl; auto 30).
  assert (In17 : In 17 all_rules) by (unfold all_rules; simpl; auto 30).
  assert (In18 : In 18 all_rules) by (unfold all_rules; simpl; auto 30).
  assert (NDof : ~ Violates 18 S W -> NoDup (map wf_name (w_frags W))).
  { intro H. destruct (NoDup_dec string_dec (map wf_name (w_frags W))) as [Y|N]; [exact Y|]. exfalso. apply H. exact N. }
  split.
  - intros H.
    assert (ND : NoDup (map wf_name (w_frags W))).
    { apply NDof. apply (proj1 (R 18 In18 ltac:(discriminate) ltac:(discriminate))). apply H. exact In18. }
    assert (NV9 : ~ Violates_no_fragment_cycles W).
    { apply (proj1 (nil_iff _ _ (no_fragment_cycles_iff W ND))). apply (H 9 In9). }
    assert (L : L1_accepts S (erase W)).
    { apply (proj1 (exec_decides_L1 S (erase W) true fuel (acyclic_of_W S W NV9) (ids_ok_distinct S _ Hids)
                     (args_ok_unique S _ (args_ok_of_W S W (H 17 In17))) Hmeta Hfuel)).
      apply (H 13 In13). }
    intros r HV.
    destruct (in_dec N.eq_dec r all_rules) as [Hin|Hout].
    + destruct (N.eq_dec r 9) as [E9|N9]; [subst r; exact (NV9 HV)|].
      destruct (N.eq_dec r 13) as [E13|N13]; [subst r; exact (HV L)|].
      apply (proj1 (R r Hin N9 N13) (H r Hin)). exact HV.
    + apply Hout. clear -HV. unfold Violates in HV. unfold all_rules.
      destruct r as [|p]; [simpl; auto|].
      do 5 (try destruct p as [p|p|]); simpl in HV; try contradiction; simpl; auto 30.
  - intros H r Hr.
    assert (ND : NoDup (map wf_name (w_frags W))) by (apply NDof; apply H).
    assert (NV9 : ~ Violates_no_fragment_cycles W) by (apply (H 9)).
    destruct (N.eq_dec r 9) as [E9|N9].
    { subst r. simpl. apply (proj2 (nil_iff _ _ (no_fragment_cycles_iff W ND))). exact NV9. }
    destruct (N.eq_dec r 13) as [E13|N13].
    { subst r. simpl. destruct (run_overlap S (erase W) true fuel) eqn:E; [reflexivity|].
      exfalso. apply (H 13). simpl. intro HL.
      rewrite (L1_accepts_exec S (erase W) true fuel (acyclic_of_W S W NV9) HL) in E. discriminate. }
    apply (proj2 (R r Hr N9 N13)). apply H.
Qed.
