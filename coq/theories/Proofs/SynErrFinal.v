(* The syntax-error clause of C18, both halves, for the whole grammar: the token the parser reports
   is the first one at which the token stream stops being the beginning of a derivable document. *)
From Coq Require Import String List NArith Bool Lia PeanoNat.
From GQL Require Import Base.Bytes Syntax.Lexer Syntax.Ast Syntax.Parser Syntax.Grammar
  SynErr.LexErr SynErr.ParseErr SynErr.Viable.
From GQL Require Import Proofs.SyntaxSound Proofs.SyntaxComplete Proofs.SyntaxCompleteSDL Proofs.SyntaxLexer Proofs.SyntaxTerm
  Proofs.SynErrWB Proofs.SynErrErase Proofs.SynErrMain Proofs.SynErrViable Proofs.SynErrLang Proofs.SynErrViableSDL.
Import ListNotations.
Open Scope N_scope.

(* (a) what the recogniser had consumed when it failed begins a derivable document *)
Theorem doc_viable : forall ts r, parse_tokensE ts = ErrE r ->
  exists u, ts = u ++ r /\ exists cont d, Derives (u ++ cont) d.
Proof. intros ts r H. exact (CompL_document _ _ _ H). Qed.

(* (b) nothing derivable begins with the consumed tokens followed by the reported one *)
Theorem doc_no_extension : forall u t rest, parse_tokensE (u ++ t :: rest) = ErrE (t :: rest) ->
  forall q d, ~ Derives (u ++ t :: q) d.
Proof.
  intros u t rest H q d D.
  pose proof (parse_tokensE_local _ _ _ H q) as X.
  assert (P : parse_tokens (u ++ t :: q) = Err) by (apply parse_tokens_err_iff; eauto).
  rewrite (parse_tokens_complete _ _ D) in P. discriminate P.
Qed.

Theorem token_first_nonviable : forall u t rest, parse_tokensE (u ++ t :: rest) = ErrE (t :: rest) ->
  (exists cont d, Derives (u ++ cont) d) /\ (forall q d, ~ Derives (u ++ t :: q) d).
Proof.
  intros u t rest H. split; [|exact (doc_no_extension _ _ _ H)].
  destruct (doc_viable _ _ H) as (u' & E & X). apply app_inv_tail in E. subst u'. exact X.
Qed.

(* a completion of a prefix is a completion of every shorter prefix *)
Lemma viable_shorter : forall (u v : list token), (exists cont d, Derives ((u ++ v) ++ cont) d) -> exists cont d, Derives (u ++ cont) d.
Proof. intros u v (cont & d & D). exists (v ++ cont), d. rewrite app_assoc. exact D. Qed.

Lemma no_extension_derives : forall u t, no_extension u t ->
  forall src' rest' mb' d, lex src' = Ok (u ++ t :: rest', mb') -> ~ Derives (u ++ t :: rest') d.
Proof.
  intros u t NE src' rest' mb' d L D. pose proof (NE _ _ _ L) as P. unfold parse in P. rewrite L in P.
  rewrite (parse_tokens_complete _ _ D) in P. discriminate P.
Qed.

(* on sources: the report of the model *)
Theorem report_first_nonviable : forall src rp, parse_report src = Some rp ->
  (exists cont d, Derives (r_before rp ++ cont) d) /\
  (r_lexical rp = false ->
   exists t r, tokens_of src = r_before rp ++ t :: r /\ r_off rp = tstart t /\ parse_err src = Some (tstart t) /\
     forall src' rest' mb' d, lex src' = Ok (r_before rp ++ t :: rest', mb') -> ~ Derives (r_before rp ++ t :: rest') d).
Proof.
  intros src rp H. split.
  - (* viable prefix, every branch *)
    unfold parse_report in H.
    destruct (lexE src) as [ts [| s e |]] eqn:L; [| |discriminate H].
    + destruct (parse_tokensE ts) as [r|[|t r]|] eqn:P; try discriminate H.
      * pose proof (lex_allE_done_ne _ _ _ _ L) as NE.
        destruct (exists_last NE) as (body & e & E). subst ts. rewrite removelast_last in H.
        destruct (tok_ext (last (body ++ [e]) (end_marker (nlen src)))) as [[o l] h]. inversion H; subst; cbn.
        destruct (doc_viable _ _ P) as (u & E & X). rewrite app_nil_r in E. subst u. exact (viable_shorter _ _ X).
      * destruct (doc_viable _ _ P) as (u & E & X). subst ts. rewrite before_app in H.
        destruct (tok_ext t) as [[o l] h]. inversion H; subst; cbn. exact X.
    + destruct (parse_tokensE (ts ++ [end_marker s])) as [r|[|t [|t2 r]]|] eqn:P.
      * (* the tokens followed by the end marker are a document *)
        inversion H; subst; cbn.
        pose proof (wb_ok _ (WB_parse_documentE _) _ _ P) as [u Hu].
        assert (R : r = []).
        { unfold parse_tokensE, parse_documentE, seqE in P.
          destruct (many1E _ _ EOF (ts ++ [end_marker s])) as [m| |]; try discriminate P.
          unfold endE in P. destruct m; [inversion P; reflexivity|discriminate P]. }
        subst r. destruct (proj2 (parse_tokens_ok_iff _) P) as [d Pd].
        exists [end_marker s], d. apply parse_tokens_sound. exact Pd.
      * inversion H; subst; cbn. destruct (doc_viable _ _ P) as (u & E & X). rewrite app_nil_r in E. subst u.
        exact (viable_shorter _ _ X).
      * inversion H; subst; cbn. destruct (doc_viable _ _ P) as (u & E & X).
        change [t] with ([] ++ [t]) in E. rewrite app_assoc in E. apply app_inj_tail in E. destruct E as [E _].
        rewrite app_nil_r in E. subst u. exact X.
      * destruct (doc_viable _ _ P) as (u & E & X). rewrite E, before_app in H.
        destruct (tok_ext t) as [[o l] h]. inversion H; subst; cbn. exact X.
      * inversion H.
        (* out of fuel: excluded *)
        exfalso. exact (parse_tokensE_nofuel _ P).
  - intro NL. destruct (parse_report_position _ _ H NL) as (t & r & E & X & NE & _).
    exists t, r. split; [exact E|]. unfold tok_ext in X. injection X as X1 X2 X3. split; [exact X1|]. split.
    + destruct (parse_report_spec _ _ H) as [P _]. unfold parse_err. rewrite P, X1. reflexivity.
    + exact (no_extension_derives _ _ NE).
Qed.
