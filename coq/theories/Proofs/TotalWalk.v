(* C09: the recursion of planning / executing a document (Total/PlanWalk.v, [walk])
   ends on every document the fragment-cycle check accepts, with fuel
   [plan_bound D], a polynomial in the size of the document.

   Structure of the proof.
   - [collect] on one level ends when the fuel exceeds the level's size plus the
     level sizes of the unvisited fragment bodies (re-proved here in the form
     with an arbitrary visited set).
   - An invariant of [collect]: if the spreads of the level satisfy Q, the
     sub-selections of the level's fields satisfy P, and the bodies of
     fragments satisfying Q are such levels again, then all collected
     occurrences have sub-selections satisfying P.
   - Measure of a selection set: q * (H + 2) + h where all spreads anywhere
     inside have rank < q and the field-nesting height is <= h.  A field found
     in the set itself lowers h; a field found in the body of a fragment b
     reached on this level has only spreads of rank < rk b < q below it (every
     such spread is a nested edge of b), so lowers q, and its height is <= H.
   - Every level needs at most doc_size D + 1 fuel for its collect: the
     selection sets walked are sub-terms of the document, disjoint from the
     top levels of the fragment bodies. *)
From Coq Require Import List Arith NArith String Bool Lia.
From GQL Require Import Exec.Syntax Exec.Coerce Exec.Exec Total.CollectBound Total.FragCycle
     Total.PlanWalk Proofs.TotalFragCycle.
Import ListNotations.
Open Scope list_scope.

(* ------------------------------------------------------------------ *)
(* induction on selections (nested through lists)                      *)
Section SelInd.
  Variable P : selection -> Prop.
  Hypothesis Hf : forall id al nm args ds sub, Forall P sub -> P (SField id al nm args ds sub).
  Hypothesis Hs : forall id nm ds, P (SSpread id nm ds).
  Hypothesis Hi : forall id tc ds sub, Forall P sub -> P (SInline id tc ds sub).

  Fixpoint selection_ind' (s : selection) : P s :=
    match s with
    | SField id al nm args ds sub =>
      Hf id al nm args ds sub
         ((fix go (l : list selection) : Forall P l :=
             match l with
             | [] => Forall_nil P
             | x :: r => Forall_cons x (selection_ind' x) (go r)
             end) sub)
    | SSpread id nm ds => Hs id nm ds
    | SInline id tc ds sub =>
      Hi id tc ds sub
         ((fix go (l : list selection) : Forall P l :=
             match l with
             | [] => Forall_nil P
             | x :: r => Forall_cons x (selection_ind' x) (go r)
             end) sub)
    end.
End SelInd.

(* ------------------------------------------------------------------ *)
(* sums and maxima over lists                                          *)
Lemma list_sum_in : forall (A : Type) (f : A -> nat) (l : list A) (x : A),
    In x l -> f x <= list_sum (map f l).
Proof.
  intros A f l x. induction l as [|y r IH]; simpl; intros Hin.
  - contradiction.
  - destruct Hin as [Heq | Hin].
    + subst y. lia.
    + specialize (IH Hin). lia.
Qed.

Lemma list_max_in : forall (A : Type) (f : A -> nat) (l : list A) (x : A),
    In x l -> f x <= list_max (map f l).
Proof.
  intros A f l x. induction l as [|y r IH]; simpl; intros Hin.
  - contradiction.
  - destruct Hin as [Heq | Hin].
    + subst y. lia.
    + specialize (IH Hin). lia.
Qed.

Lemma list_sum_le : forall (A : Type) (f g : A -> nat) (l : list A),
    (forall y, f y <= g y) -> list_sum (map f l) <= list_sum (map g l).
Proof.
  intros A f g l Hfg. induction l as [|y r IH]; simpl.
  - lia.
  - specialize (Hfg y). lia.
Qed.

Lemma list_sum_in_le : forall (A : Type) (f g : A -> nat) (a : nat) (l : list A) (x : A),
    In x l -> a + f x <= g x -> (forall y, f y <= g y) ->
    a + list_sum (map f l) <= list_sum (map g l).
Proof.
  intros A f g a l x Hin Hx Hfg. induction l as [|y r IH]; simpl.
  - contradiction.
  - destruct Hin as [Heq | Hin].
    + subst y. pose proof (list_sum_le A f g r Hfg). lia.
    + specialize (IH Hin). specialize (Hfg y). lia.
Qed.

(* ------------------------------------------------------------------ *)
(* one level of a selection set: its spreads and the sub-selections of *)
(* its fields, looking through inline fragments                        *)
Fixpoint level_spreads (s : selection) : list name :=
  match s with
  | SField _ _ _ _ _ _ => []
  | SSpread _ nm _ => [nm]
  | SInline _ _ _ sub => flat_map level_spreads sub
  end.

Fixpoint level_subs (s : selection) : list (list selection) :=
  match s with
  | SField _ _ _ _ _ sub => [sub]
  | SSpread _ _ _ => []
  | SInline _ _ _ sub => flat_map level_subs sub
  end.

Lemma level_spreads_edges :
  forall s fl b, In b (level_spreads s) -> In (b, fl) (sel_edges fl s).
Proof.
  induction s as [id al nm args ds sub IH | id nm ds | id tc ds sub IH] using selection_ind';
    intros fl b Hin; simpl in *.
  - contradiction.
  - destruct Hin as [Heq | []]. subst b. left; reflexivity.
  - apply in_flat_map in Hin. destruct Hin as [x [Hx Hb]].
    apply in_flat_map. exists x. split; [exact Hx|].
    rewrite Forall_forall in IH. apply IH; assumption.
Qed.

(* the names of the edges do not depend on the flag; under [true] all flags are true *)
Lemma edges_true :
  forall s fl0 c fl', In (c, fl') (sel_edges fl0 s) -> In (c, true) (sel_edges true s).
Proof.
  induction s as [id al nm args ds sub IH | id nm ds | id tc ds sub IH] using selection_ind';
    intros fl0 c fl' Hin; simpl in *.
  - apply in_flat_map in Hin. destruct Hin as [x [Hx Hc]].
    apply in_flat_map. exists x. split; [exact Hx|].
    rewrite Forall_forall in IH. apply (IH x Hx true c fl'); exact Hc.
  - destruct Hin as [Heq | []]. inversion Heq; subst. left; reflexivity.
  - apply in_flat_map in Hin. destruct Hin as [x [Hx Hc]].
    apply in_flat_map. exists x. split; [exact Hx|].
    rewrite Forall_forall in IH. apply (IH x Hx fl0 c fl'); exact Hc.
Qed.

Lemma level_subs_edges :
  forall s fl sub c fl' fl0,
    In sub (level_subs s) -> In (c, fl') (sels_edges fl0 sub) -> In (c, true) (sel_edges fl s).
Proof.
  induction s as [id al nm args ds sub0 IH | id nm ds | id tc ds sub0 IH] using selection_ind';
    intros fl sub c fl' fl0 Hsub Hc; simpl in *.
  - destruct Hsub as [Heq | []]. subst sub0.
    unfold sels_edges in Hc. apply in_flat_map in Hc. destruct Hc as [x [Hx Hc]].
    apply in_flat_map. exists x. split; [exact Hx|].
    apply (edges_true x fl0 c fl'); exact Hc.
  - contradiction.
  - apply in_flat_map in Hsub. destruct Hsub as [x [Hx Hsub]].
    apply in_flat_map. exists x. split; [exact Hx|].
    rewrite Forall_forall in IH. apply (IH x Hx fl sub c fl' fl0); assumption.
Qed.

Lemma level_subs_height :
  forall s sub, In sub (level_subs s) -> S (sels_height sub) <= sel_height s.
Proof.
  induction s as [id al nm args ds sub0 IH | id nm ds | id tc ds sub0 IH] using selection_ind';
    intros sub Hsub; simpl in *.
  - destruct Hsub as [Heq | []]. subst sub0. unfold sels_height. lia.
  - contradiction.
  - apply in_flat_map in Hsub. destruct Hsub as [x [Hx Hsub]].
    rewrite Forall_forall in IH. specialize (IH x Hx sub Hsub).
    pose proof (list_max_in _ sel_height sub0 x Hx). lia.
Qed.

Lemma sel_csize_le : forall s, sel_csize s <= sel_size s.
Proof.
  induction s as [id al nm args ds sub IH | id nm ds | id tc ds sub IH] using selection_ind';
    simpl.
  - lia.
  - lia.
  - apply le_n_S. induction IH as [|x r Hx Hr IHr]; simpl; lia.
Qed.

Lemma csize_le_size : forall sels, csize sels <= sels_size sels.
Proof. intros sels. apply list_sum_le. apply sel_csize_le. Qed.

Lemma level_subs_size :
  forall s sub, In sub (level_subs s) -> sels_size sub + sel_csize s <= sel_size s.
Proof.
  induction s as [id al nm args ds sub0 IH | id nm ds | id tc ds sub0 IH] using selection_ind';
    intros sub Hsub; simpl in *.
  - destruct Hsub as [Heq | []]. subst sub0. unfold sels_size. lia.
  - contradiction.
  - apply in_flat_map in Hsub. destruct Hsub as [x [Hx Hsub]].
    rewrite Forall_forall in IH. specialize (IH x Hx sub Hsub).
    pose proof (list_sum_in_le _ sel_csize sel_size (sels_size sub) sub0 x Hx IH sel_csize_le).
    lia.
Qed.

(* the same for selection sets *)
Lemma sels_level_spreads_edges :
  forall sels fl b, In b (flat_map level_spreads sels) -> In (b, fl) (sels_edges fl sels).
Proof.
  intros sels fl b Hin. apply in_flat_map in Hin. destruct Hin as [x [Hx Hb]].
  unfold sels_edges. apply in_flat_map. exists x. split; [exact Hx|].
  apply level_spreads_edges; exact Hb.
Qed.

Lemma sels_level_subs_edges :
  forall sels fl sub c fl' fl0,
    In sub (flat_map level_subs sels) -> In (c, fl') (sels_edges fl0 sub) ->
    In (c, true) (sels_edges fl sels).
Proof.
  intros sels fl sub c fl' fl0 Hsub Hc. apply in_flat_map in Hsub. destruct Hsub as [x [Hx Hsub]].
  unfold sels_edges. apply in_flat_map. exists x. split; [exact Hx|].
  apply (level_subs_edges x fl sub c fl' fl0); assumption.
Qed.

Lemma sels_level_subs_height :
  forall sels sub, In sub (flat_map level_subs sels) -> S (sels_height sub) <= sels_height sels.
Proof.
  intros sels sub Hsub. apply in_flat_map in Hsub. destruct Hsub as [x [Hx Hsub]].
  pose proof (level_subs_height x sub Hsub).
  pose proof (list_max_in _ sel_height sels x Hx). unfold sels_height at 2. lia.
Qed.

Lemma sels_level_subs_size :
  forall sels sub, In sub (flat_map level_subs sels) -> sels_size sub + csize sels <= sels_size sels.
Proof.
  intros sels sub Hsub. apply in_flat_map in Hsub. destruct Hsub as [x [Hx Hsub]].
  pose proof (level_subs_size x sub Hsub) as Hs.
  exact (list_sum_in_le _ sel_csize sel_size (sels_size sub) sels x Hx Hs sel_csize_le).
Qed.

(* ------------------------------------------------------------------ *)
(* fragments                                                           *)
Lemma find_fragment_in :
  forall nm fs f, find_fragment nm fs = Some f -> In f fs /\ fr_name f = nm.
Proof.
  intros nm fs f. induction fs as [|f0 r IH]; simpl; intros Hfind.
  - discriminate.
  - destruct (String.eqb nm (fr_name f0)) eqn:E.
    + inversion Hfind; subst f0. apply String.eqb_eq in E. split; [left; reflexivity | congruence].
    + destruct (IH Hfind) as [Hin Hn]. split; [right; exact Hin | exact Hn].
Qed.

Lemma nmem_cons_mono :
  forall n v v', (forall x, nmem x v = true -> nmem x v' = true) ->
                 forall x, nmem x (n :: v) = true -> nmem x (n :: v') = true.
Proof.
  intros n v v' Hsub x Hx. simpl in *. apply orb_true_iff in Hx. apply orb_true_iff.
  destruct Hx as [Hx | Hx]; [left; exact Hx | right; apply Hsub; exact Hx].
Qed.

Lemma unvisited_antitone :
  forall fs v v', (forall x, nmem x v = true -> nmem x v' = true) ->
                  unvisited_size fs v' <= unvisited_size fs v.
Proof.
  induction fs as [|f r IH]; intros v v' Hsub; simpl.
  - lia.
  - assert (H1 : (if nmem (fr_name f) v' then 0 else csize (fr_sel f))
                 <= (if nmem (fr_name f) v then 0 else csize (fr_sel f))).
    { destruct (nmem (fr_name f) v) eqn:E.
      - rewrite (Hsub _ E). lia.
      - destruct (nmem (fr_name f) v'); lia. }
    pose proof (IH (fr_name f :: v) (fr_name f :: v') (nmem_cons_mono (fr_name f) v v' Hsub)).
    lia.
Qed.

Lemma unvisited_find :
  forall fs nm f visited,
    find_fragment nm fs = Some f -> nmem nm visited = false ->
    csize (fr_sel f) + unvisited_size fs (nm :: visited) <= unvisited_size fs visited.
Proof.
  induction fs as [|f0 r IH]; intros nm f visited Hfind Hnv; simpl in *.
  - discriminate.
  - destruct (String.eqb nm (fr_name f0)) eqn:E.
    + inversion Hfind; subst f0. apply String.eqb_eq in E. subst nm.
      rewrite String.eqb_refl. simpl. rewrite Hnv.
      assert (Ha : unvisited_size r (fr_name f :: fr_name f :: visited)
                   <= unvisited_size r (fr_name f :: visited)).
      { apply unvisited_antitone. intros x Hx. simpl in *.
        rewrite Hx. apply orb_true_r. }
      lia.
    + rewrite String.eqb_sym in E. rewrite E. simpl.
      assert (Hnv' : nmem nm (fr_name f0 :: visited) = false).
      { simpl. rewrite String.eqb_sym in E. rewrite E. exact Hnv. }
      specialize (IH nm f (fr_name f0 :: visited) Hfind Hnv').
      assert (Ha : unvisited_size r (fr_name f0 :: nm :: visited)
                   <= unvisited_size r (nm :: fr_name f0 :: visited)).
      { apply unvisited_antitone. intros x Hx. simpl in *.
        destruct (String.eqb x nm); destruct (String.eqb x (fr_name f0)); simpl in *;
          try reflexivity; exact Hx. }
      lia.
Qed.

Lemma unvisited_le_size :
  forall fs v, unvisited_size fs v <= list_sum (map (fun f => sels_size (fr_sel f)) fs).
Proof.
  induction fs as [|f r IH]; intros v; simpl.
  - lia.
  - specialize (IH (fr_name f :: v)). pose proof (csize_le_size (fr_sel f)).
    destruct (nmem (fr_name f) v); lia.
Qed.

Lemma unvisited_sub_le_size :
  forall fs v f a,
    In f fs -> a + csize (fr_sel f) <= sels_size (fr_sel f) ->
    a + unvisited_size fs v <= list_sum (map (fun f => sels_size (fr_sel f)) fs).
Proof.
  induction fs as [|f0 r IH]; intros v f a Hin Ha; simpl.
  - contradiction.
  - destruct Hin as [Heq | Hin].
    + subst f0. pose proof (unvisited_le_size r (fr_name f :: v)).
      destruct (nmem (fr_name f) v); lia.
    + specialize (IH (fr_name f0 :: v) f a Hin Ha). pose proof (csize_le_size (fr_sel f0)).
      destruct (nmem (fr_name f0) v); lia.
Qed.

(* ------------------------------------------------------------------ *)
(* termination of one collect, for an arbitrary visited set            *)
Lemma csize_cons_eq : forall x r, csize (x :: r) = sel_csize x + csize r.
Proof. reflexivity. Qed.

Local Opaque fragment_matches included.

Lemma collect_terminates_visited :
  forall fuel Sc D vars obj sels visited g,
    csize sels + unvisited_size (d_frags D) visited + 1 <= fuel ->
    exists g' v', collect fuel Sc D vars obj sels visited g = Some (g', v')
                  /\ (forall x, nmem x visited = true -> nmem x v' = true).
Proof.
  induction fuel as [|fuel IH]; intros Sc D vars obj sels visited g Hfuel.
  - lia.
  - destruct sels as [|s rest].
    + simpl. exists g, visited. split; [reflexivity | auto].
    + rewrite csize_cons_eq in Hfuel.
      destruct s as [id al nm args ds sub | id nm ds | id tc ds sub]; simpl in Hfuel.
      * (* field *)
        simpl. destruct (included Sc ds vars); apply IH; lia.
      * (* spread *)
        simpl. destruct (included Sc ds vars && negb (nmem nm visited)) eqn:Hc;
                 [| apply IH; lia].
        apply andb_true_iff in Hc. destruct Hc as [_ Hnv]. apply negb_true_iff in Hnv.
        destruct (find_fragment nm (d_frags D)) as [f|] eqn:Hfind; [| apply IH; lia].
        pose proof (unvisited_find (d_frags D) nm f visited Hfind Hnv) as Hu.
        assert (Hmono : forall x, nmem x visited = true -> nmem x (nm :: visited) = true).
        { intros x Hx. simpl. rewrite Hx. apply orb_true_r. }
        destruct (fragment_matches Sc (Some (fr_cond f)) obj).
        -- destruct (IH Sc D vars obj (fr_sel f) (nm :: visited) g) as [g1 [v1 [E1 M1]]]; [lia|].
           rewrite E1.
           pose proof (unvisited_antitone (d_frags D) (nm :: visited) v1 M1) as Ha.
           destruct (IH Sc D vars obj rest v1 g1) as [g2 [v2 [E2 M2]]]; [lia|].
           exists g2, v2. split; [exact E2|]. intros x Hx. apply M2, M1, Hmono, Hx.
        -- destruct (IH Sc D vars obj rest (nm :: visited) g) as [g2 [v2 [E2 M2]]]; [lia|].
           exists g2, v2. split; [exact E2|]. intros x Hx. apply M2, Hmono, Hx.
      * (* inline *)
        simpl. destruct (included Sc ds vars && fragment_matches Sc tc obj); [| apply IH; lia].
        fold (csize sub) in Hfuel.
        destruct (IH Sc D vars obj sub visited g) as [g1 [v1 [E1 M1]]]; [lia|].
        rewrite E1.
        pose proof (unvisited_antitone (d_frags D) visited v1 M1) as Ha.
        destruct (IH Sc D vars obj rest v1 g1) as [g2 [v2 [E2 M2]]]; [lia|].
        exists g2, v2. split; [exact E2|]. intros x Hx. apply M2, M1, Hx.
Qed.

(* ------------------------------------------------------------------ *)
(* the invariant of collect                                            *)
Section CollectInv.
  Variable Q : name -> Prop.                (* spreads met on the level *)
  Variable P : list selection -> Prop.      (* sub-selections of the fields met on the level *)
  Variable D : document.

  Definition lvls (sels : list selection) : Prop :=
    (forall b, In b (flat_map level_spreads sels) -> Q b)
    /\ (forall sub, In sub (flat_map level_subs sels) -> P sub).

  Definition groups_ok (g : groups) : Prop :=
    Forall (fun kv : name * list occ => Forall (fun o => P (oc_sub o)) (snd kv)) g.

  Hypothesis Hfrag :
    forall b f, Q b -> find_fragment b (d_frags D) = Some f -> lvls (fr_sel f).

  Lemma lvls_tail : forall x rest, lvls (x :: rest) -> lvls rest.
  Proof.
    intros x rest [H1 H2]. split.
    - intros b Hb. apply H1. simpl. apply in_or_app. right; exact Hb.
    - intros sub Hs. apply H2. simpl. apply in_or_app. right; exact Hs.
  Qed.

  Lemma lvls_field : forall id al nm args ds sub rest,
      lvls (SField id al nm args ds sub :: rest) -> P sub.
  Proof. intros id al nm args ds sub rest [_ H2]. apply H2. simpl. left; reflexivity. Qed.

  Lemma lvls_spread : forall id nm ds rest, lvls (SSpread id nm ds :: rest) -> Q nm.
  Proof. intros id nm ds rest [H1 _]. apply H1. simpl. left; reflexivity. Qed.

  Lemma lvls_inline : forall id tc ds sub rest, lvls (SInline id tc ds sub :: rest) -> lvls sub.
  Proof.
    intros id tc ds sub rest [H1 H2]. split.
    - intros b Hb. apply H1. simpl. apply in_or_app. left; exact Hb.
    - intros s Hs. apply H2. simpl. apply in_or_app. left; exact Hs.
  Qed.

  Lemma add_occ_ok : forall k o g, P (oc_sub o) -> groups_ok g -> groups_ok (add_occ k o g).
  Proof.
    intros k o g Ho. induction g as [|[k' os] r IH]; intros Hg; simpl.
    - constructor; [| constructor]. simpl. constructor; [exact Ho | constructor].
    - inversion Hg as [|kv l Hkv Hr]; subst. destruct (String.eqb k k').
      + constructor; [| exact Hr]. simpl in *. apply Forall_app. split; [exact Hkv|].
        constructor; [exact Ho | constructor].
      + constructor; [exact Hkv | apply IH; exact Hr].
  Qed.

  Lemma collect_inv :
    forall fuel Sc vars obj sels visited g g' v',
      lvls sels -> groups_ok g ->
      collect fuel Sc D vars obj sels visited g = Some (g', v') -> groups_ok g'.
  Proof.
    induction fuel as [|fuel IH]; intros Sc vars obj sels visited g g' v' Hl Hg Hc.
    - simpl in Hc. discriminate.
    - destruct sels as [|s rest].
      + simpl in Hc. inversion Hc; subst. exact Hg.
      + pose proof (lvls_tail _ _ Hl) as Hrest.
        destruct s as [id al nm args ds sub | id nm ds | id tc ds sub]; simpl in Hc.
        * destruct (included Sc ds vars).
          -- eapply IH; [exact Hrest | | exact Hc].
             apply add_occ_ok; [| exact Hg]. simpl. eapply lvls_field; exact Hl.
          -- eapply IH; [exact Hrest | exact Hg | exact Hc].
        * destruct (included Sc ds vars && negb (nmem nm visited));
            [| eapply IH; [exact Hrest | exact Hg | exact Hc]].
          destruct (find_fragment nm (d_frags D)) as [f|] eqn:Hfind;
            [| eapply IH; [exact Hrest | exact Hg | exact Hc]].
          destruct (fragment_matches Sc (Some (fr_cond f)) obj);
            [| eapply IH; [exact Hrest | exact Hg | exact Hc]].
          destruct (collect fuel Sc D vars obj (fr_sel f) (nm :: visited) g) as [[g1 v1]|] eqn:E1;
            [| discriminate].
          assert (Hg1 : groups_ok g1).
          { eapply IH; [| exact Hg | exact E1].
            apply (Hfrag nm f); [eapply lvls_spread; exact Hl | exact Hfind]. }
          eapply IH; [exact Hrest | exact Hg1 | exact Hc].
        * destruct (included Sc ds vars && fragment_matches Sc tc obj);
            [| eapply IH; [exact Hrest | exact Hg | exact Hc]].
          destruct (collect fuel Sc D vars obj sub visited g) as [[g1 v1]|] eqn:E1;
            [| discriminate].
          assert (Hg1 : groups_ok g1).
          { eapply IH; [| exact Hg | exact E1]. eapply lvls_inline; exact Hl. }
          eapply IH; [exact Hrest | exact Hg1 | exact Hc].
  Qed.

  (* termination and invariant of the merged collect of one walk level *)
  Lemma collect_all_ok :
    forall fuel Sc vars obj sets visited g,
      Forall (fun s => lvls s /\ csize s + frag_total D + 1 <= fuel) sets ->
      groups_ok g ->
      exists g', collect_all fuel Sc D vars obj sets visited g = Some g' /\ groups_ok g'.
  Proof.
    intros fuel Sc vars obj sets. induction sets as [|s r IH]; intros visited g Hsets Hg; simpl.
    - exists g. split; [reflexivity | exact Hg].
    - inversion Hsets as [|s0 r0 [Hl Hf] Hr]; subst.
      assert (Hu : unvisited_size (d_frags D) visited <= frag_total D).
      { unfold frag_total. apply unvisited_antitone. intros x Hx. simpl in Hx. discriminate. }
      destruct (collect_terminates_visited fuel Sc D vars obj s visited g) as [g1 [v1 [E1 _]]]; [lia|].
      rewrite E1.
      apply IH; [exact Hr|]. eapply collect_inv; [exact Hl | exact Hg | exact E1].
  Qed.
End CollectInv.

(* ------------------------------------------------------------------ *)
(* walk with its nested fixpoints named                                *)
Definition over_types_f (w : name -> option nat) : list name -> option nat :=
  fix ot (ts : list name) : option nat :=
    match ts with
    | [] => Some 0
    | t :: r =>
      match w t, ot r with
      | Some a, Some b => Some (Nat.max a b)
      | _, _ => None
      end
    end.

Definition over_groups_f (Sc : schema) (obj : name)
           (w : name -> list (list selection) -> option nat) : groups -> option nat :=
  fix og (g : groups) : option nat :=
    match g with
    | [] => Some 0
    | (_, occs) :: rest =>
      let fname := match occs with o :: _ => oc_name o | [] => EmptyString end in
      let here : option nat :=
          match find_field fname (object_fields Sc obj) with
          | None => Some 0
          | Some fd =>
            over_types_f (fun t => w t (map oc_sub occs)) (target_types Sc (named_of (f_type fd)))
          end in
      match here, og rest with
      | Some a, Some b => Some (Nat.max a b)
      | _, _ => None
      end
    end.

Lemma walk_eq :
  forall f Sc D vars obj sets,
    walk (S f) Sc D vars obj sets =
    match collect_all f Sc D vars obj sets [] [] with
    | None => None
    | Some g =>
      match over_groups_f Sc obj (walk f Sc D vars) g with
      | Some d => Some (S d)
      | None => None
      end
    end.
Proof. reflexivity. Qed.

Lemma over_types_some :
  forall w ts, (forall t, w t <> None) -> over_types_f w ts <> None.
Proof.
  intros w ts Hw. induction ts as [|t r IH]; simpl.
  - discriminate.
  - specialize (Hw t). destruct (w t); [| congruence].
    destruct (over_types_f w r); [discriminate | congruence].
Qed.

Lemma over_groups_cons :
  forall Sc obj w k occs rest,
    over_groups_f Sc obj w ((k, occs) :: rest) =
    match
      match find_field (match occs with o :: _ => oc_name o | [] => EmptyString end)
                       (object_fields Sc obj) with
      | None => Some 0
      | Some fd =>
        over_types_f (fun t => w t (map oc_sub occs)) (target_types Sc (named_of (f_type fd)))
      end, over_groups_f Sc obj w rest
    with
    | Some a, Some b => Some (Nat.max a b)
    | _, _ => None
    end.
Proof. reflexivity. Qed.

Lemma over_groups_some :
  forall Sc obj w (P : list selection -> Prop) g,
    (forall t sets, Forall P sets -> w t sets <> None) ->
    groups_ok P g -> over_groups_f Sc obj w g <> None.
Proof.
  intros Sc obj w P g Hw. induction g as [|[k occs] rest IH]; intros Hg.
  - simpl. discriminate.
  - rewrite over_groups_cons. inversion Hg as [|kv l Hkv Hr]; subst. simpl in Hkv.
    specialize (IH Hr).
    assert (Hsets : Forall P (map oc_sub occs)).
    { apply Forall_forall. intros s Hs. apply in_map_iff in Hs. destruct Hs as [o [Ho Hin]].
      subst s. rewrite Forall_forall in Hkv. apply Hkv; exact Hin. }
    destruct (find_field (match occs with [] => EmptyString | o :: _ => oc_name o end)
                         (object_fields Sc obj)) as [fd|].
    + pose proof (over_types_some (fun t => w t (map oc_sub occs))
                                  (target_types Sc (named_of (f_type fd)))
                                  (fun t => Hw t _ Hsets)) as Ht.
      destruct (over_types_f (fun t => w t (map oc_sub occs))
                             (target_types Sc (named_of (f_type fd)))); [| congruence].
      destruct (over_groups_f Sc obj w rest); [discriminate | congruence].
    + destruct (over_groups_f Sc obj w rest); [discriminate | congruence].
Qed.

(* ------------------------------------------------------------------ *)
(* the depth measure                                                   *)
Section Walk.
  Variable Sc : schema.
  Variable D : document.
  Variable vars : list (name * jv).
  Variable rk : name -> nat.
  Hypothesis Hrk : rank_respected D rk.

  Let H := doc_height D.

  (* all spreads anywhere inside have rank < q *)
  Definition allrk_lt (q : nat) (sels : list selection) : Prop :=
    forall c fl, In (c, fl) (sels_edges false sels) -> rk c < q.

  Definition state (m : nat) (sels : list selection) : Prop :=
    exists q h, allrk_lt q sels /\ sels_height sels <= h /\ q * (H + 2) + h <= m.

  (* a sub-term of the document that does not overlap the top level of a fragment body *)
  Definition sized (sels : list selection) : Prop :=
    sels_size sels + frag_total D <= doc_size D.

  Definition Qm (m : nat) (b : name) : Prop := rk b * (H + 2) + H < m.
  Definition Pm (m : nat) (sub : list selection) : Prop :=
    1 <= m /\ state (m - 1) sub /\ sized sub.

  Lemma state_mono : forall m m' s, state m s -> m <= m' -> state m' s.
  Proof.
    intros m m' s [q [h [Ha [Hh Hm]]]] Hle. exists q, h. repeat split; try assumption. lia.
  Qed.

  Lemma sized_csize : forall s, sized s -> csize s + frag_total D + 1 <= doc_size D + 1.
  Proof. intros s Hs. unfold sized in Hs. pose proof (csize_le_size s). lia. Qed.

  Lemma state_lvls : forall m s, state m s -> sized s -> lvls (Qm m) (Pm m) s.
  Proof.
    intros m s [q [h [Ha [Hh Hm]]]] Hsz. split.
    - intros b Hb. pose proof (sels_level_spreads_edges s false b Hb) as He.
      specialize (Ha b false He). unfold Qm. nia.
    - intros sub Hsub.
      pose proof (sels_level_subs_height s sub Hsub) as Hht.
      pose proof (sels_level_subs_size s sub Hsub) as Hss.
      unfold Pm. split; [lia|]. split.
      + exists q, (h - 1). split; [| split; lia].
        intros c fl Hc. apply (Ha c true).
        apply (sels_level_subs_edges s false sub c fl false); assumption.
      + unfold sized in *. lia.
  Qed.

  Lemma sels_height_frag : forall f, In f (d_frags D) -> sels_height (fr_sel f) <= H.
  Proof.
    intros f Hf. unfold H, doc_height.
    pose proof (list_max_in _ (fun f => sels_height (fr_sel f)) (d_frags D) f Hf). simpl in *. lia.
  Qed.

  Lemma sels_height_op : forall op, In op (d_ops D) -> sels_height (o_sel op) <= H.
  Proof.
    intros op Hop. unfold H, doc_height.
    pose proof (list_max_in _ (fun o => sels_height (o_sel o)) (d_ops D) op Hop). simpl in *. lia.
  Qed.

  Lemma sized_op : forall op, In op (d_ops D) -> sized (o_sel op).
  Proof.
    intros op Hop. unfold sized, doc_size, frag_total.
    pose proof (list_sum_in _ (fun o => sels_size (o_sel o)) (d_ops D) op Hop).
    pose proof (unvisited_le_size (d_frags D) []). simpl in *. lia.
  Qed.

  Lemma sized_frag_sub :
    forall f sub, In f (d_frags D) -> In sub (flat_map level_subs (fr_sel f)) -> sized sub.
  Proof.
    intros f sub Hf Hsub. unfold sized, doc_size, frag_total.
    pose proof (sels_level_subs_size (fr_sel f) sub Hsub) as Hs.
    pose proof (unvisited_sub_le_size (d_frags D) [] f (sels_size sub) Hf Hs). lia.
  Qed.

  Lemma frag_lvls :
    forall m f, In f (d_frags D) -> Qm m (fr_name f) -> lvls (Qm m) (Pm m) (fr_sel f).
  Proof.
    intros m f Hf Hq. unfold Qm in Hq. split.
    - intros b Hb. pose proof (sels_level_spreads_edges (fr_sel f) false b Hb) as He.
      pose proof (Hrk f (b, false) Hf He) as Hr. simpl in Hr. unfold Qm. nia.
    - intros sub Hsub. unfold Pm. split; [lia|]. split.
      + exists (rk (fr_name f)), H. split; [| split].
        * intros c fl Hc.
          pose proof (sels_level_subs_edges (fr_sel f) false sub c fl false Hsub Hc) as He.
          pose proof (Hrk f (c, true) Hf He) as Hr. simpl in Hr. unfold edge_weight in Hr.
          simpl in Hr. lia.
        * pose proof (sels_level_subs_height (fr_sel f) sub Hsub).
          pose proof (sels_height_frag f Hf). lia.
        * lia.
      + apply (sized_frag_sub f sub Hf Hsub).
  Qed.

  Lemma frag_closed :
    forall m b f, Qm m b -> find_fragment b (d_frags D) = Some f -> lvls (Qm m) (Pm m) (fr_sel f).
  Proof.
    intros m b f Hq Hfind. destruct (find_fragment_in b (d_frags D) f Hfind) as [Hin Hn].
    apply frag_lvls; [exact Hin | rewrite Hn; exact Hq].
  Qed.

  (* (1) the invariant of one level: everything collected has a smaller measure *)
  Lemma walk_level :
    forall fuel m obj sets,
      Forall (fun s => state m s /\ sized s) sets ->
      doc_size D + 1 <= fuel ->
      exists g, collect_all fuel Sc D vars obj sets [] [] = Some g /\ groups_ok (Pm m) g.
  Proof.
    intros fuel m obj sets Hsets Hfuel.
    apply (collect_all_ok (Qm m) (Pm m) D (frag_closed m)).
    - apply Forall_forall. intros s Hs. rewrite Forall_forall in Hsets.
      destruct (Hsets s Hs) as [Hst Hsz]. split.
      + apply state_lvls; assumption.
      + pose proof (sized_csize s Hsz). lia.
    - constructor.
  Qed.

  Lemma walk_nil : forall fuel obj, 1 <= fuel -> walk fuel Sc D vars obj [] <> None.
  Proof.
    intros fuel obj Hf. destruct fuel as [|f]; [lia|]. rewrite walk_eq. simpl. discriminate.
  Qed.

  (* (2) depth: a level of measure m ends with fuel m + doc_size D + 2 *)
  Lemma walk_measure :
    forall fuel m obj sets,
      Forall (fun s => state m s /\ sized s) sets ->
      m + doc_size D + 2 <= fuel ->
      walk fuel Sc D vars obj sets <> None.
  Proof.
    induction fuel as [|f IH]; intros m obj sets Hsets Hfuel.
    - lia.
    - rewrite walk_eq.
      destruct (walk_level f m obj sets Hsets) as [g [Eg Hg]]; [lia|].
      rewrite Eg.
      assert (Hog : over_groups_f Sc obj (walk f Sc D vars) g <> None).
      { apply (over_groups_some Sc obj (walk f Sc D vars) (Pm m) g); [| exact Hg].
        intros t sets' Hs'. destruct sets' as [|s0 r0]; [apply walk_nil; lia|].
        assert (Hm1 : 1 <= m).
        { inversion Hs' as [|x l [Hx _] Hl]; exact Hx. }
        apply (IH (m - 1)); [| lia].
        apply Forall_forall. intros s Hs. rewrite Forall_forall in Hs'.
        destruct (Hs' s Hs) as [_ [Hst Hsz]]. split; assumption. }
      destruct (over_groups_f Sc obj (walk f Sc D vars) g); [discriminate | congruence].
  Qed.

  (* (3) from an operation *)
  Variable R : nat.
  Hypothesis HR : forall a, rk a <= R.

  Lemma op_state :
    forall op, In op (d_ops D) -> state ((R + 1) * (H + 2) + H) (o_sel op).
  Proof.
    intros op Hop. exists (R + 1), H. split; [| split].
    - intros c fl _. specialize (HR c). lia.
    - apply sels_height_op; exact Hop.
    - lia.
  Qed.

  Lemma walk_terminates_rank :
    forall obj sels,
      (exists op, In op (d_ops D) /\ o_sel op = sels) ->
      forall fuel, (R + 2) * (doc_height D + 2) + doc_size D + 2 <= fuel ->
                   walk fuel Sc D vars obj [sels] <> None.
  Proof.
    intros obj sels [op [Hop Hsel]] fuel Hfuel. subst sels.
    apply (walk_measure fuel ((R + 1) * (H + 2) + H)).
    - constructor; [| constructor]. split; [apply op_state; exact Hop | apply sized_op; exact Hop].
    - fold H in Hfuel. nia.
  Qed.
End Walk.

(* ------------------------------------------------------------------ *)
Theorem walk_terminates_of_rank :
  forall Sc D vars obj sels rk R,
    rank_respected D rk -> (forall a, rk a <= R) ->
    (exists op, In op (d_ops D) /\ o_sel op = sels) ->
    forall fuel, (R + 2) * (doc_height D + 2) + doc_size D + 2 <= fuel ->
                 walk fuel Sc D vars obj [sels] <> None.
Proof.
  intros Sc D vars obj sels rk R Hrk HR Hop fuel Hfuel.
  exact (walk_terminates_rank Sc D vars rk Hrk R HR obj sels Hop fuel Hfuel).
Qed.

Theorem walk_terminates :
  forall Sc D vars obj sels,
    (exists op, In op (d_ops D) /\ o_sel op = sels) ->
    fragment_cycle_through_field D = false ->
    forall fuel, plan_bound D <= fuel -> walk fuel Sc D vars obj [sels] <> None.
Proof.
  intros Sc D vars obj sels Hop Hchk fuel Hfuel.
  apply (walk_terminates_of_rank Sc D vars obj sels (rk_of (rank_candidate D)) (max_rank D)).
  - apply cycle_check_rank; exact Hchk.
  - apply rank_candidate_bounded.
  - exact Hop.
  - unfold plan_bound in Hfuel. exact Hfuel.
Qed.

(* the recursion depth reported is within the fuel *)
Corollary walk_depth_exists :
  forall Sc D vars obj sels,
    (exists op, In op (d_ops D) /\ o_sel op = sels) ->
    fragment_cycle_through_field D = false ->
    exists d, walk (plan_bound D) Sc D vars obj [sels] = Some d.
Proof.
  intros Sc D vars obj sels Hop Hchk.
  pose proof (walk_terminates Sc D vars obj sels Hop Hchk (plan_bound D) (le_n _)) as Hw.
  destruct (walk (plan_bound D) Sc D vars obj [sels]) as [d|]; [exists d; reflexivity | congruence].
Qed.
