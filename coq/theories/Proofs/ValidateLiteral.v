(* isValidLiteralValue as an inductive relation, and the model vlit decides it. *)
From Coq Require Import List Arith Lia Bool String NArith ZArith.
From GQL Require Import Exec.Syntax Validate.VSyntax Validate.Overlap Validate.Rules Proofs.ValidateRules.
Import ListNotations.
Open Scope string_scope.
Open Scope list_scope.

Section WValInd.
Variable P : wvalue -> Prop.
Hypothesis Hvar : forall id n, P (WVar id n).
Hypothesis Hint : forall id z, P (WInt id z).
Hypothesis Hfloat : forall id n d, P (WFloat id n d).
Hypothesis Hstr : forall id s, P (WStr id s).
Hypothesis Hbool : forall id b, P (WBool id b).
Hypothesis Henum : forall id n, P (WEnum id n).
Hypothesis Hlist : forall id l, Forall P l -> P (WList id l).
Hypothesis Hobj : forall id l, Forall (fun p => P (snd (snd p))) l -> P (WObj id l).
Fixpoint wvalue_ind' (v : wvalue) : P v :=
  match v with
  | WVar id n => Hvar id n
  | WInt id z => Hint id z
  | WFloat id n d => Hfloat id n d
  | WStr id s => Hstr id s
  | WBool id b => Hbool id b
  | WEnum id n => Henum id n
  | WList id l =>
    Hlist id l ((fix go (l : list wvalue) : Forall P l :=
                   match l with [] => Forall_nil P | x :: r => Forall_cons x (wvalue_ind' x) (go r) end) l)
  | WObj id l =>
    Hobj id l ((fix go (l : list (N * (name * wvalue))) : Forall (fun p => P (snd (snd p))) l :=
                  match l with [] => Forall_nil _ | x :: r => Forall_cons x (wvalue_ind' (snd (snd x))) (go r) end) l)
  end.
End WValInd.

Section Lit.
Variable S : schema.

Definition is_list_lit (v : wvalue) : bool := match v with WList _ _ => true | _ => false end.

(* a literal is acceptable where a value of type t is expected *)
Inductive ValidLit : wvalue -> tyref -> Prop :=
| VL_var : forall v t, is_var v = true -> ValidLit v t
| VL_nonnull : forall v t, is_var v = false -> ValidLit v t -> ValidLit v (TNonNull t)
| VL_list : forall id l it, (forall e, In e l -> ValidLit e it) -> ValidLit (WList id l) (TList it)
| VL_list_one : forall v it, is_var v = false -> is_list_lit v = false -> ValidLit v it -> ValidLit v (TList it)
| VL_obj : forall id l n fs, lookup_type S n = Some (TInputObject fs) ->
    (forall p, In p l -> In (fst (snd p)) (map a_name fs)) ->                      (* every provided field is defined *)
    (forall fd v, In fd fs -> find_ofield (a_name fd) l = Some v -> ValidLit v (a_type fd)) ->   (* the last one of a name counts *)
    (forall fd, In fd fs -> find_ofield (a_name fd) l = None -> is_nonnull (a_type fd) = false) ->  (* a missing field is nullable *)
    ValidLit (WObj id l) (TNamed n)
| VL_scalar : forall v n k, is_var v = false -> lookup_type S n = Some (TScalar k) -> scalar_lit k v = true ->
    ValidLit v (TNamed n)
| VL_enum : forall id e n vals, lookup_type S n = Some (TEnum vals) -> amem e vals = true ->
    ValidLit (WEnum id e) (TNamed n)
| VL_other : forall v n, is_var v = false ->
    match lookup_type S n with Some (TInputObject _) | Some (TScalar _) | Some (TEnum _) => False | _ => True end ->
    ValidLit v (TNamed n).

(* ---- unfolding vlit ---- *)
Lemma vlit_var : forall v t, is_var v = true -> vlit S v t = true.
Proof. intros v t H. destruct v; try discriminate. reflexivity. Qed.

Lemma vlit_nonnull : forall v t, vlit S v (TNonNull t) = vlit S v t.
Proof. intros v t. destruct v; reflexivity. Qed.

Lemma vlit_list : forall v it, is_var v = false ->
  vlit S v (TList it) = match v with WList _ l => forallb (fun e => vlit S e it) l | _ => vlit S v it end.
Proof. intros v it H. destruct v; try discriminate; reflexivity. Qed.

Definition pickf (fd : argdef) : list (N * (name * wvalue)) -> option bool -> bool :=
  fix pick (l : list (N * (name * wvalue))) (acc : option bool) : bool :=
    match l with
    | [] => match acc with Some b => b | None => negb (is_nonnull (a_type fd)) end
    | p :: r => pick r (if String.eqb (a_name fd) (fst (snd p)) then Some (vlit S (snd (snd p)) (a_type fd)) else acc)
    end.

Lemma vlit_named : forall v n, is_var v = false ->
  vlit S v (TNamed n) =
  match lookup_type S n with
  | Some (TInputObject fs) =>
    match v with
    | WObj _ l =>
      forallb (fun p => match find_argdef (fst (snd p)) fs with Some _ => true | None => false end) l &&
      forallb (fun fd => pickf fd l None) fs
    | _ => false
    end
  | Some (TScalar k) => scalar_lit k v
  | Some (TEnum vals) => match v with WEnum _ e => amem e vals | _ => false end
  | _ => true
  end.
Proof. intros v n H. destruct v; try discriminate; reflexivity. Qed.

Lemma pickf_spec : forall fd l accv,
  pickf fd l (option_map (fun v => vlit S v (a_type fd)) accv) =
  match fold_left (fun (acc : option wvalue) (p : N * (name * wvalue)) => if String.eqb (a_name fd) (fst (snd p)) then Some (snd (snd p)) else acc) l accv with
  | Some v => vlit S v (a_type fd)
  | None => negb (is_nonnull (a_type fd))
  end.
Proof.
  intros fd l. induction l as [|p r IH]; intro accv; simpl.
  - destruct accv; reflexivity.
  - destruct (String.eqb (a_name fd) (fst (snd p))).
    + apply (IH (Some (snd (snd p)))).
    + apply IH.
Qed.

Lemma pickf_find : forall fd l,
  pickf fd l None = match find_ofield (a_name fd) l with
                    | Some v => vlit S v (a_type fd)
                    | None => negb (is_nonnull (a_type fd))
                    end.
Proof. intros fd l. apply (pickf_spec fd l None). Qed.

Lemma find_ofield_in : forall n l v, find_ofield n l = Some v -> exists p, In p l /\ snd (snd p) = v.
Proof.
  intros n l v. unfold find_ofield.
  assert (G : forall (l : list (N * (name * wvalue))) acc,
              fold_left (fun (acc : option wvalue) (p : N * (name * wvalue)) => if String.eqb n (fst (snd p)) then Some (snd (snd p)) else acc) l acc = Some v ->
              acc = Some v \/ exists p, In p l /\ snd (snd p) = v).
  { induction l0 as [|p r IH]; intros acc H; simpl in H; [left; exact H|].
    destruct (IH _ H) as [E|[q [Hq Eq]]]; [|right; exists q; split; [right; exact Hq | exact Eq]].
    destruct (String.eqb n (fst (snd p))); [|left; exact E]. inversion E. right. exists p. split; [left; reflexivity | reflexivity]. }
  intro H. destruct (G l None H) as [E|E]; [discriminate | exact E].
Qed.

Lemma find_argdef_in : forall n fs, (exists d, find_argdef n fs = Some d) <-> In n (map a_name fs).
Proof.
  intros n fs. split.
  - intros [d H]. destruct (find_argdef_none n fs) as [_ K].
    destruct (in_dec string_dec n (map a_name fs)) as [Y|N]; [exact Y|]. rewrite (K N) in H. discriminate.
  - intro H. destruct (find_argdef n fs) as [d|] eqn:E; [exists d; reflexivity|].
    apply find_argdef_none in E. contradiction.
Qed.

Ltac named_fwd :=
  match goal with
  | H : _ = true |- ValidLit _ (TNamed ?n) =>
    destruct (lookup_type S n) as [[k|vals|fs ifs|fs|ms|fs]|] eqn:El;
    first [ discriminate H
          | eapply VL_scalar; [reflexivity | exact El | exact H]
          | eapply VL_enum; [exact El | exact H]
          | apply VL_other; [reflexivity | rewrite El; exact I] ]
  end.
Ltac named_bwd H :=
  inversion H; subst;
  first [ discriminate
        | match goal with E : lookup_type S ?n = _ |- _ => rewrite E end; assumption
        | match goal with K : match lookup_type S ?n with _ => _ end |- _ =>
            destruct (lookup_type S n) as [[k|vals|fs ifs|fs|ms|fs]|]; try contradiction; reflexivity end ].

Theorem vlit_iff : forall v t, vlit S v t = true <-> ValidLit v t.
Proof.
  induction v as [id x|id z|id n d|id s|id b|id e|id l IHl|id l IHl] using wvalue_ind'; intro t;
    try (split; [intros _; apply VL_var; reflexivity | intros _; reflexivity]).
  all: induction t as [n0|it IHt|t' IHt].
  all: try (rewrite vlit_nonnull; rewrite IHt; split; [intro H; apply VL_nonnull; [reflexivity | exact H]
             | intro H; inversion H; subst; [discriminate | assumption]]).
  (* scalar-like literals against a named type *)
  all: try (rewrite vlit_named by reflexivity; split; [intro H; named_fwd | intro H; named_bwd H]; fail).
  (* scalar-like literals against a list type: a single item *)
  all: try (rewrite vlit_list by reflexivity; rewrite IHt; split;
            [ intro H; apply VL_list_one; [reflexivity | reflexivity | exact H]
            | intro H; inversion H; subst; [discriminate | assumption] ]; fail).
  - (* list literal, list type *)
    rewrite vlit_list by reflexivity. rewrite forallb_forall. rewrite Forall_forall in IHl. split.
    + intro H. apply VL_list. intros e He. apply IHl; [exact He | apply H; exact He].
    + intro H. inversion H; subst; try discriminate. intros e He. apply IHl; [exact He|]. auto.
  - (* object literal, named type *)
    rewrite vlit_named by reflexivity. rewrite Forall_forall in IHl. split.
    + intro H. destruct (lookup_type S n0) as [[k|vals|fs ifs|fs|ms|fs]|] eqn:El;
        try discriminate H; try (apply VL_other; [reflexivity | rewrite El; exact I]).
      * apply (VL_scalar (WObj id l) n0 k eq_refl El H).
      * apply andb_true_iff in H. destruct H as [H1 H2]. rewrite forallb_forall in H1, H2.
        apply (VL_obj id l n0 fs El).
        -- intros p Hp. apply find_argdef_in. specialize (H1 p Hp).
           destruct (find_argdef (fst (snd p)) fs) as [d|]; [exists d; reflexivity | discriminate].
        -- intros fd v Hfd Ef. specialize (H2 fd Hfd). rewrite pickf_find, Ef in H2.
           destruct (find_ofield_in _ _ _ Ef) as [p [Hp Ev]]. subst v. apply (IHl p Hp). exact H2.
        -- intros fd Hfd Ef. specialize (H2 fd Hfd). rewrite pickf_find, Ef in H2. apply negb_true_iff. exact H2.
    + intro H. inversion H as [| | | |id' l' n' fs El Hk Hv Hm| | |v' n' Hv' Hk]; subst; try discriminate.
      * rewrite El. apply andb_true_iff. split; apply forallb_forall.
        -- intros p Hp. destruct (proj2 (find_argdef_in (fst (snd p)) fs) (Hk p Hp)) as [d Ed]. rewrite Ed. reflexivity.
        -- intros fd Hfd. rewrite pickf_find. destruct (find_ofield (a_name fd) l) as [v|] eqn:Ef.
           ++ destruct (find_ofield_in _ _ _ Ef) as [p [Hp Ev]]. subst v. apply (IHl p Hp). apply (Hv fd _ Hfd Ef).
           ++ apply negb_true_iff. apply (Hm fd Hfd Ef).
      * match goal with E : lookup_type S n0 = _ |- _ => rewrite E end. assumption.
      * destruct (lookup_type S n0) as [[k|vals|fs ifs|fs|ms|fs]|]; try contradiction; reflexivity.
Qed.
End Lit.

Section LitRules.
Variable S : schema.
Variable W : wdoc.

Definition Violates_arguments_of_correct_type_decl : Prop :=
  exists ow ad a, In (IArg ow (Some ad) a) (doc_items S W) /\ ~ ValidLit S (wa_val a) (a_type ad).

Theorem arguments_of_correct_type_decl_iff :
  rule_arguments_of_correct_type S W <> [] <-> Violates_arguments_of_correct_type_decl.
Proof.
  rewrite arguments_of_correct_type_iff. unfold Violates_arguments_of_correct_type, Violates_arguments_of_correct_type_decl.
  split; intros [ow [ad [a [Hi H]]]]; exists ow, ad, a; (split; [exact Hi|]).
  - intro V. apply vlit_iff in V. rewrite V in H. discriminate.
  - destruct (vlit S (wa_val a) (a_type ad)) eqn:E; [|reflexivity]. exfalso. apply H. apply vlit_iff. exact E.
Qed.

Definition Violates_default_values_of_correct_type_decl : Prop :=
  exists o v d t, In o (w_ops W) /\ In v (wo_vars o) /\ wv_default v = Some d /\
    type_from_ast S (erase_type (wv_type v)) = Some t /\ (is_nonnull t = true \/ ~ ValidLit S d t).

Theorem default_values_of_correct_type_decl_iff :
  rule_default_values_of_correct_type S W <> [] <-> Violates_default_values_of_correct_type_decl.
Proof.
  rewrite default_values_of_correct_type_iff.
  unfold Violates_default_values_of_correct_type, Violates_default_values_of_correct_type_decl.
  split; intros [o [v [d [t [Ho [Hv [Ed [Et H]]]]]]]]; exists o, v, d, t; repeat (split; [assumption|]);
    destruct H as [H|H]; [left; exact H | right | left; exact H | right].
  - intro V. apply vlit_iff in V. rewrite V in H. discriminate.
  - destruct (vlit S d t) eqn:E; [|reflexivity]. exfalso. apply H. apply vlit_iff. exact E.
Qed.
End LitRules.
