(* C08, no-edit clause: when every visit function returns values that are not ast.Nodes
   (the printer's reducers return strings), Visit applies all edits to copies and the heap
   that holds the AST is left exactly as it was. *)
From Coq Require Import List NArith Bool Lia.
From GQL Require Import Base.Bytes Syntax.PrintVisit.
Import ListNotations.
Open Scope N_scope.

(* a value that Visit stores in a copy: not a node (nor a slice of nodes only), not nil *)
Definition safe (v : rval) : Prop := needs_map v = true /\ is_nil_val v = false.
Definition safe_fn (fn : N -> rval -> option rval) : Prop := forall k v r, fn k v = Some r -> safe r.

Lemma safe_str : forall s, safe (RStr s). Proof. intro s. split; reflexivity. Qed.
Lemma safe_copy : forall a ov, safe (RCopy a ov). Proof. intros. split; reflexivity. Qed.

Lemma apply_edits_copy : forall eds h a ov, Forall (fun e => safe (snd e)) eds ->
  fold_left apply_edit eds (h, RCopy a ov) = (h, RCopy a (ov ++ eds)).
Proof.
  induction eds as [|[k v] eds IH]; intros h a ov H; [rewrite app_nil_r; reflexivity|].
  inversion H as [|? ? [Hv _] Hr]; subst. cbn [fold_left apply_edit]. cbn [snd] in Hv. rewrite Hv.
  rewrite (IH h a (ov ++ [(k, v)]) Hr). rewrite <- app_assoc. reflexivity.
Qed.

Lemma apply_edits_safe : forall eds h a, Forall (fun e => safe (snd e)) eds ->
  apply_edits h a eds = (h, match eds with [] => RNode a | _ => RCopy a eds end).
Proof.
  intros [|[k v] eds] h a H; [reflexivity|]. unfold apply_edits.
  inversion H as [|? ? [Hv _] Hr]; subst. cbn [fold_left apply_edit]. cbn [snd] in Hv. rewrite Hv.
  apply (apply_edits_copy eds h a [(k, v)] Hr).
Qed.

Section NoEdit.
  Variable keys : N -> list N.
  Variable fn : N -> rval -> option rval.
  Hypothesis Hfn : safe_fn fn.

  (* what is assumed of the recursive call, and proved of the whole *)
  Definition keeps (rec : heap -> N -> visit_res) : Prop :=
    forall h a h' r, rec h a = Some (h', r) -> h' = h /\ (forall v, r = Some v -> safe v).

  Lemma elems_keeps : forall rec, keeps rec -> forall cs h h' l ed, elems rec h cs = Some (h', l, ed) ->
    h' = h /\ (ed = true -> existsb (fun x => negb (is_struct_node x)) l = true).
  Proof.
    intros rec Hrec. induction cs as [|c r IH]; intros h h' l ed H.
    - cbn [elems] in H. inversion H; subst. split; [reflexivity|discriminate].
    - cbn [elems] in H. destruct (rec h c) as [[h1 e]|] eqn:R; [|discriminate].
      destruct (Hrec _ _ _ _ R) as [-> He].
      destruct (elems rec h r) as [[[h2 l2] ed2]|] eqn:E; [|discriminate].
      destruct (IH _ _ _ _ E) as [-> Hl]. destruct e as [v|].
      + destruct (He v eq_refl) as [Hv Hn]. rewrite Hn in H. inversion H; subst. split; [reflexivity|]. intros _.
        cbn [existsb]. destruct v; cbn in Hv |- *; try reflexivity; try discriminate Hv.
      + inversion H; subst. split; [reflexivity|]. intro X. cbn [existsb is_struct_node negb orb]. apply Hl. exact X.
  Qed.

  Lemma fields_keeps : forall rec, keeps rec -> forall a ks h h' eds, fields rec a h ks = Some (h', eds) ->
    h' = h /\ Forall (fun e => safe (snd e)) eds.
  Proof.
    intros rec Hrec a. induction ks as [|k r IH]; intros h h' eds H.
    - cbn [fields] in H. inversion H; subst. split; [reflexivity|constructor].
    - cbn [fields] in H. destruct (hlookup a h) as [st|]; [|discriminate].
      destruct (field k (hs_fields st)) as [|c|cs|s].
      + apply IH. exact H.
      + destruct (rec h c) as [[h1 e]|] eqn:R; [|discriminate]. destruct (Hrec _ _ _ _ R) as [-> He].
        destruct (fields rec a h r) as [[h2 eds2]|] eqn:F; [|discriminate]. destruct (IH _ _ _ F) as [-> Hs].
        inversion H; subst. split; [reflexivity|]. destruct e as [v|]; [constructor; [apply He; reflexivity|exact Hs]|exact Hs].
      + destruct (elems rec h cs) as [[[h1 l] ed]|] eqn:E; [|discriminate]. destruct (elems_keeps rec Hrec _ _ _ _ _ E) as [-> Hl].
        destruct (fields rec a h r) as [[h2 eds2]|] eqn:F; [|discriminate]. destruct (IH _ _ _ F) as [-> Hs].
        inversion H; subst. split; [reflexivity|]. destruct ed; [|exact Hs].
        constructor; [|exact Hs]. cbn [snd]. split; [cbn [needs_map]; apply Hl; reflexivity|reflexivity].
      + apply IH. exact H.
  Qed.

  Theorem visit_node_keeps : forall fuel, keeps (visit_node keys fn fuel).
  Proof.
    induction fuel as [|f IH]; intros h a h' r H; [discriminate H|].
    cbn [visit_node] in H. destruct (hlookup a h) as [st|]; [|discriminate].
    destruct (fields (visit_node keys fn f) a h (keys (hs_kind st))) as [[h1 eds]|] eqn:F; [|discriminate].
    destruct (fields_keeps _ IH _ _ _ _ _ F) as [-> Hs].
    rewrite (apply_edits_safe eds h a Hs) in H.
    destruct (fn (hs_kind st) (match eds with [] => RNode a | _ :: _ => RCopy a eds end)) as [v|] eqn:Fn.
    - inversion H; subst. split; [reflexivity|]. intros v0 E. inversion E; subst. apply (Hfn _ _ _ Fn).
    - inversion H; subst. split; [reflexivity|]. intros v0 E. destruct eds; [discriminate E|]. inversion E; subst. apply safe_copy.
  Qed.

  (* the AST handed to Visit is not modified *)
  Theorem visit_no_edit : forall fuel h root h' r, visit keys fn fuel h root = Some (h', r) -> h' = h.
  Proof. intros fuel h root h' r H. apply (visit_node_keeps fuel h root h' r H). Qed.
End NoEdit.

(* the model does exhibit the mutation when a visit function returns a node: a Field whose
   Name child is replaced by another Name node gets its Name field overwritten in the heap *)
Definition ex_heap : heap :=
  [(1, mkHS 10 [(1, HPtr 2)]); (2, mkHS 20 []); (3, mkHS 20 [])].
Definition ex_keys (k : N) : list N := if k =? 10 then [1] else [].
Definition ex_fn_node (k : N) (v : rval) : option rval := if k =? 20 then Some (RNode 3) else None.
Definition ex_fn_str (k : N) (v : rval) : option rval := if k =? 20 then Some (RStr [97]) else None.

Lemma visit_can_edit : exists h', visit ex_keys ex_fn_node 3 ex_heap 1 = Some (h', Some (RNode 1)) /\ h' <> ex_heap.
Proof. eexists. split; [vm_compute; reflexivity|discriminate]. Qed.
Lemma visit_str_example : visit ex_keys ex_fn_str 3 ex_heap 1 = Some (ex_heap, Some (RCopy 1 [(1, RStr [97])])).
Proof. vm_compute. reflexivity. Qed.
