(* Properties of CollectFields (Exec.collect): response keys are unique, every collected
   occurrence is an included occurrence reachable from the selection set. *)
From Coq Require Import List ZArith NArith String Bool.
From GQL Require Import Exec.Syntax Exec.Coerce Exec.Exec.
Import ListNotations.
Open Scope string_scope.
Open Scope list_scope.

Definition in_group (g : groups) (k : name) (o : occ) : Prop := exists os, In (k, os) g /\ In o os.

Definition key_of (al : option name) (nm : name) : name := match al with Some a => a | None => nm end.

(* the included field occurrences reachable from a selection set for an object of type obj *)
Inductive Occurs (S : schema) (D : document) (vars : list (name * jv)) (obj : name)
  : list selection -> name -> occ -> Prop :=
| Oc_field sels id al nm args ds sub :
    In (SField id al nm args ds sub) sels -> included S ds vars = true ->
    Occurs S D vars obj sels (key_of al nm) {| oc_id := id; oc_name := nm; oc_args := args; oc_sub := sub |}
| Oc_inline sels id tc ds sub k o :
    In (SInline id tc ds sub) sels -> included S ds vars = true -> fragment_matches S tc obj = true ->
    Occurs S D vars obj sub k o -> Occurs S D vars obj sels k o
| Oc_spread sels id nm ds f k o :
    In (SSpread id nm ds) sels -> included S ds vars = true ->
    find_fragment nm (d_frags D) = Some f -> fragment_matches S (Some (fr_cond f)) obj = true ->
    Occurs S D vars obj (fr_sel f) k o -> Occurs S D vars obj sels k o.

Lemma Occurs_tail : forall S D vars obj x sels k o,
  Occurs S D vars obj sels k o -> Occurs S D vars obj (x :: sels) k o.
Proof.
  intros S D vars obj x sels k o H. inversion H; subst.
  - eapply Oc_field; [right; eassumption|assumption].
  - eapply Oc_inline; [right; eassumption|assumption|assumption|assumption].
  - eapply Oc_spread; [right; eassumption|assumption|eassumption|assumption|assumption].
Qed.

Lemma add_occ_in : forall k o g k' o',
  in_group (add_occ k o g) k' o' -> in_group g k' o' \/ (k' = k /\ o' = o).
Proof.
  intros k o g. induction g as [|[k0 os0] g IH]; intros k' o' [os [Hin Ho]].
  - cbn in Hin. destruct Hin as [E|[]]. inversion E; subst. destruct Ho as [->|[]]. right. split; reflexivity.
  - cbn [add_occ] in Hin. destruct (String.eqb k k0) eqn:Ek.
    + apply String.eqb_eq in Ek. subst k0. destruct Hin as [E|Hin].
      * inversion E; subst. apply in_app_or in Ho. destruct Ho as [Ho|[->|[]]].
        -- left. exists os0. split; [left; reflexivity|exact Ho].
        -- right. split; reflexivity.
      * left. exists os. split; [right; exact Hin|exact Ho].
    + destruct Hin as [E|Hin].
      * inversion E; subst. left. exists os. split; [left; reflexivity|exact Ho].
      * destruct (IH k' o' (ex_intro _ os (conj Hin Ho))) as [[os' [H1 H2]]|H].
        -- left. exists os'. split; [right; exact H1|exact H2].
        -- right. exact H.
Qed.

(* soundness: only included, matching occurrences are collected *)
Lemma collect_sound : forall fuel S D vars obj sels visited g g' v',
  collect fuel S D vars obj sels visited g = Some (g', v') ->
  forall k o, in_group g' k o -> in_group g k o \/ Occurs S D vars obj sels k o.
Proof.
  induction fuel as [|fuel IH]; intros S D vars obj sels visited g g' v' H k o Hin; [discriminate|].
  cbn [collect] in H.
  destruct sels as [|[id al nm args ds sub|id nm ds|id tc ds sub] rest].
  - inversion H; subst. left. exact Hin.
  - destruct (included S ds vars) eqn:Ei.
    + destruct (IH _ _ _ _ _ _ _ _ _ H k o Hin) as [Hg|Hr].
      * destruct (add_occ_in _ _ _ _ _ Hg) as [Hg'|[-> ->]]; [left; exact Hg'|].
        right. apply (Oc_field S D vars obj _ id al nm args ds sub); [left; reflexivity|exact Ei].
      * right. apply Occurs_tail. exact Hr.
    + destruct (IH _ _ _ _ _ _ _ _ _ H k o Hin) as [Hg|Hr]; [left; exact Hg|right; apply Occurs_tail; exact Hr].
  - destruct (included S ds vars && negb (nmem nm visited)) eqn:Ei.
    + apply andb_true_iff in Ei. destruct Ei as [Ei _].
      destruct (find_fragment nm (d_frags D)) as [f|] eqn:Ef.
      * destruct (fragment_matches S (Some (fr_cond f)) obj) eqn:Em.
        -- destruct (collect fuel S D vars obj (fr_sel f) (nm :: visited) g) as [[g1 v1]|] eqn:E1; [|discriminate].
           destruct (IH _ _ _ _ _ _ _ _ _ H k o Hin) as [Hg|Hr]; [|right; apply Occurs_tail; exact Hr].
           destruct (IH _ _ _ _ _ _ _ _ _ E1 k o Hg) as [Hg'|Hr]; [left; exact Hg'|].
           right. eapply Oc_spread; [left; reflexivity|exact Ei|exact Ef|exact Em|exact Hr].
        -- destruct (IH _ _ _ _ _ _ _ _ _ H k o Hin) as [Hg|Hr]; [left; exact Hg|right; apply Occurs_tail; exact Hr].
      * destruct (IH _ _ _ _ _ _ _ _ _ H k o Hin) as [Hg|Hr]; [left; exact Hg|right; apply Occurs_tail; exact Hr].
    + destruct (IH _ _ _ _ _ _ _ _ _ H k o Hin) as [Hg|Hr]; [left; exact Hg|right; apply Occurs_tail; exact Hr].
  - destruct (included S ds vars && fragment_matches S tc obj) eqn:Ei.
    + apply andb_true_iff in Ei. destruct Ei as [Ei Em].
      destruct (collect fuel S D vars obj sub visited g) as [[g1 v1]|] eqn:E1; [|discriminate].
      destruct (IH _ _ _ _ _ _ _ _ _ H k o Hin) as [Hg|Hr]; [|right; apply Occurs_tail; exact Hr].
      destruct (IH _ _ _ _ _ _ _ _ _ E1 k o Hg) as [Hg'|Hr]; [left; exact Hg'|].
      right. eapply Oc_inline; [left; reflexivity|exact Ei|exact Em|exact Hr].
    + destruct (IH _ _ _ _ _ _ _ _ _ H k o Hin) as [Hg|Hr]; [left; exact Hg|right; apply Occurs_tail; exact Hr].
Qed.

(* completeness for occurrences that are reached without a named fragment spread *)
Inductive OccursDirect (S : schema) (vars : list (name * jv)) (obj : name)
  : list selection -> name -> occ -> Prop :=
| Od_field sels id al nm args ds sub :
    In (SField id al nm args ds sub) sels -> included S ds vars = true ->
    OccursDirect S vars obj sels (key_of al nm) {| oc_id := id; oc_name := nm; oc_args := args; oc_sub := sub |}
| Od_inline sels id tc ds sub k o :
    In (SInline id tc ds sub) sels -> included S ds vars = true -> fragment_matches S tc obj = true ->
    OccursDirect S vars obj sub k o -> OccursDirect S vars obj sels k o.

Lemma add_occ_keeps : forall k o g k' o', in_group g k' o' -> in_group (add_occ k o g) k' o'.
Proof.
  intros k o g. induction g as [|[k0 os0] g IH]; intros k' o' [os [Hin Ho]]; [contradiction|].
  cbn [add_occ]. destruct (String.eqb k k0) eqn:Ek.
  - destruct Hin as [E|Hin].
    + inversion E; subst. exists (os ++ [o]). split; [left; reflexivity|apply in_or_app; left; exact Ho].
    + exists os. split; [right; exact Hin|exact Ho].
  - destruct Hin as [E|Hin].
    + inversion E; subst. exists os. split; [left; reflexivity|exact Ho].
    + destruct (IH k' o' (ex_intro _ os (conj Hin Ho))) as [os' [H1 H2]].
      exists os'. split; [right; exact H1|exact H2].
Qed.

Lemma add_occ_adds : forall k o g, in_group (add_occ k o g) k o.
Proof.
  intros k o g. induction g as [|[k0 os0] g IH].
  - exists [o]. split; left; reflexivity.
  - cbn [add_occ]. destruct (String.eqb k k0) eqn:Ek.
    + apply String.eqb_eq in Ek. subst. exists (os0 ++ [o]). split; [left; reflexivity|apply in_or_app; right; left; reflexivity].
    + destruct IH as [os [H1 H2]]. exists os. split; [right; exact H1|exact H2].
Qed.

Lemma collect_keeps : forall fuel S D vars obj sels visited g g' v',
  collect fuel S D vars obj sels visited g = Some (g', v') ->
  forall k o, in_group g k o -> in_group g' k o.
Proof.
  induction fuel as [|fuel IH]; intros S D vars obj sels visited g g' v' H k o Hin; [discriminate|].
  cbn [collect] in H.
  destruct sels as [|[id al nm args ds sub|id nm ds|id tc ds sub] rest].
  - inversion H; subst. exact Hin.
  - destruct (included S ds vars); eapply IH; try eassumption. apply add_occ_keeps. exact Hin.
  - destruct (included S ds vars && negb (nmem nm visited)); [|eapply IH; eassumption].
    destruct (find_fragment nm (d_frags D)) as [f|]; [|eapply IH; eassumption].
    destruct (fragment_matches S (Some (fr_cond f)) obj); [|eapply IH; eassumption].
    destruct (collect fuel S D vars obj (fr_sel f) (nm :: visited) g) as [[g1 v1]|] eqn:E1; [|discriminate].
    eapply IH; [exact H|]. eapply IH; eassumption.
  - destruct (included S ds vars && fragment_matches S tc obj); [|eapply IH; eassumption].
    destruct (collect fuel S D vars obj sub visited g) as [[g1 v1]|] eqn:E1; [|discriminate].
    eapply IH; [exact H|]. eapply IH; eassumption.
Qed.

Lemma collect_complete_direct : forall fuel S D vars obj sels visited g g' v',
  collect fuel S D vars obj sels visited g = Some (g', v') ->
  forall k o, OccursDirect S vars obj sels k o -> in_group g' k o.
Proof.
  induction fuel as [|fuel IH]; intros S D vars obj sels visited g g' v' H k o Ho; [discriminate|].
  cbn [collect] in H.
  destruct sels as [|x rest]; [inversion Ho; contradiction|].
  assert (Hrest : forall g0 v0, collect fuel S D vars obj rest v0 g0 = Some (g', v') ->
                                OccursDirect S vars obj rest k o -> in_group g' k o)
    by (intros g0 v0 H0 Hr; eapply IH; eassumption).
  (* split the derivation: head selection or tail *)
  assert (Hcase : (exists id al nm args ds sub, x = SField id al nm args ds sub /\ included S ds vars = true /\
                     k = key_of al nm /\ o = {| oc_id := id; oc_name := nm; oc_args := args; oc_sub := sub |})
                  \/ (exists id tc ds sub, x = SInline id tc ds sub /\ included S ds vars = true /\
                        fragment_matches S tc obj = true /\ OccursDirect S vars obj sub k o)
                  \/ OccursDirect S vars obj rest k o).
  { inversion Ho as [sels0 id al nm args ds sub Hin Hi|sels0 id tc ds sub k0 o0 Hin Hi Hm Hs]; subst.
    - destruct Hin as [E|Hin].
      + left. exists id, al, nm, args, ds, sub. repeat split; auto.
      + right. right. eapply Od_field; eassumption.
    - destruct Hin as [E|Hin].
      + right. left. exists id, tc, ds, sub. repeat split; auto.
      + right. right. eapply Od_inline; eassumption. }
  destruct Hcase as [(id & al & nm & args & ds & sub & -> & Hi & -> & ->)|[(id & tc & ds & sub & -> & Hi & Hm & Hs)|Hr]].
  - rewrite Hi in H. eapply collect_keeps; [exact H|]. apply add_occ_adds.
  - rewrite Hi, Hm in H. cbn [andb] in H.
    destruct (collect fuel S D vars obj sub visited g) as [[g1 v1]|] eqn:E1; [|discriminate].
    eapply collect_keeps; [exact H|]. eapply IH; eassumption.
  - destruct x as [id al nm args ds sub|id nm ds|id tc ds sub].
    + destruct (included S ds vars); eapply Hrest; eassumption.
    + destruct (included S ds vars && negb (nmem nm visited)); [|eapply Hrest; eassumption].
      destruct (find_fragment nm (d_frags D)) as [f|]; [|eapply Hrest; eassumption].
      destruct (fragment_matches S (Some (fr_cond f)) obj); [|eapply Hrest; eassumption].
      destruct (collect fuel S D vars obj (fr_sel f) (nm :: visited) g) as [[g1 v1]|]; [|discriminate].
      eapply Hrest; eassumption.
    + destruct (included S ds vars && fragment_matches S tc obj); [|eapply Hrest; eassumption].
      destruct (collect fuel S D vars obj sub visited g) as [[g1 v1]|]; [|discriminate].
      eapply Hrest; eassumption.
Qed.

(* response keys of the groups are unique *)
Lemma add_occ_keys : forall k o g, NoDup (map fst g) -> NoDup (map fst (add_occ k o g)).
Proof.
  intros k o g. induction g as [|[k0 os0] g IH]; intros H.
  - cbn. constructor; [intros []|constructor].
  - cbn [add_occ]. destruct (String.eqb k k0) eqn:Ek; [exact H|].
    cbn [map fst] in *. inversion H; subst. constructor; [|apply IH; assumption].
    intro Hin. apply H2.
    assert (Hk : forall g', In k0 (map fst (add_occ k o g')) -> In k0 (map fst g')).
    { clear -Ek. induction g' as [|[k1 os1] g' IH']; cbn [add_occ map fst]; intros Hin.
      - destruct Hin as [E|[]]. subst. rewrite String.eqb_refl in Ek. discriminate.
      - destruct (String.eqb k k1); [exact Hin|]. cbn [map fst] in Hin. destruct Hin as [E|Hin]; [left; exact E|right; apply IH'; exact Hin]. }
    apply Hk. exact Hin.
Qed.

Lemma collect_keys_nodup : forall fuel S D vars obj sels visited g g' v',
  collect fuel S D vars obj sels visited g = Some (g', v') -> NoDup (map fst g) -> NoDup (map fst g').
Proof.
  induction fuel as [|fuel IH]; intros S D vars obj sels visited g g' v' H Hn; [discriminate|].
  cbn [collect] in H.
  destruct sels as [|[id al nm args ds sub|id nm ds|id tc ds sub] rest].
  - inversion H; subst. exact Hn.
  - destruct (included S ds vars); eapply IH; try eassumption. apply add_occ_keys. exact Hn.
  - destruct (included S ds vars && negb (nmem nm visited)); [|eapply IH; eassumption].
    destruct (find_fragment nm (d_frags D)) as [f|]; [|eapply IH; eassumption].
    destruct (fragment_matches S (Some (fr_cond f)) obj); [|eapply IH; eassumption].
    destruct (collect fuel S D vars obj (fr_sel f) (nm :: visited) g) as [[g1 v1]|] eqn:E1; [|discriminate].
    eapply IH; [exact H|]. eapply IH; eassumption.
  - destruct (included S ds vars && fragment_matches S tc obj); [|eapply IH; eassumption].
    destruct (collect fuel S D vars obj sub visited g) as [[g1 v1]|] eqn:E1; [|discriminate].
    eapply IH; [exact H|]. eapply IH; eassumption.
Qed.
