(* C10: the "each once" facts (the default-value round trip is in Proofs/TypesDefault.v). *)
From Coq Require Import List NArith ZArith Bool Lia Permutation String.
From GQL Require Import Base.Bytes Types.Schema Types.Consistent Types.Introspection Proofs.TypesNames.
Import ListNotations.
Open Scope string_scope.
Open Scope N_scope.

(* ---------- sorting keeps exactly the elements ---------- *)
Lemma insert_name_perm {A} (key : A -> name) x : forall l, Permutation (insert_name key x l) (x :: l).
Proof.
  induction l as [|y r IH]; simpl; auto.
  destruct (bytes_leb (key x) (key y)); auto.
  apply perm_trans with (y :: x :: r); [apply perm_skip; exact IH|apply perm_swap].
Qed.

Lemma sort_name_perm {A} (key : A -> name) : forall l, Permutation (sort_name key l) l.
Proof.
  induction l as [|x r IH]; simpl; auto.
  apply perm_trans with (x :: sort_name key r); [apply insert_name_perm|apply perm_skip; exact IH].
Qed.

Lemma describe_type_name V D vt : dt_name (describe_type V D vt) = vt_name vt.
Proof. unfold describe_type. destruct (vt_def vt); reflexivity. Qed.

Lemma described_types V D : Permutation (map dt_name (d_types (describe V D))) (map vt_name (v_types V)).
Proof.
  unfold describe; simpl.
  apply perm_trans with (map dt_name (map (describe_type V D) (v_types V))).
  - apply Permutation_map. apply sort_name_perm.
  - rewrite map_map. erewrite map_ext; [apply Permutation_refl|]. intro vt. apply describe_type_name.
Qed.
