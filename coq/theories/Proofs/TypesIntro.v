(* C10: the default-value literal round trip and the "each once" facts. *)
From Coq Require Import List NArith ZArith Bool Lia Permutation String.
From GQL Require Import Base.Bytes Types.Schema Types.Consistent Types.Introspection Proofs.TypesNames.
Import ListNotations.
Open Scope string_scope.
Open Scope N_scope.

(* ---------- sorting keeps exactly the elements ---------- *)
Lemma insert_name_perm {A} (key : A -> name) x : forall l, Permutation (insert_name key x l) (x :: l).
Proof.
  induction l as [|y r IH]; simpl; auto.
  destruct (bytes_leb (key x) (key y)); auto.
  apply perm_trans with (y :: x :: r); [apply perm_skip; exact IH|apply perm_swap].
Qed.

Lemma sort_name_perm {A} (key : A -> name) : forall l, Permutation (sort_name key l) l.
Proof.
  induction l as [|x r IH]; simpl; auto.
  apply perm_trans with (x :: sort_name key r); [apply insert_name_perm|apply perm_skip; exact IH].
Qed.

Lemma describe_type_name V D vt : dt_name (describe_type V D vt) = vt_name vt.
Proof. unfold describe_type. destruct (vt_def vt); reflexivity. Qed.

Lemma described_types V D : Permutation (map dt_name (d_types (describe V D))) (map vt_name (v_types V)).
Proof.
  unfold describe; simpl.
  apply perm_trans with (map dt_name (map (describe_type V D) (v_types V))).
  - apply Permutation_map. apply sort_name_perm.
  - rewrite map_map. erewrite map_ext; [apply Permutation_refl|]. intro vt. apply describe_type_name.
Qed.

(* ---------- defaults: scalars, enums, lists and non-null of them ---------- *)
Fixpoint depth (t : tref) : nat :=
  match t with TList t' | TNonNull t' => Datatypes.S (depth t') | _ => 0%nat end.

Definition simple_leaf (ts : list vtype) (i : N) (v : value) : Prop :=
  exists vt, vfind ts i = Some vt /\
    match vt_def vt, v with
    | VScalar, VInt z => vt_name vt = s "Int" /\ (-2147483648 <= z <= 2147483647)%Z
    | VScalar, VBool _ => vt_name vt = s "Boolean"
    | VScalar, VStr _ => vt_name vt = s "String" \/ vt_name vt = s "ID"
    | VEnum names, VInt z => NoDup names /\ (0 < z)%Z /\ exists n, nth_error names (Z.to_nat (z - 1)) = Some n
    | _, _ => False
    end.

Fixpoint simple (ts : list vtype) (t : tref) (v : value) : Prop :=
  match t with
  | TNil => False
  | TNamed i => simple_leaf ts i v
  | TNonNull t' => simple ts t' v
  | TList t' => match v with VList l => Forall (simple ts t') l | _ => False end
  end.

Lemma index_of_nth : forall names n k idx, NoDup names -> nth_error names idx = Some n ->
  index_of n names k = Some (k + Z.of_nat idx)%Z.
Proof.
  induction names as [|m r IH]; intros n k idx Hnd Hn; destruct idx; simpl in *; try discriminate.
  - inversion Hn; subst. rewrite bytes_eqb_refl. f_equal. lia.
  - inversion Hnd as [|x l Hni Hnd']; subst.
    destruct (bytes_eqb m n) eqn:E.
    + apply bytes_eqb_eq in E. subst. exfalso. apply Hni. exact (nth_error_In _ _ Hn).
    + rewrite (IH n (k + 1)%Z idx Hnd' Hn). f_equal. lia.
Qed.

Lemma simple_not_null ts : forall t v, simple ts t v -> v <> VNull.
Proof.
  induction t as [|i|t IH|t IH]; simpl; intros v H Hv; subst; auto.
  - destruct H as (vt & _ & H). destruct (vt_def vt); exact H.
  - exact (IH VNull H eq_refl).
Qed.

Lemma list_round_trip {A B} (f : A -> option B) (g : B -> option A) : forall l,
  Forall (fun x => exists y, f x = Some y /\ g y = Some x) l ->
  all_some (map g (filter_some (map f l))) = Some l.
Proof.
  induction l as [|x r IH]; intros H; simpl; auto.
  inversion H as [|x' l' (y & Hf & Hg) Hr]; subst. rewrite Hf. simpl. rewrite Hg, (IH Hr). reflexivity.
Qed.

Lemma default_round_trip ts D : forall t v fuel, simple ts t v -> (depth t < fuel)%nat ->
  exists l, ast_from_value fuel ts t v = Some l /\ coerce fuel ts D t l = Some v.
Proof.
  induction t as [|i|t IH|t IH]; intros v fuel Hs Hf; simpl in Hs.
  - contradiction.
  - destruct fuel as [|f]; [lia|]. destruct Hs as (vt & Hv & Hk). simpl. rewrite Hv.
    destruct (vt_def vt) as [| | | |names| |] eqn:Ed; destruct v as [|z|b|b|l|kv]; try contradiction.
    + destruct Hk as [Hn [Hlo Hhi]]. exists (LInt z). split; auto. rewrite Hn. simpl.
      apply Z.leb_le in Hlo. apply Z.leb_le in Hhi. rewrite Hlo, Hhi. reflexivity.
    + exists (LStr b). split; auto. destruct Hk as [Hn|Hn]; rewrite Hn; reflexivity.
    + exists (LBool b). split; auto. rewrite Hk. reflexivity.
    + destruct Hk as (Hnd & Hz & n & Hn). exists (LEnum n). rewrite Hn.
      apply Z.ltb_lt in Hz. rewrite Hz. split; auto.
      rewrite (index_of_nth names n 1%Z _ Hnd Hn). f_equal. f_equal. apply Z.ltb_lt in Hz. lia.
  - destruct fuel as [|f]; [lia|]. simpl in Hf. destruct v as [|z|b|b|l|kv]; try contradiction.
    assert (Hall : Forall (fun x => exists y, ast_from_value f ts t x = Some y /\ coerce f ts D t y = Some x) l).
    { apply Forall_forall. intros x Hx. apply IH; [exact (proj1 (Forall_forall _ _) Hs x Hx)|lia]. }
    exists (LList (filter_some (map (ast_from_value f ts t) l))). split; [reflexivity|].
    simpl. rewrite (list_round_trip _ _ l Hall). reflexivity.
  - destruct fuel as [|f]; [lia|]. simpl in Hf. destruct (IH v f Hs) as (l & Ha & Hc); [lia|].
    exists l. split; simpl; auto.
Qed.
