(* A witness returned by the viability search is a proof that the prefix begins a valid document,
   and the report of [parse_report] is that of [parse_err_ext]. *)
From Coq Require Import String List NArith Bool Lia PeanoNat.
From GQL Require Import Base.Bytes Syntax.Lexer Syntax.Ast Syntax.Parser SynErr.LexErr SynErr.ParseErr SynErr.Viable.
From GQL Require Import Proofs.SynErrWB Proofs.SynErrErase Proofs.SynErrMain.
Import ListNotations.
Open Scope N_scope.

Lemma complete_sound : forall n u w, complete n u = Some w -> exists d, parse_tokens (u ++ w ++ [weof]) = Ok d.
Proof.
  induction n as [|n IH]; intros u w H; cbn [complete] in H.
  - destruct (accepts u) eqn:A; [|discriminate H]. inversion H; subst. cbn [app].
    apply parse_tokens_ok_iff. unfold accepts in A.
    destruct (parse_tokensE (u ++ [weof])) as [[|x r]|r|]; try discriminate A. reflexivity.
  - destruct (accepts u) eqn:A.
    + inversion H; subst. cbn [app]. apply parse_tokens_ok_iff. unfold accepts in A.
      destruct (parse_tokensE (u ++ [weof])) as [[|x r]|r|]; try discriminate A. reflexivity.
    + destruct (find (fun c => gets_past (u ++ [c])) candidates) as [c|]; [|discriminate H].
      destruct (complete n (u ++ [c])) as [w'|] eqn:C; [|discriminate H]. inversion H; subst.
      destruct (IH _ _ C) as [d Hd]. exists d. rewrite <- app_assoc in Hd. exact Hd.
Qed.

Theorem viable_witness_sound : forall u w, viable_witness u = Some w -> exists d, parse_tokens (u ++ w ++ [weof]) = Ok d.
Proof. intros u w. apply complete_sound. Qed.

Lemma before_app : forall (u r : list token), before (u ++ r) r = u.
Proof.
  intros u r. unfold before. rewrite app_length, Nat.add_sub.
  rewrite firstn_app, Nat.sub_diag, firstn_all. cbn [firstn]. apply app_nil_r.
Qed.

(* the report is the position of [parse_err_ext], with the tokens in front of the reported one *)
Theorem parse_report_spec : forall src rp, parse_report src = Some rp ->
  parse_err_ext src = Some (r_off rp, r_lo rp, r_hi rp) /\
  (if r_lexical rp
   then r_before rp = tokens_of src /\ exists s, snd (lexE src) = LBad s (r_off rp)
   else exists t r, tokens_of src = r_before rp ++ t :: r /\ (r_off rp, r_lo rp, r_hi rp) = tok_ext t).
Proof.
  intros src rp H. unfold parse_report in H. unfold parse_err_ext, tokens_of.
  destruct (lexE src) as [ts [| s e |]] eqn:L; cbn [fst snd]; [| |discriminate H].
  - destruct (parse_tokensE ts) as [r|[|t r]|] eqn:P; try discriminate H.
    + pose proof (lex_allE_done_ne _ _ _ _ L) as NE.
      destruct (exists_last NE) as (u' & t & E). subst ts.
      rewrite last_last in *. rewrite removelast_last in H.
      destruct (tok_ext t) as [[o l] h] eqn:T. inversion H; subst; cbn.
      split; [reflexivity|]. exists t, []. split; [reflexivity|]. symmetry; exact T.
    + destruct (wb_err _ (WB_parse_documentE _) _ _ P) as [u Hu]. subst ts. rewrite before_app in H.
      destruct (tok_ext t) as [[o l] h] eqn:T. inversion H; subst; cbn.
      split; [reflexivity|]. exists t, r. split; [reflexivity|]. symmetry; exact T.
  - destruct (parse_tokensE (ts ++ [end_marker s])) as [r|[|t [|t2 r]]|] eqn:P;
      try solve [inversion H; subst; cbn; split; [reflexivity|]; split; [reflexivity|]; exists s; reflexivity].
    destruct (wb_err _ (WB_parse_documentE _) _ _ P) as [u Hu].
    destruct (app_last_split _ _ _ _ _ Hu ltac:(discriminate)) as (r' & Hr & Hts).
    rewrite Hu, before_app in H.
    destruct (tok_ext t) as [[o l] h] eqn:T. inversion H; subst; cbn.
    split; [reflexivity|]. exists t, r'. split; [reflexivity|]. symmetry; exact T.
Qed.

(* a token reported by the parser: nothing valid continues the tokens up to and including it,
   and the parser never stops at a token in front of it, whatever follows *)
Theorem parse_report_position : forall src rp, parse_report src = Some rp -> r_lexical rp = false ->
  exists t r, tokens_of src = r_before rp ++ t :: r /\ (r_off rp, r_lo rp, r_hi rp) = tok_ext t /\
              no_extension (r_before rp) t /\ prefix_consumed (r_before rp).
Proof.
  intros src rp H NL. unfold parse_report in H. unfold tokens_of.
  destruct (lexE src) as [ts [| s e |]] eqn:L; cbn [fst snd]; [| |discriminate H].
  - destruct (parse_tokensE ts) as [r|[|t r]|] eqn:P; try discriminate H.
    + destruct (lexE_done _ _ L) as [mb Lx].
      unfold lex, lex_src in Lx. cbn [snd] in Lx.
      destruct (lex_all_shape _ _ _ _ _ Lx) as (body & e & -> & Ke & Fb).
      rewrite last_last in *. rewrite removelast_last in H.
      destruct (tok_ext e) as [[o l] h] eqn:T. inversion H; subst; cbn.
      exists e, []. split; [reflexivity|]. split; [symmetry; exact T|]. split.
      * intros src' rest' mb' L'. unfold parse. rewrite L'.
        pose proof L' as L''. unfold lex, lex_src in L''. cbn [snd] in L''.
        destruct (lex_all_shape _ _ _ _ _ L'') as (body' & e' & E' & Ke' & Fb').
        destruct (eof_is_last _ _ _ _ _ (eq_sym E') Fb' Ke) as [-> _].
        assert (X : parse_tokens (body ++ [e]) = Err) by (apply parse_tokens_err_iff; eauto).
        rewrite X. reflexivity.
      * unfold prefix_consumed. apply (no_failure_inside body [e]). intros r0 Hr0. rewrite P in Hr0. inversion Hr0; subst. cbn; lia.
    + destruct (wb_err _ (WB_parse_documentE _) _ _ P) as [u Hu]. subst ts. rewrite before_app in H.
      destruct (tok_ext t) as [[o l] h] eqn:T. inversion H; subst; cbn.
      exists t, r. split; [reflexivity|]. split; [symmetry; exact T|]. split.
      * exact (no_extension_of_local _ _ _ P).
      * unfold prefix_consumed. apply (no_failure_inside u (t :: r)). intros r0 Hr0. rewrite P in Hr0. inversion Hr0; subst. lia.
  - destruct (parse_tokensE (ts ++ [end_marker s])) as [r|[|t [|t2 r]]|] eqn:P;
      try solve [inversion H; subst; cbn in NL; discriminate NL].
    destruct (wb_err _ (WB_parse_documentE _) _ _ P) as [u Hu].
    destruct (app_last_split _ _ _ _ _ Hu ltac:(discriminate)) as (r' & Hr & Hts).
    rewrite Hu, before_app in H. rewrite Hu in P.
    destruct (tok_ext t) as [[o l] h] eqn:T. inversion H; subst; cbn.
    exists t, r'. split; [reflexivity|]. split; [symmetry; exact T|]. split.
    + exact (no_extension_of_local _ _ _ P).
    + unfold prefix_consumed. apply (no_failure_inside u (t :: t2 :: r)). intros r0 Hr0. rewrite P in Hr0. inversion Hr0; subst. lia.
Qed.
