(* The memo tables never hide a conflict: if the memoised algorithm (L3) completes within
   its fuel and reports nothing, the unmemoised algorithm (L2) reports nothing at any fuel.
   Proof: the memoised run is a depth-first exploration with a visited set; when it ends,
   every memo entry is "locally correct" with respect to the final tables (its own field
   comparisons passed and everything it would recurse into is covered by an entry), and
   the unmemoised run only ever asks questions that are covered. *)
From Coq Require Import List Arith Lia Bool String NArith.
From GQL Require Import Exec.Syntax Validate.Overlap Validate.Cost Proofs.ValidateCost Proofs.ValidateOverlap Proofs.ValidateMemo Proofs.ValidateRules.
Import ListNotations.
Open Scope string_scope.
Open Scope list_scope.

Section Hard.
Variable S : schema.
Variable D : document.
Notation base := (base_ok S).
Notation F := (fun s : fset => dfields S (fst s) (snd s)).

Definition body_of (fr : fragment) : fset := (resolve S (fr_cond fr), fr_sel fr).

(* the selection sets the algorithm can be called on *)
Inductive DS : fset -> Prop :=
| DS_top : forall s, In s (all_sets S D) -> DS s
| DS_frag : forall g fr, frag D g = Some fr -> DS (body_of fr)
| DS_sub : forall s e, DS s -> In e (dfields S (fst s) (snd s)) -> DS (sub_pt e, fe_sub e).

(* selection sets are identified by (parent type, id of the first selection), as the
   implementation identifies them by pointer *)
Hypothesis key_inj : forall s s', DS s -> DS s' ->
  fst s = fst s' -> first_id (snd s) = first_id (snd s') -> s = s'.
(* the two-field test is symmetric on the document's fields (unique argument names) *)
Hypothesis base_sym : forall s s' x y ex, DS s -> DS s' -> In x (F s) -> In y (F s') ->
  base ex x y = base ex y x.

Definition psym (V : mst) : Prop :=
  forall a b, pair_find a b (m_pairs V) = pair_find b a (m_pairs V).

Definition covF (V : mst) (fl : bool) (s : fset) (g : name) : Prop :=
  ff_has V (fst s) (first_id (snd s)) g fl = true.
Definition covP (V : mst) (fl : bool) (g1 g2 : name) : Prop :=
  frag D g1 = None \/ frag D g2 = None \/ g1 = g2 \/ pair_has V g1 g2 fl = true.

Inductive FCc (V : mst) : bool -> fentry -> fentry -> Prop :=
| FCc_i : forall fl a b,
    base (fl || excl S a b) a b = true ->
    (has_sub a && has_sub b = true ->
     SUBc V (fl || excl S a b) (sub_pt a, fe_sub a) (sub_pt b, fe_sub b)) ->
    FCc V fl a b
with SUBc (V : mst) : bool -> fset -> fset -> Prop :=
| SUBc_i : forall fl s1 s2,
    (forall a b, In a (F s1) -> In b (F s2) -> fe_key a = fe_key b -> FCc V fl a b) ->
    (forall g, In g (dspreads (snd s2)) -> covF V fl s1 g) ->
    (forall g, In g (dspreads (snd s1)) -> covF V fl s2 g) ->
    (forall g1 g2, In g1 (dspreads (snd s1)) -> In g2 (dspreads (snd s2)) -> covP V fl g1 g2) ->
    SUBc V fl s1 s2.

Scheme FCc_ind' := Induction for FCc Sort Prop
with SUBc_ind' := Induction for SUBc Sort Prop.
Combined Scheme cut_mutind from FCc_ind', SUBc_ind'.

Definition FFloc (V : mst) (fl : bool) (s : fset) (g : name) : Prop :=
  forall fr, frag D g = Some fr ->
    same_set s (body_of fr) = true \/
    ((forall x y, In x (F s) -> In y (F (body_of fr)) -> fe_key x = fe_key y -> FCc V fl x y) /\
     (forall h, In h (dspreads (fr_sel fr)) -> covF V fl s h)).

Definition FRloc (V : mst) (fl : bool) (g1 g2 : name) : Prop :=
  forall f1 f2, frag D g1 = Some f1 -> frag D g2 = Some f2 ->
    (forall x y, In x (F (body_of f1)) -> In y (F (body_of f2)) -> fe_key x = fe_key y -> FCc V fl x y) /\
    (forall h, In h (dspreads (fr_sel f2)) -> covP V fl g1 h) /\
    (forall h, In h (dspreads (fr_sel f1)) -> covP V fl h g2).

Definition okF (V : mst) (e : ptype * N * name * bool) : Prop :=
  let '(p, k, g, fl) := e in
  exists s, DS s /\ fst s = p /\ first_id (snd s) = k /\ FFloc V fl s g.
Definition okP (V : mst) (e : name * name * bool) : Prop :=
  let '(a, b, fl) := e in FRloc V fl a b \/ FRloc V fl b a.

Definition NewOK (st st' : mst) : Prop :=
  (forall e, In e (m_ffs st') -> In e (m_ffs st) \/ okF st' e) /\
  (forall e, In e (m_pairs st') -> In e (m_pairs st) \/ okP st' e).

Definition ext (st st' : mst) : Prop :=
  (forall p k g fl, ff_has st p k g fl = true -> ff_has st' p k g fl = true) /\
  (forall a b fl, pair_has st a b fl = true -> pair_has st' a b fl = true) /\
  (m_oof st = true -> m_oof st' = true).

Lemma ext_refl : forall st, ext st st.
Proof. intro st. repeat split; auto. Qed.
Lemma ext_trans : forall a b c, ext a b -> ext b c -> ext a c.
Proof. intros a b c (H1 & H2 & H3) (K1 & K2 & K3). repeat split; auto. Qed.

(* ---- monotonicity in the tables ---- *)
Lemma covF_mono : forall V V' fl s g, ext V V' -> covF V fl s g -> covF V' fl s g.
Proof. intros V V' fl s g (H & _) C. apply H. exact C. Qed.
Lemma covP_mono : forall V V' fl g1 g2, ext V V' -> covP V fl g1 g2 -> covP V' fl g1 g2.
Proof.
  intros V V' fl g1 g2 (_ & H & _) [C|[C|[C|C]]]; [left|right; left|right; right; left|right; right; right]; auto.
Qed.

Lemma cut_mono : forall V V', ext V V' ->
  (forall fl a b, FCc V fl a b -> FCc V' fl a b) /\
  (forall fl s1 s2, SUBc V fl s1 s2 -> SUBc V' fl s1 s2).
Proof.
  intros V V' E. apply cut_mutind.
  - intros fl a b Hb Hs IH. constructor; assumption.
  - intros fl s1 s2 H1 IH1 H2 H3 H4. constructor.
    + exact IH1.
    + intros g Hg. eapply covF_mono; eauto.
    + intros g Hg. eapply covF_mono; eauto.
    + intros g1 g2 Hg1 Hg2. eapply covP_mono; eauto.
Qed.

Lemma FFloc_mono : forall V V' fl s g, ext V V' -> FFloc V fl s g -> FFloc V' fl s g.
Proof.
  intros V V' fl s g E H fr Hf. destruct (H fr Hf) as [L|[H1 H2]]; [left; exact L|right]. split.
  - intros x y Hx Hy Hk. apply (proj1 (cut_mono V V' E)). apply H1; assumption.
  - intros h Hh. eapply covF_mono; eauto.
Qed.

Lemma FRloc_mono : forall V V' fl g1 g2, ext V V' -> FRloc V fl g1 g2 -> FRloc V' fl g1 g2.
Proof.
  intros V V' fl g1 g2 E H f1 f2 E1 E2. destruct (H f1 f2 E1 E2) as (H1 & H2 & H3). split; [|split].
  - intros x y Hx Hy Hk. apply (proj1 (cut_mono V V' E)). apply H1; assumption.
  - intros h Hh. eapply covP_mono; eauto.
  - intros h Hh. eapply covP_mono; eauto.
Qed.

Lemma okF_mono : forall V V' e, ext V V' -> okF V e -> okF V' e.
Proof.
  intros V V' [[[p k] g] fl] E [s [H1 [H2 [H3 H4]]]]. exists s. repeat split; auto.
  eapply FFloc_mono; eauto.
Qed.
Lemma okP_mono : forall V V' e, ext V V' -> okP V e -> okP V' e.
Proof.
  intros V V' [[a b] fl] E [H|H]; [left|right]; eapply FRloc_mono; eauto.
Qed.

Lemma NewOK_refl : forall st, NewOK st st.
Proof. intro st. split; intros e H; left; exact H. Qed.
Lemma NewOK_trans : forall a b c, ext b c -> NewOK a b -> NewOK b c -> NewOK a c.
Proof.
  intros a b c E (H1 & H2) (K1 & K2). split; intros e He.
  - destruct (K1 e He) as [Hb|Hok]; [|right; exact Hok].
    destruct (H1 e Hb) as [Ha|Hok]; [left; exact Ha | right; eapply okF_mono; eauto].
  - destruct (K2 e He) as [Hb|Hok]; [|right; exact Hok].
    destruct (H2 e Hb) as [Ha|Hok]; [left; exact Ha | right; eapply okP_mono; eauto].
Qed.

(* ---- the memo operations ---- *)
Lemma ff_key_refl : forall p k g, (pt_eqb p p && N.eqb k k && String.eqb g g) = true.
Proof. intros. apply ff_key_cases. auto. Qed.

Lemma ff_has_add_self : forall st p k g fl, ff_has (ff_add st p k g fl) p k g fl = true.
Proof.
  intros. unfold ff_has, ff_add. simpl. rewrite ff_key_refl. destruct fl; reflexivity.
Qed.

Lemma ext_ff_add : forall st p k g fl, ff_has st p k g fl = false -> ext st (ff_add st p k g fl).
Proof.
  intros st p k g fl Hn. split; [|split]; [|intros; assumption|intro H; exact H].
  intros p' k' g' fl' H. unfold ff_has, ff_add in *. simpl.
  destruct (pt_eqb p' p && N.eqb k' k && String.eqb g' g) eqn:E; [|exact H].
  apply ff_key_cases in E. destruct E as [E1 [E2 E3]]. subst p' k' g'.
  destruct (ff_find p k g (m_ffs st)) as [s0|]; [|discriminate].
  destruct fl'; [reflexivity|]. destruct fl; [discriminate|]. reflexivity.
Qed.

Lemma psym_add : forall st a b fl, psym st -> psym (pair_add st a b fl).
Proof.
  intros st a b fl K x y. unfold pair_add. simpl.
  destruct (String.eqb x a && String.eqb y b) eqn:E1;
  destruct (String.eqb y a && String.eqb x b) eqn:E2;
  destruct (String.eqb x b && String.eqb y a) eqn:E3;
  destruct (String.eqb y b && String.eqb x a) eqn:E4;
  try reflexivity; try apply K;
  repeat match goal with
  | H : (_ && _) = true |- _ => apply eqb_pair_cases in H; destruct H; subst
  end;
  repeat match goal with
  | H : (String.eqb ?u ?u && _) = false |- _ => rewrite String.eqb_refl in H; simpl in H
  | H : (_ && String.eqb ?u ?u) = false |- _ => rewrite String.eqb_refl, andb_true_r in H
  | H : String.eqb ?u ?u = false |- _ => rewrite String.eqb_refl in H; discriminate
  | H : true = false |- _ => discriminate
  end.
Qed.

Lemma pair_has_add_self : forall st a b fl, pair_has (pair_add st a b fl) a b fl = true.
Proof.
  intros. unfold pair_has, pair_add. simpl. rewrite !String.eqb_refl. simpl. destruct fl; reflexivity.
Qed.

Lemma ext_pair_add : forall st a b fl,
  psym st -> pair_has st a b fl = false -> ext st (pair_add st a b fl).
Proof.
  intros st a b fl K Hn. split; [intros; assumption|]. split; [|intro H; exact H].
  intros x y fl' H. unfold pair_has, pair_add in *. simpl.
  destruct (String.eqb x a && String.eqb y b) eqn:E1.
  - apply eqb_pair_cases in E1. destruct E1; subst x y.
    destruct (pair_find a b (m_pairs st)) as [s0|]; [|discriminate].
    destruct fl'; [reflexivity|]. destruct fl; [discriminate|]. reflexivity.
  - destruct (String.eqb x b && String.eqb y a) eqn:E2; [|exact H].
    apply eqb_pair_cases in E2. destruct E2; subst x y.
    rewrite (K b a) in H.
    destruct (pair_find a b (m_pairs st)) as [s0|]; [|discriminate].
    destruct fl'; [reflexivity|]. destruct fl; [discriminate|]. reflexivity.
Qed.

(* ---- the specification of one call of the memoised algorithm ---- *)
Definition spec (st : mst) (r : list N * mst) (Q : mst -> Prop) : Prop :=
  psym st ->
  psym (snd r) /\ ext st (snd r) /\
  (m_oof (snd r) = false -> fst r = [] -> Q (snd r) /\ NewOK st (snd r)).

Lemma oof_back : forall st st', ext st st' -> m_oof st' = false -> m_oof st = false.
Proof.
  intros st st' (_ & _ & H) E. destruct (m_oof st) eqn:E0; [|reflexivity].
  rewrite (H eq_refl) in E. discriminate.
Qed.

Lemma seq_spec : forall {A} (step : A -> mst -> list N * mst) (Q : A -> mst -> Prop) (l : list A),
  (forall x V V', ext V V' -> Q x V -> Q x V') ->
  (forall x st, In x l -> spec st (step x st) (Q x)) ->
  forall st, spec st (seq step l st) (fun V => forall x, In x l -> Q x V).
Proof.
  intros A step Q l Qmono. unfold seq.
  assert (G : forall l,
    (forall x st, In x l -> spec st (step x st) (Q x)) ->
    forall acc, psym (snd acc) ->
      let r := fold_left (fun acc x => let '(cs, st') := step x (snd acc) in (fst acc ++ cs, st')) l acc in
      psym (snd r) /\ ext (snd acc) (snd r) /\
      (m_oof (snd r) = false -> fst r = [] ->
       fst acc = [] /\ (forall x, In x l -> Q x (snd r)) /\ NewOK (snd acc) (snd r))).
  { clear l. induction l as [|x r IH]; intros Hstep acc Hs; simpl.
    - split; [exact Hs|]. split; [apply ext_refl|]. intros _ E. split; [exact E|].
      split; [intros x []|apply NewOK_refl].
    - pose proof (Hstep x (snd acc) (or_introl eq_refl) Hs) as Sx.
      destruct (step x (snd acc)) as [cs st'] eqn:Es. simpl in Sx. destruct Sx as (Ps & Ex & Cx).
      specialize (IH (fun y st Hy => Hstep y st (or_intror Hy)) (fst acc ++ cs, st') Ps).
      simpl in IH. destruct IH as (Pr & Er & Cr).
      split; [exact Pr|]. split; [eapply ext_trans; eauto|].
      intros Ho Ef. destruct (Cr Ho Ef) as (Ea & Hq & Hn).
      apply app_eq_nil in Ea. destruct Ea as [Ea Ec].
      destruct (Cx (oof_back _ _ Er Ho) Ec) as (Qx & Nx).
      split; [exact Ea|]. split.
      + intros y [Hy|Hy]; [subst y; eapply Qmono; eauto | apply Hq; exact Hy].
      + eapply NewOK_trans; eauto. }
  intros Hstep st Hs. specialize (G l Hstep ([], st) Hs). simpl in G.
  destruct G as (P & E & C). split; [exact P|]. split; [exact E|].
  intros Ho Ef. destruct (C Ho Ef) as (_ & Hq & Hn). split; assumption.
Qed.

Lemma dedup_complete : forall l seen x, In x l -> In x seen \/ In x (dedup l seen).
Proof.
  induction l as [|y r IH]; intros seen x H; [destruct H|]. simpl.
  destruct (nmem y seen) eqn:E.
  - destruct H as [H|H]; [subst; left; apply nmem_in; exact E | apply IH; exact H].
  - destruct H as [H|H]; [subst; right; left; reflexivity|].
    destruct (IH (y :: seen) x H) as [[K|K]|K]; [subst; right; left; reflexivity | left; exact K | right; right; exact K].
Qed.

(* ---- small spec combinators ---- *)
Lemma spec_oof : forall st Q, spec st ([], set_oof st) Q.
Proof.
  intros st Q Ps. simpl. split; [exact Ps|]. split; [|intros H; discriminate].
  split; [|split]; auto.
Qed.

Lemma spec_ret : forall st (Q : mst -> Prop), Q st -> spec st ([], st) Q.
Proof.
  intros st Q H Ps. simpl. split; [exact Ps|]. split; [apply ext_refl|]. intros _ _.
  split; [exact H | apply NewOK_refl].
Qed.

Lemma spec_fail : forall st c cs Q, spec st (c :: cs, st) Q.
Proof.
  intros st c cs Q Ps. simpl. split; [exact Ps|]. split; [apply ext_refl|]. intros _ H. discriminate.
Qed.

Lemma spec_weaken : forall st r (Q Q' : mst -> Prop),
  (forall V, Q V -> Q' V) -> spec st r Q -> spec st r Q'.
Proof.
  intros st r Q Q' H Sp Ps. destruct (Sp Ps) as (P & E & C). split; [exact P|]. split; [exact E|].
  intros Ho Ef. destruct (C Ho Ef) as (HQ & N). split; [apply H; exact HQ | exact N].
Qed.

(* counting a findConflict call changes nothing the specification talks about *)
Lemma spec_inc : forall st r Q, spec (inc_fc st) r Q -> spec st r Q.
Proof.
  intros st r Q Sp Ps. destruct (Sp Ps) as (P & (E1 & E2 & E3) & C). split; [exact P|]. split.
  - split; [exact E1|]. split; [exact E2 | exact E3].
  - intros Ho Ef. destruct (C Ho Ef) as (HQ & (N1 & N2)). split; [exact HQ|]. split; assumption.
Qed.

Lemma spec_app : forall st c1 st1 c2 st2 (Q1 Q2 : mst -> Prop),
  (forall V V', ext V V' -> Q1 V -> Q1 V') ->
  spec st (c1, st1) Q1 -> spec st1 (c2, st2) Q2 ->
  spec st (c1 ++ c2, st2) (fun V => Q1 V /\ Q2 V).
Proof.
  intros st c1 st1 c2 st2 Q1 Q2 M S1 S2 Ps. destruct (S1 Ps) as (P1 & E1 & C1). simpl in *.
  destruct (S2 P1) as (P2 & E2 & C2). simpl in *.
  split; [exact P2|]. split; [eapply ext_trans; eauto|]. intros Ho Ef.
  apply app_eq_nil in Ef. destruct Ef as [Ef1 Ef2].
  destruct (C2 Ho Ef2) as (HQ2 & N2). destruct (C1 (oof_back _ _ E2 Ho) Ef1) as (HQ1 & N1).
  split; [split; [eapply M; eauto | exact HQ2] | eapply NewOK_trans; eauto].
Qed.

Lemma with_key_mem : forall k l e, In e l -> fe_key e = k -> In e (with_key k l).
Proof.
  intros k l e H E. unfold with_key. apply filter_In. split; [exact H | apply String.eqb_eq; exact E].
Qed.

Lemma keys_of_mem : forall l e, In e l -> In (fe_key e) (keys_of l).
Proof.
  intros l e H. unfold keys_of.
  destruct (dedup_complete (map fe_key l) [] (fe_key e) (in_map fe_key l e H)) as [[]|K]. exact K.
Qed.

Lemma same_set_eq : forall s s', DS s -> DS s' -> same_set s s' = true -> s = s'.
Proof.
  intros s s' H H' E. unfold same_set in E. apply andb_true_iff in E. destruct E as [E1 E2].
  apply pt_eqb_eq in E1. apply N.eqb_eq in E2. apply key_inj; assumption.
Qed.

(* ---- the memoised algorithm explores depth first and records what it explored ---- *)
Lemma memo_spec : forall f,
  (forall fl a b sa sb st, DS sa -> DS sb -> In a (F sa) -> In b (F sb) ->
     spec st (Overlap.fc S D true f fl a b st) (fun V => FCc V fl a b)) /\
  (forall fl s1 s2 l1 l2 st, DS s1 -> DS s2 -> incl l1 (F s1) -> incl l2 (F s2) ->
     spec st (between S D true f fl l1 l2 st)
          (fun V => forall a b, In a l1 -> In b l2 -> fe_key a = fe_key b -> FCc V fl a b)) /\
  (forall fl s1 s2 st, DS s1 -> DS s2 ->
     spec st (Overlap.subsets S D true f fl s1 s2 st) (fun V => SUBc V fl s1 s2)) /\
  (forall fl s g st, DS s -> spec st (ffrag S D true f fl s g st) (fun V => covF V fl s g)) /\
  (forall fl g1 g2 st, spec st (frfr S D true f fl g1 g2 st) (fun V => covP V fl g1 g2)).
Proof.
  induction f as [|f IH]; [split; [|split; [|split; [|split]]]; intros; simpl; apply spec_oof|].
  destruct IH as (Ifc & Ibt & Isub & Iff & Ifr).
  assert (FCmono : forall fl a b V V', ext V V' -> FCc V fl a b -> FCc V' fl a b).
  { intros fl a b V V' E H. apply (proj1 (cut_mono V V' E)). exact H. }
  split; [|split; [|split; [|split]]].
  - (* fc *)
    intros fl a b sa sb st Hsa Hsb Ha Hb. simpl.
    apply spec_inc.
    destruct (negb (base (fl || excl S a b) a b)) eqn:Eb; [apply spec_fail|].
    apply negb_false_iff in Eb.
    destruct (has_sub a && has_sub b) eqn:Eh.
    + pose proof (Isub (fl || excl S a b) (sub_pt a, fe_sub a) (sub_pt b, fe_sub b) (inc_fc st)
                       (DS_sub sa a Hsa Ha) (DS_sub sb b Hsb Hb)) as Sp.
      destruct (Overlap.subsets S D true f (fl || excl S a b) (sub_pt a, fe_sub a) (sub_pt b, fe_sub b) (inc_fc st)) as [cs st'].
      intros Ps. destruct (Sp Ps) as (P & E & C). simpl in *.
      split; [exact P|]. split; [exact E|]. intros Ho Ef.
      destruct cs as [|c cs]; [|discriminate]. destruct (C Ho eq_refl) as (HQ & N).
      split; [constructor; [exact Eb | intros _; exact HQ] | exact N].
    + apply spec_ret. constructor; [exact Eb | intro H; rewrite Eh in H; discriminate].
  - (* between *)
    intros fl s1 s2 l1 l2 st H1 H2 I1 I2. simpl.
    eapply spec_weaken; [|apply (seq_spec
        (fun k => seq (fun a => seq (fun b => Overlap.fc S D true f fl a b) (with_key k l2)) (with_key k l1))
        (fun k V => forall a, In a (with_key k l1) -> forall b, In b (with_key k l2) -> FCc V fl a b)
        (keys_of l1))].
    + intros V H a b Ha Hb Hk.
      apply (H (fe_key a) (keys_of_mem l1 a Ha) a (with_key_mem _ _ _ Ha eq_refl) b).
      apply with_key_mem; [exact Hb | symmetry; exact Hk].
    + intros k V V' E H a Ha b Hb. eapply FCmono; eauto.
    + intros k st1 _.
      apply (seq_spec (fun a => seq (fun b => Overlap.fc S D true f fl a b) (with_key k l2))
                      (fun a V => forall b, In b (with_key k l2) -> FCc V fl a b) (with_key k l1)).
      * intros a V V' E H b Hb. eapply FCmono; eauto.
      * intros a st2 Ha.
        apply (seq_spec (fun b => Overlap.fc S D true f fl a b) (fun b V => FCc V fl a b) (with_key k l2)).
        -- intros b V V' E H. eapply FCmono; eauto.
        -- intros b st3 Hb. apply (Ifc fl a b s1 s2 st3 H1 H2).
           ++ apply I1. apply (proj1 (with_key_in _ _ _ Ha)).
           ++ apply I2. apply (proj1 (with_key_in _ _ _ Hb)).
  - (* subsets *)
    intros fl s1 s2 st H1 H2. simpl.
    pose proof (Ibt fl s1 s2 (F s1) (F s2) st H1 H2 (incl_refl _) (incl_refl _)) as S1.
    destruct (between S D true f fl (dfields S (fst s1) (snd s1)) (dfields S (fst s2) (snd s2)) st) as [c1 st1].
    pose proof (seq_spec (fun g => ffrag S D true f fl s1 g) (fun g V => covF V fl s1 g) (dspreads (snd s2))
                 (fun g V V' E H => covF_mono V V' fl s1 g E H)
                 (fun g st0 _ => Iff fl s1 g st0 H1) st1) as S2.
    destruct (seq (fun g => ffrag S D true f fl s1 g) (dspreads (snd s2)) st1) as [c2 st2].
    pose proof (seq_spec (fun g => ffrag S D true f fl s2 g) (fun g V => covF V fl s2 g) (dspreads (snd s1))
                 (fun g V V' E H => covF_mono V V' fl s2 g E H)
                 (fun g st0 _ => Iff fl s2 g st0 H2) st2) as S3.
    destruct (seq (fun g => ffrag S D true f fl s2 g) (dspreads (snd s1)) st2) as [c3 st3].
    pose proof (seq_spec (fun a => seq (fun b => frfr S D true f fl a b) (dspreads (snd s2)))
                 (fun a V => forall b, In b (dspreads (snd s2)) -> covP V fl a b) (dspreads (snd s1))
                 (fun a V V' E H b Hb => covP_mono V V' fl a b E (H b Hb))
                 (fun a st0 _ => seq_spec (fun b => frfr S D true f fl a b) (fun b V => covP V fl a b)
                                   (dspreads (snd s2))
                                   (fun b V V' E H => covP_mono V V' fl a b E H)
                                   (fun b st5 _ => Ifr fl a b st5) st0) st3) as S4.
    destruct (seq (fun a => seq (fun b => frfr S D true f fl a b) (dspreads (snd s2))) (dspreads (snd s1)) st3) as [c4 st4].
    pose proof (spec_app st2 c3 st3 c4 st4 _ _
                 (fun V V' E (H : forall g, In g (dspreads (snd s1)) -> covF V fl s2 g) g Hg =>
                    covF_mono V V' fl s2 g E (H g Hg)) S3 S4) as S34.
    pose proof (spec_app st1 c2 st2 (c3 ++ c4) st4 _ _
                 (fun V V' E (H : forall g, In g (dspreads (snd s2)) -> covF V fl s1 g) g Hg =>
                    covF_mono V V' fl s1 g E (H g Hg)) S2 S34) as S234.
    pose proof (spec_app st c1 st1 (c2 ++ c3 ++ c4) st4 _ _
                 (fun V V' E (H : forall a b, In a (F s1) -> In b (F s2) -> fe_key a = fe_key b -> FCc V fl a b)
                      a b Ha Hb Hk => FCmono fl a b V V' E (H a b Ha Hb Hk)) S1 S234) as SS.
    eapply spec_weaken; [|exact SS].
    intros V (Q1 & Q2 & Q3 & Q4). constructor; auto.
  - (* ffrag *)
    intros fl s g st Hs. simpl.
    destruct (ff_has st (fst s) (first_id (snd s)) g fl) eqn:Eh; [apply spec_ret; exact Eh|].
    set (st0 := ff_add st (fst s) (first_id (snd s)) g fl).
    assert (E0 : ext st st0) by (apply ext_ff_add; exact Eh).
    assert (C0 : covF st0 fl s g) by (apply ff_has_add_self).
    assert (New0 : forall V, ext st0 V -> FFloc V fl s g ->
              forall e, In e (m_ffs st0) -> In e (m_ffs st) \/ okF V e).
    { intros V EV HL e [He|He]; [|left; exact He]. right. subst e. exists s. auto. }
    destruct (frag D g) as [fr|] eqn:Ef.
    2:{ intros Ps. simpl. split; [exact Ps|]. split; [exact E0|]. intros _ _. split; [exact C0|].
        split; [|intros e He; left; exact He].
        apply (New0 st0 (ext_refl _)). intros fr Hfr. congruence. }
    destruct (same_set s (resolve S (fr_cond fr), fr_sel fr)) eqn:Es.
    { intros Ps. simpl. split; [exact Ps|]. split; [exact E0|]. intros _ _. split; [exact C0|].
      split; [|intros e He; left; exact He].
      apply (New0 st0 (ext_refl _)). intros fr' Hfr. rewrite Ef in Hfr. inversion Hfr; subst fr'. left. exact Es. }
    pose proof (Ibt fl s (body_of fr) (F s) (F (body_of fr)) st0 Hs (DS_frag g fr Ef) (incl_refl _) (incl_refl _)) as S1.
    unfold body_of in S1. simpl in S1.
    destruct (between S D true f fl (dfields S (fst s) (snd s)) (dfields S (resolve S (fr_cond fr)) (fr_sel fr)) st0) as [c1 st1].
    pose proof (seq_spec (fun h => ffrag S D true f fl s h) (fun h V => covF V fl s h) (dspreads (fr_sel fr))
                 (fun h V V' E H => covF_mono V V' fl s h E H)
                 (fun h st5 _ => Iff fl s h st5 Hs) st1) as S2.
    destruct (seq (fun h => ffrag S D true f fl s h) (dspreads (fr_sel fr)) st1) as [c2 st2].
    intros Ps. assert (Ps0 : psym st0) by exact Ps.
    destruct (S1 Ps0) as (P1 & E1 & C1). simpl in *. destruct (S2 P1) as (P2 & E2 & C2). simpl in *.
    split; [exact P2|]. split; [eapply ext_trans; [exact E0|eapply ext_trans; eauto]|].
    intros Ho Ec. apply app_eq_nil in Ec. destruct Ec as [Ec1 Ec2].
    destruct (C2 Ho Ec2) as (HQ2 & N2). destruct (C1 (oof_back _ _ E2 Ho) Ec1) as (HQ1 & N1).
    assert (E02 : ext st0 st2) by (eapply ext_trans; eauto).
    split; [eapply covF_mono; eauto|].
    assert (N02 : NewOK st0 st2) by (apply (NewOK_trans st0 st1 st2 E2 N1 N2)).
    destruct N02 as (Nf & Np). split.
    + intros e He. destruct (Nf e He) as [H0|Hok]; [|right; exact Hok].
      apply (New0 st2 E02); [|exact H0].
      intros fr' Hfr. rewrite Ef in Hfr. inversion Hfr; subst fr'. right. split.
      * intros x y Hx Hy Hk. eapply FCmono; [exact E2|]. apply HQ1; assumption.
      * exact HQ2.
    + intros e He. destruct (Np e He) as [H0|Hok]; [left; exact H0 | right; exact Hok].
  - (* frfr *)
    intros fl g1 g2 st. simpl.
    destruct (frag D g1) as [f1|] eqn:Ef1; [|apply spec_ret; left; exact Ef1].
    destruct (frag D g2) as [f2|] eqn:Ef2; [|apply spec_ret; right; left; exact Ef2].
    destruct (String.eqb g1 g2) eqn:Eg; [apply spec_ret; right; right; left; apply String.eqb_eq; exact Eg|].
    destruct (pair_has st g1 g2 fl) eqn:Eh; [apply spec_ret; right; right; right; exact Eh|].
    set (st0 := pair_add st g1 g2 fl).
    pose proof (Ibt fl (body_of f1) (body_of f2) (F (body_of f1)) (F (body_of f2)) st0
                    (DS_frag g1 f1 Ef1) (DS_frag g2 f2 Ef2) (incl_refl _) (incl_refl _)) as S1.
    unfold body_of in S1. simpl in S1.
    destruct (between S D true f fl (dfields S (resolve S (fr_cond f1)) (fr_sel f1))
                      (dfields S (resolve S (fr_cond f2)) (fr_sel f2)) st0) as [c1 st1].
    pose proof (seq_spec (fun h => frfr S D true f fl g1 h) (fun h V => covP V fl g1 h) (dspreads (fr_sel f2))
                 (fun h V V' E H => covP_mono V V' fl g1 h E H) (fun h st5 _ => Ifr fl g1 h st5) st1) as S2.
    destruct (seq (fun h => frfr S D true f fl g1 h) (dspreads (fr_sel f2)) st1) as [c2 st2].
    pose proof (seq_spec (fun h => frfr S D true f fl h g2) (fun h V => covP V fl h g2) (dspreads (fr_sel f1))
                 (fun h V V' E H => covP_mono V V' fl h g2 E H) (fun h st5 _ => Ifr fl h g2 st5) st2) as S3.
    destruct (seq (fun h => frfr S D true f fl h g2) (dspreads (fr_sel f1)) st2) as [c3 st3].
    intros Ps.
    assert (Ps0 : psym st0) by (apply psym_add; exact Ps).
    assert (E0 : ext st st0) by (apply ext_pair_add; assumption).
    destruct (S1 Ps0) as (P1 & E1 & C1). simpl in *. destruct (S2 P1) as (P2 & E2 & C2). simpl in *.
    destruct (S3 P2) as (P3 & E3 & C3). simpl in *.
    split; [exact P3|]. split; [eapply ext_trans; [exact E0|eapply ext_trans; [exact E1|eapply ext_trans; eauto]]|].
    intros Ho Ec. apply app_eq_nil in Ec. destruct Ec as [Ec1 Ec]. apply app_eq_nil in Ec. destruct Ec as [Ec2 Ec3].
    destruct (C3 Ho Ec3) as (HQ3 & N3).
    pose proof (oof_back _ _ E3 Ho) as Ho2. destruct (C2 Ho2 Ec2) as (HQ2 & N2).
    pose proof (oof_back _ _ E2 Ho2) as Ho1. destruct (C1 Ho1 Ec1) as (HQ1 & N1).
    assert (E03 : ext st0 st3) by (eapply ext_trans; [exact E1|eapply ext_trans; eauto]).
    assert (E13 : ext st1 st3) by (eapply ext_trans; eauto).
    split.
    { right. right. right. apply (proj1 (proj2 E03)). apply pair_has_add_self. }
    assert (N03 : NewOK st0 st3).
    { apply (NewOK_trans st0 st2 st3 E3 (NewOK_trans st0 st1 st2 E2 N1 N2) N3). }
    assert (L : FRloc st3 fl g1 g2).
    { intros f1' f2' E1' E2'. rewrite Ef1 in E1'. rewrite Ef2 in E2'. inversion E1'; inversion E2'; subst f1' f2'.
      split; [|split].
      - intros x y Hx Hy Hk. eapply FCmono; [exact E13|]. apply HQ1; assumption.
      - intros h Hh. eapply covP_mono; [exact E3|]. apply HQ2. exact Hh.
      - exact HQ3. }
    destruct N03 as (Nf & Np). split.
    + intros e He. destruct (Nf e He) as [H0|Hok]; [left; exact H0 | right; exact Hok].
    + intros e He. destruct (Np e He) as [H0|Hok]; [|right; exact Hok].
      destruct H0 as [H0|[H0|H0]]; [right; subst e; left; exact L | right; subst e; right; exact L | left; exact H0].
Qed.

(* ---- the top level of the memoised run ---- *)
Fixpoint PWc (V : mst) (l : list fentry) : Prop :=
  match l with
  | [] => True
  | a :: r => (forall b, In b r -> FCc V false a b) /\ PWc V r
  end.
Fixpoint FWc (V : mst) (s : fset) (gs : list name) : Prop :=
  match gs with
  | [] => True
  | g :: r => covF V false s g /\ (forall h, In h r -> covP V false g h) /\ FWc V s r
  end.
Definition WSc (V : mst) (s : fset) : Prop :=
  (forall k, In k (keys_of (F s)) -> PWc V (with_key k (F s))) /\ FWc V s (dspreads (snd s)).

Lemma PWc_mono : forall V V' l, ext V V' -> PWc V l -> PWc V' l.
Proof.
  intros V V' l E. induction l as [|a r IH]; simpl; [auto|]. intros [H1 H2]. split; [|apply IH; exact H2].
  intros b Hb. apply (proj1 (cut_mono V V' E)). apply H1. exact Hb.
Qed.
Lemma FWc_mono : forall V V' s gs, ext V V' -> FWc V s gs -> FWc V' s gs.
Proof.
  intros V V' s gs E. induction gs as [|g r IH]; simpl; [auto|]. intros (H1 & H2 & H3).
  split; [eapply covF_mono; eauto|]. split; [|apply IH; exact H3].
  intros h Hh. eapply covP_mono; eauto.
Qed.
Lemma WSc_mono : forall V V' s, ext V V' -> WSc V s -> WSc V' s.
Proof.
  intros V V' s E [H1 H2]. split; [|eapply FWc_mono; eauto].
  intros k Hk. eapply PWc_mono; eauto.
Qed.

Lemma pairs_within_spec : forall fuel s l st, DS s -> incl l (F s) ->
  spec st (pairs_within S D true fuel l st) (fun V => PWc V l).
Proof.
  intros fuel s l. induction l as [|a r IH]; intros st Hs Hi; simpl; [apply spec_ret; exact I|].
  destruct (memo_spec fuel) as (Ifc & _).
  pose proof (seq_spec (fun b => Overlap.fc S D true fuel false a b) (fun b V => FCc V false a b) r
               (fun b V V' E H => proj1 (cut_mono V V' E) false a b H)
               (fun b st0 Hb => Ifc false a b s s st0 Hs Hs (Hi a (or_introl eq_refl)) (Hi b (or_intror Hb))) st) as S1.
  destruct (seq (fun b => Overlap.fc S D true fuel false a b) r st) as [c1 st1].
  specialize (IH st1 Hs (fun x Hx => Hi x (or_intror Hx))).
  destruct (pairs_within S D true fuel r st1) as [c2 st2].
  apply (spec_app st c1 st1 c2 st2 _ _
           (fun V V' E (H : forall b, In b r -> FCc V false a b) b Hb => proj1 (cut_mono V V' E) false a b (H b Hb))
           S1 IH).
Qed.

Lemma frags_within_spec : forall fuel s gs st, DS s ->
  spec st (frags_within S D true fuel s gs st) (fun V => FWc V s gs).
Proof.
  intros fuel s gs. induction gs as [|g r IH]; intros st Hs; simpl; [apply spec_ret; exact I|].
  destruct (memo_spec fuel) as (_ & _ & _ & Iff & Ifr).
  pose proof (Iff false s g st Hs) as S1.
  destruct (ffrag S D true fuel false s g st) as [c1 st1].
  pose proof (seq_spec (fun h => frfr S D true fuel false g h) (fun h V => covP V false g h) r
               (fun h V V' E H => covP_mono V V' false g h E H) (fun h st0 _ => Ifr false g h st0) st1) as S2.
  destruct (seq (fun h => frfr S D true fuel false g h) r st1) as [c2 st2].
  specialize (IH st2 Hs). destruct (frags_within S D true fuel s r st2) as [c3 st3].
  pose proof (spec_app st1 c2 st2 c3 st3 _ _
               (fun V V' E (H : forall h, In h r -> covP V false g h) h Hh => covP_mono V V' false g h E (H h Hh))
               S2 IH) as S23.
  eapply spec_weaken; [|apply (spec_app st c1 st1 (c2 ++ c3) st3 _ _
                                 (fun V V' E H => covF_mono V V' false s g E H) S1 S23)].
  intros V (Q1 & Q2 & Q3). split; [exact Q1|]. split; assumption.
Qed.

Lemma within_set_spec : forall fuel s st, DS s ->
  spec st (within_set S D true fuel s st) (fun V => WSc V s).
Proof.
  intros fuel s st Hs. unfold within_set.
  pose proof (seq_spec (fun k => pairs_within S D true fuel (with_key k (dfields S (fst s) (snd s))))
               (fun k V => PWc V (with_key k (F s))) (keys_of (dfields S (fst s) (snd s)))
               (fun k V V' E H => PWc_mono V V' _ E H)
               (fun k st0 _ => pairs_within_spec fuel s (with_key k (F s)) st0 Hs
                                 (fun x Hx => proj1 (with_key_in _ _ _ Hx))) st) as S1.
  destruct (seq (fun k => pairs_within S D true fuel (with_key k (dfields S (fst s) (snd s))))
                (keys_of (dfields S (fst s) (snd s))) st) as [c1 st1].
  pose proof (frags_within_spec fuel s (dspreads (snd s)) st1 Hs) as S2.
  destruct (frags_within S D true fuel s (dspreads (snd s)) st1) as [c2 st2].
  eapply spec_weaken; [|apply (spec_app st c1 st1 c2 st2 _ _
                                 (fun V V' E (H : forall k, In k (keys_of (F s)) -> PWc V (with_key k (F s))) k Hk =>
                                    PWc_mono V V' _ E (H k Hk)) S1 S2)].
  intros V [Q1 Q2]. split; assumption.
Qed.

Definition Closed (V : mst) : Prop :=
  (forall e, In e (m_ffs V) -> okF V e) /\ (forall e, In e (m_pairs V) -> okP V e).

Lemma memo_run_closed : forall fuel,
  let V := final_state S D true fuel in
  psym V /\
  (m_oof V = false -> run_overlap S D true fuel = [] ->
   Closed V /\ forall s, In s (all_sets S D) -> WSc V s).
Proof.
  intros fuel V. unfold V, final_state, run_overlap.
  pose proof (seq_spec (within_set S D true fuel) (fun s V => WSc V s) (all_sets S D)
               (fun s V V' E H => WSc_mono V V' s E H)
               (fun s st Hs => within_set_spec fuel s st (DS_top s Hs)) mst0) as Sp.
  assert (P0 : psym mst0) by (intros a b; reflexivity).
  destruct (Sp P0) as (P & E & C). split; [exact P|]. intros Ho Ef.
  destruct (C Ho Ef) as (HQ & (Nf & Np)). split; [|exact HQ]. split.
  - intros e He. destruct (Nf e He) as [[]|H]. exact H.
  - intros e He. destruct (Np e He) as [[]|H]. exact H.
Qed.

(* ---- the unmemoised run only asks covered questions ---- *)
Definition fle (a b : bool) : Prop := a = true -> b = true.

Lemma ff_find_in : forall p k g l f, ff_find p k g l = Some f -> In (p, k, g, f) l.
Proof.
  intros p k g l. induction l as [|[[[p' k'] g'] f'] r IH]; simpl; intros f H; [discriminate|].
  destruct (pt_eqb p p' && N.eqb k k' && String.eqb g g') eqn:E.
  - apply ff_key_cases in E. destruct E as [E1 [E2 E3]]. subst. inversion H; subst. left. reflexivity.
  - right. apply IH. exact H.
Qed.

Lemma ff_has_entry : forall V p k g fl, ff_has V p k g fl = true ->
  exists fl0, In (p, k, g, fl0) (m_ffs V) /\ fle fl0 fl.
Proof.
  intros V p k g fl H. unfold ff_has in H. destruct (ff_find p k g (m_ffs V)) as [s0|] eqn:E; [|discriminate].
  exists s0. split; [apply ff_find_in; exact E|]. intro Hs. subst s0. destruct fl; [reflexivity | discriminate].
Qed.

Lemma pair_has_entry : forall V a b fl, pair_has V a b fl = true ->
  exists fl0, In (a, b, fl0) (m_pairs V) /\ fle fl0 fl.
Proof.
  intros V a b fl H. unfold pair_has in H. destruct (pair_find a b (m_pairs V)) as [s0|] eqn:E; [|discriminate].
  exists s0. split; [apply pair_find_in; exact E|]. intro Hs. subst s0. destruct fl; [reflexivity | discriminate].
Qed.

Lemma covF_flag : forall V fl fl' s g, fle fl fl' -> covF V fl s g -> covF V fl' s g.
Proof.
  intros V fl fl' s g L H. unfold covF, ff_has in *.
  destruct (ff_find (fst s) (first_id (snd s)) g (m_ffs V)); [|discriminate].
  destruct fl'; [reflexivity|]. destruct fl; [discriminate (L eq_refl) | exact H].
Qed.

Lemma covP_flag : forall V fl fl' g1 g2, fle fl fl' -> covP V fl g1 g2 -> covP V fl' g1 g2.
Proof.
  intros V fl fl' g1 g2 L [H|[H|[H|H]]]; [left; exact H|right; left; exact H|right; right; left; exact H|].
  right. right. right. unfold pair_has in *.
  destruct (pair_find g1 g2 (m_pairs V)); [|discriminate].
  destruct fl'; [reflexivity|]. destruct fl; [discriminate (L eq_refl) | exact H].
Qed.

Lemma cut_flag : forall V,
  (forall fl a b, FCc V fl a b -> forall fl', fle fl fl' -> FCc V fl' a b) /\
  (forall fl s1 s2, SUBc V fl s1 s2 -> forall fl', fle fl fl' -> SUBc V fl' s1 s2).
Proof.
  intro V. apply cut_mutind.
  - intros fl a b Hb Hs IH fl' L.
    assert (L' : fle (fl || excl S a b) (fl' || excl S a b)).
    { intro H. destruct (excl S a b); [apply orb_true_r|]. rewrite orb_false_r in *. apply L. exact H. }
    constructor.
    + destruct (fl || excl S a b) eqn:E1; [rewrite (L' eq_refl); exact Hb|].
      destruct (fl' || excl S a b); [apply base_ok_mono; exact Hb | exact Hb].
    + intro Hh. apply (IH Hh). exact L'.
  - intros fl s1 s2 H1 IH1 H2 H3 H4 fl' L. constructor.
    + intros a b Ha Hb Hk. apply (IH1 a b Ha Hb Hk). exact L.
    + intros g Hg. eapply covF_flag; eauto.
    + intros g Hg. eapply covF_flag; eauto.
    + intros g1 g2 Hg1 Hg2. eapply covP_flag; eauto.
Qed.

Lemma excl_sym' : forall a b, excl S a b = excl S b a.
Proof.
  intros a b. unfold excl.
  assert (E : pt_eqb (fe_pt a) (fe_pt b) = pt_eqb (fe_pt b) (fe_pt a)).
  { unfold pt_eqb. destruct (fe_pt a), (fe_pt b); try reflexivity. apply String.eqb_sym. }
  rewrite E. destruct (pt_is_object S (fe_pt a)), (pt_is_object S (fe_pt b)), (pt_eqb (fe_pt b) (fe_pt a)); reflexivity.
Qed.

Lemma covP_sym : forall V fl g1 g2, psym V -> covP V fl g1 g2 -> covP V fl g2 g1.
Proof.
  intros V fl g1 g2 K [H|[H|[H|H]]]; [right; left; exact H|left; exact H|right; right; left; symmetry; exact H|].
  right. right. right. unfold pair_has in *. rewrite <- (K g1 g2). exact H.
Qed.

Lemma cut_sym : forall V, psym V ->
  (forall fl a b, FCc V fl a b -> forall sa sb, DS sa -> DS sb -> In a (F sa) -> In b (F sb) -> FCc V fl b a) /\
  (forall fl s1 s2, SUBc V fl s1 s2 -> DS s1 -> DS s2 -> SUBc V fl s2 s1).
Proof.
  intros V K. apply cut_mutind.
  - intros fl a b Hb Hs IH sa sb Hsa Hsb Ha Hb'. constructor.
    + rewrite excl_sym', (base_sym sb sa b a _ Hsb Hsa Hb' Ha). exact Hb.
    + intro Hh. rewrite excl_sym'. rewrite andb_comm in Hh.
      apply (IH Hh (DS_sub sa a Hsa Ha) (DS_sub sb b Hsb Hb')).
  - intros fl s1 s2 H1 IH1 H2 H3 H4 D1 D2. constructor.
    + intros a b Ha Hb Hk. apply (IH1 b a Hb Ha (eq_sym Hk) s1 s2 D1 D2 Hb Ha).
    + exact H3.
    + exact H2.
    + intros g1 g2 Hg1 Hg2. apply covP_sym; [exact K|]. apply H4; assumption.
Qed.

Section Unmemo.
Variable V : mst.
Hypothesis Vsym : psym V.
Hypothesis Vclosed : Closed V.

Lemma unmemo_accepts : forall f,
  (forall fl a b sa sb st, DS sa -> DS sb -> In a (F sa) -> In b (F sb) -> FCc V fl a b ->
     fst (Overlap.fc S D false f fl a b st) = []) /\
  (forall fl s1 s2 l1 l2 st, DS s1 -> DS s2 -> incl l1 (F s1) -> incl l2 (F s2) ->
     (forall a b, In a l1 -> In b l2 -> fe_key a = fe_key b -> FCc V fl a b) ->
     fst (between S D false f fl l1 l2 st) = []) /\
  (forall fl s1 s2 st, DS s1 -> DS s2 -> SUBc V fl s1 s2 ->
     fst (Overlap.subsets S D false f fl s1 s2 st) = []) /\
  (forall fl s g st, DS s -> covF V fl s g -> fst (ffrag S D false f fl s g st) = []) /\
  (forall fl g1 g2 st, covP V fl g1 g2 -> fst (frfr S D false f fl g1 g2 st) = []).
Proof.
  induction f as [|f IH]; [split; [|split; [|split; [|split]]]; intros; reflexivity|].
  destruct IH as (Ifc & Ibt & Isub & Iff & Ifr).
  split; [|split; [|split; [|split]]].
  - (* fc *) intros fl a b sa sb st Hsa Hsb Ha Hb H. inversion H as [fl' a' b' Hbase Hs]; subst. simpl.
    rewrite Hbase. simpl. destruct (has_sub a && has_sub b) eqn:E; [|reflexivity].
    pose proof (Isub (fl || excl S a b) (sub_pt a, fe_sub a) (sub_pt b, fe_sub b) (inc_fc st)
                     (DS_sub sa a Hsa Ha) (DS_sub sb b Hsb Hb) (Hs eq_refl)) as R.
    destruct (Overlap.subsets S D false f (fl || excl S a b) (sub_pt a, fe_sub a) (sub_pt b, fe_sub b) (inc_fc st)) as [cs st'].
    simpl in R. subst cs. reflexivity.
  - (* between *) intros fl s1 s2 l1 l2 st H1 H2 I1 I2 H. simpl.
    apply seq_nil. intros k st1 _. apply seq_nil. intros a st2 Ha. apply seq_nil. intros b st3 Hb.
    apply with_key_in in Ha. apply with_key_in in Hb. destruct Ha as [Ha Ka]. destruct Hb as [Hb Kb].
    apply (Ifc fl a b s1 s2 st3 H1 H2 (I1 a Ha) (I2 b Hb)). apply H; [exact Ha | exact Hb | congruence].
  - (* subsets *) intros fl s1 s2 st D1 D2 H. inversion H as [fl' s1' s2' H1 H2 H3 H4]; subst. simpl.
    pose proof (Ibt fl s1 s2 (F s1) (F s2) st D1 D2 (incl_refl _) (incl_refl _) H1) as E1.
    destruct (between S D false f fl (dfields S (fst s1) (snd s1)) (dfields S (fst s2) (snd s2)) st) as [c1 st1].
    simpl in E1. subst c1.
    pose proof (seq_nil (fun g => ffrag S D false f fl s1 g) (dspreads (snd s2)) st1
                 (fun g st' Hg => Iff fl s1 g st' D1 (H2 g Hg))) as E2.
    destruct (seq (fun g => ffrag S D false f fl s1 g) (dspreads (snd s2)) st1) as [c2 st2]. simpl in E2. subst c2.
    pose proof (seq_nil (fun g => ffrag S D false f fl s2 g) (dspreads (snd s1)) st2
                 (fun g st' Hg => Iff fl s2 g st' D2 (H3 g Hg))) as E3.
    destruct (seq (fun g => ffrag S D false f fl s2 g) (dspreads (snd s1)) st2) as [c3 st3]. simpl in E3. subst c3.
    pose proof (seq_nil (fun a => seq (fun b => frfr S D false f fl a b) (dspreads (snd s2))) (dspreads (snd s1)) st3
                 (fun a st' Ha => seq_nil (fun b => frfr S D false f fl a b) (dspreads (snd s2)) st'
                    (fun b st'' Hb => Ifr fl a b st'' (H4 a b Ha Hb)))) as E4.
    destruct (seq (fun a => seq (fun b => frfr S D false f fl a b) (dspreads (snd s2))) (dspreads (snd s1)) st3) as [c4 st4].
    simpl in E4. subst c4. reflexivity.
  - (* ffrag *) intros fl s g st Hs C. simpl.
    destruct (frag D g) as [fr|] eqn:Ef; [|reflexivity].
    destruct (same_set s (resolve S (fr_cond fr), fr_sel fr)) eqn:Es; [reflexivity|].
    destruct (ff_has_entry V _ _ _ _ C) as [fl0 [Hin L]].
    destruct (proj1 Vclosed _ Hin) as [s0 [D0 [K1 [K2 HL]]]].
    assert (s0 = s) by (apply key_inj; assumption). subst s0.
    destruct (HL fr Ef) as [Hsame|[HF HC]].
    { unfold body_of in Hsame. rewrite Es in Hsame. discriminate. }
    match goal with |- context [between S D false f fl ?x ?y ?z] =>
      pose proof (Ibt fl s (body_of fr) x y z Hs (DS_frag g fr Ef) (incl_refl _) (incl_refl _)
                      (fun a b Ha Hb Hk => proj1 (cut_flag V) fl0 a b (HF a b Ha Hb Hk) fl L)) as E1;
      destruct (between S D false f fl x y z) as [c1 st1] end.
    simpl in E1. subst c1.
    match goal with |- context [seq ?stp ?l st1] =>
      pose proof (seq_nil stp l st1 (fun h st' Hh => Iff fl s h st' Hs (covF_flag V fl0 fl s h L (HC h Hh)))) as E2;
      destruct (seq stp l st1) as [c2 st2] end.
    simpl in E2. subst c2. reflexivity.
  - (* frfr *) intros fl g1 g2 st C. simpl.
    destruct (frag D g1) as [f1|] eqn:Ef1; [|reflexivity].
    destruct (frag D g2) as [f2|] eqn:Ef2; [|reflexivity].
    destruct (String.eqb g1 g2) eqn:Eg; [reflexivity|].
    destruct C as [C|[C|[C|C]]]; try congruence.
    { subst g2. rewrite String.eqb_refl in Eg. discriminate. }
    destruct (pair_has_entry V _ _ _ C) as [fl0 [Hin L]].
    assert (Facts : (forall x y, In x (F (body_of f1)) -> In y (F (body_of f2)) -> fe_key x = fe_key y -> FCc V fl x y) /\
                    (forall h, In h (dspreads (fr_sel f2)) -> covP V fl g1 h) /\
                    (forall h, In h (dspreads (fr_sel f1)) -> covP V fl h g2)).
    { destruct (proj2 Vclosed _ Hin) as [HL|HL].
      - destruct (HL f1 f2 Ef1 Ef2) as (A1 & A2 & A3). split; [|split].
        + intros x y Hx Hy Hk. apply (proj1 (cut_flag V) fl0 x y (A1 x y Hx Hy Hk) fl L).
        + intros h Hh. eapply covP_flag; eauto.
        + intros h Hh. eapply covP_flag; eauto.
      - destruct (HL f2 f1 Ef2 Ef1) as (A1 & A2 & A3). split; [|split].
        + intros x y Hx Hy Hk.
          apply (proj1 (cut_sym V Vsym) fl y x (proj1 (cut_flag V) fl0 y x (A1 y x Hy Hx (eq_sym Hk)) fl L)
                       (body_of f2) (body_of f1) (DS_frag g2 f2 Ef2) (DS_frag g1 f1 Ef1) Hy Hx).
        + intros h Hh. apply covP_sym; [exact Vsym|]. eapply covP_flag; [exact L|]. apply A3. exact Hh.
        + intros h Hh. apply covP_sym; [exact Vsym|]. eapply covP_flag; [exact L|]. apply A2. exact Hh. }
    destruct Facts as (A1 & A2 & A3).
    match goal with |- context [between S D false f fl ?x ?y ?z] =>
      pose proof (Ibt fl (body_of f1) (body_of f2) x y z (DS_frag g1 f1 Ef1) (DS_frag g2 f2 Ef2)
                      (incl_refl _) (incl_refl _) A1) as R1;
      destruct (between S D false f fl x y z) as [c1 st1] end.
    simpl in R1. subst c1.
    match goal with |- context [seq ?stp ?l st1] =>
      pose proof (seq_nil stp l st1 (fun h st' Hh => Ifr fl g1 h st' (A2 h Hh))) as R2;
      destruct (seq stp l st1) as [c2 st2] end.
    simpl in R2. subst c2.
    match goal with |- context [seq ?stp ?l st2] =>
      pose proof (seq_nil stp l st2 (fun h st' Hh => Ifr fl h g2 st' (A3 h Hh))) as R3;
      destruct (seq stp l st2) as [c3 st3] end.
    simpl in R3. subst c3. reflexivity.
Qed.

Lemma unmemo_pairs_within : forall fuel s l st, DS s -> incl l (F s) -> PWc V l ->
  fst (pairs_within S D false fuel l st) = [].
Proof.
  intros fuel s l. induction l as [|a r IH]; intros st Hs Hi H; simpl; [reflexivity|]. destruct H as [H1 H2].
  pose proof (seq_nil (fun b => Overlap.fc S D false fuel false a b) r st
               (fun b st' Hb => proj1 (unmemo_accepts fuel) false a b s s st' Hs Hs
                                  (Hi a (or_introl eq_refl)) (Hi b (or_intror Hb)) (H1 b Hb))) as E1.
  destruct (seq (fun b => Overlap.fc S D false fuel false a b) r st) as [c1 st1]. simpl in E1. subst c1.
  specialize (IH st1 Hs (fun x Hx => Hi x (or_intror Hx)) H2).
  destruct (pairs_within S D false fuel r st1) as [c2 st2]. simpl in IH. subst c2. reflexivity.
Qed.

Lemma unmemo_frags_within : forall fuel s gs st, DS s -> FWc V s gs ->
  fst (frags_within S D false fuel s gs st) = [].
Proof.
  intros fuel s gs. induction gs as [|g r IH]; intros st Hs H; simpl; [reflexivity|]. destruct H as (H1 & H2 & H3).
  destruct (unmemo_accepts fuel) as (_ & _ & _ & Iff & Ifr).
  pose proof (Iff false s g st Hs H1) as E1.
  destruct (ffrag S D false fuel false s g st) as [c1 st1]. simpl in E1. subst c1.
  pose proof (seq_nil (fun h => frfr S D false fuel false g h) r st1 (fun h st' Hh => Ifr false g h st' (H2 h Hh))) as E2.
  destruct (seq (fun h => frfr S D false fuel false g h) r st1) as [c2 st2]. simpl in E2. subst c2.
  specialize (IH st2 Hs H3). destruct (frags_within S D false fuel s r st2) as [c3 st3]. simpl in IH. subst c3.
  reflexivity.
Qed.

Lemma unmemo_within_set : forall fuel s st, DS s -> WSc V s ->
  fst (within_set S D false fuel s st) = [].
Proof.
  intros fuel s st Hs [H1 H2]. unfold within_set.
  pose proof (seq_nil (fun k => pairs_within S D false fuel (with_key k (dfields S (fst s) (snd s))))
               (keys_of (dfields S (fst s) (snd s))) st
               (fun k st' Hk => unmemo_pairs_within fuel s _ st' Hs
                                  (fun x Hx => proj1 (with_key_in _ _ _ Hx)) (H1 k Hk))) as E1.
  destruct (seq (fun k => pairs_within S D false fuel (with_key k (dfields S (fst s) (snd s))))
                (keys_of (dfields S (fst s) (snd s))) st) as [c1 st1]. simpl in E1. subst c1.
  pose proof (unmemo_frags_within fuel s (dspreads (snd s)) st1 Hs H2) as E2.
  destruct (frags_within S D false fuel s (dspreads (snd s)) st1) as [c2 st2]. simpl in E2. subst c2.
  reflexivity.
Qed.
End Unmemo.

(* the memo tables never hide a conflict *)
Theorem memo_never_hides : forall fuel fuel',
  run_complete S D true fuel = true ->
  run_overlap S D true fuel = [] ->
  run_overlap S D false fuel' = [].
Proof.
  intros fuel fuel' Hc Hr.
  destruct (memo_run_closed fuel) as (P & C).
  assert (Ho : m_oof (final_state S D true fuel) = false).
  { unfold run_complete in Hc. unfold final_state. apply negb_true_iff in Hc. exact Hc. }
  destruct (C Ho Hr) as (Hcl & HW).
  unfold run_overlap. apply seq_nil. intros s st Hs.
  apply (unmemo_within_set (final_state S D true fuel) P Hcl fuel' s st (DS_top s Hs) (HW s Hs)).
Qed.

End Hard.

(* with the symmetry of the two-field test derived from unique argument names *)
From GQL Require Import Proofs.ValidateArgs Validate.OverlapSpec.

Lemma base_ok_sym_unique : forall S ex a b,
  NoDup (map fst (fe_args a)) -> NoDup (map fst (fe_args b)) -> base_ok S ex a b = base_ok S ex b a.
Proof.
  intros S ex a b Na Nb. rewrite (base_ok_is_base2 S ex a b Na Nb), (base_ok_is_base2 S ex b a Nb Na).
  unfold base2. apply andb_comm.
Qed.

Definition ids_distinct (S : schema) (D : document) : Prop :=
  forall s s', DS S D s -> DS S D s' -> fst s = fst s' -> first_id (snd s) = first_id (snd s') -> s = s'.
Definition args_unique (S : schema) (D : document) : Prop :=
  forall s x, DS S D s -> In x (dfields S (fst s) (snd s)) -> NoDup (map fst (fe_args x)).

Theorem memo_transparent : forall S D fuel fuel',
  ids_distinct S D -> args_unique S D ->
  run_complete S D true fuel = true ->
  run_overlap S D true fuel = [] ->
  run_overlap S D false fuel' = [].
Proof.
  intros S D fuel fuel' Hid Hargs. apply (memo_never_hides S D Hid).
  intros s s' x y ex Hs Hs' Hx Hy. apply base_ok_sym_unique; [apply (Hargs s x Hs Hx) | apply (Hargs s' y Hs' Hy)].
Qed.
