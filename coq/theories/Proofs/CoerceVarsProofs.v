(* C05: literals that mention variables at any depth (inside list and input-object literals):
   valueFromAST (Exec/Coerce.v value_from_ast) computes the specified coercion SLv, and so do
   getArgumentValues and the fields of input-object literals.  SL (constant literals) is the
   special case without variables. *)
From Coq Require Import List ZArith String Bool.
From GQL Require Import Exec.Syntax Exec.Coerce Exec.CoerceSpec Proofs.CoerceProofs Proofs.ArgProofs.
Import ListNotations.
Open Scope string_scope.
Open Scope list_scope.

Lemma SLv_var_inv : forall S vars t l r, SLv S vars t l r -> forall x, l = Some (VVar x) -> r = jlookup x vars.
Proof.
  intros S vars t l r H. induction H; intros y Hy; try discriminate.
  - inversion Hy; subst. reflexivity.
  - apply (IHSLv y Hy).
  - inversion Hy; subst. exfalso. apply (H0 y). reflexivity.
  - inversion Hy; subst. destruct (scalar_lit_parse _ _ _ H0) as [_ [_ Hn]]. exfalso. apply (Hn y). reflexivity.
Qed.

(* constant literals are the special case *)
Lemma SL_SLv_all : forall S vars,
  (forall t l r, SL S t l r -> SLv S vars t l r) /\
  (forall t ls rs, SLL S t ls rs -> SLvL S vars t ls rs) /\
  (forall fs lfs kvs, SLF S fs lfs kvs -> SLvF S vars fs lfs kvs).
Proof.
  intros S vars. apply SL_mutind; intros; try (econstructor; eassumption).
Qed.

Lemma literal_vars_correct_all : forall S vars,
  (forall t l r, SLv S vars t l r -> forall fuel r', value_from_ast fuel S t l (Some vars) = Some r' -> r' = r) /\
  (forall t ls rs, SLvL S vars t ls rs -> forall fuel rs',
      omap (fun x => value_from_ast fuel S t (Some x) (Some vars)) ls = Some rs' -> rs' = rs) /\
  (forall fs lfs kvs, SLvF S vars fs lfs kvs -> forall fuel kvs',
      omap (lfield_step fuel S lfs (Some vars)) fs = Some kvs' -> kvs' = kvs).
Proof.
  intros S vars. apply SLv_mutind.
  - intros t x fuel r' H. eapply value_from_ast_var. exact H.
  - intros t _ fuel r' H. destruct fuel; [discriminate|]. cbn in H. congruence.
  - intros t l r Hsl IH fuel r' H. destruct fuel; [discriminate|].
    cbn [value_from_ast] in H.
    destruct l; try (eapply IH; eassumption).
    rewrite (SLv_var_inv _ _ _ _ _ Hsl _ eq_refl). congruence.
  - intros t ls rs _ IH fuel r' H. destruct fuel; [discriminate|].
    cbn [value_from_ast] in H.
    destruct (omap _ ls) eqn:E; [|discriminate]. inversion H; subst. f_equal. eapply IH; eassumption.
  - intros t l r Hnl Hnv _ IH fuel r' H. destruct fuel; [discriminate|].
    cbn [value_from_ast] in H.
    destruct l; try (exfalso; eapply Hnv; reflexivity); try (exfalso; eapply Hnl; reflexivity);
      (destruct (value_from_ast fuel S t _ (Some vars)) eqn:E; [|discriminate]; inversion H; subst;
       f_equal; f_equal; eapply IH; eassumption).
  - intros n k l r Hl Hc fuel r' H. destruct fuel; [discriminate|].
    destruct (scalar_lit_parse _ _ _ Hc) as [Hp [_ Hnv]].
    cbn [value_from_ast] in H. rewrite Hl in H.
    destruct l; try (exfalso; eapply Hnv; reflexivity); congruence.
  - intros n vals nm iv Hl Ha _ fuel r' H. destruct fuel; [discriminate|].
    cbn [value_from_ast] in H. rewrite Hl in H. cbn [parse_literal_enum] in H. rewrite Ha in H. congruence.
  - intros n fs lfs kvs Hl _ _ IH fuel r' H. destruct fuel; [discriminate|].
    cbn [value_from_ast] in H. rewrite Hl in H.
    change (omap _ fs) with (omap (lfield_step fuel S lfs (Some vars)) fs) in H.
    destruct (omap (lfield_step fuel S lfs (Some vars)) fs) eqn:E; [|discriminate].
    inversion H; subst. unfold keep_nonnull. f_equal. f_equal. eapply IH; eassumption.
  - intros t fuel rs' H. cbn in H. congruence.
  - intros t x y xs ys _ IHx _ IHxs fuel rs' H. cbn [omap] in H.
    destruct (value_from_ast fuel S t (Some x) (Some vars)) eqn:E1; [|discriminate].
    destruct (omap _ xs) eqn:E2; [|discriminate].
    inversion H; subst. f_equal; [eapply IHx|eapply IHxs]; eassumption.
  - intros m fuel kvs' H. cbn in H. congruence.
  - intros f fs m r rs _ IHf _ IHfs fuel kvs' H. cbn [omap] in H.
    unfold lfield_step at 1 in H.
    destruct (value_from_ast fuel S (a_type f) (alookup (a_name f) m) (Some vars)) eqn:E1; [|discriminate].
    destruct (omap (lfield_step fuel S m (Some vars)) fs) eqn:E2; [|discriminate].
    inversion H; subst. f_equal.
    + f_equal. f_equal. eapply IHf; eassumption.
    + eapply IHfs; eassumption.
Qed.

Theorem literal_vars_correct : forall S vars t l r, SLv S vars t l r ->
  forall fuel r', value_from_ast fuel S t l (Some vars) = Some r' -> r' = r.
Proof. intros S vars. apply (proj1 (literal_vars_correct_all S vars)). Qed.

(* the whole argument map of a field, written with literals and variables at any depth *)
Theorem arguments_SLvF : forall S vars defs args kvs, SLvF S vars defs args kvs ->
  forall fuel m, get_argument_values fuel S defs args (Some vars) = Some m -> m = keep_nonnull kvs.
Proof.
  intros S vars defs args kvs H fuel m Hm. rewrite get_argument_values_unfold in Hm.
  change (arg_step fuel S args (Some vars)) with (lfield_step fuel S args (Some vars)) in Hm.
  destruct (omap (lfield_step fuel S args (Some vars)) defs) as [kvs'|] eqn:E; [|discriminate].
  inversion Hm; subst. f_equal.
  eapply (proj2 (proj2 (literal_vars_correct_all S vars))); eassumption.
Qed.

(* not vacuous: a list literal holding a variable and an input-object literal holding a variable *)
Definition Sv : schema := {|
  s_types := [("Int", TScalar SInt); ("String", TScalar SString);
              ("In", TInputObject [{| a_name := "n"; a_type := TNonNull (TNamed "Int"); a_default := None |};
                                   {| a_name := "s"; a_type := TNamed "String"; a_default := Some (JStr "dflt") |}])];
  s_query := "Q"; s_mutation := None |}.
Definition defs_v : list argdef :=
  [{| a_name := "l"; a_type := TList (TNamed "Int"); a_default := None |};
   {| a_name := "o"; a_type := TNamed "In"; a_default := None |}].
Definition args_v : list (name * value) :=
  [("l", VList [VInt 1; VVar "x"]); ("o", VObj [("n", VVar "x"); ("s", VVar "missing")])].

Example SLvF_nonvacuous :
  SLvF Sv [("x", JInt 7)] defs_v args_v
       [("l", JList [JInt 1; JInt 7]); ("o", JObj [("n", JInt 7); ("s", JStr "dflt")])] /\
  get_argument_values 10 Sv defs_v args_v (Some [("x", JInt 7)])
  = Some [("l", JList [JInt 1; JInt 7]); ("o", JObj [("n", JInt 7); ("s", JStr "dflt")])].
Proof.
  split; [|vm_compute; reflexivity].
  apply (SLvF_cons Sv [("x", JInt 7)] {| a_name := "l"; a_type := TList (TNamed "Int"); a_default := None |} _ args_v (JList [JInt 1; JInt 7])).
  - cbn. apply SLv_list. constructor.
    + eapply SLv_scalar; [reflexivity|]. apply sl_int. reflexivity.
    + constructor; [|constructor]. apply (SLv_var Sv [("x", JInt 7)] (TNamed "Int") "x").
  - apply (SLvF_cons Sv [("x", JInt 7)] {| a_name := "o"; a_type := TNamed "In"; a_default := None |} _ args_v
                     (JObj (keep_nonnull [("n", JInt 7); ("s", JStr "dflt")]))); [|constructor].
    cbn. change (JObj [("n", JInt 7); ("s", JStr "dflt")]) with (JObj (keep_nonnull [("n", JInt 7); ("s", JStr "dflt")])).
    eapply SLv_obj; [reflexivity|reflexivity|].
    apply (SLvF_cons Sv [("x", JInt 7)] {| a_name := "n"; a_type := TNonNull (TNamed "Int"); a_default := None |} _ _ (JInt 7)).
    + cbn. apply (SLv_var Sv [("x", JInt 7)] (TNonNull (TNamed "Int")) "x").
    + apply (SLvF_cons Sv [("x", JInt 7)] {| a_name := "s"; a_type := TNamed "String"; a_default := Some (JStr "dflt") |} _ _ JNull); [|constructor].
      cbn. apply (SLv_var Sv [("x", JInt 7)] (TNamed "String") "missing").
Qed.
