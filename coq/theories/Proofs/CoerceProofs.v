(* C05: the coercion model (values.go) against the specification of input coercion. *)
From Coq Require Import List ZArith String Bool.
From GQL Require Import Exec.Syntax Exec.Coerce Exec.CoerceSpec.
Import ListNotations.
Open Scope string_scope.

Lemma nullish_false : forall v, v <> JNull -> nullish v = false.
Proof. intros v H. destruct v; try reflexivity. congruence. Qed.

Lemma scalar_conf_parse : forall k v r, scalar_conf k v r -> parse_value_scalar k v = r /\ r <> JNull /\ v <> JNull.
Proof.
  intros k v r H. destruct H; cbn [parse_value_scalar]; repeat split; try congruence.
  - rewrite H. reflexivity.
  - rewrite H. reflexivity.
Qed.

(* ---- the model computes the specified coercion on conformant values ---- *)
Definition field_step (fuel : nat) (S : schema) (m : list (name * jv)) (f : argdef) : option (name * jv) :=
  match coerce_value fuel S (a_type f) (jlookup (a_name f) m) with
  | Some fv => Some (a_name f, with_default (a_default f) fv)
  | None => None
  end.

Lemma coerce_correct_all : forall S,
  (forall t v r, SC S t v r -> forall fuel r', coerce_value fuel S t v = Some r' -> r' = r) /\
  (forall t l rs, SCL S t l rs -> forall fuel rs', omap (coerce_value fuel S t) l = Some rs' -> rs' = rs) /\
  (forall fs m kvs, SCF S fs m kvs -> forall fuel kvs', omap (field_step fuel S m) fs = Some kvs' -> kvs' = kvs).
Proof.
  intro S. apply SC_mutind.
  - (* null *) intros t Hn fuel r' H. destruct fuel; [discriminate|]. cbn in H. congruence.
  - (* nonnull *) intros t v r Hv _ IH fuel r' H. destruct fuel; [discriminate|].
    cbn [coerce_value] in H. rewrite (nullish_false v Hv) in H. eapply IH; eassumption.
  - (* list *) intros t l rs _ IH fuel r' H. destruct fuel; [discriminate|].
    cbn [coerce_value nullish] in H.
    destruct (omap (coerce_value fuel S t) l) eqn:E; [|discriminate].
    inversion H; subst. f_equal. eapply IH; eassumption.
  - (* list of one *) intros t v r Hv Hl _ IH fuel r' H. destruct fuel; [discriminate|].
    cbn [coerce_value] in H. rewrite (nullish_false v Hv) in H.
    destruct v; try (exfalso; apply (Hl l); reflexivity);
      (destruct (coerce_value fuel S t _) eqn:E; [|discriminate]; inversion H; subst;
       f_equal; f_equal; eapply IH; eassumption).
  - (* scalar *) intros n k v r Hl Hc fuel r' H. destruct fuel; [discriminate|].
    destruct (scalar_conf_parse _ _ _ Hc) as [Hp [_ Hv]].
    cbn [coerce_value] in H. rewrite (nullish_false v Hv), Hl in H. congruence.
  - (* enum *) intros n vals nm iv Hl Ha _ fuel r' H. destruct fuel; [discriminate|].
    cbn [coerce_value nullish] in H. rewrite Hl in H. cbn [parse_enum] in H. rewrite Ha in H. congruence.
  - (* object *) intros n fs m kvs Hl _ _ IH fuel r' H. destruct fuel; [discriminate|].
    cbn [coerce_value nullish] in H. rewrite Hl in H.
    change (omap _ fs) with (omap (field_step fuel S m) fs) in H.
    destruct (omap (field_step fuel S m) fs) eqn:E; [|discriminate].
    inversion H; subst. unfold keep_nonnull. f_equal. f_equal. eapply IH; eassumption.
  - intros t fuel rs' H. cbn in H. congruence.
  - intros t x y xs ys _ IHx _ IHxs fuel rs' H. cbn [omap] in H.
    destruct (coerce_value fuel S t x) eqn:E1; [|discriminate].
    destruct (omap (coerce_value fuel S t) xs) eqn:E2; [|discriminate].
    inversion H; subst. f_equal; [eapply IHx|eapply IHxs]; eassumption.
  - intros m fuel kvs' H. cbn in H. congruence.
  - intros f fs m r rs _ IHf _ IHfs fuel kvs' H. cbn [omap] in H.
    unfold field_step at 1 in H.
    destruct (coerce_value fuel S (a_type f) (jlookup (a_name f) m)) eqn:E1; [|discriminate].
    destruct (omap (field_step fuel S m) fs) eqn:E2; [|discriminate].
    inversion H; subst. f_equal.
    + f_equal. f_equal. eapply IHf; eassumption.
    + eapply IHfs; eassumption.
Qed.

Lemma coerce_correct : forall S t v r, SC S t v r ->
  forall fuel r', coerce_value fuel S t v = Some r' -> r' = r.
Proof. intros S. apply (proj1 (coerce_correct_all S)). Qed.

(* ---- conformant values are accepted ---- *)
Lemma conformant_valid_all : forall S,
  (forall t v r, SC S t v r -> forall fuel b, valid_input fuel S t v = Some b -> b = true) /\
  (forall t l rs, SCL S t l rs -> forall fuel b, oall (valid_input fuel S t) l = Some b -> b = true) /\
  (forall fs m kvs, SCF S fs m kvs -> forall fuel b,
      oall (fun f => valid_input fuel S (a_type f) (jlookup (a_name f) m)) fs = Some b -> b = true).
Proof.
  intro S. apply SC_mutind.
  - intros t Hn fuel b H. destruct fuel; [discriminate|]. cbn in H. rewrite Hn in H. cbn in H. congruence.
  - intros t v r Hv _ IH fuel b H. destruct fuel; [discriminate|].
    cbn [valid_input] in H. rewrite (nullish_false v Hv) in H. eapply IH; eassumption.
  - intros t l rs _ IH fuel b H. destruct fuel; [discriminate|].
    cbn [valid_input nullish] in H. eapply IH; eassumption.
  - intros t v r Hv Hl _ IH fuel b H. destruct fuel; [discriminate|].
    cbn [valid_input] in H. rewrite (nullish_false v Hv) in H.
    destruct v; try (exfalso; apply (Hl l); reflexivity); eapply IH; eassumption.
  - intros n k v r Hl Hc fuel b H. destruct fuel; [discriminate|].
    destruct (scalar_conf_parse _ _ _ Hc) as [Hp [Hr Hv]].
    cbn [valid_input] in H. rewrite (nullish_false v Hv), Hl, Hp, (nullish_false r Hr) in H. cbn in H. congruence.
  - intros n vals nm iv Hl Ha Hiv fuel b H. destruct fuel; [discriminate|].
    cbn [valid_input nullish] in H. rewrite Hl in H. cbn [parse_enum] in H. rewrite Ha, (nullish_false iv Hiv) in H.
    cbn in H. congruence.
  - intros n fs m kvs Hl Hk _ IH fuel b H. destruct fuel; [discriminate|].
    cbn [valid_input nullish] in H. rewrite Hl in H.
    destruct (oall _ fs) eqn:E; [|discriminate].
    inversion H; subst. rewrite Hk. cbn. eapply IH; eassumption.
  - intros t fuel b H. cbn in H. congruence.
  - intros t x y xs ys _ IHx _ IHxs fuel b H. cbn [oall] in H.
    destruct (valid_input fuel S t x) eqn:E1; [|discriminate].
    destruct (oall (valid_input fuel S t) xs) eqn:E2; [|discriminate].
    inversion H; subst. rewrite (IHx _ _ E1), (IHxs _ _ E2). reflexivity.
  - intros m fuel b H. cbn in H. congruence.
  - intros f fs m r rs _ IHf _ IHfs fuel b H. cbn [oall] in H.
    destruct (valid_input fuel S (a_type f) (jlookup (a_name f) m)) eqn:E1; [|discriminate].
    destruct (oall _ fs) eqn:E2; [|discriminate].
    inversion H; subst. rewrite (IHf _ _ E1), (IHfs _ _ E2). reflexivity.
Qed.

Lemma conformant_valid : forall S t v r, SC S t v r ->
  forall fuel b, valid_input fuel S t v = Some b -> b = true.
Proof. intros S. apply (proj1 (conformant_valid_all S)). Qed.

(* ---- the listed non-conformant values are rejected ---- *)
Lemma oall_in : forall {A} (f : A -> option bool) l b x,
  oall f l = Some b -> In x l -> exists bx, f x = Some bx /\ (b = true -> bx = true).
Proof.
  intros A f l. induction l as [|y l IH]; intros b x H Hin; [contradiction|].
  cbn [oall] in H. destruct (f y) eqn:E1; [|discriminate]. destruct (oall f l) eqn:E2; [|discriminate].
  inversion H; subst. destruct Hin as [->|Hin].
  - exists b0. split; [assumption|]. intro Hb. apply andb_true_iff in Hb. tauto.
  - destruct (IH _ _ eq_refl Hin) as [bx [Hx Himp]]. exists bx. split; [assumption|].
    intro Hb. apply andb_true_iff in Hb. tauto.
Qed.

Lemma forallb_amem_false : forall (fs : list argdef) (m : list (name * jv)) k,
  amem k m = true -> existsb (fun f => String.eqb k (a_name f)) fs = false ->
  forallb (fun kv => existsb (fun f => String.eqb (fst kv) (a_name f)) fs) m = false.
Proof.
  intros fs m k. induction m as [|[k' v] m IH]; intros Hm He; [discriminate|].
  cbn [amem] in Hm. cbn [forallb fst].
  destruct (String.eqb k k') eqn:Ek.
  - apply String.eqb_eq in Ek. subst. rewrite He. reflexivity.
  - cbn in Hm. rewrite (IH Hm He). apply andb_false_r.
Qed.

Lemma nonconformant_rejected : forall S t v, NC S t v ->
  forall fuel b, valid_input fuel S t v = Some b -> b = false.
Proof.
  intros S t v H. induction H; intros fuel b Hv; (destruct fuel; [discriminate|]).
  - cbn in Hv. congruence.
  - cbn [valid_input] in Hv. destruct (nullish v); [cbn in Hv; congruence|]. eapply IHNC; eassumption.
  - cbn [valid_input nullish] in Hv.
    destruct (oall_in _ _ _ _ Hv H) as [bx [Hx Himp]].
    destruct b; [|reflexivity]. specialize (Himp eq_refl). subst. apply (IHNC _ _ Hx).
  - cbn [valid_input] in Hv. rewrite (nullish_false v H) in Hv.
    destruct v; try (exfalso; apply (H0 l); reflexivity); eapply IHNC; eassumption.
  - cbn [valid_input] in Hv. destruct v; try contradiction; cbn [nullish] in Hv; rewrite H in Hv; cbn in Hv; congruence.
  - cbn [valid_input] in Hv. destruct v; try contradiction; cbn [nullish] in Hv; rewrite H in Hv; cbn in Hv; congruence.
  - cbn [valid_input nullish] in Hv. rewrite H in Hv. cbn [parse_value_scalar] in Hv. rewrite H0 in Hv. cbn in Hv. congruence.
  - cbn [valid_input nullish] in Hv. rewrite H in Hv. cbn [parse_enum] in Hv. rewrite H0 in Hv. cbn in Hv. congruence.
  - cbn [valid_input] in Hv. rewrite (nullish_false v H0), H in Hv.
    destruct v; try (exfalso; apply (H1 s); reflexivity); try congruence; cbn in Hv; congruence.
  - cbn [valid_input] in Hv. rewrite (nullish_false v H0), H in Hv.
    destruct v; try (exfalso; apply (H1 l); reflexivity); congruence.
  - cbn [valid_input nullish] in Hv. rewrite H in Hv.
    destruct (oall _ fs); [|discriminate]. inversion Hv; subst.
    rewrite (forallb_amem_false fs m k H0 H1). reflexivity.
  - cbn [valid_input nullish] in Hv. rewrite H in Hv.
    destruct (oall _ fs) eqn:E; [|discriminate]. inversion Hv; subst.
    destruct (oall_in _ _ _ _ E H0) as [bx [Hx Himp]].
    destruct b0; [|apply andb_false_r]. specialize (Himp eq_refl). subst.
    rewrite (IHNC _ _ Hx). apply andb_false_r.
Qed.

(* ---- literals: the model computes the specified literal coercion ---- *)
Lemma scalar_lit_parse : forall k l r, scalar_lit k l r ->
  parse_literal_scalar k l = r /\ r <> JNull /\ (forall x, l <> VVar x).
Proof.
  intros k l r H. destruct H; cbn [parse_literal_scalar]; repeat split; try congruence.
  - rewrite H. reflexivity.
  - rewrite H. reflexivity.
Qed.

Lemma SL_not_var : forall S t l r, SL S t l r -> forall x, l <> Some (VVar x).
Proof.
  intros S t l r H. induction H; intros x Hx; try discriminate.
  - apply (IHSL x Hx).
  - inversion Hx; subst. apply (H0 x). reflexivity.
  - inversion Hx; subst. destruct (scalar_lit_parse _ _ _ H0) as [_ [_ Hn]]. apply (Hn x). reflexivity.
Qed.

Definition lfield_step (fuel : nat) (S : schema) (lfs : list (name * value)) (vars : option (list (name * jv)))
           (f : argdef) : option (name * jv) :=
  match value_from_ast fuel S (a_type f) (alookup (a_name f) lfs) vars with
  | Some fv => Some (a_name f, with_default (a_default f) fv)
  | None => None
  end.

Lemma literal_correct_all : forall S,
  (forall t l r, SL S t l r -> forall fuel vars r', value_from_ast fuel S t l vars = Some r' -> r' = r) /\
  (forall t ls rs, SLL S t ls rs -> forall fuel vars rs',
      omap (fun x => value_from_ast fuel S t (Some x) vars) ls = Some rs' -> rs' = rs) /\
  (forall fs lfs kvs, SLF S fs lfs kvs -> forall fuel vars kvs',
      omap (lfield_step fuel S lfs vars) fs = Some kvs' -> kvs' = kvs).
Proof.
  intro S. apply SL_mutind.
  - intros t _ fuel vars r' H. destruct fuel; [discriminate|]. cbn in H. congruence.
  - intros t l r Hsl IH fuel vars r' H. destruct fuel; [discriminate|].
    assert (Hnv := SL_not_var _ _ _ _ Hsl).
    cbn [value_from_ast] in H.
    destruct l; try (exfalso; eapply Hnv; reflexivity); eapply IH; eassumption.
  - intros t ls rs _ IH fuel vars r' H. destruct fuel; [discriminate|].
    cbn [value_from_ast] in H.
    destruct (omap _ ls) eqn:E; [|discriminate]. inversion H; subst. f_equal. eapply IH; eassumption.
  - intros t l r Hnl Hnv _ IH fuel vars r' H. destruct fuel; [discriminate|].
    cbn [value_from_ast] in H.
    destruct l; try (exfalso; eapply Hnv; reflexivity); try (exfalso; eapply Hnl; reflexivity);
      (destruct (value_from_ast fuel S t _ vars) eqn:E; [|discriminate]; inversion H; subst;
       f_equal; f_equal; eapply IH; eassumption).
  - intros n k l r Hl Hc fuel vars r' H. destruct fuel; [discriminate|].
    destruct (scalar_lit_parse _ _ _ Hc) as [Hp [_ Hnv]].
    cbn [value_from_ast] in H. rewrite Hl in H.
    destruct l; try (exfalso; eapply Hnv; reflexivity); congruence.
  - intros n vals nm iv Hl Ha _ fuel vars r' H. destruct fuel; [discriminate|].
    cbn [value_from_ast] in H. rewrite Hl in H. cbn [parse_literal_enum] in H. rewrite Ha in H. congruence.
  - intros n fs lfs kvs Hl _ _ IH fuel vars r' H. destruct fuel; [discriminate|].
    cbn [value_from_ast] in H. rewrite Hl in H.
    change (omap _ fs) with (omap (lfield_step fuel S lfs vars) fs) in H.
    destruct (omap (lfield_step fuel S lfs vars) fs) eqn:E; [|discriminate].
    inversion H; subst. unfold keep_nonnull. f_equal. f_equal. eapply IH; eassumption.
  - intros t fuel vars rs' H. cbn in H. congruence.
  - intros t x y xs ys _ IHx _ IHxs fuel vars rs' H. cbn [omap] in H.
    destruct (value_from_ast fuel S t (Some x) vars) eqn:E1; [|discriminate].
    destruct (omap _ xs) eqn:E2; [|discriminate].
    inversion H; subst. f_equal; [eapply IHx|eapply IHxs]; eassumption.
  - intros m fuel vars kvs' H. cbn in H. congruence.
  - intros f fs m r rs _ IHf _ IHfs fuel vars kvs' H. cbn [omap] in H.
    unfold lfield_step at 1 in H.
    destruct (value_from_ast fuel S (a_type f) (alookup (a_name f) m) vars) eqn:E1; [|discriminate].
    destruct (omap (lfield_step fuel S m vars) fs) eqn:E2; [|discriminate].
    inversion H; subst. f_equal.
    + f_equal. f_equal. eapply IHf; eassumption.
    + eapply IHfs; eassumption.
Qed.

Lemma literal_correct : forall S t l r, SL S t l r ->
  forall fuel vars r', value_from_ast fuel S t l vars = Some r' -> r' = r.
Proof. intros S. apply (proj1 (literal_correct_all S)). Qed.

(* ---- a conformant literal and the JSON value it denotes coerce to the same result ---- *)
Definition ojson (l : option value) : jv := match l with Some x => json_of x | None => JNull end.

Lemma jlookup_json : forall k (lfs : list (name * value)),
  jlookup k (map (fun kv => (fst kv, json_of (snd kv))) lfs) = ojson (alookup k lfs).
Proof.
  intros k lfs. unfold jlookup. induction lfs as [|[k' v] r IH]; [reflexivity|].
  cbn [map alookup fst snd]. destruct (String.eqb k k'); [reflexivity|exact IH].
Qed.

Lemma forallb_json : forall (fs : list argdef) (lfs : list (name * value)),
  forallb (fun kv => existsb (fun f => String.eqb (fst kv) (a_name f)) fs)
          (map (fun kv => (fst kv, json_of (snd kv))) lfs)
  = forallb (fun kv => existsb (fun f => String.eqb (fst kv) (a_name f)) fs) lfs.
Proof. intros fs lfs. induction lfs as [|[k v] r IH]; [reflexivity|]. cbn [map forallb fst]. rewrite IH. reflexivity. Qed.

Lemma scalar_lit_conf : forall k l r, scalar_lit k l r -> scalar_conf k (json_of l) r.
Proof. intros k l r H. destruct H; cbn [json_of]; constructor; assumption. Qed.

Lemma json_nonnull_of_scalar_lit : forall k l r, scalar_lit k l r -> json_of l <> JNull.
Proof. intros k l r H. destruct H; cbn; congruence. Qed.

Lemma json_null_is_var : forall x, json_of x = JNull -> exists v, x = VVar v.
Proof. intros x H. destruct x; cbn in H; try discriminate. eexists; reflexivity. Qed.

Lemma SL_json_nonnull : forall S t x r, SL S t (Some x) r -> json_of x <> JNull.
Proof.
  intros S t x r H E. destruct (json_null_is_var x E) as [v ->].
  eapply SL_not_var; [exact H|reflexivity].
Qed.

Lemma literal_json_agree_all : forall S,
  (forall t l r, SL S t l r -> SC S t (ojson l) r) /\
  (forall t ls rs, SLL S t ls rs -> SCL S t (map json_of ls) rs) /\
  (forall fs lfs kvs, SLF S fs lfs kvs -> SCF S fs (map (fun kv => (fst kv, json_of (snd kv))) lfs) kvs).
Proof.
  intro S. apply SL_mutind.
  - intros t Hn. apply SC_null. exact Hn.
  - intros t l r Hsl IH. cbn [ojson] in *.
    apply SC_nonnull; [eapply SL_json_nonnull; exact Hsl|exact IH].
  - intros t ls rs _ IH. cbn [ojson json_of]. apply SC_list. exact IH.
  - intros t l r Hnl Hnv Hsl IH. cbn [ojson] in *.
    apply SC_list1; [eapply SL_json_nonnull; exact Hsl| |exact IH].
    intros l0 E. destruct l; cbn in E; try discriminate. apply (Hnl l). reflexivity.
  - intros n k l r Hl Hc. cbn [ojson]. eapply SC_scalar; [exact Hl|apply scalar_lit_conf; exact Hc].
  - intros n vals nm iv Hl Ha Hiv. cbn [ojson json_of]. eapply SC_enum; eassumption.
  - intros n fs lfs kvs Hl Hk _ IH. cbn [ojson json_of]. eapply SC_obj; [exact Hl| |exact IH].
    rewrite forallb_json. exact Hk.
  - intros t. constructor.
  - intros t x y xs ys _ IHx _ IHxs. cbn [map]. constructor; assumption.
  - intros m. constructor.
  - intros f fs m r rs _ IHf _ IHfs. constructor; [|exact IHfs].
    rewrite jlookup_json. exact IHf.
Qed.

(* supplying a type-conformant value as an inline literal or through a variable gives the same result *)
Lemma literal_variable_agree : forall S t l r, SL S t (Some l) r ->
  forall fuel1 fuel2 vars r1 r2,
    value_from_ast fuel1 S t (Some l) vars = Some r1 ->
    coerce_value fuel2 S t (json_of l) = Some r2 ->
    r1 = r2 /\ r1 = r.
Proof.
  intros S t l r H fuel1 fuel2 vars r1 r2 H1 H2.
  assert (E1 := literal_correct _ _ _ _ H _ _ _ H1).
  assert (Hsc := proj1 (literal_json_agree_all S) _ _ _ H). cbn [ojson] in Hsc.
  assert (E2 := coerce_correct _ _ _ _ Hsc _ _ H2).
  subst. split; reflexivity.
Qed.

(* a request whose variables do not coerce is rejected before any resolver runs *)
Lemma bad_variable_rejects : forall S d input, NC S (v_type d) input ->
  forall fuel r, get_variable_value fuel S d input = Some r -> r = inr tt.
Proof.
  intros S d input H fuel r Hr. unfold get_variable_value in Hr.
  destruct (negb (is_input_type S (v_type d))); [congruence|].
  destruct (valid_input fuel S (v_type d) input) as [b|] eqn:E; [|discriminate].
  rewrite (nonconformant_rejected _ _ _ H _ _ E) in Hr. congruence.
Qed.
