(* C11_consistent: the view of whatever NewSchema returns is Consistent;
   AppendType keeps it so. *)
From Coq Require Import List NArith Bool Lia.
From GQL Require Import Base.Bytes Types.Schema Types.Consistent Proofs.TypesReduce Proofs.TypesNames
  Proofs.TypesClosed Proofs.TypesView Proofs.TypesImpl Proofs.TypesMain Proofs.TypesPossible.
Import ListNotations.
Open Scope N_scope.

(* the subtype relation only looks at the possible-type relation on the named types the two references end in *)
Lemma subtype_ext (p1 p2 : N -> N -> bool) x b :
  subtype p1 x b ->
  (forall o a, get_named x = Some o -> get_named b = Some a -> p1 a o = true -> p2 a o = true) ->
  subtype p2 x b.
Proof.
  intros H. induction H as [t|a b H IH|a b Hb H IH|a b H IH|o a H]; intros Hp.
  - apply st_refl.
  - apply st_nonnull. apply IH. exact Hp.
  - apply st_nonnull_l; auto.
  - apply st_list. apply IH. exact Hp.
  - apply st_possible. apply Hp; auto.
Qed.

Lemma find_field_in : forall fs n f, find_field n fs = Some f -> In f fs.
Proof.
  induction fs as [|g r IH]; simpl; intros n f H; try discriminate.
  destruct (bytes_eqb (vf_name g) n).
  - inversion H; subst. left; reflexivity.
  - right. exact (IH n f H).
Qed.

Section View.
  Variable S : schema.
  Let defs := s_defs S.
  Let tm := s_tm S.
  Let ts := view_types defs tm.
  Hypothesis Hg : tm_good defs tm.
  Hypothesis Hc : closed defs tm.

  Lemma fields_of_spec x f : In f (fields_of defs x) ->
    normal (vf_type f) /\ vf_type f <> TNil /\ In (vf_type f) (out_refs defs x).
  Proof.
    unfold fields_of, out_refs. destruct (find_def defs x) as [d|] eqn:Ed; [|intros []].
    destruct d as [|n ifs fs ito|n fs rt| | |]; try (intros []).
    - destruct (define_field_map defs fs) as [l|] eqn:Ef; [|intros []]. intros Hin.
      destruct (define_field_map_spec defs fs l Ef f Hin) as (Hn & Hnil & _).
      repeat split; auto. apply in_or_app. right. unfold fields_of. rewrite Ed, Ef.
      apply (in_field_refs f); auto.
    - destruct (define_field_map defs fs) as [l|] eqn:Ef; [|intros []]. intros Hin.
      destruct (define_field_map_spec defs fs l Ef f Hin) as (Hn & Hnil & _).
      repeat split; auto. unfold fields_of. rewrite Ed, Ef. apply (in_field_refs f); auto.
  Qed.

  Lemma field_leaf_in_map x f i : In x (ids tm) -> In f (fields_of defs x) -> get_named (vf_type f) = Some i -> In i (ids tm).
  Proof.
    intros Hx Hf Hgn. destruct (fields_of_spec x f Hf) as ([t0 Hn] & Hnil & Hin).
    pose proof (Hc x Hx _ Hin) as Ht. unfold tgt_in in Ht. rewrite Hn in *.
    destruct (target_of defs (norm t0)) as [| |j] eqn:Etg; try contradiction.
    - apply target_skip in Etg. contradiction.
    - destruct (norm_target defs t0 j Etg) as [_ Hgj]. rewrite Hgj in Hgn. inversion Hgn; subst. exact Ht.
  Qed.

  Lemma interface_in_map o i : In o (ids tm) -> In i (interfaces_of defs o) -> In i (ids tm) /\ has_kind defs KInterface i = true.
  Proof.
    intros Ho Hi. unfold interfaces_of in Hi. destruct (find_def defs o) as [d|] eqn:Ed; [|destruct Hi].
    destruct d as [|n ifs fs ito| | | |]; try destruct Hi.
    destruct (define_interfaces defs ifs) as [l|] eqn:Ei; [|destruct Hi]. split.
    - apply (tgt_named_in defs). apply (Hc o Ho). unfold out_refs, interfaces_of. rewrite Ed, Ei.
      apply in_or_app. left. apply in_map. exact Hi.
    - exact (define_interfaces_kinds defs ifs l Ei i Hi).
  Qed.

  Hypothesis Himpl : check_implementations S = true.

  Lemma view_implements : forall vt ifs fs i jf, In vt ts -> vt_def vt = VObject ifs fs -> In i ifs ->
    In jf (fields_of_view ts i) -> implements_field (possible ts) fs jf.
  Proof.
    intros vt ifs fs i jf Hin Hdef Hi Hjf. unfold ts, view_types in Hin. apply in_map_iff in Hin.
    destruct Hin as [[n o] [Heq Hin]]. subst vt. simpl in Hdef.
    assert (Ho : In o (ids tm)) by exact (entry_in_ids tm n o Hin).
    assert (Hobj : has_kind defs KObject o = true /\ ifs = interfaces_of defs o /\ fs = fields_of defs o).
    { unfold vdef_of in Hdef. unfold has_kind. destruct (find_def defs o) as [d|] eqn:Ed; try discriminate.
      destruct d; try discriminate. inversion Hdef; subst. auto. }
    destruct Hobj as (Hk & Eifs & Efs). subst ifs fs.
    destruct (interface_in_map o i Ho Hi) as [Hiin Hik].
    assert (Efv : fields_of_view ts i = fields_of defs i).
    { unfold fields_of_view. destruct (vfind_view defs tm i Hiin) as [m Hv]. fold ts in Hv. rewrite Hv. simpl.
      unfold vdef_of. unfold has_kind in Hik. destruct (find_def defs i) as [d|] eqn:Ed; try discriminate.
      destruct d; try discriminate. reflexivity. }
    rewrite Efv in Hjf.
    assert (Hoo : In o (objects_of S)) by (apply in_objects; auto).
    destruct (check_implementations_sound S Himpl o i jf Hoo Hi Hjf) as (f & Hf & Hs & Ha & Hb).
    exists f. split; auto. split; auto.
    apply (subtype_ext (abstract_possible S)); auto.
    intros o0 a0 Ho0 Ha0 Hp.
    apply (abstract_possible_spec S Hg Hc a0 o0); auto.
    - exact (field_leaf_in_map i jf a0 Hiin Hjf Ha0).
    - exact (field_leaf_in_map o f o0 Ho (find_field_in _ _ _ Hf) Ho0).
  Qed.

  Lemma view_possible : forall vt, In vt ts ->
    (vkind_interface (vt_def vt) = true \/ exists ms, vt_def vt = VUnion ms) ->
    exists row row2, assocN (vt_id vt) (v_poss (view_of S)) = Some row /\ assocN (vt_id vt) (v_isposs (view_of S)) = Some row2
      /\ NoDup row
      /\ (forall o, In o row <-> possible ts (vt_id vt) o = true)
      /\ (forall o, In o row2 <-> possible ts (vt_id vt) o = true).
  Proof.
    intros vt Hin Hk. unfold ts, view_types in Hin. apply in_map_iff in Hin.
    destruct Hin as [[n a] [Heq Hin]]. subst vt. simpl in *.
    apply (view_possible_rows S Hg Hc a (entry_in_ids tm n a Hin)).
    unfold is_abstract, has_kind. fold defs. unfold vdef_of in Hk.
    destruct (find_def defs a) as [d|]; [|destruct Hk as [Hk|[ms Hk]]; discriminate].
    destruct d; simpl in *; auto; destruct Hk as [Hk|[ms Hk]]; discriminate.
  Qed.
End View.

(* everything except the roots and the introspection types, from the reducer's invariants *)
Record core_consistent (V : view) : Prop := {
  cc_unique : NoDup (map vt_name (v_types V));
  cc_names : forall vt, In vt (v_types V) -> valid_name (vt_name vt) = true;
  cc_closed : forall vt, In vt (v_types V) -> type_ok (v_types V) vt = true;
  cc_implements : forall vt ifs fs i jf, In vt (v_types V) -> vt_def vt = VObject ifs fs -> In i ifs ->
      In jf (fields_of_view (v_types V) i) -> implements_field (possible (v_types V)) fs jf;
  cc_possible : forall vt, In vt (v_types V) -> (vkind_interface (vt_def vt) = true \/ exists ms, vt_def vt = VUnion ms) ->
      exists row row2, assocN (vt_id vt) (v_poss V) = Some row /\ assocN (vt_id vt) (v_isposs V) = Some row2
        /\ NoDup row
        /\ (forall o, In o row <-> possible (v_types V) (vt_id vt) o = true)
        /\ (forall o, In o row2 <-> possible (v_types V) (vt_id vt) o = true) }.

Lemma core_of_invariants S : tm_good (s_defs S) (s_tm S) -> closed (s_defs S) (s_tm S) ->
  check_implementations S = true -> core_consistent (view_of S).
Proof.
  intros Hg Hc Hi. constructor.
  - exact (good_unique_names S Hg).
  - exact (good_valid_names S Hg).
  - rewrite view_of_types. exact (good_closed_type_ok _ _ Hg Hc).
  - rewrite view_of_types. exact (view_implements S Hg Hc Hi).
  - rewrite view_of_types. exact (view_possible S Hg Hc).
Qed.

Theorem consistent_full fuel c sch : new_schema_fuel fuel (with_meta c) = OK sch -> Consistent (view_of sch).
Proof.
  intros H. pose proof (new_schema_fuel_good _ _ _ H) as Hg.
  destruct (new_schema_fuel_closed _ _ _ H) as [Hc _].
  destruct (new_schema_fuel_tm _ _ _ H) as (_ & _ & _ & _ & _ & Hi & _).
  destruct (core_of_invariants sch Hg Hc Hi) as [C1 C2 C3 C4 C5].
  destruct (consistent_partial _ _ _ H) as (_ & _ & _ & Hq & Hm & Hs).
  constructor; auto. exact (meta_present _ _ _ H).
Qed.

(* without the library's own definitions everything but cs_meta holds *)
Theorem consistent_core fuel c sch : new_schema_fuel fuel c = OK sch -> core_consistent (view_of sch).
Proof.
  intros H. pose proof (new_schema_fuel_good _ _ _ H) as Hg.
  destruct (new_schema_fuel_closed _ _ _ H) as [Hc _].
  destruct (new_schema_fuel_tm _ _ _ H) as (_ & _ & _ & _ & _ & Hi & _).
  exact (core_of_invariants sch Hg Hc Hi).
Qed.

(* AppendType: a Consistent view stays Consistent *)
Definition invariants (S : schema) : Prop :=
  tm_good (s_defs S) (s_tm S) /\ closed (s_defs S) (s_tm S) /\ check_implementations S = true.

Lemma new_schema_invariants fuel c sch : new_schema_fuel fuel c = OK sch -> invariants sch.
Proof.
  intros H. split; [exact (new_schema_fuel_good _ _ _ H)|]. split; [exact (proj1 (new_schema_fuel_closed _ _ _ H))|].
  destruct (new_schema_fuel_tm _ _ _ H) as (_ & _ & _ & _ & _ & Hi & _). exact Hi.
Qed.

Lemma append_type_invariants fuel S t S' : invariants S -> append_type_fuel fuel S t = OK S' -> invariants S'.
Proof.
  intros (Hg & Hc & _) H. split; [exact (append_type_fuel_good _ _ _ _ Hg H)|].
  split; [exact (proj1 (append_type_fuel_closed _ _ _ _ Hc H))|].
  destruct (append_type_fuel_tm _ _ _ _ H) as (_ & _ & _ & _ & _ & Hi). exact Hi.
Qed.

Lemma append_types_invariants fuel : forall ts S S', invariants S -> append_types_fuel fuel S ts = OK S' -> invariants S'.
Proof.
  induction ts as [|t r IH]; intros S S' Hi H; simpl in H.
  - inversion H; subst. exact Hi.
  - destruct (append_type_fuel fuel S t) as [S1| |] eqn:E; try discriminate.
    exact (IH S1 S' (append_type_invariants _ _ _ _ Hi E) H).
Qed.

Lemma append_types_roots fuel : forall ts S S', append_types_fuel fuel S ts = OK S' ->
  s_defs S' = s_defs S /\ s_query S' = s_query S /\ s_mutation S' = s_mutation S /\ s_subscription S' = s_subscription S
  /\ incl (ids (s_tm S)) (ids (s_tm S')).
Proof.
  induction ts as [|t r IH]; intros S S' H; simpl in H.
  - inversion H; subst. repeat split; auto. apply incl_refl.
  - destruct (append_type_fuel fuel S t) as [S1| |] eqn:E; try discriminate.
    destruct (append_type_fuel_tm _ _ _ _ E) as (E1 & E2 & E3 & E4 & Ha & _).
    destruct (IH S1 S' H) as (F1 & F2 & F3 & F4 & Fi). repeat split; try congruence.
    apply incl_tran with (ids (s_tm S1)); auto.
    rewrite <- E1 in Ha. exact (proj1 (proj1 (add_type_post _ _ _ _ _ Ha))).
Qed.
